// Package dir is the director: gated transports, managed application threads,
// exact quiescence detection by goroutine census, and the projection of the real
// state onto the observables of the specifications.
package dir

import (
	"errors"
	"fmt"
)

// WFrame is a frame as seen on the wire by the harness's own parser (independent of drpcwire).
type WFrame struct {
	Sid, Mid uint64
	Kind     int
	Done     bool
	Control  bool
	Data     []byte
}

var kindNames = map[int]string{1: "Invoke", 2: "Message", 3: "Error", 4: "Cancel", 5: "Close", 6: "CloseSend", 7: "InvokeMetadata"}

// KindName returns the name of a wire kind.
func KindName(k int) string {
	if n, ok := kindNames[k]; ok {
		return n
	}
	return fmt.Sprintf("Kind%d", k)
}

var errShort = errors.New("short")

func readUvarint(b []byte) (uint64, int, error) {
	var v uint64
	for i := 0; i < 10; i++ {
		if i >= len(b) {
			return 0, 0, errShort
		}
		v |= uint64(b[i]&127) << (7 * uint(i))
		if b[i] < 128 {
			return v, i + 1, nil
		}
	}
	return 0, 0, errors.New("varint too long")
}

// ParseOne parses one frame from the front of b; n is the number of bytes it occupies.
func ParseOne(b []byte) (f WFrame, n int, err error) {
	if len(b) < 1 {
		return f, 0, errShort
	}
	c := b[0]
	f.Done = c&1 != 0
	f.Control = c&128 != 0
	f.Kind = int(c&126) >> 1
	p := 1
	var l uint64
	for i, dst := range []*uint64{&f.Sid, &f.Mid, &l} {
		_ = i
		v, k, e := readUvarint(b[p:])
		if e != nil {
			return f, 0, e
		}
		*dst = v
		p += k
	}
	if l > uint64(len(b)-p) {
		return f, 0, errShort
	}
	f.Data = append([]byte(nil), b[p:p+int(l)]...)
	return f, p + int(l), nil
}

// ParseAll parses a buffer that must consist of whole frames.
func ParseAll(b []byte) ([]WFrame, error) {
	var out []WFrame
	for len(b) > 0 {
		f, n, err := ParseOne(b)
		if err != nil {
			return out, fmt.Errorf("not a sequence of whole frames: %w (%d bytes left)", err, len(b))
		}
		out = append(out, f)
		b = b[n:]
	}
	return out, nil
}

// EncodeFrame produces the wire bytes of a frame (harness's own encoder).
func EncodeFrame(f WFrame) []byte {
	c := byte(f.Kind << 1)
	if f.Done {
		c |= 1
	}
	if f.Control {
		c |= 128
	}
	out := []byte{c}
	for _, v := range []uint64{f.Sid, f.Mid, uint64(len(f.Data))} {
		for v >= 128 {
			out = append(out, byte(v&127|128))
			v >>= 7
		}
		out = append(out, byte(v))
	}
	return append(out, f.Data...)
}
