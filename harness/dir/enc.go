package dir

import (
	"errors"
	"sync/atomic"

	"storj.io/drpc"
)

// Msg is the harness's message type: opaque bytes.
type Msg struct {
	Data []byte
	Park bool // Marshal parks at the encoding's M gate (a slow user marshaller, under the stream's write lock)
	Fail bool // Marshal fails (a message the encoding cannot marshal)
}

// GateEnc is a drpc.Encoding whose Unmarshal (and optionally Marshal) can park at a gate, so that
// the window in which the receiver holds the reader's buffer is a state the director controls.
type GateEnc struct {
	U    Gate
	M    Gate
	ArmU atomic.Bool
	ArmM atomic.Bool
}

// Marshal returns the message bytes.
func (e *GateEnc) Marshal(m drpc.Message) ([]byte, error) {
	if e.ArmM.Load() || m.(*Msg).Park {
		e.M.Wait()
	}
	if m.(*Msg).Fail {
		return nil, ErrMarshal
	}
	return m.(*Msg).Data, nil
}

// ErrMarshal is returned by GateEnc.Marshal for messages marked Fail.
var ErrMarshal = errors.New("verif: cannot marshal message")

// Unmarshal parks if armed and only then copies the bytes: a slow decoder reads the buffer the
// library lent it for as long as it runs, so a buffer that is reused too early shows up as a
// wrong payload.
func (e *GateEnc) Unmarshal(b []byte, m drpc.Message) error {
	if e.ArmU.Load() {
		e.U.Wait()
	}
	m.(*Msg).Data = append([]byte(nil), b...)
	if len(b) >= 3 && string(b[:3]) == "bad" {
		return ErrDecode // a payload this encoding cannot decode
	}
	return nil
}

// ErrDecode is returned by GateEnc.Unmarshal for payloads that start with "bad".
var ErrDecode = errors.New("verif: cannot decode message")
