package dir

import (
	"errors"
	"fmt"
	"io"
	"runtime"
	"strings"
	"sync"
	"sync/atomic"
	"time"

	"storj.io/drpc/drpcdebug"

	"verif/vf"
)

// ErrTransport is what a gated transport returns when the director fails an operation.
var ErrTransport = errors.New("verif: injected transport error")

// ---------------------------------------------------------------------------------------------
// managed threads

// Thread is an application goroutine started by the director.
type Thread struct {
	Name   string
	goid   int64
	mu     sync.Mutex
	busy   bool
	res    string
	hasRes bool
	done   chan struct{}
	nstart int
	tag    string
}

// GoID returns the goroutine id of the thread's current call (0 when idle).
func (t *Thread) GoID() int64 { t.mu.Lock(); defer t.mu.Unlock(); return t.goid }

// Tag returns the label the harness attached to the thread's current call.
func (t *Thread) Tag() string { t.mu.Lock(); defer t.mu.Unlock(); return t.tag }

// SetTag attaches a label to the thread.
func (t *Thread) SetTag(s string) { t.mu.Lock(); t.tag = s; t.mu.Unlock() }

// Director owns the threads and the gates of one run.
type Director struct {
	mu      sync.Mutex
	threads map[string]*Thread
	order   []string
	extra   map[int64]string // other goroutines to watch (role by goid), e.g. library goroutines
	Timeout time.Duration
	LibWho  func(point string) string // names the library goroutine that reached an armed point ("" = do not park)
}

// NewDirector makes an empty director.
func NewDirector() *Director {
	return &Director{threads: map[string]*Thread{}, extra: map[int64]string{}, Timeout: 10 * time.Second}
}

var (
	pointMu     sync.RWMutex
	pointDir    *Director
	pointArmed  map[string]bool
	pointGates  map[string]*Gate // by thread name
	pointOnce   sync.Once
	pointActive atomic.Bool
)

// ArmPoints makes managed threads of d park at the named drpcdebug.Point calls until ReleasePoint.
// Only one director at a time can have armed points.
func (d *Director) ArmPoints(names ...string) {
	pointMu.Lock()
	pointDir = d
	pointArmed = map[string]bool{}
	for _, n := range names {
		pointArmed[n] = true
	}
	pointGates = map[string]*Gate{}
	pointMu.Unlock()
	pointActive.Store(len(names) > 0)
	pointOnce.Do(func() {
		drpcdebug.SetPoint(func(name string) {
			if !pointActive.Load() {
				return
			}
			pointMu.RLock()
			dd, armed := pointDir, pointArmed[name]
			pointMu.RUnlock()
			if dd == nil || !armed {
				return
			}
			id := vf.GoID()
			var who string
			dd.mu.Lock()
			for n, t := range dd.threads {
				t.mu.Lock()
				if t.busy && t.goid == id {
					who = n
				}
				t.mu.Unlock()
			}
			dd.mu.Unlock()
			if who == "" && dd.LibWho != nil {
				who = dd.LibWho(name) // a library goroutine (e.g. manageStreams), named by its role
			}
			if who == "" {
				return
			}
			pointMu.Lock()
			g := pointGates[who]
			if g == nil {
				g = &Gate{}
				pointGates[who] = g
			}
			pointMu.Unlock()
			g.Wait()
		})
	})
}

// DisarmPoints releases everything parked at a point and stops parking.
func (d *Director) DisarmPoints() {
	pointActive.Store(false)
	pointMu.Lock()
	for _, g := range pointGates {
		g.ReleaseAll()
	}
	pointMu.Unlock()
}

// ReleasePoint lets the named thread continue from the point it is parked at.
func (d *Director) ReleasePoint(thread string) bool {
	pointMu.RLock()
	g := pointGates[thread]
	pointMu.RUnlock()
	return g != nil && g.Release()
}

// Thread returns (creating if needed) the named thread.
func (d *Director) Thread(name string) *Thread {
	d.mu.Lock()
	defer d.mu.Unlock()
	t := d.threads[name]
	if t == nil {
		t = &Thread{Name: name}
		d.threads[name] = t
		d.order = append(d.order, name)
	}
	return t
}

// Busy reports whether the thread is inside a call.
func (t *Thread) Busy() bool { t.mu.Lock(); defer t.mu.Unlock(); return t.busy }

// Result returns the class of the last completed call.
func (t *Thread) Result() (string, bool) { t.mu.Lock(); defer t.mu.Unlock(); return t.res, t.hasRes }

// Go starts fn on the thread; fn returns the result class. A panic is reported as "panic:<value>".
func (d *Director) Go(name string, fn func() string) {
	t := d.Thread(name)
	t.mu.Lock()
	if t.busy {
		t.mu.Unlock()
		panic("director: thread " + name + " is busy")
	}
	t.busy, t.hasRes, t.res = true, false, ""
	t.done = make(chan struct{})
	t.nstart++
	t.mu.Unlock()
	ready := make(chan struct{})
	go func() {
		t.mu.Lock()
		t.goid = vf.GoID()
		t.mu.Unlock()
		close(ready)
		var r string
		defer func() {
			if p := recover(); p != nil {
				r = fmt.Sprintf("panic:%v", p)
			}
			t.mu.Lock()
			t.busy, t.hasRes, t.res, t.goid = false, true, r, 0
			close(t.done)
			t.mu.Unlock()
		}()
		r = fn()
	}()
	<-ready
}

// Where classifies where a busy thread is parked, given its goroutine snapshot.
type Where struct {
	State string // "run" (not parked), "gate:<name>" (at a harness gate), "blk" (parked inside the code under test)
	Frame string // innermost frame of the code under test
}

// Gates lists substrings of frame names that identify harness gates, mapped to the gate name.
var Gates = [][2]string{
	{"dir.(*GateEnc).Unmarshal", "um"},
	{"dir.(*GateEnc).Marshal", "ma"},
	{"dir.(*GatedPipe).Write", "tw"},
	{"dir.(*GatedPipe).Read", "tr"},
	{"dir.(*Gate).Wait", "gate"},
}

func classify(g *vf.G) Where {
	if !g.Blocked() {
		return Where{State: "run"}
	}
	for _, gt := range Gates {
		if f := g.Innermost(gt[0]); f != "" {
			return Where{State: "gate:" + gt[1], Frame: f}
		}
	}
	fr := ""
	for _, f := range g.Frames {
		if strings.HasPrefix(f, "storj.io/drpc/") {
			fr = f
			break
		}
	}
	return Where{State: "blk", Frame: fr}
}

// Snapshot is the state of all watched goroutines at a quiescent moment.
type Snapshot struct {
	Threads map[string]Where // busy threads only
	Lib     []vf.G          // goroutines with a storj.io/drpc frame that are not managed threads
	All     []vf.G
}

// Quiesce waits until no watched goroutine is running or runnable: every busy thread and every
// goroutine with a drpc frame is parked (at a gate, or inside the code under test). The census
// is a stop-the-world snapshot, so a wake-up cannot be in flight. ok=false means the deadline
// passed with something still running.
func (d *Director) Quiesce() (snap Snapshot, ok bool) {
	deadline := time.Now().Add(d.Timeout)
	prevSig := ""
	for spins := 0; ; spins++ {
		if spins < 20 {
			runtime.Gosched()
		}
		gs := vf.Census()
		me := vf.GoID()
		d.mu.Lock()
		byGoid := map[int64]string{}
		for name, t := range d.threads {
			t.mu.Lock()
			if t.busy && t.goid != 0 {
				byGoid[t.goid] = name
			}
			t.mu.Unlock()
		}
		d.mu.Unlock()
		snap = Snapshot{Threads: map[string]Where{}, All: gs}
		quiet := true
		for i := range gs {
			g := &gs[i]
			if g.ID == me {
				continue
			}
			name, managed := byGoid[g.ID]
			lib := g.Has("storj.io/drpc/") || g.Has("verif/dir.") || g.Has("verif/sys.") || g.Has("verif/checks.")
			if !managed && !lib {
				continue
			}
			if !g.Blocked() {
				quiet = false
				break
			}
			if managed {
				snap.Threads[name] = classify(g)
			} else if g.Has("storj.io/drpc/") {
				snap.Lib = append(snap.Lib, *g)
			}
		}
		if quiet {
			// a thread may have finished between the census and now only if it was running, which quiet excludes;
			// a thread that is busy but whose goroutine is gone has finished: wait for its bookkeeping
			d.mu.Lock()
			pendingDone := false
			for name, t := range d.threads {
				t.mu.Lock()
				if t.busy {
					if _, seen := snap.Threads[name]; !seen {
						pendingDone = true
					}
				}
				t.mu.Unlock()
			}
			d.mu.Unlock()
			if !pendingDone {
				// demand the same quiet picture twice in a row (guards against transient wait states)
				sig := ""
				for i := range gs {
					g := &gs[i]
					if g.ID != me && (g.Has("storj.io/drpc/") || g.Has("verif/")) {
						top := ""
						if len(g.Frames) > 0 {
							top = g.Frames[0]
						}
						sig += fmt.Sprintf("%d:%s:%s;", g.ID, g.State, top)
					}
				}
				if sig == prevSig {
					return snap, true
				}
				prevSig = sig
				runtime.Gosched()
				continue
			}
		}
		prevSig = ""
		if time.Now().After(deadline) {
			return snap, false
		}
		if spins > 200 {
			time.Sleep(50 * time.Microsecond)
		}
	}
}

// ---------------------------------------------------------------------------------------------
// gates

// Gate parks callers until the director opens it.
type Gate struct {
	mu      sync.Mutex
	waiting []chan struct{}
	who     []int64
}

// Wait parks the caller until Release.
func (g *Gate) Wait() {
	ch := make(chan struct{})
	id := vf.GoID()
	g.mu.Lock()
	g.waiting = append(g.waiting, ch)
	g.who = append(g.who, id)
	g.mu.Unlock()
	<-ch
}

// ReleaseWho lets the caller parked from goroutine id go; false if it is not parked here.
func (g *Gate) ReleaseWho(id int64) bool {
	g.mu.Lock()
	defer g.mu.Unlock()
	for i, w := range g.who {
		if w == id {
			close(g.waiting[i])
			g.waiting = append(g.waiting[:i], g.waiting[i+1:]...)
			g.who = append(g.who[:i], g.who[i+1:]...)
			return true
		}
	}
	return false
}

// Parked reports whether the caller from goroutine id is parked here.
func (g *Gate) Parked(id int64) bool {
	g.mu.Lock()
	defer g.mu.Unlock()
	for _, w := range g.who {
		if w == id {
			return true
		}
	}
	return false
}

// Waiting reports how many callers are parked.
func (g *Gate) Waiting() int { g.mu.Lock(); defer g.mu.Unlock(); return len(g.waiting) }

// Release lets the oldest parked caller go; false if nobody is parked.
func (g *Gate) Release() bool {
	g.mu.Lock()
	defer g.mu.Unlock()
	if len(g.waiting) == 0 {
		return false
	}
	close(g.waiting[0])
	g.waiting = g.waiting[1:]
	g.who = g.who[1:]
	return true
}

// ReleaseAll opens the gate for everybody parked now.
func (g *Gate) ReleaseAll() {
	for g.Release() {
	}
}

// WriteRec is one Transport.Write as logged by a gated pipe.
type WriteRec struct {
	Seq    int
	Bytes  []byte
	Frames []WFrame
	PErr   error // parse error: the write is not a sequence of whole frames
	Done   bool
	Failed bool
}

// GatedPipe is one direction-pair endpoint of a byte-accurate in-memory transport whose every
// Write and Read completes only when the director says so.
//
// Write(p): logs p, parks, and on release either appends p to the peer's inbound queue (ok) or
// returns ErrTransport.  Read(p): parks until the director delivers n bytes of the inbound queue
// (or an error / EOF).  Close: counted; parked operations return io.ErrClosedPipe.
type GatedPipe struct {
	Name string
	peer *GatedPipe

	mu       sync.Mutex
	inbound  []byte
	writes   []*WriteRec
	wpend    *pendingOp
	rpend    *pendingOp
	winfl    int
	rinfl    int
	maxWinfl int
	maxRinfl int
	closed   int
	failed   bool // every later op fails
	eof      bool // peer closed: reads return EOF once inbound is drained
	AutoW    bool // writes complete at once
	AutoR    bool // reads complete as soon as data (or EOF/failure) is available
	rcond    *sync.Cond
	nreads   int
	nwrites  int
}

type pendingOp struct {
	ch chan opResult
}
type opResult struct {
	n   int
	err error
}

// NewGatedPair makes two connected endpoints.
func NewGatedPair(a, b string) (*GatedPipe, *GatedPipe) {
	x, y := &GatedPipe{Name: a}, &GatedPipe{Name: b}
	x.peer, y.peer = y, x
	x.rcond, y.rcond = sync.NewCond(&x.mu), sync.NewCond(&y.mu)
	return x, y
}

// NewGatedSink makes an endpoint without a peer (writes go nowhere; reads are scripted by Push).
func NewGatedSink(name string) *GatedPipe {
	x := &GatedPipe{Name: name}
	x.rcond = sync.NewCond(&x.mu)
	return x
}

func (p *GatedPipe) Write(b []byte) (int, error) {
	p.mu.Lock()
	p.nwrites++
	rec := &WriteRec{Seq: len(p.writes), Bytes: append([]byte(nil), b...)}
	rec.Frames, rec.PErr = ParseAll(rec.Bytes)
	p.writes = append(p.writes, rec)
	p.winfl++
	if p.winfl > p.maxWinfl {
		p.maxWinfl = p.winfl
	}
	if p.closed > 0 || p.failed {
		p.winfl--
		rec.Done, rec.Failed = true, true
		closed := p.closed > 0
		p.mu.Unlock()
		if closed {
			return 0, io.ErrClosedPipe
		}
		return 0, ErrTransport
	}
	if p.AutoW {
		p.winfl--
		rec.Done = true
		p.mu.Unlock()
		p.deliverToPeer(b)
		return len(b), nil
	}
	op := &pendingOp{ch: make(chan opResult, 1)}
	p.wpend = op
	p.mu.Unlock()
	r := <-op.ch
	p.mu.Lock()
	p.winfl--
	rec.Done, rec.Failed = true, r.err != nil
	p.mu.Unlock()
	if r.err == nil {
		p.deliverToPeer(b)
		return len(b), nil
	}
	return 0, r.err
}

func (p *GatedPipe) deliverToPeer(b []byte) {
	if p.peer == nil {
		return
	}
	q := p.peer
	q.mu.Lock()
	q.inbound = append(q.inbound, b...)
	q.rcond.Broadcast()
	q.mu.Unlock()
}

func (p *GatedPipe) Read(b []byte) (int, error) {
	p.mu.Lock()
	p.nreads++
	p.rinfl++
	if p.rinfl > p.maxRinfl {
		p.maxRinfl = p.rinfl
	}
	if p.AutoR {
		for len(p.inbound) == 0 && p.closed == 0 && !p.failed && !p.eof {
			p.rcond.Wait()
		}
		defer p.mu.Unlock()
		p.rinfl--
		if len(p.inbound) > 0 {
			n := copy(b, p.inbound)
			p.inbound = p.inbound[n:]
			return n, nil
		}
		switch {
		case p.closed > 0:
			return 0, io.ErrClosedPipe
		case p.failed:
			return 0, ErrTransport
		}
		return 0, io.EOF
	}
	if p.closed > 0 || p.failed {
		p.rinfl--
		closed := p.closed > 0
		p.mu.Unlock()
		if closed {
			return 0, io.ErrClosedPipe
		}
		return 0, ErrTransport
	}
	op := &pendingOp{ch: make(chan opResult, 1)}
	p.rpend = op
	p.mu.Unlock()
	r := <-op.ch
	p.mu.Lock()
	defer p.mu.Unlock()
	p.rinfl--
	n := 0
	if r.n > 0 {
		if r.n > len(p.inbound) {
			r.n = len(p.inbound)
		}
		n = copy(b, p.inbound[:r.n])
		p.inbound = p.inbound[n:]
	}
	return n, r.err
}

// Close is counted; parked operations fail.
func (p *GatedPipe) Close() error {
	p.mu.Lock()
	p.closed++
	w, r := p.wpend, p.rpend
	p.wpend, p.rpend = nil, nil
	p.rcond.Broadcast()
	p.mu.Unlock()
	if w != nil {
		w.ch <- opResult{err: io.ErrClosedPipe}
	}
	if r != nil {
		r.ch <- opResult{err: io.ErrClosedPipe}
	}
	if q := p.peer; q != nil {
		q.mu.Lock()
		q.eof = true
		q.rcond.Broadcast()
		q.mu.Unlock()
	}
	return nil
}

// --- director side

// WritePending reports whether a Write is parked.
func (p *GatedPipe) WritePending() bool { p.mu.Lock(); defer p.mu.Unlock(); return p.wpend != nil }

// ReadPending reports whether a Read is parked.
func (p *GatedPipe) ReadPending() bool { p.mu.Lock(); defer p.mu.Unlock(); return p.rpend != nil }

// Inbound returns the number of bytes queued for this endpoint's reader.
func (p *GatedPipe) Inbound() int { p.mu.Lock(); defer p.mu.Unlock(); return len(p.inbound) }

// ReleaseWrite completes the parked Write (ok or with ErrTransport). False if none is parked.
func (p *GatedPipe) ReleaseWrite(ok bool) bool {
	p.mu.Lock()
	op := p.wpend
	p.wpend = nil
	p.mu.Unlock()
	if op == nil {
		return false
	}
	if ok {
		op.ch <- opResult{}
	} else {
		op.ch <- opResult{err: ErrTransport}
	}
	return true
}

// ReleaseRead completes the parked Read with n bytes of the inbound queue and err.
func (p *GatedPipe) ReleaseRead(n int, err error) bool {
	p.mu.Lock()
	op := p.rpend
	if op == nil {
		p.mu.Unlock()
		return false
	}
	p.rpend = nil
	p.mu.Unlock()
	op.ch <- opResult{n: n, err: err}
	return true
}

// Fail makes every pending and later operation of this endpoint fail with ErrTransport.
func (p *GatedPipe) Fail() {
	p.mu.Lock()
	p.failed = true
	w, r := p.wpend, p.rpend
	p.wpend, p.rpend = nil, nil
	p.rcond.Broadcast()
	p.mu.Unlock()
	if w != nil {
		w.ch <- opResult{err: ErrTransport}
	}
	if r != nil {
		r.ch <- opResult{err: ErrTransport}
	}
}

// Failed reports whether Fail was called.
func (p *GatedPipe) Failed() bool { p.mu.Lock(); defer p.mu.Unlock(); return p.failed }

// Push appends bytes to this endpoint's inbound queue (raw peer).
func (p *GatedPipe) Push(b []byte) {
	p.mu.Lock()
	p.inbound = append(p.inbound, b...)
	p.rcond.Broadcast()
	p.mu.Unlock()
}

// PeerEOF marks the inbound direction as ended by the peer.
func (p *GatedPipe) PeerEOF() {
	p.mu.Lock()
	p.eof = true
	p.rcond.Broadcast()
	p.mu.Unlock()
}

// Writes returns a copy of the write log.
func (p *GatedPipe) Writes() []WriteRec {
	p.mu.Lock()
	defer p.mu.Unlock()
	out := make([]WriteRec, len(p.writes))
	for i, w := range p.writes {
		out[i] = *w
	}
	return out
}

// Stats returns counters: closes, max writes in flight, max reads in flight, #writes, #reads.
func (p *GatedPipe) Stats() (closed, maxW, maxR, nw, nr int) {
	p.mu.Lock()
	defer p.mu.Unlock()
	return p.closed, p.maxWinfl, p.maxRinfl, p.nwrites, p.nreads
}
