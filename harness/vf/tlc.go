// Package vf holds the parts shared by every check: the TLC driver, the evidence
// writer, the known-findings file and the verdict plumbing.
package vf

import (
	"bufio"
	"bytes"
	"context"
	"encoding/json"
	"fmt"
	"io"
	"os"
	"os/exec"
	"path/filepath"
	"regexp"
	"strconv"
	"strings"
	"time"
)

// Root is the /verif directory (overridable for tests).
var Root = func() string {
	if r := os.Getenv("VERIF_ROOT"); r != "" {
		return r
	}
	return "/verif"
}()

const tlaJar = "/opt/veriftools/tla/tla2tools.jar:/opt/veriftools/tla/CommunityModules-deps.jar"

// TLCOpts describes one TLC run.
type TLCOpts struct {
	Module    string            // root module name (file Module.tla in spec dir or in Extra)
	Cfg       string            // text of the cfg file
	Extra     map[string]string // extra files written into the scratch dir (e.g. MC modules, trace files)
	Workers   int               // 0 => 16
	Simulate  string            // e.g. "num=500" => -simulate num=500
	Depth     int               // -depth for simulation
	Seed      int64             // -seed when Simulate != ""
	DFS       bool              // depth-first queue (StateDeque)
	Coverage  bool              // -coverage 1
	HeapMB    int               // 0 => 4096
	Timeout   time.Duration     // 0 => 10 min
	NoDeadlck bool              // pass -deadlock (i.e. do not check deadlock)
	OnLine    func(rec []byte)  // called for every "@@"-prefixed PrintT record (already unescaped JSON)
	KeepLines bool              // keep records in Result.Records
	ExtraArgs []string
}

// TLCResult is what a run produced.
type TLCResult struct {
	Generated int64
	Distinct  int64
	Depth     int
	Records   [][]byte
	NRecords  int64
	Finished  bool   // TLC ran to completion ("Model checking completed" / simulation end) without reporting an error
	Violated  string // name of violated invariant/property, or "deadlock", "assumption", ...
	ErrorText string // TLC error text if any
	TimedOut  bool
	Wall      time.Duration
	Coverage  map[string]int64 // action name -> count (when Coverage)
	Tail      string           // last lines of output, for diagnostics
	TraceText string           // the printed counter-example (text form), if any
}

var (
	reStates   = regexp.MustCompile(`^(\d+) states generated, (\d+) distinct states found`)
	reDepth    = regexp.MustCompile(`^The depth of the complete state graph search is (\d+)`)
	reInv      = regexp.MustCompile(`^Error: Invariant (\S+) is violated`)
	reProp     = regexp.MustCompile(`^Error: (Action|Temporal) propert(y|ies) (.*) (is|was|were) violated`)
	reCov      = regexp.MustCompile(`^<(\w+) line \d+, col \d+ to line \d+, col \d+ of module (\w+)>: (\d+):(\d+)`)
	reProgress = regexp.MustCompile(`^Progress\(`)
)

// SpecDir is where the .tla sources live.
func SpecDir() string { return filepath.Join(Root, "spec") }

// TLC runs the model checker in a fresh scratch directory that is removed afterwards.
func TLC(o TLCOpts) (*TLCResult, error) {
	scratch, err := os.MkdirTemp("", "verif-tlc-")
	if err != nil {
		return nil, err
	}
	defer os.RemoveAll(scratch)

	ents, err := os.ReadDir(SpecDir())
	if err != nil {
		return nil, err
	}
	for _, e := range ents {
		if strings.HasSuffix(e.Name(), ".tla") {
			b, err := os.ReadFile(filepath.Join(SpecDir(), e.Name()))
			if err != nil {
				return nil, err
			}
			if err := os.WriteFile(filepath.Join(scratch, e.Name()), b, 0o644); err != nil {
				return nil, err
			}
		}
	}
	for name, text := range o.Extra {
		if err := os.WriteFile(filepath.Join(scratch, name), []byte(text), 0o644); err != nil {
			return nil, err
		}
	}
	if err := os.WriteFile(filepath.Join(scratch, o.Module+".cfg"), []byte(o.Cfg), 0o644); err != nil {
		return nil, err
	}

	if o.Workers == 0 {
		o.Workers = 16
	}
	if o.HeapMB == 0 {
		o.HeapMB = 4096
	}
	if o.Timeout == 0 {
		o.Timeout = 10 * time.Minute
	}
	// TLC unpacks its standard modules into java.io.tmpdir on every run and leaves them there: keep that inside the scratch dir
	args := []string{"-XX:+UseParallelGC", fmt.Sprintf("-Xmx%dm", o.HeapMB), "-Xss64m", "-Djava.io.tmpdir=" + scratch}
	if o.DFS {
		args = append(args, "-Dtlc2.tool.queue.IStateQueue=StateDeque")
	}
	args = append(args, "-cp", tlaJar, "tlc2.TLC", "-metadir", filepath.Join(scratch, "md"),
		"-workers", strconv.Itoa(o.Workers), "-noGenerateSpecTE")
	if o.Simulate != "" {
		args = append(args, "-simulate", o.Simulate)
		if o.Depth > 0 {
			args = append(args, "-depth", strconv.Itoa(o.Depth))
		}
		args = append(args, "-seed", strconv.FormatInt(o.Seed, 10))
	}
	if o.Coverage {
		args = append(args, "-coverage", "1")
	}
	if o.NoDeadlck {
		args = append(args, "-deadlock")
	}
	args = append(args, o.ExtraArgs...)
	args = append(args, "-config", o.Module+".cfg", o.Module+".tla")

	ctx, cancel := context.WithTimeout(context.Background(), o.Timeout)
	defer cancel()
	cmd := exec.CommandContext(ctx, "java", args...)
	cmd.Dir = scratch
	cmd.Env = append(os.Environ(), "JAVA_TOOL_OPTIONS=")
	stdout, err := cmd.StdoutPipe()
	if err != nil {
		return nil, err
	}
	cmd.Stderr = cmd.Stdout
	start := time.Now()
	if err := cmd.Start(); err != nil {
		return nil, err
	}

	res := &TLCResult{Coverage: map[string]int64{}}
	var tail []string
	var trace bytes.Buffer
	inTrace := false
	rd := bufio.NewReaderSize(stdout, 1<<20)
	sawComplete := false
	for {
		line, err := rd.ReadBytes('\n')
		if len(line) > 0 {
			l := bytes.TrimRight(line, "\r\n")
			if bytes.HasPrefix(l, []byte(`"@@`)) {
				var s string
				if jerr := json.Unmarshal(l, &s); jerr == nil {
					rec := []byte(s[2:])
					res.NRecords++
					if o.OnLine != nil {
						o.OnLine(rec)
					}
					if o.KeepLines {
						res.Records = append(res.Records, rec)
					}
				}
			} else {
				ls := string(l)
				if m := reStates.FindStringSubmatch(ls); m != nil {
					res.Generated, _ = strconv.ParseInt(m[1], 10, 64)
					res.Distinct, _ = strconv.ParseInt(m[2], 10, 64)
				} else if m := reDepth.FindStringSubmatch(ls); m != nil {
					res.Depth, _ = strconv.Atoi(m[1])
				} else if m := reInv.FindStringSubmatch(ls); m != nil {
					res.Violated = m[1]
					inTrace = true
				} else if m := reProp.FindStringSubmatch(ls); m != nil {
					res.Violated = strings.TrimSpace(m[3])
					inTrace = true
				} else if strings.HasPrefix(ls, "Error: Deadlock reached") {
					res.Violated = "deadlock"
					inTrace = true
				} else if strings.HasPrefix(ls, "Error:") {
					if res.ErrorText == "" {
						res.ErrorText = ls
					}
					if strings.Contains(ls, "Assumption") {
						res.Violated = "assumption"
					}
					inTrace = true
				} else if strings.HasPrefix(ls, "Model checking completed. No error has been found.") {
					sawComplete = true
				} else if m := reCov.FindStringSubmatch(ls); m != nil {
					n, _ := strconv.ParseInt(m[3], 10, 64)
					res.Coverage[m[1]] += n
				}
				if inTrace && trace.Len() < 1<<20 && !reProgress.MatchString(ls) {
					trace.WriteString(ls)
					trace.WriteByte('\n')
				}
				tail = append(tail, ls)
				if len(tail) > 60 {
					tail = tail[1:]
				}
			}
		}
		if err != nil {
			if err != io.EOF {
				res.ErrorText += " read:" + err.Error()
			}
			break
		}
	}
	werr := cmd.Wait()
	res.Wall = time.Since(start)
	res.Tail = strings.Join(tail, "\n")
	res.TraceText = trace.String()
	if ctx.Err() != nil {
		res.TimedOut = true
	}
	if o.Simulate != "" {
		// simulation mode ends without the "completed" banner
		res.Finished = werr == nil && res.Violated == "" && res.ErrorText == ""
	} else {
		res.Finished = sawComplete && res.Violated == "" && res.ErrorText == ""
	}
	return res, nil
}

// Sany parses a module; returns an error with the tool output if it fails.
func Sany(module string) error {
	scratch, err := os.MkdirTemp("", "verif-sany-")
	if err != nil {
		return err
	}
	defer os.RemoveAll(scratch)
	ents, _ := os.ReadDir(SpecDir())
	for _, e := range ents {
		if strings.HasSuffix(e.Name(), ".tla") {
			b, _ := os.ReadFile(filepath.Join(SpecDir(), e.Name()))
			_ = os.WriteFile(filepath.Join(scratch, e.Name()), b, 0o644)
		}
	}
	cmd := exec.Command("java", "-Djava.io.tmpdir="+scratch, "-cp", tlaJar, "tla2sany.SANY", module+".tla")
	cmd.Dir = scratch
	out, err := cmd.CombinedOutput()
	if err != nil || bytes.Contains(out, []byte("*** Errors")) || bytes.Contains(out, []byte("Fatal errors")) {
		return fmt.Errorf("sany %s: %v\n%s", module, err, out)
	}
	return nil
}
