package vf

import (
	"fmt"
	"runtime"
	"strings"
	"sync"
	"sync/atomic"
	"time"

	"storj.io/drpc/drpcdebug"
)

// Event is what a managed thread reports to the director.
type Event struct {
	Kind  string // "point" | "ret" | "panic" | "blocked" | "timeout"
	Label string // point name
	Res   any    // return value (ret) or panic value
	Where string // innermost non-runtime frame when blocked
}

func (e Event) String() string {
	switch e.Kind {
	case "point":
		return "point:" + e.Label
	case "ret":
		return fmt.Sprintf("ret:%v", e.Res)
	case "panic":
		return fmt.Sprintf("panic:%v", e.Res)
	case "blocked":
		return "blocked@" + e.Where
	}
	return e.Kind
}

type sthread struct {
	name   string
	goid   int64
	ev     chan Event
	resume chan struct{}
	armed  func(label string) bool
}

// Stepper runs goroutines one step at a time between drpcdebug.Point calls.
type Stepper struct {
	mu      sync.RWMutex
	byGoid  map[int64]*sthread
	byName  map[string]*sthread
	n       atomic.Int32
	Timeout time.Duration
}

var stepperInstall sync.Once
var currentStepper struct {
	sync.RWMutex
	s *Stepper
}

// NewStepper creates a stepper and installs it as the process-wide point handler.
func NewStepper() *Stepper {
	s := &Stepper{byGoid: map[int64]*sthread{}, byName: map[string]*sthread{}, Timeout: 5 * time.Second}
	currentStepper.Lock()
	currentStepper.s = s
	currentStepper.Unlock()
	stepperInstall.Do(func() {
		drpcdebug.SetPoint(func(label string) {
			currentStepper.RLock()
			cur := currentStepper.s
			currentStepper.RUnlock()
			if cur != nil {
				cur.hook(label)
			}
		})
	})
	return s
}

// hook is called (via drpcdebug.Point) on the goroutine that reached the point.
func (s *Stepper) hook(label string) {
	if s.n.Load() == 0 {
		return
	}
	id := GoID()
	s.mu.RLock()
	th := s.byGoid[id]
	s.mu.RUnlock()
	if th == nil || (th.armed != nil && !th.armed(label)) {
		return
	}
	th.ev <- Event{Kind: "point", Label: label}
	<-th.resume
}

// Start launches fn as managed thread name and returns its first event. armed selects the
// points at which the thread parks (nil = all).
func (s *Stepper) Start(name string, armed func(string) bool, fn func() any) Event {
	th := &sthread{name: name, ev: make(chan Event, 4), resume: make(chan struct{}), armed: armed}
	ready := make(chan struct{})
	go func() {
		th.goid = GoID()
		s.mu.Lock()
		s.byGoid[th.goid] = th
		s.byName[name] = th
		s.n.Add(1)
		s.mu.Unlock()
		close(ready)
		defer func() {
			s.mu.Lock()
			if _, ok := s.byGoid[th.goid]; ok {
				delete(s.byGoid, th.goid)
				s.n.Add(-1)
			}
			s.mu.Unlock()
			if p := recover(); p != nil {
				th.ev <- Event{Kind: "panic", Res: fmt.Sprint(p)}
			}
		}()
		r := fn()
		th.ev <- Event{Kind: "ret", Res: r}
	}()
	<-ready
	return s.wait(th)
}

// Step releases the named thread from the point it is parked at and returns its next event.
func (s *Stepper) Step(name string) Event {
	s.mu.RLock()
	th := s.byName[name]
	s.mu.RUnlock()
	if th == nil {
		return Event{Kind: "timeout", Where: "unknown thread " + name}
	}
	th.resume <- struct{}{}
	return s.wait(th)
}

// Poll returns a pending event of a thread that was last seen blocked, or Kind "blocked".
func (s *Stepper) Poll(name string) Event {
	s.mu.RLock()
	th := s.byName[name]
	s.mu.RUnlock()
	return s.wait(th)
}

// Abandon releases every parked thread forever (used when a run is given up).
func (s *Stepper) Abandon() {
	s.mu.Lock()
	ths := []*sthread{}
	for _, th := range s.byName {
		ths = append(ths, th)
	}
	s.byGoid = map[int64]*sthread{}
	s.n.Store(0)
	s.mu.Unlock()
	for _, th := range ths {
		th := th
		go func() {
			for {
				select {
				case th.resume <- struct{}{}:
				case <-th.ev:
				case <-time.After(200 * time.Millisecond):
					return
				}
			}
		}()
	}
}

func (s *Stepper) wait(th *sthread) Event {
	deadline := time.Now().Add(s.Timeout)
	spins := 0
	for {
		select {
		case e := <-th.ev:
			return e
		default:
		}
		spins++
		if spins < 200 {
			runtime.Gosched()
			continue
		}
		// look at the goroutine: parked on a primitive of the code under test?
		if spins%50 == 0 {
			for _, g := range Census() {
				if g.ID != th.goid {
					continue
				}
				if g.Blocked() && !g.Has("vf.(*Stepper).hook") {
					select {
					case e := <-th.ev:
						return e
					default:
					}
					where := ""
					for _, f := range g.Frames {
						if !strings.HasPrefix(f, "runtime.") && !strings.HasPrefix(f, "sync.") && !strings.HasPrefix(f, "internal/") {
							where = f
							break
						}
					}
					return Event{Kind: "blocked", Where: where}
				}
			}
		}
		if time.Now().After(deadline) {
			return Event{Kind: "timeout"}
		}
		if spins > 2000 {
			time.Sleep(20 * time.Microsecond)
		} else {
			runtime.Gosched()
		}
	}
}
