package vf

import (
	"fmt"
	"sort"
	"strings"
)

// MCModule builds the text of a model module "MC<base>" that EXTENDS base and
// defines one operator per constant, and the CONSTANTS part of the cfg that
// substitutes them.  plain holds constants given literally in the cfg
// (strings must be quoted by the caller).
func MCModule(base string, defs map[string]string, plain map[string]string) (name, module, cfgConsts string) {
	name = "MC" + base
	var b, c strings.Builder
	fmt.Fprintf(&b, "---- MODULE %s ----\nEXTENDS %s\n", name, base)
	keys := make([]string, 0, len(defs))
	for k := range defs {
		keys = append(keys, k)
	}
	sort.Strings(keys)
	c.WriteString("CONSTANTS\n")
	for _, k := range keys {
		fmt.Fprintf(&b, "mc_%s == %s\n", k, defs[k])
		fmt.Fprintf(&c, " %s <- mc_%s\n", k, k)
	}
	pk := make([]string, 0, len(plain))
	for k := range plain {
		pk = append(pk, k)
	}
	sort.Strings(pk)
	for _, k := range pk {
		fmt.Fprintf(&c, " %s = %s\n", k, plain[k])
	}
	b.WriteString("====\n")
	return name, b.String(), c.String()
}
