package vf

import (
	"encoding/json"
	"fmt"
	"os"
	"path/filepath"
	"regexp"
	"sort"
	"strconv"
	"strings"
	"sync"
	"time"
)

// Known is one entry of /verif/known_findings.json.
type Known struct {
	Property  string `json:"property"`
	Status    string `json:"status"`    // "open" or "fixed"
	Signature string `json:"signature"` // regular expression matched against the failure signature (open entries only)
	What      string `json:"what"`
	Commit    string `json:"commit,omitempty"`
	Line      string `json:"line,omitempty"`
}

// Ctx is handed to a check; it collects coverage, violations and writes the evidence.
type Ctx struct {
	ID    string
	Tier  string // quick | thorough
	Seed  int64
	Level string

	mu         sync.Mutex
	start      time.Time
	Cov        map[string]any
	Assume     []string
	samples    []any
	violations int
	knownHits  map[string]int
	known      []Known
	inconcl    []string
	warnings   []string
	states     int64
	trans      int64
	traces     int64
	evals      int64
	distinct   map[string]struct{}
	distinctN  int64
}

// NewCtx builds the context from the environment.
func NewCtx(id, tier string) *Ctx {
	seed := int64(1)
	if s := os.Getenv("VERIF_SEED"); s != "" {
		if v, err := strconv.ParseInt(s, 10, 64); err == nil {
			seed = v
		}
	}
	if t := os.Getenv("VERIF_TIER"); t != "" && tier == "" {
		tier = t
	}
	if tier != "thorough" {
		tier = "quick"
	}
	c := &Ctx{ID: id, Tier: tier, Seed: seed, Level: "model_checking", start: time.Now(),
		Cov: map[string]any{}, knownHits: map[string]int{}, distinct: map[string]struct{}{}}
	c.loadKnown()
	return c
}

func (c *Ctx) Quick() bool { return c.Tier != "thorough" }

func (c *Ctx) loadKnown() {
	b, err := os.ReadFile(filepath.Join(Root, "known_findings.json"))
	if err != nil {
		return
	}
	var f struct {
		Findings []Known `json:"findings"`
	}
	if err := json.Unmarshal(b, &f); err != nil {
		fmt.Fprintf(os.Stderr, "known_findings.json: %v\n", err)
		return
	}
	for _, k := range f.Findings {
		if k.Property == c.ID {
			c.known = append(c.known, k)
		}
	}
}

// AddTLC accumulates state/transition counts of an exhaustive or simulation run.
func (c *Ctx) AddTLC(r *TLCResult) {
	c.mu.Lock()
	defer c.mu.Unlock()
	c.states += r.Distinct
	c.trans += r.Generated
}

// Eval counts one executed case; key identifies it for the distinct count ("" = trivial, not counted).
func (c *Ctx) Eval(key string) {
	c.mu.Lock()
	defer c.mu.Unlock()
	c.evals++
	if key != "" {
		if len(c.distinct) < 2_000_000 {
			if _, ok := c.distinct[key]; !ok {
				c.distinct[key] = struct{}{}
				c.distinctN++
			}
		}
	}
}

// EvalN counts n executions without distinctness information.
func (c *Ctx) EvalN(n int64) {
	c.mu.Lock()
	c.evals += n
	c.mu.Unlock()
}

// TraceValidated counts traces/behaviours compared against the implementation.
func (c *Ctx) TraceValidated(n int64) {
	c.mu.Lock()
	c.traces += n
	c.mu.Unlock()
}

// Sample records an example case (a few are kept).
func (c *Ctx) Sample(v any) {
	c.mu.Lock()
	defer c.mu.Unlock()
	if len(c.samples) < 8 {
		c.samples = append(c.samples, v)
	}
}

// Warn records a conformance warning (not a verdict).
func (c *Ctx) Warn(format string, a ...any) {
	c.mu.Lock()
	defer c.mu.Unlock()
	if len(c.warnings) < 50 {
		c.warnings = append(c.warnings, fmt.Sprintf(format, a...))
	}
}

// Inconclusive records that part of the check could not be decided (exit 2, never a violation).
func (c *Ctx) Inconclusive(format string, a ...any) {
	c.mu.Lock()
	defer c.mu.Unlock()
	msg := fmt.Sprintf(format, a...)
	if len(c.inconcl) < 50 {
		c.inconcl = append(c.inconcl, msg)
	}
	fmt.Fprintf(os.Stderr, "INCONCLUSIVE property=%s %s\n", c.ID, msg)
}

// Violation reports behaviour of the real code that the property forbids. sig is a
// canonical signature of the failure (matched against open known findings);
// replay is any JSON-able value that lets the failure be reproduced.
func (c *Ctx) Violation(sig string, replay any) {
	c.mu.Lock()
	defer c.mu.Unlock()
	for _, k := range c.known {
		if k.Status != "open" {
			continue
		}
		re, err := regexp.Compile(k.Signature)
		if err != nil {
			continue
		}
		if re.MatchString(sig) {
			c.knownHits[k.Signature]++
			if c.knownHits[k.Signature] == 1 {
				fmt.Printf("KNOWN-FINDING: property=%s %s [signature %s]\n", c.ID, k.What, sig)
			}
			return
		}
	}
	c.violations++
	if c.violations > 60 {
		return
	}
	dir := OutDir()
	_ = os.MkdirAll(dir, 0o755)
	path := filepath.Join(dir, fmt.Sprintf("%s-violation-%d.json", c.ID, c.violations))
	b, _ := json.MarshalIndent(map[string]any{"property": c.ID, "signature": sig, "seed": c.Seed, "tier": c.Tier, "replay": replay}, "", " ")
	_ = os.WriteFile(path, b, 0o644)
	fmt.Printf("VIOLATION property=%s replay=%s\n", c.ID, path)
	fmt.Printf("  signature: %s\n", sig)
}

// IsKnown reports whether sig matches an open known finding.
func (c *Ctx) IsKnown(sig string) bool {
	c.mu.Lock()
	defer c.mu.Unlock()
	for _, k := range c.known {
		if k.Status != "open" {
			continue
		}
		if re, err := regexp.Compile(k.Signature); err == nil && re.MatchString(sig) {
			return true
		}
	}
	return false
}

// Violations returns the number of (unknown) violations so far.
func (c *Ctx) Violations() int { c.mu.Lock(); defer c.mu.Unlock(); return c.violations }

// Finish writes the evidence file and returns the process exit code.
func (c *Ctx) Finish() int {
	c.mu.Lock()
	defer c.mu.Unlock()
	cov := map[string]any{}
	for k, v := range c.Cov {
		cov[k] = v
	}
	cov["states"] = c.states
	cov["transitions"] = c.trans
	cov["traces_validated_against_impl"] = c.traces
	cov["evaluations"] = c.evals
	cov["distinct_nontrivial"] = c.distinctN
	if len(c.samples) == 0 {
		c.samples = append(c.samples, "no sample recorded")
	}
	cov["samples"] = c.samples
	if len(c.warnings) > 0 {
		cov["conformance_warnings"] = c.warnings
	}
	if len(c.inconcl) > 0 {
		cov["inconclusive"] = c.inconcl
	}
	kh := []string{}
	for k, n := range c.knownHits {
		kh = append(kh, fmt.Sprintf("%s x%d", k, n))
	}
	sort.Strings(kh)
	if len(kh) > 0 {
		cov["known_findings_hit"] = kh
	}
	ev := map[string]any{
		"property_id": c.ID,
		"tier":        c.Tier,
		"seed":        c.Seed,
		"level":       c.Level,
		"coverage":    cov,
		"assumptions": c.Assume,
		"wall_s":      time.Since(c.start).Seconds(),
		"violations":  c.violations,
	}
	if c.Assume == nil {
		ev["assumptions"] = []string{}
	}
	b, _ := json.MarshalIndent(ev, "", " ")
	dir := filepath.Join(Root, "evidence")
	if d := os.Getenv("VERIF_EVIDENCE_DIR"); d != "" {
		dir = d
	}
	_ = os.MkdirAll(dir, 0o755)
	if err := os.WriteFile(filepath.Join(dir, c.ID+".json"), append(b, '\n'), 0o644); err != nil {
		fmt.Fprintf(os.Stderr, "evidence: %v\n", err)
		return 2
	}
	fmt.Printf("%s %s seed=%d: states=%d transitions=%d traces=%d evaluations=%d distinct=%d violations=%d known=%s wall=%.1fs\n",
		c.ID, c.Tier, c.Seed, c.states, c.trans, c.traces, c.evals, c.distinctN, c.violations, strings.Join(kh, ";"), time.Since(c.start).Seconds())
	if c.violations > 0 {
		return 1
	}
	if len(c.inconcl) > 0 {
		return 2
	}
	return 0
}

// OutDir is where replay files go.
func OutDir() string {
	if d := os.Getenv("VERIF_OUT_DIR"); d != "" {
		return d
	}
	return filepath.Join(Root, "out")
}
