package vf

import (
	"bytes"
	"runtime"
	"strconv"
	"strings"
)

// G is one goroutine of a stop-the-world snapshot.
type G struct {
	ID      int64
	State   string   // e.g. "running", "runnable", "chan receive", "select", "sync.Mutex.Lock", "sync.Cond.Wait", "semacquire", "IO wait", "sleep"
	Frames  []string // function names, innermost first
	Creator int64    // id of the goroutine that created this one (0 if unknown)
}

// Blocked reports whether the goroutine is parked on a synchronisation primitive
// (as opposed to running, runnable or in a syscall).
func (g *G) Blocked() bool {
	s := g.State
	switch {
	case strings.HasPrefix(s, "chan receive"), strings.HasPrefix(s, "chan send"), strings.HasPrefix(s, "select"),
		strings.HasPrefix(s, "sync.Mutex.Lock"), strings.HasPrefix(s, "sync.RWMutex"), strings.HasPrefix(s, "sync.Cond.Wait"),
		strings.HasPrefix(s, "semacquire"), strings.HasPrefix(s, "sync.WaitGroup.Wait"), strings.HasPrefix(s, "IO wait"),
		strings.HasPrefix(s, "sleep"), strings.HasPrefix(s, "finalizer wait"), strings.HasPrefix(s, "sync.Once"),
		strings.HasPrefix(s, "GC worker"), strings.HasPrefix(s, "GC sweep wait"), strings.HasPrefix(s, "GC scavenge wait"), strings.HasPrefix(s, "force gc"):
		// NB: "GC assist wait" and "GC assist marking" are transient states of application goroutines: not blocked
		return true
	}
	return false
}

// Has reports whether some frame contains sub.
func (g *G) Has(sub string) bool {
	for _, f := range g.Frames {
		if strings.Contains(f, sub) {
			return true
		}
	}
	return false
}

// Innermost returns the innermost frame containing sub, or "".
func (g *G) Innermost(sub string) string {
	for _, f := range g.Frames {
		if strings.Contains(f, sub) {
			return f
		}
	}
	return ""
}

var censusBuf = make([]byte, 1<<20)

// Census takes a stop-the-world snapshot of all goroutines.
func Census() []G {
	var n int
	for {
		n = runtime.Stack(censusBuf, true)
		if n < len(censusBuf) {
			break
		}
		censusBuf = make([]byte, 2*len(censusBuf))
	}
	return parseStacks(censusBuf[:n])
}

func parseStacks(b []byte) []G {
	var out []G
	for _, blk := range bytes.Split(b, []byte("\n\n")) {
		lines := bytes.Split(blk, []byte("\n"))
		if len(lines) == 0 || !bytes.HasPrefix(lines[0], []byte("goroutine ")) {
			continue
		}
		hdr := string(lines[0])
		sp := strings.IndexByte(hdr[10:], ' ')
		if sp < 0 {
			continue
		}
		id, _ := strconv.ParseInt(hdr[10:10+sp], 10, 64)
		st := ""
		if i := strings.IndexByte(hdr, '['); i >= 0 {
			if j := strings.IndexByte(hdr[i:], ']'); j >= 0 {
				st = hdr[i+1 : i+j]
			}
		}
		if k := strings.IndexByte(st, ','); k >= 0 {
			st = st[:k]
		}
		g := G{ID: id, State: st}
		for _, l := range lines[1:] {
			if len(l) == 0 || l[0] == '\t' {
				continue
			}
			s := string(l)
			if strings.HasPrefix(s, "created by ") {
				if i := strings.LastIndex(s, " in goroutine "); i >= 0 {
					g.Creator, _ = strconv.ParseInt(s[i+len(" in goroutine "):], 10, 64)
				}
				continue
			}
			if i := strings.LastIndexByte(s, '('); i > 0 {
				s = s[:i]
			}
			g.Frames = append(g.Frames, s)
		}
		out = append(out, g)
	}
	return out
}

// GoID returns the id of the calling goroutine.
func GoID() int64 {
	var buf [64]byte
	n := runtime.Stack(buf[:], false)
	// "goroutine 123 [running]:"
	s := buf[10:n]
	i := bytes.IndexByte(s, ' ')
	id, _ := strconv.ParseInt(string(s[:i]), 10, 64)
	return id
}

// SelfCreator returns the id of the goroutine that created the calling goroutine (0 if unknown).
func SelfCreator() int64 {
	buf := make([]byte, 16<<10)
	n := runtime.Stack(buf, false)
	s := string(buf[:n])
	i := strings.LastIndex(s, " in goroutine ")
	if i < 0 {
		return 0
	}
	s = s[i+len(" in goroutine "):]
	if j := strings.IndexAny(s, "\n "); j >= 0 {
		s = s[:j]
	}
	id, _ := strconv.ParseInt(s, 10, 64)
	return id
}
