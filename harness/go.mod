module verif

go 1.25

require (
	github.com/gogo/protobuf v1.3.2
	github.com/zeebo/errs v1.2.2
	google.golang.org/protobuf v1.27.1
	pgregory.net/rapid v1.3.0
	storj.io/drpc v0.0.0
)

replace storj.io/drpc => /repo
