// Copyright (C) 2019 Storj Labs, Inc.
// See LICENSE for copying information.

package drpcwire

import (
	"bufio"
	"context"
	"io"
	"sync"

	"storj.io/drpc"
)

//
// Writer
//

// Writer is a helper to buffer and write packets and frames to an io.Writer.
type Writer struct {
	w    io.Writer
	size int
	mu   sync.Mutex
	buf  []byte
}

// NewWriter returns a Writer that will attempt to buffer size data before
// sending it to the io.Writer.
func NewWriter(w io.Writer, size int) *Writer {
	if size == 0 {
		size = 1024
	}

	return &Writer{
		w:    w,
		size: size,
		buf:  make([]byte, 0, size),
	}
}

// WritePacket writes the packet as a single frame, ignoring any size
// constraints.
func (b *Writer) WritePacket(ctx context.Context, pkt Packet) (err error) {
	return b.WriteFrame(ctx, Frame{
		Data: pkt.Data,
		ID:   pkt.ID,
		Kind: pkt.Kind,
		Done: true,
	})
}

// WriteFrame appends the frame into the buffer, and if the buffer is larger
// than the configured size, flushes it.
func (b *Writer) WriteFrame(ctx context.Context, fr Frame) (err error) {

	b.mu.Lock()
	b.buf = AppendFrame(b.buf, fr)
	if len(b.buf) >= b.size {
		_, err = b.w.Write(b.buf)
		b.buf = b.buf[:0]
	}
	b.mu.Unlock()
	return err
}

// Flush forces a flush of any buffered data to the io.Writer. It is a no-op if
// there is no data in the buffer.
func (b *Writer) Flush(ctx context.Context) (err error) {

	b.mu.Lock()
	if len(b.buf) > 0 {
		_, err = b.w.Write(b.buf)
		b.buf = b.buf[:0]
	}
	b.mu.Unlock()
	return err
}

//
// Reader
//

// SplitFrame is used by bufio.Scanner to split frames out of a stream of bytes.
func SplitFrame(data []byte, atEOF bool) (int, []byte, error) {
	rem, _, ok, err := ParseFrame(data)
	switch advance := len(data) - len(rem); {
	case err != nil:
		return 0, nil, err
	case len(data) > 0 && !ok && atEOF:
		return 0, nil, drpc.ProtocolError.New("truncated frame")
	case !ok:
		return 0, nil, nil
	case advance < 0, len(data) < advance:
		return 0, nil, drpc.InternalError.New("scanner issue with advance value")
	default:
		return advance, data[:advance], nil
	}
}

// Reader reconstructs packets from frames read from an io.Reader.
type Reader struct {
	buf *bufio.Scanner
	id  ID
}

// NewReader constructs a Reader to read Packets from the io.Reader.
func NewReader(r io.Reader) *Reader {
	buf := bufio.NewScanner(r)
	buf.Buffer(make([]byte, 4<<10), 1<<20)
	buf.Split(SplitFrame)
	return &Reader{buf: buf}
}

// ReadPacket reads a packet from the io.Reader. IDs read from frames
// must be monotonically increasing. When a new ID is read, the old
// data is discarded. This allows for easier asynchronous interrupts.
// If the amount of data in the Packet becomes too large, an error is
// returned.
func (s *Reader) ReadPacket() (pkt Packet, err error) {
	for s.buf.Scan() {
		rem, fr, ok, err := ParseFrame(s.buf.Bytes())
		switch {
		case err != nil:
			return Packet{}, drpc.ProtocolError.Wrap(err)
		case !ok, len(rem) > 0:
			return Packet{}, drpc.InternalError.New("problem with scanner")
		case fr.Control:
			// Ignore any frames with the control bit set so that we can
			// use it in the future to mean things to people who understand
			// it.
			continue
		case fr.ID.Less(s.id):
			return Packet{}, drpc.ProtocolError.New("id monotonicity violation")
		case s.id.Less(fr.ID):
			s.id = fr.ID
			pkt = Packet{
				Data: pkt.Data[:0],
				ID:   fr.ID,
				Kind: fr.Kind,
			}
		case fr.Kind != pkt.Kind:
			return Packet{}, drpc.ProtocolError.New("packet kind change")
		}

		pkt.Data = append(pkt.Data, fr.Data...)
		switch {
		case len(pkt.Data) > 4<<20:
			return Packet{}, drpc.ProtocolError.New("data overflow")
		case fr.Done:
			return pkt, nil
		}
	}
	if err := s.buf.Err(); err != nil {
		return Packet{}, err
	}
	return Packet{}, io.EOF
}
