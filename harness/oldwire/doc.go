// Copyright (C) 2019 Storj Labs, Inc.
// See LICENSE for copying information.

// Package drpcwire provides low level helpers for the drpc wire protocol.
package drpcwire

// verif: path-renamed copy of storj.io/drpc@v0.0.17/drpcwire (import path verif/oldwire).
// The only changes are the removal of the monkit instrumentation (the package
// variable "mon" here and the two "defer mon.Task()(&ctx)(&err)" lines in
// transport.go). Test files are not copied.
