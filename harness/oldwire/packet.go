// Copyright (C) 2019 Storj Labs, Inc.
// See LICENSE for copying information.

package drpcwire

import "fmt"

//go:generate stringer -type=Kind -trimprefix=Kind_ -output=packet_string.go

// Kind is the enumeration of all the different kinds of messages drpc sends.
type Kind uint8

const (
	// kindReserved is saved for the future in case we need to extend.
	kindReserved Kind = 0

	// kindCancelDeprecated is a reminder that we once used this kind value.
	kindCancelDeprecated Kind = 4

	// KindInvoke is used to invoke an rpc. The body is the name of the rpc.
	KindInvoke Kind = 1

	// KindMessage is used to send messages. The body is a protobuf.
	KindMessage Kind = 2

	// KindError is used to inform that an error happened. The body is an error
	// with a code attached.
	KindError Kind = 3

	// KindClose is used to inform that the rpc is dead. It has no body.
	KindClose Kind = 5

	// KindCloseSend is used to inform that no more messages will be sent.
	// It has no body.
	KindCloseSend Kind = 6 // body must be empty

	// KindInvokeMetadata includes metadata about the next Invoke packet.
	KindInvokeMetadata Kind = 7
)

//
// packet id
//

// ID represents a packet id.
type ID struct {
	// Stream is the stream identifier.
	Stream uint64

	// Message is the message identifier.
	Message uint64
}

// Less returns true if the id is less than the provided one. An ID is less than
// another if the Stream is less, and if the stream is equal, if the Message
// is less.
func (i ID) Less(j ID) bool {
	return i.Stream < j.Stream || (i.Stream == j.Stream && i.Message < j.Message)
}

// String returns a human readable form of the ID.
func (i ID) String() string { return fmt.Sprintf("<%d,%d>", i.Stream, i.Message) }

//
// data frame
//

// Frame is a split data frame on the wire.
type Frame struct {
	// Data is the payload of bytes.
	Data []byte

	// ID is used so that the frame can be reconstructed.
	ID ID

	// Kind is the kind of the payload.
	Kind Kind

	// Done is true if this is the last frame for the ID.
	Done bool

	// Control is true if the frame has the control bit set.
	Control bool
}

// ParseFrame attempts to parse a frame at the beginning of buf. If successful
// then rem contains the unparsed data, fr contains the parsed frame, ok will
// be true, and err will be nil. If there is not enough data for a frame, ok
// will be false and err will be nil. If the data in the buf is malformed, then
// an error is returned.
func ParseFrame(buf []byte) (rem []byte, fr Frame, ok bool, err error) {
	var length uint64
	var control byte
	if len(buf) < 4 {
		goto bad
	}

	rem, control = buf[1:], buf[0]
	fr.Done = (control & 0b00000001) > 0
	fr.Control = (control & 0b10000000) > 0
	fr.Kind = Kind((control & 0b01111110) >> 1)
	rem, fr.ID.Stream, ok, err = ReadVarint(rem)
	if !ok || err != nil {
		goto bad
	}
	rem, fr.ID.Message, ok, err = ReadVarint(rem)
	if !ok || err != nil {
		goto bad
	}
	rem, length, ok, err = ReadVarint(rem)
	if !ok || err != nil || length > uint64(len(rem)) {
		goto bad
	}
	rem, fr.Data = rem[length:], rem[:length]

	return rem, fr, true, nil
bad:
	return buf, fr, false, err
}

// AppendFrame appends a marshaled form of the frame to the provided buffer.
func AppendFrame(buf []byte, fr Frame) []byte {
	control := byte(fr.Kind << 1)
	if fr.Done {
		control |= 0b00000001
	}
	if fr.Control {
		control |= 0b10000000
	}

	out := buf
	out = append(out, control)
	out = AppendVarint(out, fr.ID.Stream)
	out = AppendVarint(out, fr.ID.Message)
	out = AppendVarint(out, uint64(len(fr.Data)))
	out = append(out, fr.Data...)
	return out
}

//
// packet
//

// Packet is a single message sent by drpc.
type Packet struct {
	// Data is the payload of the packet.
	Data []byte

	// ID is the identifier for the packet.
	ID ID

	// Kind is the kind of the packet.
	Kind Kind
}

// String returns a human readable form of the packet.
func (p Packet) String() string {
	return fmt.Sprintf("<s:%d m:%d kind:%s data:%d>",
		p.ID.Stream, p.ID.Message, p.Kind, len(p.Data))
}
