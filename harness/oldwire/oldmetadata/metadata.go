// Copyright (C) 2019 Storj Labs, Inc.
// See LICENSE for copying information.

package drpcmetadata

import (
	"context"

	"github.com/gogo/protobuf/proto"

	"verif/oldwire/oldmetadata/invoke"
)

// AddPairs attaches metadata onto a context and return the context.
func AddPairs(ctx context.Context, metadata map[string]string) context.Context {
	for key, val := range metadata {
		ctx = Add(ctx, key, val)
	}
	return ctx
}

// Encode generates byte form of the metadata and appends it onto the passed in buffer.
func Encode(buffer []byte, metadata map[string]string) ([]byte, error) {
	data, err := proto.Marshal(&invoke.Metadata{Data: metadata})
	if err != nil {
		return buffer, err
	}
	return append(buffer, data...), nil
}

// Decode translate byte form of metadata into key/value metadata.
func Decode(data []byte) (map[string]string, error) {
	var md invoke.Metadata
	err := proto.Unmarshal(data, &md)
	if err != nil {
		return nil, err
	}
	return md.Data, nil
}

type metadataKey struct{}

// Add associates a key/value pair on the context.
func Add(ctx context.Context, key, value string) context.Context {
	metadata, ok := Get(ctx)
	if !ok {
		metadata = make(map[string]string)
		ctx = context.WithValue(ctx, metadataKey{}, metadata)
	}
	metadata[key] = value
	return ctx
}

// Get returns all key/value pairs on the given context.
func Get(ctx context.Context) (map[string]string, bool) {
	metadata, ok := ctx.Value(metadataKey{}).(map[string]string)
	return metadata, ok
}
