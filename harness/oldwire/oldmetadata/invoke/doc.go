// Copyright (C) 2019 Storj Labs, Inc.
// See LICENSE for copying information.

// Package invoke defines the proto messages exposed by drpc for
// sending metadata across the wire.
package invoke

//go:generate bash -c "go install storj.io/drpc/cmd/protoc-gen-drpc && protoc --drpc_out=plugins=drpc:. metadata.proto"
