// Copyright (C) 2019 Storj Labs, Inc.
// See LICENSE for copying information.

// Package drpcmetadata define the structure of the metadata supported by drpc library.
package drpcmetadata
