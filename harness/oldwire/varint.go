// Copyright (C) 2019 Storj Labs, Inc.
// See LICENSE for copying information.

package drpcwire

import "storj.io/drpc"

// ReadVarint reads a varint encoded integer from the front of buf, returning the
// remaining bytes, the value, and if there was a success. if ok is false, the
// returned buffer is the same as the passed in buffer.
func ReadVarint(buf []byte) (rem []byte, out uint64, ok bool, err error) {
	rem = buf
	for shift := uint(0); shift < 64; shift += 7 {
		if len(rem) == 0 {
			return buf, 0, false, nil
		}
		val := uint64(rem[0])
		out, rem = out|((val&127)<<shift), rem[1:]
		if val < 128 {
			return rem, out, true, nil
		}
	}
	return rem, 0, false, drpc.Error.New("varint too long")
}

// AppendVarint appends the varint encoding of x to the buffer and returns it.
func AppendVarint(buf []byte, x uint64) []byte {
	for x >= 128 {
		buf = append(buf, byte(x&127|128))
		x >>= 7
	}
	return append(buf, byte(x))
}
