// Copyright (C) 2019 Storj Labs, Inc.
// See LICENSE for copying information.

package drpcwire

import (
	"encoding/binary"

	"github.com/zeebo/errs"

	"storj.io/drpc/drpcerr"
)

// MarshalError returns a byte form of the error with any error code incorporated.
func MarshalError(err error) []byte {
	var buf [8]byte
	binary.BigEndian.PutUint64(buf[:], drpcerr.Code(err))
	return append(buf[:], err.Error()...)
}

// UnmarshalError unmarshals the marshaled error to one with a code.
func UnmarshalError(data []byte) error {
	if len(data) < 8 {
		return errs.New("%s (drpcwire note: invalid error data)", data)
	}
	return drpcerr.WithCode(errs.New("%s", data[8:]), binary.BigEndian.Uint64(data[:8]))
}
