// Copyright (C) 2019 Storj Labs, Inc.
// See LICENSE for copying information.

package drpcwire

import "context"

// SplitN splits the marshaled form of the Packet into a number of
// frames such that each frame is at most n bytes. It calls
// the callback with every such frame. If n is zero, a default of
// 1024 is used.
func SplitN(ctx context.Context, pkt Packet, n int, cb func(ctx context.Context, fr Frame) error) error {
	switch {
	case n == 0:
		n = 1024
	case n < 0:
		n = 0
	}

	for {
		fr := Frame{
			Data: pkt.Data,
			ID:   pkt.ID,
			Kind: pkt.Kind,
			Done: true,
		}
		if len(pkt.Data) > n && n > 0 {
			fr.Data, pkt.Data = pkt.Data[:n], pkt.Data[n:]
			fr.Done = false
		}
		if err := cb(ctx, fr); err != nil {
			return err
		}
		if fr.Done {
			return nil
		}
	}
}
