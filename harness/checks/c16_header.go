package checks

import (
	"encoding/json"
	"errors"
	"fmt"
	"math/rand"
	"net"
	"os"
	"sort"
	"strings"
	"sync"
	"time"

	"storj.io/drpc/drpcmigrate"

	"verif/vf"
)

const c16HdrInvs = "HeaderFirstOnce OneHeaderWriter ReportsPayloadOnly PayloadIntact NoStuckWriter"

type c16HStim struct {
	K string `json:"k"`
	W string `json:"w"`
	N int    `json:"n"`
}

func (s c16HStim) String() string { return fmt.Sprintf("%s(%s,%d)", s.K, s.W, s.N) }

type c16HStep struct {
	Obs  json.RawMessage `json:"obs"`
	Stim c16HStim        `json:"stim"`
}

type c16HBeh struct {
	Steps []c16HStep      `json:"steps"`
	Final json.RawMessage `json:"final"`
}

func (b *c16HBeh) after(i int) json.RawMessage {
	if i+1 < len(b.Steps) {
		return b.Steps[i+1].Obs
	}
	return b.Final
}

var errC16Short = errors.New("c16: short write")

// c16Gate is the underlying connection of the HeaderConn: every Write parks until the
// director releases it with the number of bytes it accepts.
type c16Gate struct {
	net.Conn // nil; only Write is used
	mu       sync.Mutex
	cond     *sync.Cond
	byGoid   map[int64]string
	pending  map[string][]byte
	release  map[string]int // bytes to accept, present once released
	wire     []byte
	failed   bool // a short write has happened: the connection accepts nothing any more
}

func newC16Gate() *c16Gate {
	g := &c16Gate{byGoid: map[int64]string{}, pending: map[string][]byte{}, release: map[string]int{}}
	g.cond = sync.NewCond(&g.mu)
	return g
}

func (g *c16Gate) Write(p []byte) (int, error) {
	id := vf.GoID()
	g.mu.Lock()
	defer g.mu.Unlock()
	name := g.byGoid[id]
	g.pending[name] = append([]byte(nil), p...)
	for {
		if n, ok := g.release[name]; ok {
			delete(g.release, name)
			delete(g.pending, name)
			if n > len(p) {
				n = len(p)
			}
			if g.failed {
				return 0, errC16Short
			}
			g.wire = append(g.wire, p[:n]...)
			if n < len(p) {
				g.failed = true
				return n, errC16Short
			}
			return n, nil
		}
		g.cond.Wait()
	}
}

const c16HLen = 2

var c16Header = string([]byte{0xF1, 0xF2})

func c16PayloadByte(w string, i, j int) byte {
	wi := int(w[len(w)-1] - '0')
	return byte(wi*32 + i*8 + j)
}

func c16LiftWire(wire []byte) []any {
	out := make([]any, len(wire))
	for k, b := range wire {
		switch {
		case b == 0xF1 || b == 0xF2:
			out[k] = map[string]any{"w": "H", "i": 0, "j": int(b - 0xF0)}
		default:
			out[k] = map[string]any{"w": fmt.Sprintf("w%d", b/32), "i": int(b%32) / 8, "j": int(b % 8)}
		}
	}
	return out
}

type c16HWriter struct {
	running bool
	count   int
	results [][]any // [n, isErr]
}

// c16HeaderReplayOne replays one behaviour of HeaderConn.tla on the real HeaderConn.
// It returns a failure signature ("" = conforms), details, and a harness problem.
func c16HeaderReplayOne(b *c16HBeh, writers []string) (sig string, detail map[string]any, stuck string) {
	gate := newC16Gate()
	hc := drpcmigrate.NewHeaderConn(gate, c16Header)
	var mu sync.Mutex
	ws := map[string]*c16HWriter{}
	for _, w := range writers {
		ws[w] = &c16HWriter{}
	}
	stims := []string{}
	defer func() {
		// release whatever is still parked
		for guard := 0; guard < 20; guard++ {
			gate.mu.Lock()
			n := len(gate.pending)
			for name := range gate.pending {
				gate.release[name] = 0
			}
			gate.cond.Broadcast()
			gate.mu.Unlock()
			c16Quiesce(2 * time.Second)
			mu.Lock()
			busy := false
			for _, w := range ws {
				busy = busy || w.running
			}
			mu.Unlock()
			if n == 0 && !busy {
				break
			}
		}
	}()
	// sizes of the payloads written so far, for the monitors
	type wr struct {
		w    string
		i, n int
	}
	var writes []wr
	for si, st := range b.Steps {
		s := st.Stim
		stims = append(stims, s.String())
		switch s.K {
		case "start":
			mu.Lock()
			w := ws[s.W]
			w.running = true
			idx := w.count + 1
			mu.Unlock()
			payload := make([]byte, s.N)
			for j := range payload {
				payload[j] = c16PayloadByte(s.W, idx, j+1)
			}
			writes = append(writes, wr{s.W, idx, s.N})
			ready := make(chan struct{})
			go func() {
				gate.mu.Lock()
				gate.byGoid[vf.GoID()] = s.W
				gate.mu.Unlock()
				close(ready)
				n, err := hc.Write(payload)
				mu.Lock()
				w.results = append(w.results, []any{n, err != nil})
				w.count++
				w.running = false
				mu.Unlock()
			}()
			<-ready
		case "release":
			gate.mu.Lock()
			if _, ok := gate.pending[s.W]; !ok {
				gate.mu.Unlock()
				// the model says this writer is parked in the underlying write, the real one is not
				return "HeaderConn: writer is not in the underlying write where the specification has it", map[string]any{"stimuli": stims}, ""
			}
			gate.release[s.W] = s.N
			gate.cond.Broadcast()
			gate.mu.Unlock()
		default:
			return "", nil, "unknown stimulus " + s.K
		}
		if ok, busy := c16Quiesce(5 * time.Second); !ok {
			fr := []string{}
			for _, g := range busy {
				fr = append(fr, g.State+"@"+strings.Join(g.Frames, "<"))
			}
			return "", nil, "no quiescence after " + s.String() + ": " + strings.Join(fr, " | ")
		}
		// observation
		gate.mu.Lock()
		wire := append([]byte(nil), gate.wire...)
		parked := map[string]bool{}
		for name := range gate.pending {
			parked[name] = true
		}
		gate.mu.Unlock()
		mu.Lock()
		wobs := map[string]any{}
		for _, name := range writers {
			w := ws[name]
			class := "idle"
			if w.running {
				class = "blocked"
				if parked[name] {
					class = "parked"
				}
			}
			rs := make([]any, len(w.results))
			for i, r := range w.results {
				rs[i] = r
			}
			wobs[name] = []any{class, rs}
		}
		mu.Unlock()
		obs := map[string]any{"wire": c16LiftWire(wire), "ws": wobs}

		// monitors transcribed from the property statement
		for k, bt := range wire {
			isH := bt == 0xF1 || bt == 0xF2
			if k < c16HLen && bt != c16Header[k] {
				return "HeaderConn: the wire does not start with the header", map[string]any{"stimuli": stims, "observation": obs}, ""
			}
			if k >= c16HLen && isH {
				return "HeaderConn: header bytes appear again after the header", map[string]any{"stimuli": stims, "observation": obs}, ""
			}
		}
		mu.Lock()
		for _, x := range writes {
			w := ws[x.w]
			if x.i <= len(w.results) {
				onWire := 0
				for _, bt := range wire {
					if bt != 0xF1 && bt != 0xF2 && int(bt/32) == int(x.w[len(x.w)-1]-'0') && int(bt%32)/8 == x.i {
						onWire++
					}
				}
				if n := w.results[x.i-1][0].(int); n != onWire {
					mu.Unlock()
					return "HeaderConn: Write reports a byte count that is not its payload bytes on the wire", map[string]any{"stimuli": stims, "observation": obs, "reported": n, "on_wire": onWire}, ""
				}
			}
		}
		mu.Unlock()

		var want map[string]any
		if err := json.Unmarshal(b.after(si), &want); err != nil {
			return "", nil, "bad model observation: " + err.Error()
		}
		if c16Canon(want) != c16Canon(obs) {
			what := []string{}
			if c16Canon(want["wire"]) != c16Canon(obs["wire"]) {
				what = append(what, "wire")
			}
			wm, _ := want["ws"].(map[string]any)
			for _, name := range writers {
				wt, _ := wm[name].([]any)
				gt, _ := wobs[name].([]any)
				if len(wt) == 2 && len(gt) == 2 {
					if c16Canon(wt[0]) != c16Canon(gt[0]) {
						what = append(what, "writer state")
					}
					if c16Canon(wt[1]) != c16Canon(gt[1]) {
						what = append(what, "return values")
					}
				}
			}
			sort.Strings(what)
			uniq := what[:0]
			for i, x := range what {
				if i == 0 || x != what[i-1] {
					uniq = append(uniq, x)
				}
			}
			return "HeaderConn: observation after " + s.K + " differs from the specification (" + strings.Join(uniq, ",") + ")",
				map[string]any{"stimuli": stims, "real_observation": obs, "model_observation": want}, ""
		}
	}
	return "", nil, ""
}

// c16HeaderReplay starts the generation of the HeaderConn behaviours; the returned function replays them.
func c16HeaderReplay(c *vf.Ctx, q bool, note func(string, ...any)) (replay func()) {
	type hrun struct {
		label   string
		writers []string
		sizes   string
		nwrites int
		lims    string
		sample  int // 0 = all
	}
	runs := []hrun{
		{"every behaviour: 3 writers x 1 write, sizes {0,1,3}", []string{"w1", "w2", "w3"}, "{0,1,3}", 1, "{1000}", 3000},
		{"behaviours: 2 writers x 2 writes, sizes {0,1,3}", []string{"w1", "w2"}, "{0,1,3}", 2, "{1000}", 2500},
	}
	if !q {
		runs[0].sample, runs[1].sample = 0, 0
	}
	// generate the behaviours of all configurations concurrently (and concurrently with whatever the caller does)
	recsOf := make([][][]byte, len(runs))
	okOf := make([]bool, len(runs))
	var gwg sync.WaitGroup
	for ri, hr := range runs {
		ri, hr := ri, hr
		gwg.Add(1)
		go func() {
			defer gwg.Done()
			qs := make([]string, len(hr.writers))
			for i, w := range hr.writers {
				qs[i] = `"` + w + `"`
			}
			name, mod, consts := vf.MCModule("HeaderConn", map[string]string{"Writers": "{" + strings.Join(qs, ",") + "}", "Sizes": hr.sizes, "Lims": hr.lims},
				map[string]string{"NWrites": fmt.Sprint(hr.nwrites), "HLen": "2", "Gen": "TRUE", "Hist": "TRUE"})
			cfg := "SPECIFICATION Spec\n" + consts + "INVARIANTS " + c16HdrInvs + " EmitTerminal\nCHECK_DEADLOCK FALSE\n"
			res, err := vf.TLC(vf.TLCOpts{Module: name, Cfg: cfg, Extra: map[string]string{name + ".tla": mod}, Timeout: 10 * time.Minute, HeapMB: 4000, Workers: 4,
				OnLine: func(rec []byte) { recsOf[ri] = append(recsOf[ri], append([]byte(nil), rec...)) }})
			okOf[ri] = c16Judge(c, res, err, "HeaderConn behaviours: "+hr.label, note)
		}()
	}
	return func() {
		gwg.Wait()
		total := 0
		rng := rand.New(rand.NewSource(c.Seed))
		for ri, hr := range runs {
			if !okOf[ri] {
				continue
			}
			recs := recsOf[ri]
			sort.Slice(recs, func(i, j int) bool { return string(recs[i]) < string(recs[j]) })
			if hr.sample > 0 && len(recs) > hr.sample {
				rng.Shuffle(len(recs), func(i, j int) { recs[i], recs[j] = recs[j], recs[i] })
				recs = recs[:hr.sample]
			}
			n := 0
			t0 := time.Now()
			for _, rec := range recs {
				if c.Violations() >= 5 {
					break
				}
				var b c16HBeh
				if err := json.Unmarshal(rec, &b); err != nil {
					c.Inconclusive("bad HeaderConn record: %v", err)
					break
				}
				if len(b.Steps) == 0 {
					continue
				}
				sig, detail, stuck := c16HeaderReplayOne(&b, hr.writers)
				n++
				parts := make([]string, len(b.Steps))
				for i, s := range b.Steps {
					parts[i] = s.Stim.String()
				}
				c.Eval("hdr:" + strings.Join(parts, " "))
				if stuck != "" {
					c.Inconclusive("HeaderConn replay: %s", stuck)
					break
				}
				if sig != "" {
					detail["config"] = hr.label
					c.Violation(sig, detail)
					continue
				}
				if len(b.Steps) >= 6 && n%500 == 0 {
					c.Sample(map[string]any{"object": "HeaderConn", "stimuli": parts, "final_observation": json.RawMessage(b.Final)})
				}
			}
			total += n
			c.TraceValidated(int64(n))
			if os.Getenv("VERIF_DEBUG") != "" {
				fmt.Fprintf(os.Stderr, "headerconn replay %q: %d behaviours in %.1fs\n", hr.label, n, time.Since(t0).Seconds())
			}
		}
		c.Cov["headerconn_behaviours_replayed"] = total
	}
}
