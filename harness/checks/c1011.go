package checks

import (
	"context"
	"errors"
	"fmt"
	"math/rand"
	"net"
	"sort"
	"strings"
	"time"

	"github.com/zeebo/errs"

	"storj.io/drpc"
	"storj.io/drpc/drpcconn"
	"storj.io/drpc/drpcerr"
	"storj.io/drpc/drpcmux"
	"storj.io/drpc/drpcserver"

	"verif/dir"
	"verif/sys"
	"verif/vf"
)

func init() {
	All["C10"] = C10
	All["C11"] = C11
}

// C11 — call metadata arrives intact at exactly the RPC it was attached to.
func C11(c *vf.Ctx) {
	c.Assume = append(c.Assume, sysAssumeObs, sysAssumeUnits,
		"the server's base context carries no metadata of its own",
		"codec part: the wire description of the metadata encoding is the one transcribed in spec/MetaCodec.tla (protobuf map<string,string> field 1)")
	nT, nR := sizes(c, 8, 140, 48, 3000)
	fam := sysFamily{prop: "C11", maxRPC: 4, plen: 22,
		cfgs: []sys.Config{
			{Small: true, Soft: true, Threads: thr2},
			{Small: true, Soft: true, Points: []string{"conn.created", "conn.meta.written"}, Threads: thr2},
			{Small: false, Soft: true, Points: []string{"conn.meta.written"}, Threads: thr2},
			{Small: true, Soft: false, Threads: thr2},
		},
		scen:    []string{"metadata-then-abandoned"},
		kinds:   []string{"start", "hstep", "relw", "deliver", "cancel", "point"},
		weights: map[string]int{"invoke": 6, "newstream": 3, "op": 3, "hstep": 8, "relw": 12, "deliver": 9, "cancel": 4, "point": 3},
		tail: func(w *sys.World, rng *rand.Rand, ts *tailState) {
			for _, t := range w.Cfg.Threads {
				w.Step(sys.Stim{K: "point", T: t})
			}
			w.Flow(60, hDefault)
		},
		mons: []func(*runView) []finding{monMetaStrict},
		design: &designCheck{cfg: sys.Config{Small: true, Soft: true, Threads: []string{"c1"}}, kinds: []string{"start", "hstep", "relw", "deliver", "cancel"},
			maxRPC: 2, maxStims: 5, invs: "TypeOK StreamInvs OneWrite MetaScoped"},
		designT: &designCheck{cfg: sys.Config{Small: true, Soft: true, Threads: []string{"c1", "c2"}}, kinds: []string{"start", "hstep", "relw", "deliver", "cancel"},
			maxRPC: 2, maxStims: 5, invs: "TypeOK StreamInvs OneWrite MetaScoped"},
	}
	runSysFamily(c, fam, nT, nR)
	metaCtx(c)
	MetaCodec(c)
	c.Cov["rule"] = "connection part: up to four consecutive/concurrent calls with metadata in {none, M1, M2}, any of them abandoned (soft cancel, hard cancel) between its metadata packet and its invoke (every write parked individually; armed point between stream creation and the first write); the handler's view of drpcmetadata.Get is compared per stream with what was attached to that call, and every run is validated against SystemTrace.tla (whose observation includes the per-stream metadata). Codec part: see MetaCodec (spec/MetaCodec.tla)."
}

// monMetaStrict: the handler serving stream sid saw exactly the metadata of the call that created sid.
func monMetaStrict(v *runView) (out []finding) {
	last := v.r.Lines[len(v.r.Lines)-1].Obs
	for sid := 1; sid <= len(last.HMeta); sid++ {
		got := last.HMeta[sid-1]
		if got == "none" {
			continue // the handler was never entered for this stream
		}
		r, ok := v.sidRPC[sid]
		if !ok {
			out = append(out, finding{"C11", "handler entered for a stream no call invoked", len(v.r.Lines) - 1, map[string]any{"stream": sid}})
			continue
		}
		want := v.rpcMd[r]
		if want == "" || want == "none" {
			want = "nometa"
		}
		if got != want {
			out = append(out, finding{"C11", fmt.Sprintf("handler saw metadata %q but the call carried %q", got, want), len(v.r.Lines) - 1, map[string]any{"stream": sid, "rpc": r}})
		}
	}
	return
}

// C10 — handler errors reach the caller with their message and code intact.
func C10(c *vf.Ctx) {
	c.Assume = append(c.Assume, sysAssumeObs, sysAssumeUnits,
		"connection part: the scripted handler's error for stream s is the text \"e<s>\" with code 4000+s attached under two layers of wrapping",
		"codec part: the error payload layout is the one transcribed in spec/ErrCodec.tla")
	nT, nR := sizes(c, 8, 140, 48, 3000)
	var w0 *sys.World
	var res string
	fam := sysFamily{prop: "C10", maxRPC: 3, plen: 16,
		cfgs: []sys.Config{
			{Small: true, Threads: thr2},
			{Small: false, Threads: thr2},
			{Small: false, Manual: true, Soft: true, Threads: thr2},
		},
		scen:    []string{"undecodable-message"},
		kinds:   []string{"start", "hstep", "relw", "deliver"},
		weights: map[string]int{"invoke": 3, "newstream": 3, "op": 5, "hstep": 8, "relw": 10, "deliver": 10},
		tail: func(w *sys.World, rng *rand.Rand, ts *tailState) {
			w0 = w
			res = "skipped"
			// the handler (if one is running) sends k more messages and fails; the client reads until the error
			k := rng.Intn(3)
			w.Flow(40, nil)
			if strings.HasPrefix(w.Last().App["sv"], "h:") {
				for i := 0; i < k; i++ {
					w.Step(sys.Stim{K: "hstep", A: "send1"})
					w.Flow(20, nil)
				}
				w.Step(sys.Stim{K: "hstep", A: "reterr"})
				ts.mark(w, "reterr")
				w.Flow(40, nil)
				for i := 0; i < k+3; i++ {
					r := w.NRPC()
					if t := w.FreeThread(); t != "" && w.HasStream(r) {
						if !w.Step(sys.Stim{K: "op", T: t, Op: "Recv", R: r}) {
							break
						}
						w.Flow(20, nil)
					}
				}
			}
			ts.mark(w, "read")
			ts.Notes["codes"] = fmt.Sprint(w.Codes)
			if endAll(w, hDrain) {
				res = probe(w, ts)
			}
		},
		mons: []func(*runView) []finding{monDelivery, monIsolation},
		post: func(v *runView, ts *tailState) (out []finding) {
			// every error of the form remote:e<sid> carries code 4000+sid and arrives after the messages sent before it
			for _, o := range v.ops {
				if strings.HasPrefix(o.Res, "remote:") {
					sid := v.rpcSid[o.R]
					if o.Res != fmt.Sprintf("remote:e%d", sid) {
						out = append(out, finding{"C10", "the client saw an error text the handler did not return: " + o.Res, o.End, map[string]any{"op": o, "stream": sid}})
					}
				}
			}
			if w0 != nil {
				for _, o := range v.ops {
					if strings.HasPrefix(o.Res, "remote:e") {
						latest := true
						for _, p := range v.ops {
							if p.T == o.T && p.Start > o.Start {
								latest = false
							}
						}
						if latest {
							if code := w0.Code(o.T); code != 4000+uint64(v.rpcSid[o.R]) {
								out = append(out, finding{"C10", fmt.Sprintf("error code not intact: got %d", code), o.End, map[string]any{"op": o}})
							}
						}
					}
				}
			}
			// messages the handler sent before failing are received first: a client receive that reports the error must
			// come after every message of that stream that reached the wire completely before the Error frame
			for _, o := range v.ops {
				if o.Kind != "Recv" || !strings.HasPrefix(o.Res, "remote:e") {
					continue
				}
				sid := v.rpcSid[o.R]
				sent := 0
				for _, f := range v.wire["srv"] {
					if f.Sid == sid && f.Kind == "Message" && f.Done {
						sent++
					}
				}
				got := 0
				for _, p := range v.ops {
					if p.R == o.R && (p.Kind == "Recv" || p.Kind == "Invoke") && (strings.HasPrefix(p.Res, "msg:") || p.Res == "decodeErr") && p.End <= o.End {
						got++
					}
				}
				if got < sent && !v.relwErr {
					out = append(out, finding{"C10", "the error overtook messages the handler had sent before failing", o.End, map[string]any{"sent": sent, "received_before_error": got}})
				}
			}
			out = append(out, probeFinding("C10", v, ts, res)...)
			return out
		},
		own: map[string]bool{"C10": true},
		design: &designCheck{cfg: sys.Config{Small: false, Threads: []string{"c1"}}, kinds: []string{"start", "hstep", "relw", "deliver"},
			maxRPC: 1, maxStims: 6, invs: "TypeOK StreamInvs OneWrite WireOrdered"},
		designT: &designCheck{cfg: sys.Config{Small: true, Threads: []string{"c1"}}, kinds: []string{"start", "hstep", "relw", "deliver"},
			maxRPC: 2, maxStims: 10, invs: "TypeOK StreamInvs OneWrite WireOrdered"}, // measured: 2.1e6 distinct, 1.5 min
	}
	runSysFamily(c, fam, nT, nR)
	muxErrors(c)
	ErrorCodec(c)
	c.Cov["rule"] = "connection part: unary and streaming calls whose handler sends k in {0,1,2} messages and then fails (error text and 64-bit code attached under wrapping), every write parked and every delivery delayed individually; the client's receives must yield the k messages and then exactly that text and code; then the connection is probed. Dispatcher part: real drpcmux with the four method shapes, unknown rpc, undecodable request, handler errors over message/code/wrapping classes. Codec part: see ErrorCodec (spec/ErrCodec.tla)."
}

// ---- dispatcher failures and the four shapes through the real drpcmux ------------------------------

type muxSrv struct {
	fail    func() error
	sendK   int
	partial bool // the unary handler returns a (partial) response value together with its error
}

type muxDesc struct{}

func (muxDesc) NumMethods() int { return 4 }

// badEnc is the server's encoding: a request that starts with "!bad" does not decode.
type badEnc struct{ dir.GateEnc }

func (e *badEnc) Unmarshal(b []byte, m drpc.Message) error {
	if strings.HasPrefix(string(b), "!bad") {
		return errors.New("cannot decode request")
	}
	return e.GateEnc.Unmarshal(b, m)
}

func (muxDesc) Method(n int) (string, drpc.Encoding, drpc.Receiver, interface{}, bool) {
	enc := &badEnc{}
	switch n {
	case 0:
		return "/svc/Unary", enc, func(srv interface{}, ctx context.Context, in1, in2 interface{}) (drpc.Message, error) {
			return srv.(*muxSrv).Unary(ctx, in1.(*dir.Msg))
		}, (*muxSrv).Unary, true
	case 1:
		return "/svc/ServerStream", enc, func(srv interface{}, ctx context.Context, in1, in2 interface{}) (drpc.Message, error) {
			return nil, srv.(*muxSrv).ServerStream(in1.(*dir.Msg), in2.(drpc.Stream))
		}, (*muxSrv).ServerStream, true
	case 2:
		return "/svc/ClientStream", enc, func(srv interface{}, ctx context.Context, in1, in2 interface{}) (drpc.Message, error) {
			return nil, srv.(*muxSrv).ClientStream(in1.(drpc.Stream))
		}, (*muxSrv).ClientStream, true
	case 3:
		return "/svc/Bidi", enc, func(srv interface{}, ctx context.Context, in1, in2 interface{}) (drpc.Message, error) {
			return nil, srv.(*muxSrv).Bidi(in1.(drpc.Stream))
		}, (*muxSrv).Bidi, true
	}
	return "", nil, nil, nil, false
}

func (s *muxSrv) Unary(ctx context.Context, in *dir.Msg) (*dir.Msg, error) {
	if err := s.fail(); err != nil {
		if s.partial {
			return &dir.Msg{Data: []byte("partial")}, err // common Go style: return resp, err
		}
		return nil, err
	}
	return &dir.Msg{Data: append([]byte("re:"), in.Data...)}, nil
}
func (s *muxSrv) ServerStream(in *dir.Msg, st drpc.Stream) error {
	for i := 0; i < s.sendK; i++ {
		if err := st.MsgSend(&dir.Msg{Data: []byte(fmt.Sprintf("m%d", i))}, &dir.GateEnc{}); err != nil {
			return err
		}
	}
	return s.fail()
}
func (s *muxSrv) ClientStream(st drpc.Stream) error {
	var m dir.Msg
	for {
		if err := st.MsgRecv(&m, &dir.GateEnc{}); err != nil {
			break
		}
	}
	if err := s.fail(); err != nil {
		return err
	}
	return st.MsgSend(&dir.Msg{Data: []byte("sum")}, &dir.GateEnc{})
}
func (s *muxSrv) Bidi(st drpc.Stream) error {
	for i := 0; i < s.sendK; i++ {
		if err := st.MsgSend(&dir.Msg{Data: []byte(fmt.Sprintf("m%d", i))}, &dir.GateEnc{}); err != nil {
			return err
		}
	}
	return s.fail()
}

type causeOnly struct{ inner error }

func (c causeOnly) Error() string { return c.inner.Error() }
func (c causeOnly) Cause() error  { return c.inner }

func muxErrors(c *vf.Ctx) {
	type errCase struct {
		name string
		mk   func() error
		msg  string
		code uint64
	}
	long := strings.Repeat("x", 70000)
	base := func(msg string, code uint64, hasCode bool) func() error {
		return func() error {
			var e error = errors.New(msg)
			if hasCode {
				e = drpcerr.WithCode(e, code)
			}
			return e
		}
	}
	var cases []errCase
	for _, m := range []string{"", "a", long, "bad\xffutf8", "100% %s %d", "nul\x00byte", "line1\r\nline2"} {
		for _, cd := range []struct {
			has bool
			v   uint64
		}{{false, 0}, {true, 0}, {true, 1}, {true, 12}, {true, 1 << 32}, {true, 1 << 63}, {true, ^uint64(0)}} {
			m, cd := m, cd
			cases = append(cases, errCase{fmt.Sprintf("plain/%d/%v", len(m), cd), base(m, cd.v, cd.has), m, cd.v})
		}
	}
	// wrapping: the code sits on an inner error
	for depth := 1; depth <= 50; depth *= 5 {
		depth := depth
		cases = append(cases, errCase{fmt.Sprintf("fmtw/%d", depth), func() error {
			var e error = drpcerr.WithCode(errors.New("inner"), 77)
			for i := 0; i < depth; i++ {
				e = fmt.Errorf("%w", e)
			}
			return e
		}, "inner", 77})
		cases = append(cases, errCase{fmt.Sprintf("errswrap/%d", depth), func() error {
			var e error = drpcerr.WithCode(errors.New("inner"), 78)
			for i := 0; i < depth; i++ {
				e = errs.Wrap(e)
			}
			return e
		}, "inner", 78})
		cases = append(cases, errCase{fmt.Sprintf("cause/%d", depth), func() error {
			var e error = drpcerr.WithCode(errors.New("inner"), 79)
			for i := 0; i < depth; i++ {
				e = causeOnly{e}
			}
			return e
		}, "inner", 79})
	}
	enc := &dir.GateEnc{}
	n := 0
	for _, tc := range cases {
		for _, k := range []int{0, 1, 2} {
			if c.Quick() && (len(tc.msg) > 1000 && k > 0) {
				continue
			}
			srvImpl := &muxSrv{fail: tc.mk, sendK: k}
			mux := drpcmux.New()
			if err := mux.Register(srvImpl, muxDesc{}); err != nil {
				c.Inconclusive("mux register: %v", err)
				return
			}
			a, b := net.Pipe()
			srv := drpcserver.New(mux)
			ctx, cancel := context.WithCancel(context.Background())
			done := make(chan struct{})
			go func() { _ = srv.ServeOne(ctx, b); close(done) }()
			conn := drpcconn.New(a)
			check := func(shape string, err error, gotMsgs int) {
				n++
				c.Eval(fmt.Sprintf("mux:%s:%s:%d", shape, tc.name, k))
				if err == nil {
					c.Violation("handler error lost: the client call succeeded ("+shape+")", map[string]any{"case": tc.name, "k": k})
					return
				}
				if err.Error() != tc.msg || drpcerr.Code(err) != tc.code {
					c.Violation("handler error not intact at the client ("+shape+")", map[string]any{"case": tc.name, "k": k, "got_len": len(err.Error()), "got_code": drpcerr.Code(err), "want_code": tc.code,
						"got_prefix": trunc(err.Error(), 80), "want_prefix": trunc(tc.msg, 80)})
				}
				if (shape == "server-stream" || shape == "bidi") && gotMsgs != k {
					c.Violation("messages sent before the handler failed were not all received first ("+shape+")", map[string]any{"case": tc.name, "sent": k, "received": gotMsgs})
				}
			}
			// unary
			var out dir.Msg
			check("unary", conn.Invoke(context.Background(), "/svc/Unary", enc, &dir.Msg{Data: []byte("q")}, &out), 0)
			srvImpl.partial = true
			check("unary, handler returns a response value with its error", conn.Invoke(context.Background(), "/svc/Unary", enc, &dir.Msg{Data: []byte("q")}, &out), 0)
			srvImpl.partial = false
			// server stream
			recvAll := func(st drpc.Stream) (int, error) {
				got := 0
				for {
					var m dir.Msg
					if err := st.MsgRecv(&m, enc); err != nil {
						return got, err
					}
					got++
					if got > 10 {
						return got, errors.New("too many messages")
					}
				}
			}
			if st, err := conn.NewStream(context.Background(), "/svc/ServerStream", enc); err == nil {
				_ = st.MsgSend(&dir.Msg{Data: []byte("q")}, enc)
				_ = st.CloseSend()
				g, e := recvAll(st)
				check("server-stream", e, g)
				_ = st.Close()
			}
			if st, err := conn.NewStream(context.Background(), "/svc/ClientStream", enc); err == nil {
				_ = st.MsgSend(&dir.Msg{Data: []byte("q1")}, enc)
				_ = st.CloseSend()
				_, e := recvAll(st)
				check("client-stream", e, 0)
				_ = st.Close()
			}
			if st, err := conn.NewStream(context.Background(), "/svc/Bidi", enc); err == nil {
				g, e := recvAll(st)
				check("bidi", e, g)
				_ = st.Close()
			}
			// dispatcher failures
			err := conn.Invoke(context.Background(), "/svc/Nope", enc, &dir.Msg{Data: []byte("q")}, &out)
			if err == nil || !strings.Contains(err.Error(), `unknown rpc: "/svc/Nope"`) {
				c.Violation("unknown rpc not reported to the caller", map[string]any{"got": fmt.Sprint(err)})
			}
			// a request the dispatcher cannot decode: the caller gets that error, nothing hangs
			hung := func(what string, f func() error) (error, bool) {
				ch := make(chan error, 1)
				go func() { ch <- f() }()
				select {
				case e := <-ch:
					return e, false
				case <-time.After(8 * time.Second):
					where := []string{}
					for _, g := range vf.Census() {
						if fr := g.Innermost("storj.io/drpc/"); fr != "" && g.Blocked() {
							where = append(where, fr[strings.LastIndex(fr, "/")+1:])
						}
					}
					sort.Strings(where)
					c.Violation("call does not return: "+what, map[string]any{"case": tc.name, "parked": where})
					_ = a.Close()
					_ = b.Close()
					return nil, true
				}
			}
			if k == 0 {
				e, h := hung("unary call with an undecodable request", func() error {
					return conn.Invoke(context.Background(), "/svc/Unary", enc, &dir.Msg{Data: []byte("!bad request")}, &out)
				})
				if h {
					cancel()
					continue
				}
				if e == nil || e.Error() != "cannot decode request" {
					c.Violation("undecodable request not reported to the caller with the decoder's error", map[string]any{"got": fmt.Sprint(e)})
				}
			}
			// the connection remains usable: a handler that returns a response and no error never yields an error
			srvImpl.fail = func() error { return nil }
			e, h := hung("unary call on a connection that served failing calls before", func() error {
				return conn.Invoke(context.Background(), "/svc/Unary", enc, &dir.Msg{Data: []byte("ok")}, &out)
			})
			if h {
				cancel()
				continue
			}
			if e != nil || string(out.Data) != "re:ok" {
				c.Violation("connection not usable after handler errors, or a successful handler yielded an error", map[string]any{"case": tc.name, "err": fmt.Sprint(e), "reply": string(out.Data)})
			}
			_ = conn.Close()
			cancel()
			<-done
		}
	}
	c.Cov["mux_error_cases"] = n
}

func trunc(s string, n int) string {
	if len(s) > n {
		return s[:n]
	}
	return s
}
