package checks

import (
	"fmt"
	"sort"
	"strconv"
	"strings"

	"verif/sys"
)

// finding is a property-level failure observed on a real run.
type finding struct {
	Prop string
	Sig  string
	At   int // line index
	Info map[string]any
}

// runView is a recorded run digested for the monitors.
type runView struct {
	r        *sysRun
	rpcKind  map[int]string // r -> Invoke|NewStream
	rpcMd    map[int]string
	rpcSid   map[int]int // r -> stream id (from the wire)
	sidRPC   map[int]int
	cancelAt map[int]int // r -> line of the cancel stimulus
	faultAt  map[string]int
	closeAt  int // line of the first connclose stimulus (-1)
	csrvAt   int
	ops      []opRec
	wire     map[string][]wframe
	relwErr  bool
}

type opRec struct {
	T      string
	Kind   string // Invoke NewStream Send1 Send2 Recv CloseSend Close ConnClose
	R      int
	Start  int
	End    int // line at which the result was first observed (-1 = never)
	Res    string
	Tag    string // tag of the message a send submits
	Frames int
}

type wframe struct {
	Line      int
	Write     int
	Kind      string
	Sid, Mid  int
	Done, Ctl bool
	Tag       string
	Garbage   bool
}

func parseFrame(s string, line, write int) wframe {
	f := wframe{Line: line, Write: write}
	if strings.HasPrefix(s, "garbage:") {
		f.Garbage = true
		return f
	}
	p := strings.SplitN(s, "/", 4)
	if len(p) < 4 {
		f.Garbage = true
		return f
	}
	f.Kind = p[0]
	f.Sid, _ = strconv.Atoi(p[1])
	m := p[2]
	if len(m) >= 2 {
		f.Done = m[len(m)-2] == 'd'
		f.Ctl = m[len(m)-1] == 'c'
		f.Mid, _ = strconv.Atoi(m[:len(m)-2])
	}
	f.Tag = p[3]
	return f
}

func view(r *sysRun) *runView {
	v := &runView{r: r, rpcKind: map[int]string{}, rpcMd: map[int]string{}, rpcSid: map[int]int{}, sidRPC: map[int]int{},
		cancelAt: map[int]int{}, faultAt: map[string]int{}, closeAt: -1, csrvAt: -1, wire: map[string][]wframe{}}
	nrpc := 0
	cur := map[string]int{} // thread -> index into ops
	nst := 0
	nw := map[string]int{}
	for i, l := range r.Lines {
		st := l.Stim
		if st.K != "reset" {
			nst++
		}
		switch st.K {
		case "start":
			nrpc++
			v.rpcKind[nrpc], v.rpcMd[nrpc] = st.Op, st.Md
			sk := st.Op
			if sk == "InvokeBad" { // a unary call whose request does not marshal: an Invoke as far as the monitors are concerned
				sk = "Invoke"
			}
			v.ops = append(v.ops, opRec{T: st.T, Kind: sk, R: nrpc, Start: i, End: -1})
			cur[st.T] = len(v.ops) - 1
		case "op":
			kind := st.Op
			if kind == "RecvRaw" { // RawRecv: a receive like MsgRecv as far as the monitors are concerned
				kind = "Recv"
			}
			o := opRec{T: st.T, Kind: kind, R: st.R, Start: i, End: -1}
			if st.Op == "Send1" || st.Op == "Send2" {
				o.Tag = fmt.Sprintf("%d.%d", st.R, nst)
				o.Frames = 1
				if st.Op == "Send2" {
					o.Frames = 2
				}
			}
			v.ops = append(v.ops, o)
			cur[st.T] = len(v.ops) - 1
		case "connclose":
			if v.closeAt < 0 {
				v.closeAt = i
			}
			v.ops = append(v.ops, opRec{T: st.T, Kind: "ConnClose", Start: i, End: -1})
			cur[st.T] = len(v.ops) - 1
		case "cancel":
			if _, ok := v.cancelAt[st.R]; !ok {
				v.cancelAt[st.R] = i
			}
		case "cancelsrv":
			v.csrvAt = i
		case "fault":
			if _, ok := v.faultAt[st.E]; !ok {
				v.faultAt[st.E] = i
			}
		case "relw":
			if st.How == "err" {
				v.relwErr = true
			}
		}
		for t, idx := range cur {
			if s := l.Obs.App[t]; strings.HasPrefix(s, "ret:") && v.ops[idx].End < 0 && i >= v.ops[idx].Start {
				v.ops[idx].End, v.ops[idx].Res = i, s[4:]
			}
		}
		for _, e := range []string{"cli", "srv"} {
			for _, w := range l.Obs.NewW[e] {
				for _, fs := range w {
					f := parseFrame(fs, i, nw[e])
					v.wire[e] = append(v.wire[e], f)
					if e == "cli" && f.Kind == "Invoke" {
						if p := strings.SplitN(f.Tag, ".", 2); len(p) == 2 {
							if rr, err := strconv.Atoi(p[0]); err == nil {
								v.rpcSid[rr], v.sidRPC[f.Sid] = f.Sid, rr
							}
						}
					}
				}
				nw[e]++
			}
		}
	}
	return v
}

// ---- C07: the bytes on the transport form a valid, non-interleaved frame stream -------------

func monWire(v *runView) (out []finding) {
	for _, e := range []string{"cli", "srv"} {
		type id struct{ s, m int }
		kind := map[id]string{}
		done := map[id]bool{}
		var last id
		// a stream whose message ids restart at 1 after frames of that stream id were already on the wire is a
		// second stream under the same id
		reused := map[int]bool{}
		firstDone := map[int]bool{}
		for _, f := range v.wire[e] {
			if !f.Garbage && f.Mid == 1 {
				if firstDone[f.Sid] && !reused[f.Sid] {
					reused[f.Sid] = true
					out = append(out, finding{"C07", "stream id reused on the wire: frames of two different streams carry the same stream id (message ids restart at 1)", f.Line, map[string]any{"endpoint": e, "frame": f}})
				}
				if f.Done {
					firstDone[f.Sid] = true
				}
			}
		}
		for _, f := range v.wire[e] {
			if !f.Garbage && reused[f.Sid] {
				continue // reported above as id reuse
			}
			if f.Garbage {
				out = append(out, finding{"C07", "a transport write is not a sequence of whole well-formed frames", f.Line, map[string]any{"endpoint": e}})
				continue
			}
			k := id{f.Sid, f.Mid}
			if k.s < last.s || (k.s == last.s && k.m < last.m) {
				out = append(out, finding{"C07", "frame ids go backwards on the wire", f.Line, map[string]any{"endpoint": e, "frame": f, "after": last}})
			}
			if kk, ok := kind[k]; ok && kk != f.Kind {
				out = append(out, finding{"C07", "two kinds under one frame id", f.Line, map[string]any{"endpoint": e, "frame": f}})
			}
			if done[k] {
				out = append(out, finding{"C07", "a frame follows the final frame of its id", f.Line, map[string]any{"endpoint": e, "frame": f}})
			}
			kind[k] = f.Kind
			if f.Done {
				done[k] = true
			}
			last = k
		}
	}
	for _, d := range v.r.Direct {
		if strings.HasPrefix(d, "bytes returned by RawRecv") {
			// what a call received was altered afterwards (C01), by traffic of a later message or RPC (C02)
			out = append(out, finding{"C01", d, len(v.r.Lines) - 1, nil}, finding{"C02", d, len(v.r.Lines) - 1, nil})
			continue
		}
		out = append(out, finding{"C07", d, len(v.r.Lines) - 1, nil})
	}
	for i, l := range v.r.Lines {
		for e, n := range l.Obs.TClose {
			if n > 1 {
				out = append(out, finding{"C07", "transport closed more than once", i, map[string]any{"endpoint": e, "count": n}})
				return
			}
		}
	}
	return
}

// ---- C01/C02: delivery and isolation ----------------------------------------------------------

// received returns, per receiving side, the message tags obtained, with the line at which each was observed.
type rcv struct {
	Line int
	Tag  string
	By   string // "h" (handler) or the client thread
	R    int    // client RPC of the receiving call (client side)
}

func received(v *runView) (byHandler []rcv, byClient []rcv) {
	prevH := ""
	for i, l := range v.r.Lines {
		h := l.Obs.App["sv"]
		if l.Stim.K == "hstep" && l.Stim.A == "recv" {
			prevH = "armed"
		}
		if prevH == "armed" && strings.HasPrefix(h, "h:") {
			if strings.HasPrefix(h, "h:msg:") {
				byHandler = append(byHandler, rcv{Line: i, Tag: h[6:], By: "h"})
			}
			prevH = ""
		}
	}
	for _, o := range v.ops {
		if (o.Kind == "Recv" || o.Kind == "Invoke") && strings.HasPrefix(o.Res, "msg:") {
			if strings.HasPrefix(o.Res, "msg:bad") {
				continue // RawRecv handed out an undecodable payload as it is; like MsgRecv's decode error it is not counted as a message
			}
			byClient = append(byClient, rcv{Line: o.End, Tag: o.Res[4:], By: o.T, R: o.R})
		}
	}
	sort.SliceStable(byClient, func(a, b int) bool { return byClient[a].Line < byClient[b].Line })
	return
}

func sentOrder(v *runView, e string, match func(tag string) bool) (tags []string, complete map[string]int, frames map[string]int) {
	seen := map[string]bool{}
	complete = map[string]int{}
	frames = map[string]int{}
	for _, f := range v.wire[e] {
		if f.Kind != "Message" || !match(f.Tag) {
			continue
		}
		frames[f.Tag]++
		if !seen[f.Tag] {
			seen[f.Tag] = true
			tags = append(tags, f.Tag)
		}
		if f.Done {
			complete[f.Tag] = f.Line
		}
	}
	return
}

func monDelivery(v *runView) (out []finding) {
	if v.relwErr {
		// the director made a Write return an error while the connection lived on (not something a real
		// transport does): the message of that Write is legitimately missing, order checks do not apply
		return monIsolationOnly(v)
	}
	byH, byC := received(v)
	// client -> server, per RPC r (tags "r.n")
	for r := range v.rpcKind {
		pre := strconv.Itoa(r) + "."
		sent, _, _ := sentOrder(v, "cli", func(t string) bool { return strings.HasPrefix(t, pre) })
		var got []rcv
		for _, x := range byH {
			if strings.HasPrefix(x.Tag, pre) {
				got = append(got, x)
			}
		}
		out = append(out, prefixCheck("C01", fmt.Sprintf("client->server rpc %d", r), sent, got)...)
	}
	// server -> client, per stream sid (tags "s<sid>.n")
	sids := map[int]bool{}
	for _, f := range v.wire["srv"] {
		sids[f.Sid] = true
	}
	for sid := range sids {
		pre := "s" + strconv.Itoa(sid) + "."
		sent, _, _ := sentOrder(v, "srv", func(t string) bool { return strings.HasPrefix(t, pre) })
		var got []rcv
		for _, x := range byC {
			if strings.HasPrefix(x.Tag, pre) {
				got = append(got, x)
			}
		}
		out = append(out, prefixCheck("C01", fmt.Sprintf("server->client stream %d", sid), sent, got)...)
	}
	// a send that returned nil (automatic flushing) has put all its frames on the transport
	if !v.r.Cfg.Manual {
		for _, o := range v.ops {
			if o.Frames > 0 && o.Res == "nil" {
				n := 0
				for _, f := range v.wire["cli"] {
					if f.Kind == "Message" && f.Tag == o.Tag && f.Line <= o.End {
						n++
					}
				}
				if n != o.Frames {
					out = append(out, finding{"C01", "MsgSend returned nil but not all frames of the message were handed to the transport", o.End,
						map[string]any{"tag": o.Tag, "frames_on_wire": n, "expected": o.Frames}})
				}
			}
		}
	}
	// nothing altered: what a call submits under its stream id is its own data (request and message tags name their rpc)
	for _, f := range v.wire["cli"] {
		if f.Kind != "Message" {
			continue
		}
		var r int
		if n, _ := fmt.Sscanf(f.Tag, "%d.", &r); n == 1 && r > 0 {
			if owner, ok := v.sidRPC[f.Sid]; ok && owner != r {
				out = append(out, finding{"C01", "a message went out with the payload of another call", f.Line, map[string]any{"frame": f, "payload_of_rpc": r, "stream_of_rpc": owner}})
			}
		}
	}
	// isolation (C02): whatever a call of RPC r receives was sent on r's stream
	for _, x := range byC {
		sid := v.rpcSid[x.R]
		// (RawRecv hands out an undecodable payload "bad<sid>" as it is: still the stream's own message)
		if !(strings.HasPrefix(x.Tag, "s"+strconv.Itoa(sid)+".") || x.Tag == "bad"+strconv.Itoa(sid)) || sid == 0 {
			out = append(out, finding{"C02", "a client call received a message of another stream", x.Line, map[string]any{"rpc": x.R, "stream": sid, "tag": x.Tag}})
		}
	}
	return
}

// monPeerRejects: between two conforming endpoints neither reader ever rejects what the other wrote.  When it does
// (id monotonicity, invoke on an existing stream, unknown kind), packets of one stream have disturbed the whole
// connection: every RPC on it fails (C02), and the bytes were not a valid frame stream (C07).
func monPeerRejects(v *runView) (out []finding) {
	for i, l := range v.r.Lines {
		for t, st := range l.Obs.App {
			if strings.Contains(st, "monotonicity") || strings.Contains(st, "mgr:protoInvoke") || strings.Contains(st, "mgr:internalKind") {
				what := "an endpoint's reader rejected the frame stream of its (conforming) peer: " + st[strings.Index(st, ":")+1:]
				out = append(out, finding{"C02", what, i, map[string]any{"thread": t}}, finding{"C07", what, i, map[string]any{"thread": t}})
				return
			}
		}
	}
	return
}

func monIsolationOnly(v *runView) (out []finding) {
	_, byC := received(v)
	for _, x := range byC {
		sid := v.rpcSid[x.R]
		// (RawRecv hands out an undecodable payload "bad<sid>" as it is: still the stream's own message)
		if !(strings.HasPrefix(x.Tag, "s"+strconv.Itoa(sid)+".") || x.Tag == "bad"+strconv.Itoa(sid)) || sid == 0 {
			out = append(out, finding{"C02", "a client call received a message of another stream", x.Line, map[string]any{"rpc": x.R, "stream": sid, "tag": x.Tag}})
		}
	}
	return
}

// prefixCheck: at every line the multiset received so far equals the first k submitted (wire order).
func prefixCheck(prop, what string, sent []string, got []rcv) (out []finding) {
	seen := map[string]bool{}
	for i := 0; i < len(got); {
		j := i
		for j < len(got) && got[j].Line == got[i].Line {
			j++
		}
		for _, x := range got[i:j] {
			if seen[x.Tag] {
				out = append(out, finding{prop, "message delivered twice (" + dirOf(what) + ")", x.Line, map[string]any{"what": what, "tag": x.Tag}})
				return
			}
			seen[x.Tag] = true
		}
		if j > len(sent) {
			out = append(out, finding{prop, "message delivered that was never submitted (" + dirOf(what) + ")", got[i].Line, map[string]any{"what": what, "received": tagsOf(got[:j]), "sent": sent}})
			return
		}
		for _, s := range sent[:j] {
			if !seen[s] {
				out = append(out, finding{prop, "messages delivered out of order or skipped (" + dirOf(what) + ")", got[i].Line, map[string]any{"what": what, "received": tagsOf(got[:j]), "sent": sent}})
				return
			}
		}
		i = j
	}
	return
}

func dirOf(what string) string { return strings.SplitN(what, " ", 2)[0] }
func tagsOf(g []rcv) []string {
	o := []string{}
	for _, x := range g {
		o = append(o, x.Tag)
	}
	return o
}

// ---- C11: metadata -----------------------------------------------------------------------------

func monMeta(v *runView) (out []finding) {
	last := v.r.Lines[len(v.r.Lines)-1].Obs
	for sid, r := range v.sidRPC {
		if sid < 1 || sid > len(last.HMeta) {
			continue
		}
		// only streams the handler was entered for have an entry; "none" for both "not entered" and "no metadata"
		want := v.rpcMd[r]
		if want == "" {
			want = "none"
		}
		got := last.HMeta[sid-1]
		entered := false
		for _, l := range v.r.Lines {
			_ = l
		}
		_ = entered
		if got != "none" && got != want {
			out = append(out, finding{"C11", "handler saw metadata that was not attached to its call", len(v.r.Lines) - 1, map[string]any{"stream": sid, "rpc": r, "saw": got, "attached": want}})
		}
	}
	return
}

// ---- helpers for the liveness-style monitors ------------------------------------------------------

func parkedInDrpc(s string) bool { return s == "blk" || s == "tw" }

// stuckOps lists client calls that are still parked inside drpc at the last line.
func stuckAtEnd(v *runView) (out []opRec) {
	last := v.r.Lines[len(v.r.Lines)-1].Obs
	for _, o := range v.ops {
		if o.End < 0 && parkedInDrpc(last.App[o.T]) {
			// only the latest op of each thread can still be running
			latest := true
			for _, p := range v.ops {
				if p.T == o.T && p.Start > o.Start {
					latest = false
				}
			}
			if latest {
				out = append(out, o)
			}
		}
	}
	return
}

var _ = sys.MaxRPC
