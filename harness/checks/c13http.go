package checks

import (
	"verif/vf"
)

// C13Http is the HTTP-gateway part of C13 (no peer bytes and no handler error can crash a receive
// path).  It is not registered on its own: the C13 union check calls it.
//
// The hostile inputs are the ones spec/Http.tla enumerates — every X-Drpc-Metadata string over the
// class alphabet (incl. "mostly %"), the request body classes (empty, short header, header only,
// payload shorter than the length field, length field 2^32-1, sizes around 4 MiB, base64 junk) for
// every content type, and abstract error chains for getCode / drpcerr.Code (Code() uint64 / string,
// Cause, Unwrap, both, link to nil, self-cycle, 2-cycle, typed nil pointer, wrapper depth around
// and beyond the unwrap bound) — and the demanded result here is only "a value or an error":
// no panic in ServeHTTP or drpcerr.Code, and a request of a few bytes never makes the gateway
// allocate more than one maximal message plus its header, whatever its length field says.
func C13Http(c *vf.Ctx) {
	c.Assume = append(c.Assume,
		"HTTP gateway: hostile header values, body classes and error values are the class enumerations of spec/Http.tla (modes meta, size, chain, resp); allocation is measured as the TotalAlloc delta around ServeHTTP for requests of a few bytes (bound: 4 MiB + 5 + 1 MiB slack for recorder and runtime)")
	hr := newHTTPRunner(c, false)
	for _, mode := range []string{"meta", "size", "chain", "resp"} {
		httpTLC(c, mode, hr.one)
	}
	c.Cov["http_cases_per_mode"] = hr.perMode
	if len(hr.classes) > 0 {
		c.Cov["http_failure_classes"] = hr.classes
	}
}
