package checks

// Replay of Pool.tla behaviours on a real drpcpool.Pool with fake connections and fake time.
//
// testing/synctest needs a *testing.T, so the replay runs in a sub-process of the same binary
// ("verif sub c15replay") whose main is testing.Main with a single test function; the check
// (c15.go) feeds it behaviours on stdin, one JSON object per line, and reads one "@@"-prefixed
// JSON result per behaviour from stdout.

import (
	"bufio"
	"context"
	"encoding/json"
	"fmt"
	"os"
	"sort"
	"strings"
	"sync"
	"sync/atomic"
	"testing"
	"testing/synctest"
	"time"

	"storj.io/drpc"
	"storj.io/drpc/drpcpool"
)

// one step of a behaviour: the label of the action and what the specification demands afterwards
type c15Step struct {
	A     string   // action
	K     int      // key
	C     int      // connection
	E     int      // entry id
	R     string   // result ("cached", "closed", "dropped", "panic", "removed", "nolist", or the connection Take returns, "0" = none)
	OC    int      // p.order.count
	OL    int      // walked length of p.order (-1 = cycle)
	Kin   []bool   // key present in p.entries
	KC    []int    // count field per key
	KL    []int    // walked length per key
	Calls []int    // Close calls per connection
	Tm    []string // timer state per entry
	Pn    string   // panic
	Rt    []string // routes taken so far
	An    []string // property statements falsified so far
}

func (s *c15Step) UnmarshalJSON(b []byte) error {
	var raw []json.RawMessage
	if err := json.Unmarshal(b, &raw); err != nil {
		return err
	}
	if len(raw) != 15 {
		return fmt.Errorf("step with %d fields", len(raw))
	}
	s.R = strings.Trim(string(raw[4]), `"`)
	dst := []any{&s.A, &s.K, &s.C, &s.E, nil, &s.OC, &s.OL, &s.Kin, &s.KC, &s.KL, &s.Calls, &s.Tm, &s.Pn, &s.Rt, &s.An}
	for i, d := range dst {
		if d == nil {
			continue
		}
		if err := json.Unmarshal(raw[i], d); err != nil {
			return fmt.Errorf("field %d: %v", i, err)
		}
	}
	return nil
}

func (s *c15Step) Label() string {
	switch s.A {
	case "Put":
		return fmt.Sprintf("Put(k%d,c%d)", s.K, s.C)
	case "Take":
		return fmt.Sprintf("Take(k%d)", s.K)
	case "PoolClose":
		return "PoolClose"
	case "TimerFire", "ExpiryClose", "ExpiryRemove":
		return fmt.Sprintf("%s(e%d:c%d)", s.A, s.E, s.C)
	}
	return fmt.Sprintf("%s(c%d)", s.A, s.C)
}

type c15Beh struct {
	Cap    int       `json:"cap"`
	Kcap   int       `json:"kcap"`
	Exp    bool      `json:"exp"`
	Steps  []c15Step `json:"steps"`
	Term   bool      `json:"term"` // the behaviour ends in a terminal state of the specification
	Final  []string  `json:"final"`
	Leaked []int     `json:"leaked"`
}

func (b *c15Beh) Labels() []string {
	l := make([]string, len(b.Steps))
	for i := range b.Steps {
		l[i] = b.Steps[i].Label()
	}
	return l
}

type c15Viol struct {
	Sig    string `json:"sig"`
	Step   int    `json:"step"` // index of the step after which it was observed (-1: at the end)
	Detail string `json:"detail,omitempty"`
}

type c15Result struct {
	I        int         `json:"i"`
	Probe    *c15Variant `json:"probe,omitempty"`
	Viol     []c15Viol   `json:"viol,omitempty"`
	Diverged string      `json:"diverged,omitempty"` // first observable on which the real pool and the specification differ
	DivStep  int         `json:"divstep,omitempty"`
	Steps    int         `json:"steps"` // steps executed and compared
	Problem  string      `json:"problem,omitempty"`
}

var c15RouteNames = map[string]string{
	"TakeFired":  "double unlink (Take after fired expiry)",
	"EvictFired": "double unlink (Put-evict after fired expiry)",
	"Orphan":     "per-key list deleted while Put still appends to it (Put evicts the last entry of its own key)",
	"AfterClose": "use after Pool.Close with a pending expiry call-back",
}

func c15RouteSuffix(rt []string) string {
	if len(rt) == 0 {
		return ""
	}
	order := []string{"TakeFired", "EvictFired", "Orphan", "AfterClose"}
	names := []string{}
	for _, o := range order {
		for _, r := range rt {
			if r == o {
				names = append(names, c15RouteNames[o])
			}
		}
	}
	if len(names) == 0 {
		names = append(names, strings.Join(rt, ","))
	}
	return " after " + strings.Join(names, " + ")
}

// ---- the fake connection -----------------------------------------------------------------

type c15CB struct {
	conn  *c15Conn
	state string // "A" parked before closing, "B" parked after closing, "returned"
	gate  chan struct{}
}

type c15Dir struct {
	mu     sync.Mutex
	inCall atomic.Bool // the director itself is inside a pool method: Close calls are synchronous
	free   atomic.Bool // no more parking
	cbs    []*c15CB
	own    map[int]string // fresh | pool | out
	events []string       // monitor events raised inside Close
}

type c15Conn struct {
	d        *c15Dir
	id       int
	closedCh chan struct{}
	isClosed bool
	unb      chan struct{}
	blocked  bool
	calls    int
}

var c15ClosedCh = func() chan struct{} { c := make(chan struct{}); close(c); return c }()

func (f *c15Conn) Closed() <-chan struct{} {
	f.d.mu.Lock()
	defer f.d.mu.Unlock()
	return f.closedCh
}

func (f *c15Conn) Unblocked() <-chan struct{} {
	f.d.mu.Lock()
	defer f.d.mu.Unlock()
	if !f.blocked {
		return c15ClosedCh
	}
	return f.unb
}

func (f *c15Conn) Invoke(ctx context.Context, rpc string, enc drpc.Encoding, in, out drpc.Message) error {
	return nil
}

func (f *c15Conn) NewStream(ctx context.Context, rpc string, enc drpc.Encoding) (drpc.Stream, error) {
	return nil, nil
}

func (f *c15Conn) String() string { return fmt.Sprintf("c%d", f.id) }

// doClose is the effect of Close; byPool distinguishes the pool's Close() from the environment's.
func (f *c15Conn) doClose(byPool bool) {
	d := f.d
	d.mu.Lock()
	defer d.mu.Unlock()
	if byPool {
		f.calls++
		if d.own[f.id] == "out" {
			d.events = append(d.events, fmt.Sprintf("closedWhileOut:c%d", f.id))
		}
	}
	if !f.isClosed {
		f.isClosed = true
		close(f.closedCh)
	}
}

// Close is what the pool calls.  Called from the director's own goroutine (inside Put, Take or
// Pool.Close) it closes at once; called from anywhere else (the expiry call-back) it parks before
// and after the closing so that "fired but not completed" is a state the director controls.
func (f *c15Conn) Close() error {
	d := f.d
	if d.inCall.Load() || d.free.Load() {
		f.doClose(true)
		return nil
	}
	cb := &c15CB{conn: f, state: "A", gate: make(chan struct{})}
	d.mu.Lock()
	d.cbs = append(d.cbs, cb)
	g := cb.gate
	d.mu.Unlock()
	<-g
	f.doClose(true)
	d.mu.Lock()
	cb.state = "B"
	cb.gate = make(chan struct{})
	g = cb.gate
	if d.free.Load() {
		close(g)
	}
	d.mu.Unlock()
	<-g
	d.mu.Lock()
	cb.state = "returned"
	d.mu.Unlock()
	return nil
}

// ---- the replay --------------------------------------------------------------------------

const c15Expiration = time.Hour

// c15Replay runs inside a synctest bubble.
func c15Replay(b *c15Beh) (res c15Result) {
	nconn := 0
	if len(b.Steps) > 0 {
		nconn = len(b.Steps[0].Calls)
	}
	nkeys := 2
	if len(b.Steps) > 0 {
		nkeys = len(b.Steps[0].KC)
	}
	maxEnts := len(b.Steps) + 1
	d := &c15Dir{own: map[int]string{}}
	conns := map[int]*c15Conn{}
	for i := 1; i <= nconn; i++ {
		conns[i] = &c15Conn{d: d, id: i, closedCh: make(chan struct{})}
		d.own[i] = "fresh"
	}
	opts := drpcpool.Options{Capacity: b.Cap, KeyCapacity: b.Kcap}
	if b.Exp {
		opts.Expiration = c15Expiration
	}
	pool := drpcpool.New[int, *c15Conn](opts)

	start := time.Now()
	now := func() time.Duration { return time.Since(start) }
	deadline := map[int]time.Duration{} // model entry id -> deadline of its timer
	armed := func(tm []string) (min time.Duration, ok bool) {
		for e, dl := range deadline {
			if e-1 < len(tm) && tm[e-1] == "armed" {
				if !ok || dl < min {
					min, ok = dl, true
				}
			}
		}
		return
	}

	viol := func(sig string, step int, detail string) {
		for _, v := range res.Viol {
			if v.Sig == sig {
				return
			}
		}
		res.Viol = append(res.Viol, c15Viol{Sig: sig, Step: step, Detail: detail})
	}
	diverged := false
	divClass := ""
	diverge := func(step int, class, what string) {
		if !diverged {
			diverged = true
			divClass = class
			res.Diverged = what
			res.DivStep = step
		}
	}
	// call runs a pool method on the director's goroutine; a panic is reported, not propagated
	call := func(fn func()) (panicked any) {
		d.inCall.Store(true)
		defer func() {
			d.inCall.Store(false)
			panicked = recover()
		}()
		fn()
		return nil
	}
	cbCount := func(state string) int {
		d.mu.Lock()
		defer d.mu.Unlock()
		n := 0
		for _, cb := range d.cbs {
			if cb.state == state {
				n++
			}
		}
		return n
	}
	findCB := func(c int, state string) *c15CB {
		d.mu.Lock()
		defer d.mu.Unlock()
		for _, cb := range d.cbs {
			if cb.state == state && cb.conn.id == c {
				return cb
			}
		}
		return nil
	}
	release := func(cb *c15CB) {
		d.mu.Lock()
		g := cb.gate
		d.mu.Unlock()
		close(g)
		synctest.Wait()
	}
	// the property's monitors on the real pool; route is the specification's account of how the
	// lists got inconsistent (empty when they are consistent or the replay has left the specification)
	var prevRt []string
	suffix := func() string {
		if diverged {
			return " after the implementation left the specification (" + divClass + ")"
		}
		return c15RouteSuffix(prevRt)
	}
	observe := func(step int) (oc, ol int, kc, kl map[int]int) {
		oc, ol, kc, kl = pool.VerifCounts()
		if ol > maxEnts {
			ol = -1
		}
		for k, v := range kl {
			if v > maxEnts {
				kl[k] = -1
			}
		}
		if b.Cap < 0 || b.Kcap < 0 {
			if ol != 0 || len(kl) != 0 {
				viol("connection cached although a capacity is negative"+suffix(), step, fmt.Sprintf("order=%d keys=%v", ol, kl))
			}
		}
		if b.Cap > 0 && (ol > b.Cap || ol < 0) {
			viol("capacity exceeded"+suffix(), step, fmt.Sprintf("Capacity=%d cached=%d", b.Cap, ol))
		}
		if b.Kcap > 0 {
			for k, v := range kl {
				if v > b.Kcap || v < 0 {
					viol("key capacity exceeded"+suffix(), step, fmt.Sprintf("KeyCapacity=%d key=%d cached=%d", b.Kcap, k, v))
				}
			}
		}
		d.mu.Lock()
		evs := d.events
		d.events = nil
		d.mu.Unlock()
		for _, ev := range evs {
			if strings.HasPrefix(ev, "closedWhileOut") {
				viol("connection closed by the pool while handed out"+suffix(), step, ev)
			}
		}
		return
	}

	// Once the real pool has left the specification (diverged) the remaining steps are still made,
	// as far as the caller discipline allows, with call-backs running to completion by themselves;
	// only the property's monitors judge from there on.
	freed := false
	enterFree := func() {
		freed = true
		d.free.Store(true)
		d.mu.Lock()
		for _, cb := range d.cbs {
			if cb.state != "returned" {
				select {
				case <-cb.gate:
				default:
					close(cb.gate)
				}
			}
		}
		d.mu.Unlock()
		synctest.Wait()
	}
	ownOf := func(c int) string {
		d.mu.Lock()
		defer d.mu.Unlock()
		return d.own[c]
	}
	panicked := false
	for i := range b.Steps {
		s := &b.Steps[i]
		prevRt = s.Rt
		if diverged && !freed {
			enterFree()
		}
		var takeRes *c15Conn
		var takeOK bool
		var pv any
		switch s.A {
		case "Put":
			if diverged && ownOf(s.C) == "pool" {
				continue // the caller does not own it
			}
			// a distinct fake time for every Put, strictly before the earliest pending deadline
			gap := time.Second
			var prevTm []string
			if i > 0 {
				prevTm = b.Steps[i-1].Tm
			}
			if m, ok := armed(prevTm); ok && !diverged {
				if room := m - now(); room/4 < gap {
					gap = room / 4
				}
			}
			if gap <= 0 {
				res.Problem = "no room left before the next deadline"
				goto finish
			}
			time.Sleep(gap)
			synctest.Wait()
			c := conns[s.C]
			d.mu.Lock()
			d.own[s.C] = "pool"
			d.mu.Unlock()
			pv = call(func() { pool.Put(s.K, c) })
			if b.Exp && s.E > 0 {
				deadline[s.E] = now() + c15Expiration
			}
		case "Take":
			pv = call(func() { takeRes, takeOK = pool.Take(s.K) })
		case "PoolClose":
			pv = call(func() { _ = pool.Close() })
		case "TimerFire":
			dl, ok := deadline[s.E]
			if diverged {
				if ok && dl+time.Millisecond > now() {
					time.Sleep(dl + time.Millisecond - now())
				}
				synctest.Wait()
				break
			}
			if !ok {
				res.Problem = "TimerFire of an entry without a deadline"
				goto finish
			}
			h := time.Millisecond
			if m, ok := armed(s.Tm); ok { // the next one still armed afterwards
				if room := m - dl; room/4 < h {
					h = room / 4
				}
			}
			if h <= 0 || dl+h <= now() {
				res.Problem = "deadlines not separable"
				goto finish
			}
			time.Sleep(dl + h - now())
			synctest.Wait()
		case "ExpiryClose", "ExpiryRemove":
			if diverged {
				continue
			}
			st := map[string]string{"ExpiryClose": "A", "ExpiryRemove": "B"}[s.A]
			cb := findCB(s.C, st)
			if cb == nil {
				diverge(i, "expiry call-backs", "no expiry call-back of the connection is parked where the specification has it ("+s.A+")")
				continue
			}
			release(cb)
		case "ConnClose":
			conns[s.C].doClose(false)
		case "Block":
			if diverged && ownOf(s.C) == "pool" {
				continue
			}
			d.mu.Lock()
			if !conns[s.C].blocked {
				conns[s.C].blocked = true
				conns[s.C].unb = make(chan struct{})
			}
			d.mu.Unlock()
		case "Unblock":
			d.mu.Lock()
			if conns[s.C].blocked {
				conns[s.C].blocked = false
				close(conns[s.C].unb)
			}
			d.mu.Unlock()
		default:
			res.Problem = "unknown action " + s.A
			goto finish
		}
		if !diverged {
			res.Steps++
		}

		if pv != nil {
			panicked = true
			viol(fmt.Sprintf("panic in %s%s", s.A, suffix()), i, fmt.Sprint(pv))
			if s.R != "panic" {
				diverge(i, "panic", "panic")
			}
			goto finish
		} else if s.R == "panic" && !diverged {
			diverge(i, "no panic", "the specification demands a panic")
		}

		if s.A == "Take" {
			got := 0
			if takeOK && takeRes != nil {
				got = takeRes.id
				c := takeRes
				d.mu.Lock()
				closed, blocked, own := c.isClosed, c.blocked, d.own[c.id]
				expiring := false
				for _, cb := range d.cbs {
					if cb.conn == c && cb.state != "returned" {
						expiring = true
					}
				}
				d.own[c.id] = "out"
				d.mu.Unlock()
				if closed {
					viol("Take returned a closed connection"+suffix(), i, c.String())
				}
				if blocked {
					viol("Take returned a blocked connection"+suffix(), i, c.String())
				}
				if expiring {
					viol("Take returned a connection already chosen for expiry"+suffix(), i, c.String())
				}
				if own == "out" {
					viol("connection handed to two callers"+suffix(), i, c.String())
				} else if own != "pool" {
					viol("Take returned a connection that was never put"+suffix(), i, c.String())
				}
			} else if takeOK {
				viol("Take returned (nil, true)"+suffix(), i, "")
			}
			if want := s.R; !diverged && fmt.Sprint(got) != want {
				// the specification's answer is demanded only where it describes consistent lists; past a
				// recorded defect route it describes the defect, and a difference is a conformance warning
				if len(s.Rt) == 0 {
					viol("Take result differs from the specification", i, fmt.Sprintf("got c%d, demanded c%s", got, want))
				}
				diverge(i, "Take result", fmt.Sprintf("Take returned c%d, specification c%s", got, want))
			}
		}

		oc, ol, kc, kl := observe(i)
		if diverged {
			continue
		}
		// conformance with the specification's state
		d.mu.Lock()
		callsDiffer := ""
		for c := 1; c <= nconn; c++ {
			if conns[c].calls != s.Calls[c-1] {
				callsDiffer = fmt.Sprintf("c%d: %d Close calls, specification %d", c, conns[c].calls, s.Calls[c-1])
				break
			}
		}
		d.mu.Unlock()
		if callsDiffer != "" {
			if len(s.Rt) == 0 {
				viol("Close calls differ from the specification", i, callsDiffer)
			}
			diverge(i, "Close calls", callsDiffer)
			continue
		}
		if oc != s.OC || ol != s.OL {
			diverge(i, "list counts", fmt.Sprintf("order count/len %d/%d, specification %d/%d", oc, ol, s.OC, s.OL))
			continue
		}
		keysDiffer := false
		for k := 1; k <= nkeys; k++ {
			c1, in := kc[k]
			if in != s.Kin[k-1] || (in && (c1 != s.KC[k-1] || kl[k] != s.KL[k-1])) {
				diverge(i, "list counts", fmt.Sprintf("key %d present=%v count/len %d/%d, specification %v %d/%d", k, in, c1, kl[k], s.Kin[k-1], s.KC[k-1], s.KL[k-1]))
				keysDiffer = true
				break
			}
		}
		if keysDiffer {
			continue
		}
		{
			wantA, wantB := 0, 0
			for _, t := range s.Tm {
				switch t {
				case "firedClosing":
					wantA++
				case "firedRemoving":
					wantB++
				}
			}
			if a, bb := cbCount("A"), cbCount("B"); a != wantA || bb != wantB {
				diverge(i, "expiry call-backs", fmt.Sprintf("%d call-backs about to close and %d about to remove, specification %d and %d", a, bb, wantA, wantB))
				continue
			}
		}
	}

finish:
	last := len(b.Steps) - 1
	// Enabledness: let time pass.  Exactly the timers the specification has armed (or fired and not yet
	// closing) may produce a call-back; one that fires although the specification has it stopped is a timer
	// the real pool failed to stop.
	if !diverged && !panicked && res.Problem == "" && b.Exp && last >= 0 {
		connOf := map[int]int{}
		for i := range b.Steps {
			if b.Steps[i].A == "Put" && b.Steps[i].E > 0 {
				connOf[b.Steps[i].E] = b.Steps[i].C
			}
		}
		want := map[int]int{}
		for e, t := range b.Steps[last].Tm {
			if t == "armed" || t == "firedClosing" {
				want[connOf[e+1]]++
			}
		}
		time.Sleep(3 * c15Expiration)
		synctest.Wait()
		got := map[int]int{}
		d.mu.Lock()
		for _, cb := range d.cbs {
			if cb.state == "A" {
				got[cb.conn.id]++
			}
		}
		d.mu.Unlock()
		if fmt.Sprint(got) != fmt.Sprint(want) {
			diverge(last, "pending timers", fmt.Sprintf("when time passes, expiry call-backs start for connections %v; the specification has timers pending for %v", got, want))
		}
	}
	// Past a divergence the specification has nothing more to say; the director goes on with calls of
	// its own and the bounds are probed directly: a fresh connection is put under every key (so that
	// the lists exist), pending call-backs run to completion, then fresh connections are put until
	// every bound would have to evict.
	{
		next := nconn
		probePut := func(k int) {
			next++
			c := &c15Conn{d: d, id: next, closedCh: make(chan struct{})}
			conns[next] = c
			d.mu.Lock()
			d.own[next] = "pool"
			d.mu.Unlock()
			time.Sleep(time.Second)
			synctest.Wait()
			if pv := call(func() { pool.Put(k, c) }); pv != nil {
				viol("panic in Put"+suffix(), -1, fmt.Sprint(pv))
				panicked = true
				return
			}
			observe(-1)
		}
		probing := diverged && !panicked && res.Problem == ""
		if probing && !freed {
			for k := 1; k <= nkeys && !panicked; k++ {
				probePut(k)
			}
		}
		// run everything to completion: no more parking
		enterFree()
		if probing {
			m := b.Kcap
			if b.Cap > m {
				m = b.Cap
			}
			for k := 1; k <= nkeys; k++ {
				for j := 0; j < m+2 && !panicked; j++ {
					probePut(k)
				}
			}
		}
	}
	if pv := call(func() { _ = pool.Close() }); pv != nil && !panicked {
		viol("panic in PoolClose"+suffix(), last, fmt.Sprint(pv))
		panicked = true
	}
	time.Sleep(3 * c15Expiration)
	synctest.Wait()
	observe(-1)
	if !panicked && res.Problem == "" {
		d.mu.Lock()
		leaked := []string{}
		for id, c := range conns {
			if d.own[id] == "pool" && !c.isClosed {
				leaked = append(leaked, c.String())
			}
		}
		d.mu.Unlock()
		sort.Strings(leaked)
		if len(leaked) > 0 {
			viol("connection neither handed out nor closed"+suffix(), -1, strings.Join(leaked, ","))
		}
		if !diverged && b.Term && (len(leaked) > 0) != (len(b.Leaked) > 0) {
			diverge(last, "final ownership", fmt.Sprintf("leaked %v, specification %v", leaked, b.Leaked))
		}
	}
	return res
}

// c15Variant says which variant of the algorithm the code under test implements; Pool.tla has a
// constant for each (the specification must model what the code does).
type c15Variant struct {
	UnlinkOnce bool `json:"unlinkOnce"` // an entry is unlinked at most once (call-back's removeEntry is a no-op after Take/evict/Close)
	OwnList    bool `json:"ownList"`    // Put keeps the per-key list of its own key registered while evicting
}

// c15Probe runs inside a bubble.
func c15Probe() (v c15Variant) {
	defer func() { _ = recover() }()
	d := &c15Dir{own: map[int]string{}}
	mk := func(i int) *c15Conn { return &c15Conn{d: d, id: i, closedCh: make(chan struct{})} }
	{
		pool := drpcpool.New[int, *c15Conn](drpcpool.Options{Capacity: 1})
		d.inCall.Store(true)
		pool.Put(1, mk(1))
		pool.Put(1, mk(2))
		_, _, kc, _ := pool.VerifCounts()
		_, v.OwnList = kc[1]
		_ = pool.Close()
		d.inCall.Store(false)
	}
	{
		pool := drpcpool.New[int, *c15Conn](drpcpool.Options{Expiration: c15Expiration})
		d.inCall.Store(true)
		pool.Put(1, mk(3))
		d.inCall.Store(false)
		time.Sleep(c15Expiration + time.Millisecond)
		synctest.Wait()
		d.inCall.Store(true)
		pool.Take(1)
		d.inCall.Store(false)
		d.free.Store(true)
		d.mu.Lock()
		for _, cb := range d.cbs {
			close(cb.gate)
		}
		d.mu.Unlock()
		synctest.Wait()
		oc, _, _, _ := pool.VerifCounts()
		v.UnlinkOnce = oc == 0
		d.inCall.Store(true)
		_ = pool.Close()
		d.inCall.Store(false)
	}
	return v
}

// c15ReplayMain is the sub-process: behaviours on stdin, results on stdout.
func c15ReplayMain(args []string) int {
	testing.Init()
	os.Args = os.Args[:1]
	out := bufio.NewWriterSize(os.Stdout, 1<<16)
	test := func(t *testing.T) {
		in := bufio.NewReaderSize(os.Stdin, 1<<20)
		for {
			line, err := in.ReadBytes('\n')
			if len(line) > 1 {
				var rec struct {
					I     int     `json:"i"`
					B     *c15Beh `json:"b"`
					Probe bool    `json:"probe"`
				}
				var res c15Result
				if jerr := json.Unmarshal(line, &rec); jerr == nil && rec.Probe {
					synctest.Test(t, func(t *testing.T) { v := c15Probe(); res.Probe = &v })
				} else if jerr != nil || rec.B == nil {
					res.Problem = fmt.Sprintf("bad behaviour record: %v", jerr)
				} else {
					fmt.Fprintf(out, "@@start %d\n", rec.I)
					out.Flush()
					synctest.Test(t, func(t *testing.T) { res = c15Replay(rec.B) })
				}
				res.I = rec.I
				jb, _ := json.Marshal(res)
				out.WriteString("@@")
				out.Write(jb)
				out.WriteByte('\n')
				out.Flush()
			}
			if err != nil {
				return
			}
		}
	}
	testing.Main(func(pat, str string) (bool, error) { return true, nil },
		[]testing.InternalTest{{Name: "C15Replay", F: test}}, nil, nil)
	return 0
}

func init() { Sub["c15replay"] = c15ReplayMain }
