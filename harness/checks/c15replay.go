package checks

// Replay of Pool.tla behaviours on a real drpcpool.Pool with fake connections and fake time.
//
// testing/synctest needs a *testing.T, so the replay runs in a sub-process of the same binary
// ("verif sub c15replay") whose main is testing.Main with a single test function; the check
// (c15.go) feeds it behaviours on stdin, one JSON object per line, and reads one "@@"-prefixed
// JSON result per behaviour from stdout.

import (
	"bufio"
	"context"
	"encoding/json"
	"fmt"
	"os"
	"runtime"
	"sort"
	"strings"
	"sync"
	"sync/atomic"
	"syscall"
	"testing"
	"testing/synctest"
	"time"

	"storj.io/drpc"
	"storj.io/drpc/drpcpool"

	"verif/vf"
)

// one step of a behaviour: the label of the action and what the specification demands afterwards
type c15Step struct {
	A     string   // action
	K     int      // key
	C     int      // connection
	E     int      // entry id
	R     string   // result ("cached", "closed", "dropped", "panic", "removed", "nolist", or the connection Take returns, "0" = none)
	OC    int      // p.order.count
	OL    int      // walked length of p.order (-1 = cycle)
	Kin   []bool   // key present in p.entries
	KC    []int    // count field per key
	KL    []int    // walked length per key
	Calls []int    // Close calls per connection
	Tm    []string // timer state per entry
	Pn    string   // panic
	Rt    []string // routes taken so far
	An    []string // property statements falsified so far
	Pk    c15Park  // the operation that holds Pool.mu after the step and the user code it is parked in (fine grain)
}

// c15Park: [operation, method, connection] ("", "", 0 when the lock is free)
type c15Park struct {
	Op, At string
	C      int
}

func (p *c15Park) UnmarshalJSON(b []byte) error {
	dst := []any{&p.Op, &p.At, &p.C}
	if err := json.Unmarshal(b, &dst); err != nil {
		return err
	}
	if len(dst) != 3 {
		return fmt.Errorf("park with %d fields", len(dst))
	}
	return nil
}

// (one pass: encoding/json decodes an array element by element into the pointers a []any holds)
func (s *c15Step) UnmarshalJSON(b []byte) error {
	var r json.RawMessage
	dst := []any{&s.A, &s.K, &s.C, &s.E, &r, &s.OC, &s.OL, &s.Kin, &s.KC, &s.KL, &s.Calls, &s.Tm, &s.Pn, &s.Rt, &s.An, &s.Pk}
	n := len(dst)
	if err := json.Unmarshal(b, &dst); err != nil {
		return err
	}
	if len(dst) != n {
		return fmt.Errorf("step with %d fields", len(dst))
	}
	s.R = strings.Trim(string(r), `"`)
	return nil
}

// Label names the step; a step that leaves the operation inside the critical section says in which user code.
func (s *c15Step) Label() string {
	parked := ""
	if s.R == "parked" {
		parked = fmt.Sprintf(" [holds Pool.mu, in c%d.%s()]", s.Pk.C, s.Pk.At)
	}
	switch s.A {
	case "Put":
		return fmt.Sprintf("Put(k%d,c%d)", s.K, s.C) + parked
	case "Take":
		return fmt.Sprintf("Take(k%d)", s.K) + parked
	case "PoolClose":
		return "PoolClose" + parked
	case "Return": // (Labels says which method returns)
		if s.R == "parked" {
			return fmt.Sprintf("c%d returns", s.C) + parked
		}
		return fmt.Sprintf("c%d returns [operation ends, result %s]", s.C, s.R)
	case "TimerFire", "ExpiryClose", "ExpiryRemove":
		return fmt.Sprintf("%s(e%d:c%d)", s.A, s.E, s.C)
	}
	return fmt.Sprintf("%s(c%d)", s.A, s.C)
}

type c15Beh struct {
	Cap    int       `json:"cap"`
	Kcap   int       `json:"kcap"`
	Exp    bool      `json:"exp"`
	Fine   bool      `json:"fine"` // the user code called under Pool.mu is a step of its own
	Steps  []c15Step `json:"steps"`
	Term   bool      `json:"term"` // the behaviour ends in a terminal state of the specification
	Final  []string  `json:"final"`
	Leaked []int     `json:"leaked"`
}

func (b *c15Beh) Labels() []string {
	l := make([]string, len(b.Steps))
	for i := range b.Steps {
		l[i] = b.Steps[i].Label()
		if b.Steps[i].A == "Return" && i > 0 {
			l[i] = strings.Replace(l[i], " returns", "."+b.Steps[i-1].Pk.At+"() returns", 1)
		}
	}
	return l
}

type c15Viol struct {
	Sig    string `json:"sig"`
	Step   int    `json:"step"` // index of the step after which it was observed (-1: at the end)
	Detail string `json:"detail,omitempty"`
}

type c15Result struct {
	I        int         `json:"i"`
	Probe    *c15Variant `json:"probe,omitempty"`
	Viol     []c15Viol   `json:"viol,omitempty"`
	Diverged string      `json:"diverged,omitempty"` // first observable on which the real pool and the specification differ
	DivStep  int         `json:"divstep,omitempty"`
	Steps    int         `json:"steps"` // steps executed and compared
	Problem  string      `json:"problem,omitempty"`
}

var c15RouteNames = map[string]string{
	"TakeFired":  "double unlink (Take after fired expiry)",
	"EvictFired": "double unlink (Put-evict after fired expiry)",
	"Orphan":     "per-key list deleted while Put still appends to it (Put evicts the last entry of its own key)",
	"AfterClose": "use after Pool.Close with a pending expiry call-back",
}

func c15RouteSuffix(rt []string) string {
	if len(rt) == 0 {
		return ""
	}
	order := []string{"TakeFired", "EvictFired", "Orphan", "AfterClose"}
	names := []string{}
	for _, o := range order {
		for _, r := range rt {
			if r == o {
				names = append(names, c15RouteNames[o])
			}
		}
	}
	if len(names) == 0 {
		names = append(names, strings.Join(rt, ","))
	}
	return " after " + strings.Join(names, " + ")
}

// ---- the fake connection -----------------------------------------------------------------

type c15CB struct {
	conn  *c15Conn
	state string // "A" parked before closing, "B" parked after closing, "returned"
	gate  chan struct{}
}

// c15OpEv is what the goroutine running a pool method tells the director: it is parked in user code
// that the pool called (fine grain), or the method has returned.
type c15OpEv struct {
	Kind    string // "park" | "done"
	At      string // park: "Unblocked" | "Closed" | "Close"
	C       int    // park: the connection
	TakeRes *c15Conn
	TakeOK  bool
	PV      any // done: the recovered panic
}

type c15Dir struct {
	mu      sync.Mutex
	opGID   atomic.Int64 // the goroutine that is inside a pool method (0: none)
	fine    atomic.Bool  // user code called by that goroutine is a park of its own
	putConn int          // the argument of the Put in progress: Put uses it before it takes the lock
	free    atomic.Bool  // no more parking
	opEv    chan c15OpEv
	opGate  chan struct{} // gate of the parked operation
	cbEv    chan struct{} // a call-back has come to a gate
	cbs     []*c15CB
	own     map[int]string // fresh | pool | out
	events  []string       // monitor events raised inside Close
}

type c15Conn struct {
	d        *c15Dir
	id       int
	closedCh chan struct{}
	isClosed bool
	unb      chan struct{}
	blocked  bool
	calls    int
}

var c15ClosedCh = func() chan struct{} { c := make(chan struct{}); close(c); return c }()

// c15GID is the id of the calling goroutine.
func c15GID() int64 {
	var buf [64]byte
	b := buf[:runtime.Stack(buf[:], false)]
	var id int64
	for _, ch := range b[len("goroutine "):] {
		if ch < '0' || ch > '9' {
			break
		}
		id = id*10 + int64(ch-'0')
	}
	return id
}

func (d *c15Dir) isOp() bool {
	id := d.opGID.Load()
	return id != 0 && id == c15GID()
}

// userCode is entered by every method of a fake connection.  Called by the operation that holds
// Pool.mu, in a fine-grained behaviour, it parks: the director decides when the user code returns.
func (d *c15Dir) userCode(at string, f *c15Conn) {
	if !d.fine.Load() || d.free.Load() || !d.isOp() {
		return
	}
	d.mu.Lock()
	if d.free.Load() || f.id == d.putConn {
		d.mu.Unlock()
		return
	}
	g := make(chan struct{})
	d.opGate = g
	d.mu.Unlock()
	d.opEv <- c15OpEv{Kind: "park", At: at, C: f.id}
	<-g
}

func (f *c15Conn) Closed() <-chan struct{} {
	f.d.userCode("Closed", f)
	f.d.mu.Lock()
	defer f.d.mu.Unlock()
	return f.closedCh
}

func (f *c15Conn) Unblocked() <-chan struct{} {
	f.d.userCode("Unblocked", f)
	f.d.mu.Lock()
	defer f.d.mu.Unlock()
	if !f.blocked {
		return c15ClosedCh
	}
	return f.unb
}

func (f *c15Conn) Invoke(ctx context.Context, rpc string, enc drpc.Encoding, in, out drpc.Message) error {
	return nil
}

func (f *c15Conn) NewStream(ctx context.Context, rpc string, enc drpc.Encoding) (drpc.Stream, error) {
	return nil, nil
}

func (f *c15Conn) String() string { return fmt.Sprintf("c%d", f.id) }

// doClose is the effect of Close; byPool distinguishes the pool's Close() from the environment's.
func (f *c15Conn) doClose(byPool bool) {
	d := f.d
	d.mu.Lock()
	defer d.mu.Unlock()
	if byPool {
		f.calls++
		if d.own[f.id] == "out" {
			d.events = append(d.events, fmt.Sprintf("closedWhileOut:c%d", f.id))
		}
	}
	if !f.isClosed {
		f.isClosed = true
		close(f.closedCh)
	}
}

// Close is what the pool calls.  Called by the goroutine that is inside Put, Take or Pool.Close it is
// user code of that operation (a park in a fine-grained behaviour, then the closing); called from
// anywhere else (the expiry call-back) it parks before and after the closing so that "fired but not
// completed" is a state the director controls.
func (f *c15Conn) Close() error {
	d := f.d
	if d.isOp() {
		d.userCode("Close", f)
		f.doClose(true)
		return nil
	}
	if d.free.Load() {
		f.doClose(true)
		return nil
	}
	cb := &c15CB{conn: f, state: "A", gate: make(chan struct{})}
	d.mu.Lock()
	d.cbs = append(d.cbs, cb)
	g := cb.gate
	if d.free.Load() {
		close(g)
	}
	d.mu.Unlock()
	d.cbSignal()
	<-g
	f.doClose(true)
	d.mu.Lock()
	cb.state = "B"
	cb.gate = make(chan struct{})
	g = cb.gate
	if d.free.Load() {
		close(g)
	}
	d.mu.Unlock()
	d.cbSignal()
	<-g
	d.mu.Lock()
	cb.state = "returned"
	d.mu.Unlock()
	return nil
}

func (d *c15Dir) cbSignal() {
	select {
	case d.cbEv <- struct{}{}:
	default:
	}
}

// c15Tick ticks in real time.  It is created and fed outside the bubbles: a select that includes it is
// not durably blocking (the bubble's clock stands still) and is woken although everything in the bubble rests.
var c15Tick = make(chan struct{}, 1)

func c15Ticker() {
	for {
		time.Sleep(2 * time.Millisecond)
		select {
		case c15Tick <- struct{}{}:
		default:
		}
	}
}

// c15RealNow is the wall clock (time.Now is the bubble's fake clock).
func c15RealNow() time.Duration {
	var tv syscall.Timeval
	_ = syscall.Gettimeofday(&tv)
	return time.Duration(tv.Sec)*time.Second + time.Duration(tv.Usec)*time.Microsecond
}

// c15WaitsForPoolMu: the goroutine is blocked in sync.Mutex.Lock called from drpcpool code.
func c15WaitsForPoolMu(g *vf.G) bool {
	if !strings.HasPrefix(g.State, "sync.Mutex.Lock") {
		return false
	}
	for _, f := range g.Frames {
		if strings.HasPrefix(f, "sync.") || strings.HasPrefix(f, "internal/") || strings.HasPrefix(f, "runtime.") {
			continue
		}
		return strings.Contains(f, "drpc/drpcpool.")
	}
	return false
}

// ---- the replay --------------------------------------------------------------------------

const c15Expiration = time.Hour

// c15Replay runs inside a synctest bubble.
//
// A pool method runs on a goroutine of its own.  In a fine-grained behaviour that goroutine parks in
// every method of a fake connection the pool calls while it holds Pool.mu, and the behaviour has
// steps with the lock held: a timer fires, a call-back closes its connection.  A goroutine waiting for
// a sync.Mutex is not durably blocked, so while the lock is held the director neither calls
// synctest.Wait nor sleeps past a deadline (neither would return if a call-back of the code under test
// waited for Pool.mu): it sleeps to exactly the deadline of the timer - it wakes at the instant the
// timer fires - and then waits, in a select that includes a real-time ticker from outside the bubble
// (so that it is not durably blocking either), until the call-back has reached a gate or, by a
// goroutine census, waits for Pool.mu.  synctest.Wait is used again once the operation has left the
// critical section.
func c15Replay(b *c15Beh) (res c15Result) {
	nconn := 0
	if len(b.Steps) > 0 {
		nconn = len(b.Steps[0].Calls)
	}
	nkeys := 2
	if len(b.Steps) > 0 {
		nkeys = len(b.Steps[0].KC)
	}
	maxEnts := len(b.Steps) + 1
	d := &c15Dir{own: map[int]string{}, opEv: make(chan c15OpEv, 8), cbEv: make(chan struct{}, 16)}
	d.fine.Store(b.Fine)
	conns := map[int]*c15Conn{}
	for i := 1; i <= nconn; i++ {
		conns[i] = &c15Conn{d: d, id: i, closedCh: make(chan struct{})}
		d.own[i] = "fresh"
	}
	opts := drpcpool.Options{Capacity: b.Cap, KeyCapacity: b.Kcap}
	if b.Exp {
		opts.Expiration = c15Expiration
	}
	pool := drpcpool.New[int, *c15Conn](opts)

	start := time.Now()
	now := func() time.Duration { return time.Since(start) }
	deadline := map[int]time.Duration{} // model entry id -> deadline of its timer
	armed := func(tm []string) (min time.Duration, ok bool) {
		for e, dl := range deadline {
			if e-1 < len(tm) && tm[e-1] == "armed" {
				if !ok || dl < min {
					min, ok = dl, true
				}
			}
		}
		return
	}

	viol := func(sig string, step int, detail string) {
		for _, v := range res.Viol {
			if v.Sig == sig {
				return
			}
		}
		res.Viol = append(res.Viol, c15Viol{Sig: sig, Step: step, Detail: detail})
	}
	diverged := false
	divClass := ""
	diverge := func(step int, class, what string) {
		if !diverged {
			diverged = true
			divClass = class
			res.Diverged = what
			res.DivStep = step
		}
	}
	cbCount := func(state string) int {
		d.mu.Lock()
		defer d.mu.Unlock()
		n := 0
		for _, cb := range d.cbs {
			if cb.state == state {
				n++
			}
		}
		return n
	}
	cbStarted := func() int {
		d.mu.Lock()
		defer d.mu.Unlock()
		return len(d.cbs)
	}
	findCB := func(c int, state string) *c15CB {
		d.mu.Lock()
		defer d.mu.Unlock()
		for _, cb := range d.cbs {
			if cb.state == state && cb.conn.id == c {
				return cb
			}
		}
		return nil
	}
	cbState := func(cb *c15CB) string {
		d.mu.Lock()
		defer d.mu.Unlock()
		return cb.state
	}

	// ---- the operation in progress
	type opInfo struct {
		kind string // Put | Take | PoolClose
		e    int    // Put: the model's entry id
		step int
	}
	var cur *opInfo // non-nil: a pool method has been started and its "done" has not been processed
	// openGates: from now on nothing parks; whoever is parked goes on
	openGates := func() {
		d.mu.Lock()
		d.free.Store(true)
		for _, cb := range d.cbs {
			if cb.state != "returned" {
				select {
				case <-cb.gate:
				default:
					close(cb.gate)
				}
			}
		}
		if d.opGate != nil {
			select {
			case <-d.opGate:
			default:
				close(d.opGate)
			}
		}
		d.mu.Unlock()
	}
	// await waits - in a select that is not durably blocking: the bubble's clock must not move, and synctest.Wait
	// might not return - until cond holds (looked at whenever a call-back comes to a gate), or census holds on a
	// snapshot of all goroutines (taken at every real-time tick), or limit of real time has passed.
	// 1: cond, 2: census, 0: neither.
	await := func(cond func() bool, census func([]vf.G) bool, limit time.Duration) int {
		t0 := c15RealNow()
		for {
			if cond() {
				return 1
			}
			select {
			case <-d.cbEv:
			case <-c15Tick:
				if census != nil && census(vf.Census()) {
					if cond() {
						return 1
					}
					return 2
				}
				if c15RealNow()-t0 > limit {
					return 0
				}
			}
		}
	}
	// fireExact lets the clock reach the deadline dl of one timer while an operation holds Pool.mu: the director
	// wakes at that very instant and waits until the call-back has entered the fake Close (1) or waits for Pool.mu
	// (2).  0: no call-back - the bubble's root goroutine, which runs the timers that are due, is parked again and
	// there is no goroutine of the pool beyond the call-backs that were parked before.
	fireExact := func(dl time.Duration) int {
		before := cbStarted()
		parked := cbCount("A") + cbCount("B")
		time.Sleep(dl - now())
		verdict := 0
		r := await(func() bool { return cbStarted() > before }, func(gs []vf.G) bool {
			op := d.opGID.Load()
			n, rootParked := 0, false
			for i := range gs {
				g := &gs[i]
				if strings.HasPrefix(g.State, "synctest.Run") {
					rootParked = true
				}
				if g.ID == op || !g.Has("drpc/drpcpool.") {
					continue
				}
				n++
				if c15WaitsForPoolMu(g) {
					verdict = 2
					return true
				}
			}
			return rootParked && n <= parked
		}, 5*time.Second)
		if r == 2 {
			return verdict
		}
		return r
	}
	// waitOp waits for the next event of the operation in progress.  Should the operation wait for Pool.mu
	// because a call-back is parked in user code with the lock held, the call-backs are let go.
	waitOp := func(step int) (ev c15OpEv, ok bool) {
		t0 := c15RealNow()
		for {
			select {
			case ev = <-d.opEv:
				return ev, true
			case <-c15Tick:
				if c15RealNow()-t0 > 60*time.Second {
					return ev, false
				}
				if d.free.Load() {
					continue
				}
				id := d.opGID.Load()
				gs := vf.Census()
				for i := range gs {
					if gs[i].ID == id && c15WaitsForPoolMu(&gs[i]) {
						diverge(step, "lock", "the operation waits for Pool.mu while expiry call-backs are parked in user code")
						openGates()
						break
					}
				}
			}
		}
	}
	startOp := func(o *opInfo, fn func(ev *c15OpEv)) {
		cur = o
		ready := make(chan struct{})
		go func() {
			d.opGID.Store(c15GID())
			close(ready)
			ev := c15OpEv{Kind: "done"}
			defer func() {
				ev.PV = recover()
				d.opGID.Store(0)
				d.opEv <- ev
			}()
			fn(&ev)
		}()
		<-ready
	}

	// the property's monitors on the real pool; route is the specification's account of how the
	// lists got inconsistent (empty when they are consistent or the replay has left the specification)
	var prevRt []string
	suffix := func() string {
		if diverged {
			return " after the implementation left the specification (" + divClass + ")"
		}
		return c15RouteSuffix(prevRt)
	}
	// observe needs Pool.mu: only between critical sections.  While call-backs are parked it is made like a pool
	// method (should one of them be parked with the lock held, waitOp lets them go)
	observe := func(step int) (oc, ol int, kc, kl map[int]int) {
		if !d.free.Load() && cbCount("A")+cbCount("B") > 0 {
			startOp(&opInfo{kind: "observe", step: step}, func(*c15OpEv) { oc, ol, kc, kl = pool.VerifCounts() })
			for cur != nil {
				ev, ok := waitOp(step)
				if !ok {
					res.Problem = "a pool method does not return"
					return
				}
				if ev.Kind == "done" {
					cur = nil
				}
			}
		} else {
			oc, ol, kc, kl = pool.VerifCounts()
		}
		if ol > maxEnts {
			ol = -1
		}
		for k, v := range kl {
			if v > maxEnts {
				kl[k] = -1
			}
		}
		if b.Cap < 0 || b.Kcap < 0 {
			if ol != 0 || len(kl) != 0 {
				viol("connection cached although a capacity is negative"+suffix(), step, fmt.Sprintf("order=%d keys=%v", ol, kl))
			}
		}
		if b.Cap > 0 && (ol > b.Cap || ol < 0) {
			viol("capacity exceeded"+suffix(), step, fmt.Sprintf("Capacity=%d cached=%d", b.Cap, ol))
		}
		if b.Kcap > 0 {
			for k, v := range kl {
				if v > b.Kcap || v < 0 {
					viol("key capacity exceeded"+suffix(), step, fmt.Sprintf("KeyCapacity=%d key=%d cached=%d", b.Kcap, k, v))
				}
			}
		}
		return
	}
	// closeEvents: the pool closed a connection that a caller holds (raised inside the fake Close)
	closeEvents := func(step int) {
		d.mu.Lock()
		evs := d.events
		d.events = nil
		d.mu.Unlock()
		for _, ev := range evs {
			if strings.HasPrefix(ev, "closedWhileOut") {
				viol("connection closed by the pool while handed out"+suffix(), step, ev)
			}
		}
	}
	panicked := false
	// opDone: the pool method has returned (the monitors on what Take hands out; the comparison with the
	// specification's result is the caller's)
	opDone := func(ev *c15OpEv) (got int) {
		o := cur
		cur = nil
		d.mu.Lock()
		d.opGate = nil
		d.putConn = 0
		d.mu.Unlock()
		if ev.PV != nil {
			if !panicked {
				viol(fmt.Sprintf("panic in %s%s", o.kind, suffix()), o.step, fmt.Sprint(ev.PV))
			}
			panicked = true
			return 0
		}
		if o.kind == "Put" && b.Exp && o.e > 0 {
			deadline[o.e] = now() + c15Expiration // Put starts the timer just before it returns; the clock has not moved since
		}
		if o.kind != "Take" {
			return 0
		}
		i := o.step
		if ev.TakeOK && ev.TakeRes != nil {
			got = ev.TakeRes.id
			c := ev.TakeRes
			d.mu.Lock()
			closed, blocked, own := c.isClosed, c.blocked, d.own[c.id]
			expiring := false
			for _, cb := range d.cbs {
				if cb.conn == c && cb.state != "returned" {
					expiring = true
				}
			}
			d.own[c.id] = "out"
			d.mu.Unlock()
			if closed {
				viol("Take returned a closed connection"+suffix(), i, c.String())
			}
			if blocked {
				viol("Take returned a blocked connection"+suffix(), i, c.String())
			}
			if expiring {
				viol("Take returned a connection already chosen for expiry"+suffix(), i, c.String())
			}
			if own == "out" {
				viol("connection handed to two callers"+suffix(), i, c.String())
			} else if own != "pool" {
				viol("Take returned a connection that was never put"+suffix(), i, c.String())
			}
		} else if ev.TakeOK {
			viol("Take returned (nil, true)"+suffix(), i, "")
		}
		return got
	}

	// Once the real pool has left the specification (diverged) the remaining steps are still made,
	// as far as the caller discipline allows, with call-backs running to completion by themselves;
	// only the property's monitors judge from there on.
	freed := false
	enterFree := func() {
		freed = true
		openGates()
		if cur != nil { // the operation inside the critical section runs to its end
			step := cur.step
			for cur != nil {
				ev, ok := waitOp(step)
				if !ok {
					res.Problem = "a pool method does not return"
					return
				}
				if ev.Kind == "done" {
					opDone(&ev)
				}
			}
		}
		synctest.Wait()
	}
	ownOf := func(c int) string {
		d.mu.Lock()
		defer d.mu.Unlock()
		return d.own[c]
	}
	lockHeld := func() bool { return cur != nil } // by a parked operation

	for i := range b.Steps {
		s := &b.Steps[i]
		prevRt = s.Rt
		if diverged && !freed {
			enterFree()
		}
		if res.Problem != "" || panicked {
			break
		}
		var ev *c15OpEv // the event of the operation that this step starts or continues
		switch s.A {
		case "Put", "Take", "PoolClose":
			if cur != nil {
				res.Problem = "a pool method is called while another holds the lock"
				goto finish
			}
			o := &opInfo{kind: s.A, step: i}
			switch s.A {
			case "Put":
				if diverged && ownOf(s.C) == "pool" {
					continue // the caller does not own it
				}
				// a distinct fake time for every Put, strictly before the earliest pending deadline
				gap := time.Second
				var prevTm []string
				if i > 0 {
					prevTm = b.Steps[i-1].Tm
				}
				if m, ok := armed(prevTm); ok && !diverged {
					if room := m - now(); room/4 < gap {
						gap = room / 4
					}
				}
				if gap <= 0 {
					res.Problem = "no room left before the next deadline"
					goto finish
				}
				time.Sleep(gap)
				synctest.Wait()
				c := conns[s.C]
				d.mu.Lock()
				d.own[s.C] = "pool"
				d.putConn = s.C
				d.mu.Unlock()
				o.e = s.E
				k := s.K
				startOp(o, func(*c15OpEv) { pool.Put(k, c) })
			case "Take":
				k := s.K
				startOp(o, func(ev *c15OpEv) { ev.TakeRes, ev.TakeOK = pool.Take(k) })
			case "PoolClose":
				startOp(o, func(*c15OpEv) { _ = pool.Close() })
			}
			e, ok := waitOp(i)
			if !ok {
				res.Problem = "a pool method does not return"
				goto finish
			}
			ev = &e
		case "Return":
			if diverged {
				continue // the operation has run to its end already
			}
			if cur == nil {
				res.Problem = "Return without an operation in progress"
				goto finish
			}
			d.mu.Lock()
			g := d.opGate
			d.opGate = nil
			d.mu.Unlock()
			if g == nil {
				res.Problem = "Return without a parked operation"
				goto finish
			}
			close(g)
			e, ok := waitOp(i)
			if !ok {
				res.Problem = "a pool method does not return"
				goto finish
			}
			ev = &e
		case "TimerFire":
			dl, ok := deadline[s.E]
			if diverged {
				if ok && dl+time.Millisecond > now() {
					time.Sleep(dl + time.Millisecond - now())
				}
				synctest.Wait()
				break
			}
			if !ok {
				res.Problem = "TimerFire of an entry without a deadline"
				goto finish
			}
			if lockHeld() {
				// the director wakes at the very instant of the deadline; the call-back comes to rest in the fake Close
				// (gate A) or, with another order of its statements, waiting for Pool.mu
				if dl <= now() {
					res.Problem = "deadline already reached"
					goto finish
				}
				switch fireExact(dl) {
				case 2:
					diverge(i, "expiry call-backs", fmt.Sprintf("the timer of c%d has fired while %s holds Pool.mu and its call-back waits for the lock before it has closed the connection", s.C, cur.kind))
				case 0:
					diverge(i, "expiry call-backs", fmt.Sprintf("the timer of c%d has reached its deadline while %s holds Pool.mu and no call-back has called Close", s.C, cur.kind))
				}
				break
			}
			h := time.Millisecond
			if m, ok := armed(s.Tm); ok { // the next one still armed afterwards
				if room := m - dl; room/4 < h {
					h = room / 4
				}
			}
			if h <= 0 || dl+h <= now() {
				res.Problem = "deadlines not separable"
				goto finish
			}
			time.Sleep(dl + h - now())
			synctest.Wait()
		case "ExpiryClose", "ExpiryRemove":
			if diverged {
				continue
			}
			st := map[string]string{"ExpiryClose": "A", "ExpiryRemove": "B"}[s.A]
			cb := findCB(s.C, st)
			if cb == nil {
				diverge(i, "expiry call-backs", "no expiry call-back of the connection is parked where the specification has it ("+s.A+")")
				continue
			}
			d.mu.Lock()
			g := cb.gate
			d.mu.Unlock()
			close(g)
			if lockHeld() {
				// the fake Close goes from gate A to gate B
				if s.A != "ExpiryClose" || await(func() bool { return cbState(cb) == "B" }, nil, 20*time.Second) != 1 {
					res.Problem = "an expiry call-back released inside a critical section did not come to rest"
					goto finish
				}
			} else {
				synctest.Wait()
			}
		case "ConnClose":
			conns[s.C].doClose(false)
		case "Block":
			if diverged && ownOf(s.C) == "pool" {
				continue
			}
			d.mu.Lock()
			if !conns[s.C].blocked {
				conns[s.C].blocked = true
				conns[s.C].unb = make(chan struct{})
			}
			d.mu.Unlock()
		case "Unblock":
			d.mu.Lock()
			if conns[s.C].blocked {
				conns[s.C].blocked = false
				close(conns[s.C].unb)
			}
			d.mu.Unlock()
		default:
			res.Problem = "unknown action " + s.A
			goto finish
		}
		if !diverged {
			res.Steps++
		}

		if ev != nil {
			wantPark := s.R == "parked"
			if ev.Kind == "park" {
				if diverged {
					// (free mode does not park; a stale event)
				} else if !wantPark {
					diverge(i, "user code under the lock", fmt.Sprintf("%s calls c%d.%s() with Pool.mu held; the specification has the operation end here", cur.kind, ev.C, ev.At))
				} else if ev.At != s.Pk.At || ev.C != s.Pk.C {
					diverge(i, "user code under the lock", fmt.Sprintf("%s calls c%d.%s() with Pool.mu held, specification c%d.%s()", cur.kind, ev.C, ev.At, s.Pk.C, s.Pk.At))
				}
				if diverged {
					continue
				}
			} else {
				kind := cur.kind
				cur.step = i
				got := opDone(ev)
				synctest.Wait() // the lock is free: whoever waited for it goes on to its next gate
				if ev.PV != nil {
					if s.R != "panic" {
						diverge(i, "panic", "panic")
					}
					goto finish
				} else if s.R == "panic" && !diverged {
					diverge(i, "no panic", "the specification demands a panic")
				}
				if wantPark && !diverged {
					diverge(i, "user code under the lock", fmt.Sprintf("%s returns; the specification has it call c%d.%s() with Pool.mu held", kind, s.Pk.C, s.Pk.At))
				} else if kind == "Take" {
					if want := s.R; !diverged && fmt.Sprint(got) != want {
						// the specification's answer is demanded only where it describes consistent lists; past a
						// recorded defect route it describes the defect, and a difference is a conformance warning
						if len(s.Rt) == 0 {
							viol("Take result differs from the specification", i, fmt.Sprintf("got c%d, demanded c%s", got, want))
						}
						diverge(i, "Take result", fmt.Sprintf("Take returned c%d, specification c%s", got, want))
					}
				}
			}
		}

		closeEvents(i)
		var oc, ol int
		var kc, kl map[int]int
		if !lockHeld() {
			oc, ol, kc, kl = observe(i)
		}
		if diverged {
			continue
		}
		// conformance with the specification's state
		d.mu.Lock()
		callsDiffer := ""
		for c := 1; c <= nconn; c++ {
			if conns[c].calls != s.Calls[c-1] {
				callsDiffer = fmt.Sprintf("c%d: %d Close calls, specification %d", c, conns[c].calls, s.Calls[c-1])
				break
			}
		}
		d.mu.Unlock()
		if callsDiffer != "" {
			if len(s.Rt) == 0 {
				viol("Close calls differ from the specification", i, callsDiffer)
			}
			diverge(i, "Close calls", callsDiffer)
			continue
		}
		if !lockHeld() {
			if oc != s.OC || ol != s.OL {
				diverge(i, "list counts", fmt.Sprintf("order count/len %d/%d, specification %d/%d", oc, ol, s.OC, s.OL))
				continue
			}
			keysDiffer := false
			for k := 1; k <= nkeys; k++ {
				c1, in := kc[k]
				if in != s.Kin[k-1] || (in && (c1 != s.KC[k-1] || kl[k] != s.KL[k-1])) {
					diverge(i, "list counts", fmt.Sprintf("key %d present=%v count/len %d/%d, specification %v %d/%d", k, in, c1, kl[k], s.Kin[k-1], s.KC[k-1], s.KL[k-1]))
					keysDiffer = true
					break
				}
			}
			if keysDiffer {
				continue
			}
		}
		{
			wantA, wantB := 0, 0
			for _, t := range s.Tm {
				switch t {
				case "firedClosing":
					wantA++
				case "firedRemoving":
					wantB++
				}
			}
			if a, bb := cbCount("A"), cbCount("B"); a != wantA || bb != wantB {
				diverge(i, "expiry call-backs", fmt.Sprintf("%d call-backs about to close and %d about to remove, specification %d and %d", a, bb, wantA, wantB))
				continue
			}
		}
	}

finish:
	last := len(b.Steps) - 1
	// Enabledness: let time pass.  Exactly the timers the specification has armed (or fired and not yet
	// closing) may produce a call-back; one that fires although the specification has it stopped is a timer
	// the real pool failed to stop.  (Not with the lock held: the behaviour is a prefix of others.)
	if !diverged && !panicked && res.Problem == "" && b.Exp && last >= 0 && !lockHeld() {
		connOf := map[int]int{}
		for i := range b.Steps {
			if b.Steps[i].A == "Put" && b.Steps[i].E > 0 {
				connOf[b.Steps[i].E] = b.Steps[i].C
			}
		}
		want := map[int]int{}
		for e, t := range b.Steps[last].Tm {
			if t == "armed" || t == "firedClosing" {
				want[connOf[e+1]]++
			}
		}
		// One deadline at a time, each at its exact instant: a sleep past the deadline of a timer whose call-back
		// waits for Pool.mu (held by a call-back parked in user code, say) would not return.  The lock is free when
		// the clock moves (observe has taken it since the last call-back parked), so the call-back comes to rest.
		type due struct {
			c  int
			dl time.Duration
		}
		var dues []due
		for e, t := range b.Steps[last].Tm {
			if dl, ok := deadline[e+1]; ok && t == "armed" && dl > now() {
				dues = append(dues, due{connOf[e+1], dl})
			}
		}
		sort.Slice(dues, func(i, j int) bool { return dues[i].dl < dues[j].dl })
		for _, du := range dues {
			before := cbStarted()
			time.Sleep(du.dl - now())
			synctest.Wait()
			if cbStarted() == before {
				diverge(last, "pending timers", fmt.Sprintf("when time passes, no expiry call-back starts for c%d; the specification has its timer pending", du.c))
				break
			}
			observe(last)
			if diverged || res.Problem != "" {
				break
			}
		}
		got := map[int]int{}
		if !diverged && res.Problem == "" {
			time.Sleep(3 * c15Expiration)
			synctest.Wait()
			d.mu.Lock()
			for _, cb := range d.cbs {
				if cb.state == "A" {
					got[cb.conn.id]++
				}
			}
			d.mu.Unlock()
		}
		if !diverged && res.Problem == "" && fmt.Sprint(got) != fmt.Sprint(want) {
			diverge(last, "pending timers", fmt.Sprintf("when time passes, expiry call-backs start for connections %v; the specification has timers pending for %v", got, want))
		}
	}
	if res.Problem == "a pool method does not return" {
		return res
	}
	// the director's own calls from here on: operations run to their end (a behaviour that ends inside a critical
	// section is a prefix of others)
	if cur != nil {
		enterFree()
		if res.Problem == "a pool method does not return" {
			return res
		}
	}
	d.fine.Store(false)
	// call runs a pool method to its end
	call := func(kind string, fn func()) bool {
		startOp(&opInfo{kind: kind, step: -1}, func(*c15OpEv) { fn() })
		ev, ok := waitOp(-1)
		for ok && ev.Kind != "done" {
			ev, ok = waitOp(-1)
		}
		if !ok {
			res.Problem = "a pool method does not return"
			return false
		}
		opDone(&ev)
		synctest.Wait()
		return ev.PV == nil
	}
	// Past a divergence the specification has nothing more to say; the director goes on with calls of
	// its own and the bounds are probed directly: a fresh connection is put under every key (so that
	// the lists exist), pending call-backs run to completion, then fresh connections are put until
	// every bound would have to evict.
	{
		next := nconn
		probePut := func(k int) {
			next++
			c := &c15Conn{d: d, id: next, closedCh: make(chan struct{})}
			conns[next] = c
			d.mu.Lock()
			d.own[next] = "pool"
			d.mu.Unlock()
			time.Sleep(time.Second)
			synctest.Wait()
			if !call("Put", func() { pool.Put(k, c) }) {
				return
			}
			closeEvents(-1)
			observe(-1)
		}
		probing := diverged && !panicked && res.Problem == ""
		if probing && !freed {
			for k := 1; k <= nkeys && !panicked && res.Problem == ""; k++ {
				probePut(k)
			}
		}
		// run everything to completion: no more parking
		if !freed {
			enterFree()
		}
		if res.Problem == "a pool method does not return" {
			return res
		}
		if probing {
			m := b.Kcap
			if b.Cap > m {
				m = b.Cap
			}
			for k := 1; k <= nkeys; k++ {
				for j := 0; j < m+2 && !panicked && res.Problem == ""; j++ {
					probePut(k)
				}
			}
		}
	}
	if res.Problem == "a pool method does not return" {
		return res
	}
	if !call("PoolClose", func() { _ = pool.Close() }) && res.Problem == "a pool method does not return" {
		return res
	}
	time.Sleep(3 * c15Expiration)
	synctest.Wait()
	closeEvents(-1)
	observe(-1)
	if !panicked && res.Problem == "" {
		d.mu.Lock()
		leaked := []string{}
		for id, c := range conns {
			if d.own[id] == "pool" && !c.isClosed {
				leaked = append(leaked, c.String())
			}
		}
		d.mu.Unlock()
		sort.Strings(leaked)
		if len(leaked) > 0 {
			viol("connection neither handed out nor closed"+suffix(), -1, strings.Join(leaked, ","))
		}
		if !diverged && b.Term && (len(leaked) > 0) != (len(b.Leaked) > 0) {
			diverge(last, "final ownership", fmt.Sprintf("leaked %v, specification %v", leaked, b.Leaked))
		}
	}
	return res
}

// c15Variant says which variant of the algorithm the code under test implements; Pool.tla has a
// constant for each (the specification must model what the code does).
type c15Variant struct {
	UnlinkOnce bool `json:"unlinkOnce"` // an entry is unlinked at most once (call-back's removeEntry is a no-op after Take/evict/Close)
	OwnList    bool `json:"ownList"`    // Put keeps the per-key list of its own key registered while evicting
}

// c15Probe runs inside a bubble.
func c15Probe() (v c15Variant) {
	defer func() { _ = recover() }()
	d := &c15Dir{own: map[int]string{}, opEv: make(chan c15OpEv, 8), cbEv: make(chan struct{}, 16)}
	mk := func(i int) *c15Conn { return &c15Conn{d: d, id: i, closedCh: make(chan struct{})} }
	{
		pool := drpcpool.New[int, *c15Conn](drpcpool.Options{Capacity: 1})
		d.opGID.Store(c15GID())
		pool.Put(1, mk(1))
		pool.Put(1, mk(2))
		_, _, kc, _ := pool.VerifCounts()
		_, v.OwnList = kc[1]
		_ = pool.Close()
		d.opGID.Store(0)
	}
	{
		pool := drpcpool.New[int, *c15Conn](drpcpool.Options{Expiration: c15Expiration})
		d.opGID.Store(c15GID())
		pool.Put(1, mk(3))
		d.opGID.Store(0)
		time.Sleep(c15Expiration + time.Millisecond)
		synctest.Wait()
		letGo := func() {
			d.mu.Lock()
			if !d.free.Load() {
				d.free.Store(true)
				for _, cb := range d.cbs {
					close(cb.gate)
				}
			}
			d.mu.Unlock()
		}
		// (on a goroutine of its own: should the parked call-back hold Pool.mu, it is let go)
		done := make(chan struct{})
		go func() {
			defer close(done)
			d.opGID.Store(c15GID())
			pool.Take(1)
			d.opGID.Store(0)
		}()
		t0 := c15RealNow()
	wait:
		for {
			select {
			case <-done:
				break wait
			case <-c15Tick:
				if c15RealNow()-t0 > 50*time.Millisecond {
					gs := vf.Census()
					for i := range gs {
						if c15WaitsForPoolMu(&gs[i]) {
							letGo()
						}
					}
				}
			}
		}
		letGo()
		synctest.Wait()
		oc, _, _, _ := pool.VerifCounts()
		v.UnlinkOnce = oc == 0
		d.opGID.Store(c15GID())
		_ = pool.Close()
		d.opGID.Store(0)
	}
	return v
}

// c15ReplayMain is the sub-process: behaviours on stdin, results on stdout.
func c15ReplayMain(args []string) int {
	testing.Init()
	os.Args = os.Args[:1]
	go c15Ticker()
	out := bufio.NewWriterSize(os.Stdout, 1<<16)
	test := func(t *testing.T) {
		in := bufio.NewReaderSize(os.Stdin, 1<<20)
		for {
			line, err := in.ReadBytes('\n')
			if len(line) > 1 {
				var rec struct {
					I     int     `json:"i"`
					B     *c15Beh `json:"b"`
					Probe bool    `json:"probe"`
				}
				var res c15Result
				if jerr := json.Unmarshal(line, &rec); jerr == nil && rec.Probe {
					synctest.Test(t, func(t *testing.T) { v := c15Probe(); res.Probe = &v })
				} else if jerr != nil || rec.B == nil {
					res.Problem = fmt.Sprintf("bad behaviour record: %v", jerr)
				} else {
					fmt.Fprintf(out, "@@start %d\n", rec.I)
					out.Flush()
					synctest.Test(t, func(t *testing.T) { res = c15Replay(rec.B) })
				}
				res.I = rec.I
				jb, _ := json.Marshal(res)
				out.WriteString("@@")
				out.Write(jb)
				out.WriteByte('\n')
				out.Flush()
			}
			if err != nil {
				return
			}
		}
	}
	testing.Main(func(pat, str string) (bool, error) { return true, nil },
		[]testing.InternalTest{{Name: "C15Replay", F: test}}, nil, nil)
	return 0
}

func init() { Sub["c15replay"] = c15ReplayMain }
