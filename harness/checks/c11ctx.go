package checks

import (
	"context"
	"encoding/json"
	"fmt"
	"sort"
	"strings"
	"time"

	"storj.io/drpc/drpcmetadata"

	"verif/vf"
)

// metaCtx replays every behaviour of spec/MetaCtx.tla (sequences of Add / AddPairs on a growing family of contexts,
// interleaved with the caller changing its own map) on the real drpcmetadata functions and compares, at the end, what
// Get returns for every context and what the caller's map contains with what the specification demands.
func metaCtx(c *vf.Ctx) {
	maxOps := 4
	if !c.Quick() {
		maxOps = 5
	}
	name, mod, consts := vf.MCModule("MetaCtx", map[string]string{"Keys": `{"a", "b"}`, "Vals": `{"1", "2"}`}, map[string]string{"MaxOps": fmt.Sprint(maxOps)})
	cfg := "SPECIFICATION Spec\n" + consts + "INVARIANT Emit\nPROPERTY Immutable\nCHECK_DEADLOCK FALSE\n"
	type opT struct {
		Op string `json:"op"`
		I  int    `json:"i"`
		K  string `json:"k"`
		V  string `json:"v"`
	}
	type rec struct {
		Ops  []opT               `json:"ops"`
		Ctxs []map[string]string `json:"ctxs"`
		Um   map[string]string   `json:"um"`
	}
	n := 0
	classes := map[string]int{}
	strip := func(m map[string]string) map[string]string {
		o := map[string]string{}
		for k, v := range m {
			if v != "-" {
				o[k] = v
			}
		}
		return o
	}
	show := func(m map[string]string) string {
		var p []string
		for k, v := range m {
			p = append(p, k+"="+v)
		}
		sort.Strings(p)
		return "{" + strings.Join(p, ",") + "}"
	}
	res, err := vf.TLC(vf.TLCOpts{Module: name, Cfg: cfg, Extra: map[string]string{name + ".tla": mod}, Workers: 4, Timeout: 10 * time.Minute, HeapMB: 4000,
		OnLine: func(b []byte) {
			var r rec
			if json.Unmarshal(b, &r) != nil {
				return
			}
			n++
			ctxs := []context.Context{context.Background()}
			um := map[string]string{}
			for _, o := range r.Ops {
				switch o.Op {
				case "add":
					ctxs = append(ctxs, drpcmetadata.Add(ctxs[o.I-1], o.K, o.V))
				case "addpairs":
					ctxs = append(ctxs, drpcmetadata.AddPairs(ctxs[o.I-1], um))
				case "userset":
					um[o.K] = o.V
				}
			}
			c.Eval(fmt.Sprintf("metactx:%v", r.Ops))
			for i, cx := range ctxs {
				got, _ := drpcmetadata.Get(cx)
				want := strip(r.Ctxs[i])
				if show(got) != show(want) {
					sig := "metadata of a context changed after it was made: a later Add/AddPairs on it or on a context derived from it, or a change of the caller's map, shows through"
					if len(got) < len(want) {
						sig = "metadata attached to a context is missing"
					}
					classes[sig]++
					if classes[sig] == 1 {
						c.Violation(sig, map[string]any{"calls": r.Ops, "context": i + 1, "Get_returns": show(got), "specification": show(want)})
					}
					return
				}
			}
			if show(um) != show(strip(r.Um)) {
				sig := "the map handed to AddPairs was modified by the library"
				classes[sig]++
				if classes[sig] == 1 {
					c.Violation(sig, map[string]any{"calls": r.Ops, "map_now": show(um), "specification": show(strip(r.Um))})
				}
			}
		}})
	if err != nil || res == nil || !res.Finished {
		msg := ""
		if res != nil {
			msg = res.Violated + " " + res.ErrorText + "\n" + res.Tail
		}
		c.Inconclusive("MetaCtx.tla enumeration failed: %v %s", err, msg)
		return
	}
	c.AddTLC(res)
	c.TraceValidated(int64(n))
	c.Cov["metactx"] = fmt.Sprintf("MetaCtx.tla: %d behaviours of %d calls (Add / AddPairs on any earlier context, the caller changing its map) over 2 keys x 2 values, each replayed on drpcmetadata and compared context by context; distinct=%d", n, maxOps, res.Distinct)
	if len(classes) > 0 {
		c.Cov["metactx_failure_classes"] = classes
	}
}

func init() {
	SpecModules = append(SpecModules, "MetaCtx")
	All["METACTXDEV"] = metaCtx
}
