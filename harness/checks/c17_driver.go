package checks

import (
	"fmt"
	"strings"
)

// cgMeth .. cgRec mirror the oracle record printed by spec/Codegen.tla (operator Record).
type cgMeth struct {
	Name         string   `json:"name"`
	Go           string   `json:"go"`
	CS           bool     `json:"cs"`
	SS           bool     `json:"ss"`
	Shape        string   `json:"shape"`
	RPC          string   `json:"rpc"`
	SrvIn        []string `json:"srvin"`
	SrvOut       []string `json:"srvout"`
	NumIn        int      `json:"numin"`
	NumOut       int      `json:"numout"`
	Class        string   `json:"class"`
	CliIn        []string `json:"cliin"`
	CliOut       []string `json:"cliout"`
	CliOps       []string `json:"cliops"`
	SrvOps       []string `json:"srvops"`
	CStreamIface string   `json:"cstreamIface"`
	SStreamIface string   `json:"sstreamIface"`
}

type cgSvc struct {
	Name        string   `json:"name"`
	Go          string   `json:"go"`
	Full        string   `json:"full"`
	ClientIface string   `json:"clientIface"`
	NewClient   string   `json:"newClient"`
	ServerIface string   `json:"serverIface"`
	Unimpl      string   `json:"unimpl"`
	Desc        string   `json:"desc"`
	Register    string   `json:"register"`
	Meths       []cgMeth `json:"meths"`
}

type cgIdent struct {
	Role  string `json:"role"`
	Svc   int    `json:"svc"`
	Meth  int    `json:"meth"`
	Scope string `json:"scope"`
	ID    string `json:"id"`
}

type cgRef struct {
	Role string `json:"role"`
	Svc  int    `json:"svc"`
	Meth int    `json:"meth"`
}

type cgColl struct {
	ID    string `json:"id"`
	Class string `json:"class"`
	Scope string `json:"scope"`
	A     cgRef  `json:"a"`
	B     cgRef  `json:"b"`
}

type cgFile struct {
	Pkg  string `json:"pkg"`
	Lib  string `json:"lib"`
	JSON bool   `json:"json"`
	Msgs string `json:"msgs"`
}

type cgRec struct {
	File       cgFile    `json:"file"`
	Generates  bool      `json:"generates"`
	Svcs       []cgSvc   `json:"svcs"`
	EncMethods []string  `json:"encMethods"`
	Idents     []cgIdent `json:"idents"`
	Collisions []cgColl  `json:"collisions"`
}

// key identifies a descriptor (the input part of the record only).
func (r *cgRec) key() string {
	var b strings.Builder
	fmt.Fprintf(&b, "%s|%s|%v|%s", r.File.Pkg, r.File.Lib, r.File.JSON, r.File.Msgs)
	for _, s := range r.Svcs {
		b.WriteString("|" + s.Name + "{")
		for _, m := range s.Meths {
			b.WriteString(m.Name + ":" + m.Shape + ",")
		}
		b.WriteString("}")
	}
	return b.String()
}

// size orders witnesses: fewer services and methods first.
func (r *cgRec) size() int {
	n := 0
	for _, s := range r.Svcs {
		n += 10 + len(s.Meths)
	}
	return n
}

func c17MsgsPkg(lib string) string { return "msgs_" + lib }

func c17Tag(si, mi int) string { return fmt.Sprintf("s%dm%d", si, mi) }

// c17Expect is the payload protocol of the driver: what the server must have seen and what
// the client must have got back, per shape.
func c17Expect(shape, tag string) (ranPayload, reply string) {
	switch shape {
	case "unary":
		return tag, "re:" + tag
	case "cstream":
		return tag + "a," + tag + "b", "re:" + tag + "a," + tag + "b"
	case "sstream":
		return tag, "re1:" + tag + "|re2:" + tag + "|EOF"
	case "bidi":
		return tag + "a," + tag + "b", "re:" + tag + "a|re:" + tag + "b|EOF"
	}
	return "?", "?"
}

// goType turns a type token of the specification into Go source.
func c17GoType(tok, inT, outT string) string {
	switch tok {
	case "ctx":
		return "context.Context"
	case "*In":
		return "*" + inT
	case "*Out":
		return "*" + outT
	case "error":
		return "error"
	}
	return tok // an interface name predicted by the specification
}

func c17Results(toks []string, inT, outT string) string {
	ts := []string{}
	for _, t := range toks {
		ts = append(ts, c17GoType(t, inT, outT))
	}
	if len(ts) == 1 {
		return ts[0]
	}
	return "(" + strings.Join(ts, ", ") + ")"
}

// c17Driver generates the two harness files of a package: rt_sig.go (the signatures and
// identifiers the specification predicts, as compile-time assertions) and rt.go (server
// implementations that record what ran, and one client call per method).
func c17Driver(r *cgRec, pk string) (sig, drv string) {
	inT, outT := "In", "Out"
	imp := ""
	if r.File.Msgs == "imported" {
		inT, outT = "msgs.In", "msgs.Out"
		imp = fmt.Sprintf("\tmsgs %q\n", c17Module+"/"+c17MsgsPkg(r.File.Lib))
	}
	var s, d strings.Builder
	fmt.Fprintf(&s, "package %s\n\nimport (\n\t\"context\"\n\n\t\"storj.io/drpc\"\n%s)\n\nvar _ context.Context\n\nvar (\n", pk, imp)
	if imp != "" {
		fmt.Fprintf(&s, "\t_ *%s\n", inT)
	}
	fmt.Fprintf(&d, "package %s\n\nimport (\n\t\"context\"\n\t\"errors\"\n\t\"fmt\"\n\t\"io\"\n\n\t\"storj.io/drpc\"\n\t\"storj.io/drpc/drpcmux\"\n\n\trt %q\n%s)\n\n", pk, c17Module+"/rtlib", imp)
	d.WriteString("var (\n\t_ = errors.Is\n\t_ = io.EOF\n\t_ context.Context\n\t_ = fmt.Sprint\n)\n\n")

	for si, sv := range r.Svcs {
		i := si + 1
		fmt.Fprintf(&s, "\t_ func(drpc.Conn) %s = %s\n", sv.ClientIface, sv.NewClient)
		fmt.Fprintf(&s, "\t_ func(drpc.Mux, %s) error = %s\n", sv.ServerIface, sv.Register)
		fmt.Fprintf(&s, "\t_ drpc.Description = %s{}\n", sv.Desc)
		fmt.Fprintf(&s, "\t_ %s = (*%s)(nil)\n", sv.ServerIface, sv.Unimpl)
		fmt.Fprintf(&s, "\t_ func(%s) drpc.Conn = %s.DRPCConn\n", sv.ClientIface, sv.ClientIface)
		fmt.Fprintf(&d, "type vsrv%d struct{ rec *rt.Rec }\n\nvar _ %s = (*vsrv%d)(nil)\n\n", i, sv.ServerIface, i)
		for mi, m := range sv.Meths {
			j := mi + 1
			// predicted signatures as method expressions
			params := []string{sv.ServerIface}
			for _, t := range m.SrvIn {
				if t == "stream" {
					t = m.SStreamIface
				}
				params = append(params, c17GoType(t, inT, outT))
			}
			fmt.Fprintf(&s, "\t_ func(%s) %s = %s.%s\n", strings.Join(params, ", "), c17Results(m.SrvOut, inT, outT), sv.ServerIface, m.Go)
			params = []string{sv.ClientIface}
			for _, t := range m.CliIn {
				params = append(params, c17GoType(t, inT, outT))
			}
			fmt.Fprintf(&s, "\t_ func(%s) %s = %s.%s\n", strings.Join(params, ", "), c17Results(m.CliOut, inT, outT), sv.ClientIface, m.Go)

			// server implementation
			ps := []string{}
			for _, t := range m.SrvIn {
				switch t {
				case "ctx":
					ps = append(ps, "ctx context.Context")
				case "*In":
					ps = append(ps, "in *"+inT)
				case "stream":
					ps = append(ps, "st "+m.SStreamIface)
				default:
					ps = append(ps, "p"+fmt.Sprint(len(ps))+" "+t)
				}
			}
			fmt.Fprintf(&d, "func (s *vsrv%d) %s(%s) %s {\n", i, m.Go, strings.Join(ps, ", "), c17Results(m.SrvOut, inT, outT))
			switch m.Shape {
			case "unary":
				fmt.Fprintf(&d, "\ts.rec.Ran(%d, %d, \"unary\", in.Q)\n\treturn &%s{R: \"re:\" + in.Q}, nil\n", i, j, outT)
			case "sstream":
				fmt.Fprintf(&d, "\ts.rec.Ran(%d, %d, \"sstream\", in.Q)\n", i, j)
				fmt.Fprintf(&d, "\tif err := st.Send(&%s{R: \"re1:\" + in.Q}); err != nil {\n\t\treturn err\n\t}\n", outT)
				fmt.Fprintf(&d, "\tif err := st.Send(&%s{R: \"re2:\" + in.Q}); err != nil {\n\t\treturn err\n\t}\n\treturn nil\n", outT)
			case "cstream":
				d.WriteString("\tgot := \"\"\n\tfor {\n\t\tm, err := st.Recv()\n\t\tif errors.Is(err, io.EOF) {\n\t\t\tbreak\n\t\t}\n\t\tif err != nil {\n\t\t\treturn err\n\t\t}\n\t\tif got != \"\" {\n\t\t\tgot += \",\"\n\t\t}\n\t\tgot += m.Q\n\t}\n")
				fmt.Fprintf(&d, "\ts.rec.Ran(%d, %d, \"cstream\", got)\n\treturn st.SendAndClose(&%s{R: \"re:\" + got})\n", i, j, outT)
			case "bidi":
				d.WriteString("\tgot := \"\"\n\tfor {\n\t\tm, err := st.Recv()\n\t\tif errors.Is(err, io.EOF) {\n")
				fmt.Fprintf(&d, "\t\t\ts.rec.Ran(%d, %d, \"bidi\", got)\n\t\t\treturn nil\n\t\t}\n", i, j)
				d.WriteString("\t\tif err != nil {\n\t\t\treturn err\n\t\t}\n\t\tif got != \"\" {\n\t\t\tgot += \",\"\n\t\t}\n\t\tgot += m.Q\n")
				fmt.Fprintf(&d, "\t\tif err := st.Send(&%s{R: \"re:\" + m.Q}); err != nil {\n\t\t\treturn err\n\t\t}\n\t}\n", outT)
			}
			d.WriteString("}\n\n")
		}
	}
	s.WriteString(")\n")

	// Run
	fmt.Fprintf(&d, "// Run exercises the generated code of this package once.\nfunc Run() (o *rt.FileObs) {\n\to = rt.NewFileObs(%q)\n", pk)
	d.WriteString("\tdefer func() {\n\t\tif p := recover(); p != nil {\n\t\t\to.Panic = fmt.Sprint(p)\n\t\t}\n\t}()\n\tmux := drpcmux.New()\n")
	fmt.Fprintf(&d, "\tmk := func(s string) drpc.Message { return &%s{Q: s} }\n\tfresh := func() drpc.Message { return &%s{} }\n\tget := func(m drpc.Message) string { return m.(*%s).Q }\n\t_, _, _ = mk, fresh, get\n", inT, inT, inT)
	for si, sv := range r.Svcs {
		i := si + 1
		fmt.Fprintf(&d, "\to.RegErr = append(o.RegErr, rt.ErrStr(%s(mux, &vsrv%d{o.Rec})))\n", sv.Register, i)
		fmt.Fprintf(&d, "\to.Desc(%d, %s{}, mk, fresh, get, &%s{})\n", i, sv.Desc, sv.Unimpl)
	}
	for si, sv := range r.Svcs {
		i := si + 1
		for mi, m := range sv.Meths {
			j := mi + 1
			tag := c17Tag(i, j)
			cliOps := "nil"
			if m.CStreamIface != "" {
				cliOps = fmt.Sprintf("rt.Ops((*%s)(nil))", m.CStreamIface)
			}
			fmt.Fprintf(&d, "\to.Call(%d, %d, %s, rt.Ops((*%s)(nil)), func() (string, error) {\n", i, j, cliOps, m.SStreamIface)
			d.WriteString("\t\tconn, ctx, stop := rt.Serve(mux, o.Rec)\n\t\tdefer stop()\n")
			fmt.Fprintf(&d, "\t\tcli := %s(conn)\n\t\tif cli.DRPCConn() != conn {\n\t\t\treturn \"\", errors.New(\"DRPCConn is not the connection\")\n\t\t}\n", sv.NewClient)
			fail := "\t\tif err != nil {\n\t\t\treturn \"\", err\n\t\t}\n"
			switch m.Shape {
			case "unary":
				fmt.Fprintf(&d, "\t\tout, err := cli.%s(ctx, &%s{Q: %q})\n%s\t\treturn out.R, nil\n", m.Go, inT, tag, fail)
			case "cstream":
				fmt.Fprintf(&d, "\t\tst, err := cli.%s(ctx)\n%s\t\tdefer func() { _ = st.Close() }()\n", m.Go, fail)
				fmt.Fprintf(&d, "\t\tif err := st.Send(&%s{Q: %q}); err != nil {\n\t\t\treturn \"\", err\n\t\t}\n", inT, tag+"a")
				fmt.Fprintf(&d, "\t\tif err := st.Send(&%s{Q: %q}); err != nil {\n\t\t\treturn \"\", err\n\t\t}\n", inT, tag+"b")
				fmt.Fprintf(&d, "\t\tout, err := st.CloseAndRecv()\n%s\t\treturn out.R, nil\n", fail)
			case "sstream":
				fmt.Fprintf(&d, "\t\tst, err := cli.%s(ctx, &%s{Q: %q})\n%s\t\tdefer func() { _ = st.Close() }()\n", m.Go, inT, tag, fail)
				fmt.Fprintf(&d, "\t\tm1, err := st.Recv()\n%s\t\tm2, err := st.Recv()\n%s\t\t_, err = st.Recv()\n\t\treturn m1.R + \"|\" + m2.R + \"|\" + rt.EOF(err), nil\n", fail, fail)
			case "bidi":
				fmt.Fprintf(&d, "\t\tst, err := cli.%s(ctx)\n%s\t\tdefer func() { _ = st.Close() }()\n", m.Go, fail)
				fmt.Fprintf(&d, "\t\tif err := st.Send(&%s{Q: %q}); err != nil {\n\t\t\treturn \"\", err\n\t\t}\n\t\tm1, err := st.Recv()\n%s", inT, tag+"a", fail)
				fmt.Fprintf(&d, "\t\tif err := st.Send(&%s{Q: %q}); err != nil {\n\t\t\treturn \"\", err\n\t\t}\n\t\tm2, err := st.Recv()\n%s", inT, tag+"b", fail)
				d.WriteString("\t\tif err := st.CloseSend(); err != nil {\n\t\t\treturn \"\", err\n\t\t}\n\t\t_, err = st.Recv()\n\t\treturn m1.R + \"|\" + m2.R + \"|\" + rt.EOF(err), nil\n")
			}
			d.WriteString("\t})\n")
		}
	}
	d.WriteString("\treturn o\n}\n")
	return s.String(), d.String()
}

// c17Runner generates the main package that runs every compiled descriptor package, starting at
// the index given as its first argument; it announces each package before running it so that a
// crash of the process can be attributed.
func c17Runner(pkgs []string) string {
	var b strings.Builder
	b.WriteString("package main\n\nimport (\n\t\"encoding/json\"\n\t\"fmt\"\n\t\"os\"\n\t\"strconv\"\n\n")
	fmt.Fprintf(&b, "\trt %q\n", c17Module+"/rtlib")
	for _, p := range pkgs {
		fmt.Fprintf(&b, "\t%s %q\n", p, c17Module+"/"+p)
	}
	b.WriteString(")\n\nfunc main() {\n\tfrom := 0\n\tif len(os.Args) > 1 {\n\t\tfrom, _ = strconv.Atoi(os.Args[1])\n\t}\n")
	b.WriteString("\tenc := json.NewEncoder(os.Stdout)\n\ttimeouts := 0\n\tfor i, f := range []func() *rt.FileObs{\n")
	for _, p := range pkgs {
		fmt.Fprintf(&b, "\t\t%s.Run,\n", p)
	}
	b.WriteString("\t} {\n\t\tif i < from {\n\t\t\tcontinue\n\t\t}\n\t\tif timeouts >= 3 {\n\t\t\tbreak\n\t\t}\n\t\tfmt.Printf(\"{\\\"begin\\\":%d}\\n\", i)\n\t\to := f()\n\t\tfor _, c := range o.Calls {\n\t\t\tif c.TimedOut {\n\t\t\t\ttimeouts++\n\t\t\t}\n\t\t}\n\t\t_ = enc.Encode(o)\n\t}\n}\n")
	return b.String()
}
