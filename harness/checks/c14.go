package checks

import (
	"bytes"
	"crypto/sha1"
	"encoding/base64"
	"encoding/binary"
	"encoding/json"
	"errors"
	"fmt"
	"math/rand"
	"net/http"
	"net/http/httptest"
	"regexp"
	"runtime"
	"runtime/debug"
	"sort"
	"strconv"
	"strings"
	"sync"
	"time"

	"storj.io/drpc"
	"storj.io/drpc/drpcerr"
	"storj.io/drpc/drpchttp"
	"storj.io/drpc/drpcmetadata"

	"verif/vf"
)

// ---------------------------------------------------------------------------------------------
// oracle records printed by spec/Http.tla
// ---------------------------------------------------------------------------------------------

// hText is a text of the model: clean string, hostile byte string, or opaque (any text).
type hText struct {
	S      *string `json:"s,omitempty"`
	B      []int   `json:"b,omitempty"`
	Opaque bool    `json:"opaque,omitempty"`
}

func (t hText) str() string {
	if t.S != nil {
		return *t.S
	}
	return string(intsToBytes(t.B))
}

type hNode struct {
	Code struct {
		K string `json:"k"`
		V hText  `json:"v"`
	} `json:"code"`
	Cause  string `json:"cause"`
	Unwrap string `json:"unwrap"`
}

type hChain struct {
	Nodes []hNode `json:"nodes"`
	Pad   int     `json:"pad"`
	Tnil  bool    `json:"tnil"`
}

type hOut struct {
	K     string `json:"k"`
	Chain hChain `json:"chain"`
	Msg   hText  `json:"msg"`
}

type hProto struct {
	Fam  string `json:"fam"`
	Ct   string `json:"ct"`
	JSON bool   `json:"json"`
	B64  bool   `json:"b64"`
}

type hFrame struct {
	Flag int `json:"flag"`
	Msg  int `json:"msg"`
	Len  int `json:"len"`
}

type hKV struct {
	K string `json:"k"`
	V hText  `json:"v"`
}

type hResp struct {
	Proto    string   `json:"proto"`
	Status   int      `json:"status"`
	Ctype    string   `json:"ctype"`
	B64      bool     `json:"b64"`
	Frames   []hFrame `json:"frames"`
	Trailers []hKV    `json:"trailers"`
	Jerr     []struct {
		Code hText `json:"code"`
		Msg  hText `json:"msg"`
	} `json:"jerr"`
	Body []struct {
		Msg int `json:"msg"`
		Len int `json:"len"`
	} `json:"body"`
}

type hWant struct {
	Resp hResp  `json:"resp"`
	Recv string `json:"recv"`
	Md   []struct {
		K []int `json:"k"`
		V []int `json:"v"`
	} `json:"md"`
	Mdok     bool   `json:"mdok"`
	Rpc      string `json:"rpc"`
	Numcode  string `json:"numcode"`
	Outnum   string `json:"outnum"`
	Failed   bool   `json:"failed"`
	Allocmax int    `json:"allocmax"`
}

type httpRec struct {
	Mode  string `json:"mode"`
	Ct    string `json:"ct"`
	P     hProto `json:"p"`
	Prog  string `json:"prog"`
	Sizes []int  `json:"sizes"`
	Out   hOut   `json:"out"`
	Req   struct {
		M      int    `json:"m"`
		Tok    string `json:"tok"`
		Defect string `json:"defect"`
	} `json:"req"`
	Hdrs [][]string `json:"hdrs"`
	Want hWant      `json:"want"`
}

// ---------------------------------------------------------------------------------------------
// concretiser: error values
// ---------------------------------------------------------------------------------------------

// hd is the data of one concrete error; the method set is chosen by the wrapping type.
type hd struct {
	msg    string
	num    uint64
	str    string
	cause  error
	unwrap error
}

type hmE struct{ d *hd }
type hmN struct{ d *hd }
type hmS struct{ d *hd }
type hmC struct{ d *hd }
type hmU struct{ d *hd }

func (m hmE) Error() string { return m.d.msg }
func (m hmN) Code() uint64  { return m.d.num }
func (m hmS) Code() string  { return m.d.str }
func (m hmC) Cause() error  { return m.d.cause }
func (m hmU) Unwrap() error { return m.d.unwrap }

// one type per method set: code {none, uint64, string} x links {none, Cause, Unwrap, both}
type (
	heOO struct{ hmE }
	heOC struct {
		hmE
		hmC
	}
	heOU struct {
		hmE
		hmU
	}
	heOB struct {
		hmE
		hmC
		hmU
	}
	heNO struct {
		hmE
		hmN
	}
	heNC struct {
		hmE
		hmN
		hmC
	}
	heNU struct {
		hmE
		hmN
		hmU
	}
	heNB struct {
		hmE
		hmN
		hmC
		hmU
	}
	heSO struct {
		hmE
		hmS
	}
	heSC struct {
		hmE
		hmS
		hmC
	}
	heSU struct {
		hmE
		hmS
		hmU
	}
	heSB struct {
		hmE
		hmS
		hmC
		hmU
	}
)

// methods named Code that are not the ones the gateway looks for
type hmP struct{ d *hd }
type hmV struct{ d *hd }
type hmT struct{ d *hd }

func (m hmP) Code(lang string) string    { return "odd" }
func (m hmV) Code(more ...string) string { return "odd" }
func (m hmT) Code() (string, error)      { return "odd", nil }

type (
	hePO struct {
		hmE
		hmP
	}
	hePC struct {
		hmE
		hmT
		hmC
	}
	hePU struct {
		hmE
		hmV
		hmU
	}
	hePB struct {
		hmE
		hmP
		hmC
		hmU
	}
)

func hMkErr(code string, hasCause, hasUnwrap bool, d *hd) error {
	e, n, s, c, u := hmE{d}, hmN{d}, hmS{d}, hmC{d}, hmU{d}
	switch {
	case code == "odd" && !hasCause && !hasUnwrap:
		return &hePO{e, hmP{d}}
	case code == "odd" && hasCause && !hasUnwrap:
		return &hePC{e, hmT{d}, c}
	case code == "odd" && !hasCause && hasUnwrap:
		return &hePU{e, hmV{d}, u}
	case code == "odd":
		return &hePB{e, hmP{d}, c, u}
	case code == "none" && !hasCause && !hasUnwrap:
		return &heOO{e}
	case code == "none" && hasCause && !hasUnwrap:
		return &heOC{e, c}
	case code == "none" && !hasCause && hasUnwrap:
		return &heOU{e, u}
	case code == "none":
		return &heOB{e, c, u}
	case code == "num" && !hasCause && !hasUnwrap:
		return &heNO{e, n}
	case code == "num" && hasCause && !hasUnwrap:
		return &heNC{e, n, c}
	case code == "num" && !hasCause && hasUnwrap:
		return &heNU{e, n, u}
	case code == "num":
		return &heNB{e, n, c, u}
	case code == "str" && !hasCause && !hasUnwrap:
		return &heSO{e, s}
	case code == "str" && hasCause && !hasUnwrap:
		return &heSC{e, s, c}
	case code == "str" && !hasCause && hasUnwrap:
		return &heSU{e, s, u}
	case code == "str":
		return &heSB{e, s, c, u}
	}
	return nil
}

// typed nil pointers: methods tolerate the nil receiver and read their data from hTnil.
var hTnil hd

const hTnilText = "typed-nil"

type (
	htOO struct{ _ int }
	htOU struct{ _ int }
	htNO struct{ _ int }
	htNU struct{ _ int }
	htSO struct{ _ int }
	htSU struct{ _ int }
)

func (p *htOO) Error() string { return hTnilText }
func (p *htOU) Error() string { return hTnilText }
func (p *htOU) Unwrap() error { return nil }
func (p *htNO) Error() string { return hTnilText }
func (p *htNO) Code() uint64  { return hTnil.num }
func (p *htNU) Error() string { return hTnilText }
func (p *htNU) Code() uint64  { return hTnil.num }
func (p *htNU) Unwrap() error { return nil }
func (p *htSO) Error() string { return hTnilText }
func (p *htSO) Code() string  { return hTnil.str }
func (p *htSU) Error() string { return hTnilText }
func (p *htSU) Code() string  { return hTnil.str }
func (p *htSU) Unwrap() error { return nil }

func hMkTnil(code string, hasUnwrap bool) error {
	if code == "odd" {
		code = "none" // typed nil pointers: the odd method sets are covered by the non-nil nodes
	}
	switch {
	case code == "none" && !hasUnwrap:
		return (*htOO)(nil)
	case code == "none":
		return (*htOU)(nil)
	case code == "num" && !hasUnwrap:
		return (*htNO)(nil)
	case code == "num":
		return (*htNU)(nil)
	case code == "str" && !hasUnwrap:
		return (*htSO)(nil)
	case code == "str":
		return (*htSU)(nil)
	}
	return nil
}

// hBuildErr turns an abstract error chain into a concrete error value.
func hBuildErr(o *hOut) (error, string) {
	if o.K != "err" {
		return nil, ""
	}
	msg := o.Msg.str()
	n := len(o.Chain.Nodes)
	if n == 0 {
		return nil, "empty chain"
	}
	datas := make([]*hd, n)
	errsv := make([]error, n)
	for i := range o.Chain.Nodes {
		nd := &o.Chain.Nodes[i]
		d := &hd{msg: msg}
		switch nd.Code.K {
		case "num":
			v, err := strconv.ParseUint(nd.Code.V.str(), 10, 64)
			if err != nil {
				return nil, "bad numeric code"
			}
			d.num = v
		case "str":
			d.str = nd.Code.V.str()
		}
		datas[i] = d
		if i == n-1 && o.Chain.Tnil {
			if nd.Cause != "no" || (nd.Unwrap != "no" && nd.Unwrap != "nil") {
				return nil, "typed nil with unsupported links"
			}
			hTnil = *d
			errsv[i] = hMkTnil(nd.Code.K, nd.Unwrap == "nil")
			if n == 1 && o.Chain.Pad == 0 && msg != hTnilText {
				return nil, "typed nil text"
			}
		} else {
			errsv[i] = hMkErr(nd.Code.K, nd.Cause != "no", nd.Unwrap != "no", d)
		}
		if errsv[i] == nil {
			return nil, "unknown node shape"
		}
	}
	// plain wrappers in front of the last node
	entryLast := errsv[n-1]
	for j := 0; j < o.Chain.Pad; j++ {
		d := &hd{msg: msg}
		if j%3 == 2 {
			d.cause = entryLast
			entryLast = hMkErr("none", true, false, d)
		} else {
			d.unwrap = entryLast
			entryLast = hMkErr("none", false, true, d)
		}
	}
	resolve := func(i int, t string) (error, bool) {
		switch t {
		case "no", "nil":
			return nil, true
		case "next":
			if i+1 >= n {
				return nil, false
			}
			if i+1 == n-1 {
				return entryLast, true
			}
			return errsv[i+1], true
		case "self":
			return errsv[i], true
		case "first":
			return errsv[0], true
		}
		return nil, false
	}
	for i := range o.Chain.Nodes {
		nd := &o.Chain.Nodes[i]
		var ok1, ok2 bool
		datas[i].cause, ok1 = resolve(i, nd.Cause)
		datas[i].unwrap, ok2 = resolve(i, nd.Unwrap)
		if !ok1 || !ok2 {
			return nil, "bad link"
		}
	}
	if n == 1 {
		return entryLast, ""
	}
	return errsv[0], ""
}

// ---------------------------------------------------------------------------------------------
// concretiser: messages and encodings
// ---------------------------------------------------------------------------------------------

type hMsg struct{ b []byte }

// hEncRaw has Marshal/Unmarshal only (JSON content types take the documented fallback path).
type hEncRaw struct{}

func (hEncRaw) Marshal(m drpc.Message) ([]byte, error) { return m.(*hMsg).b, nil }
func (hEncRaw) Unmarshal(b []byte, m drpc.Message) error {
	m.(*hMsg).b = append([]byte(nil), b...)
	return nil
}

// hEncJSON additionally has the JSONMarshal/JSONUnmarshal methods: the JSON form is the payload
// (letters only) in double quotes.
type hEncJSON struct{ hEncRaw }

func (hEncJSON) JSONMarshal(m drpc.Message) ([]byte, error) {
	b := m.(*hMsg).b
	out := make([]byte, 0, len(b)+2)
	out = append(out, '"')
	out = append(out, b...)
	return append(out, '"'), nil
}

func (hEncJSON) JSONUnmarshal(buf []byte, m drpc.Message) error {
	if len(buf) < 2 || buf[0] != '"' || buf[len(buf)-1] != '"' || bytes.IndexByte(buf[1:len(buf)-1], '"') >= 0 {
		return fmt.Errorf("not a quoted payload")
	}
	m.(*hMsg).b = append([]byte(nil), buf[1:len(buf)-1]...)
	return nil
}

// hMakeMsg builds a message whose marshalled form has exactly wireLen bytes.
func hMakeMsg(isJSON, jsonEnc bool, wireLen int, tag int) (*hMsg, []byte, string) {
	switch {
	case !isJSON:
		b := make([]byte, wireLen)
		for i := range b {
			b[i] = byte(tag*31 + i*7 + i>>8)
		}
		return &hMsg{b}, b, ""
	case jsonEnc:
		if wireLen < 2 {
			return nil, nil, "json message shorter than 2"
		}
		b := make([]byte, wireLen-2)
		for i := range b {
			b[i] = 'a' + byte((tag+i+i>>7)%26)
		}
		w := make([]byte, 0, wireLen)
		w = append(append(append(w, '"'), b...), '"')
		return &hMsg{b}, w, ""
	default:
		if wireLen%4 != 2 {
			return nil, nil, "length not reachable by the fallback JSON form"
		}
		b := make([]byte, (wireLen-2)/4*3)
		for i := range b {
			b[i] = byte(tag*31 + i*7)
		}
		w, _ := json.Marshal(b)
		if len(w) != wireLen {
			return nil, nil, "fallback JSON length"
		}
		return &hMsg{b}, w, ""
	}
}

// ---------------------------------------------------------------------------------------------
// scripted handler
// ---------------------------------------------------------------------------------------------

type hHandler struct {
	enc     drpc.Encoding
	reqMsg  *hMsg
	msgs    []*hMsg
	outcome error

	called   bool
	rpc      string
	md       map[string]string
	recv     string
	sendFail int
}

func (h *hHandler) HandleRPC(st drpc.Stream, rpc string) error {
	h.called = true
	h.rpc = rpc
	if md, ok := drpcmetadata.Get(st.Context()); ok {
		h.md = map[string]string{}
		for k, v := range md {
			h.md[k] = v
		}
	}
	var in hMsg
	if err := st.MsgRecv(&in, h.enc); err != nil {
		h.recv = "reject"
		return err
	}
	switch {
	case h.reqMsg != nil && bytes.Equal(in.b, h.reqMsg.b):
		h.recv = "full"
	case h.reqMsg != nil && len(in.b) < len(h.reqMsg.b) && bytes.Equal(in.b, h.reqMsg.b[:len(in.b)]):
		h.recv = "truncated"
	default:
		h.recv = "corrupt"
	}
	for i, m := range h.msgs {
		if err := st.MsgSend(m, h.enc); err != nil {
			h.sendFail = i + 1
			return err
		}
	}
	return h.outcome
}

// ---------------------------------------------------------------------------------------------
// executing one case on the real gateway and lifting the response
// ---------------------------------------------------------------------------------------------

type hGotFrame struct {
	flag    int
	payload []byte
}

type hGot struct {
	harness string // problem of the harness itself (inconclusive)
	panicFn string
	panicTx string

	called   bool
	rpc      string
	md       map[string]string
	recv     string
	status   int
	ctype    string
	body     []byte
	lift     string // why the body could not be lifted ("" = ok)
	frames   []hGotFrame
	trailers [][2]string
	jerr     *[2]string
	alloc    uint64
	numcode  uint64
	numPanic string
}

var (
	reNum  = regexp.MustCompile(`0x[0-9a-fA-F]+|\d+`)
	reFunc = regexp.MustCompile(`(?m)^storj\.io/drpc/([^\s(]+(?:\(\*?[\w]+\))?[.\w]*)\(`)
)

// hGuard runs f and reports a panic as (innermost drpc function, normalised text).
func hGuard(f func()) (fn, text string) {
	defer func() {
		if p := recover(); p != nil {
			st := string(debug.Stack())
			fn = "?"
			if m := reFunc.FindStringSubmatch(st); m != nil {
				fn = m[1]
			}
			text = reNum.ReplaceAllString(fmt.Sprint(p), "N")
			if text == "" {
				text = "(empty)"
			}
		}
	}()
	f()
	return "", ""
}

const hPath = "/svc.Service/Method"

type hCase struct {
	r       *httpRec
	jsonEnc bool
	wires   [][]byte // marshalled form of every response message
	reqWire []byte
	path    string
}

// hExec concretises the case, serves it with the real gateway and lifts the response.
func hExec(r *httpRec, rng *rand.Rand) (*hCase, *hGot) {
	hc, g, h, req := hPrepare(r, rng, hPath)
	if g.harness != "" {
		return hc, g
	}
	rec := httptest.NewRecorder()
	gw := drpchttp.New(h)

	var m0, m1 runtime.MemStats
	if r.Want.Allocmax > 0 {
		runtime.ReadMemStats(&m0)
	}
	g.panicFn, g.panicTx = hGuard(func() { gw.ServeHTTP(rec, req) })
	if r.Want.Allocmax > 0 {
		runtime.ReadMemStats(&m1)
		g.alloc = m1.TotalAlloc - m0.TotalAlloc
	}
	hCollect(r, g, h, rec.Code, rec.Header(), rec.Body.Bytes())
	return hc, g
}

// hCollect fills in what the handler saw and what the client got.
func hCollect(r *httpRec, g *hGot, h *hHandler, status int, hdr http.Header, body []byte) {
	g.called, g.rpc, g.md, g.recv = h.called, h.rpc, h.md, h.recv
	if g.panicTx != "" {
		return
	}
	if h.outcome != nil {
		_, g.numPanic = hGuard(func() { g.numcode = drpcerr.Code(h.outcome) })
	}
	g.status = status
	g.ctype = hdr.Get("Content-Type")
	g.body = body
	hLift(r, g)
}

// hPrepare concretises a case: the scripted handler and the HTTP request.
func hPrepare(r *httpRec, rng *rand.Rand, path string) (*hCase, *hGot, *hHandler, *http.Request) {
	g := &hGot{}
	hc := &hCase{r: r, path: path}
	P := r.P
	// encoding: the fallback JSON form cannot realise every length
	hc.jsonEnc = true
	if P.JSON {
		fallbackOK := r.Req.M%4 == 2
		for _, s := range r.Sizes {
			fallbackOK = fallbackOK && s%4 == 2
		}
		if fallbackOK && rng.Intn(2) == 0 {
			hc.jsonEnc = false
		}
	}
	var enc drpc.Encoding = hEncRaw{}
	if hc.jsonEnc {
		enc = hEncJSON{}
	}
	h := &hHandler{enc: enc}

	// request
	var body []byte
	reqLen := r.Req.M
	if r.Req.Defect != "none" && r.Req.Defect != "hdronly" && r.Req.Defect != "trunc" {
		reqLen = 18
	}
	payloadLen := reqLen
	if r.Req.Defect != "none" { // the payload is not sent (completely): do not build megabytes
		payloadLen = 18
	}
	m, w, why := hMakeMsg(P.JSON, hc.jsonEnc, payloadLen, 0)
	if why != "" {
		g.harness = "request: " + why
		return hc, g, nil, nil
	}
	h.reqMsg, hc.reqWire = m, w
	if P.Fam == "twirp" {
		if r.Req.Defect != "none" {
			g.harness = "twirp request with a framing defect"
			return hc, g, nil, nil
		}
		body = w
	} else {
		hdr := make([]byte, 5)
		binary.BigEndian.PutUint32(hdr[1:], uint32(reqLen))
		switch r.Req.Defect {
		case "none":
			body = append(hdr, w...)
		case "nobody":
			body = nil
		case "shorthdr":
			body = hdr[:3]
		case "hdronly":
			body = hdr
		case "trunc":
			body = append(hdr, w[:3]...)
		case "len32max":
			body = append([]byte{0, 0xff, 0xff, 0xff, 0xff}, w[:3]...)
		case "b64junk":
			body = []byte("!!!not*base64!!!")
		default:
			g.harness = "unknown request defect " + r.Req.Defect
			return hc, g, nil, nil
		}
		if P.B64 && r.Req.Defect != "b64junk" {
			body = []byte(base64.StdEncoding.EncodeToString(body))
		}
	}

	// response messages and outcome
	for i, s := range r.Sizes {
		m, w, why := hMakeMsg(P.JSON, hc.jsonEnc, s, i+1)
		if why != "" {
			g.harness = "response: " + why
			return hc, g, nil, nil
		}
		h.msgs = append(h.msgs, m)
		hc.wires = append(hc.wires, w)
	}
	// texts given as clean strings must be fixed points of the trailer sanitiser (the model does not rewrite them)
	for _, t := range r.Want.Resp.Trailers {
		if t.V.S != nil && (strings.ContainsAny(*t.V.S, "\r\n") || strings.Trim(*t.V.S, " \t") != *t.V.S) {
			g.harness = "clean-vocabulary text with CR/LF or outer blanks: " + strconv.Quote(*t.V.S)
			return hc, g, nil, nil
		}
	}
	outcome, why := hBuildErr(&r.Out)
	if why != "" {
		g.harness = "error value: " + why
		return hc, g, nil, nil
	}
	h.outcome = outcome

	req := httptest.NewRequest(http.MethodPost, "http://gateway.test"+path, bytes.NewReader(body))
	if r.Ct != "" {
		req.Header.Set("Content-Type", r.Ct)
	}
	for _, e := range r.Hdrs {
		req.Header["X-Drpc-Metadata"] = append(req.Header["X-Drpc-Metadata"], strings.Join(e, ""))
	}
	return hc, g, h, req
}

// hLift turns the recorded body into frames/trailers (grpc-web) or the JSON error (twirp failure).
func hLift(r *httpRec, g *hGot) {
	want := &r.Want.Resp
	switch want.Proto {
	case "grpc":
		data := g.body
		if want.B64 {
			// the text variants may encode every frame on its own: base64 quanta are independent
			if len(data)%4 != 0 {
				g.lift = "body is not base64 (length)"
				return
			}
			out := make([]byte, 0, len(data)/4*3)
			var q [3]byte
			for i := 0; i < len(data); i += 4 {
				n, err := base64.StdEncoding.Decode(q[:], data[i:i+4])
				if err != nil {
					g.lift = "body is not base64"
					return
				}
				out = append(out, q[:n]...)
			}
			data = out
		}
		for len(data) > 0 {
			if len(data) < 5 {
				g.lift = "frame header cut short"
				return
			}
			n := int(binary.BigEndian.Uint32(data[1:5]))
			if n > len(data)-5 {
				g.lift = "frame length exceeds body"
				return
			}
			g.frames = append(g.frames, hGotFrame{int(data[0]), data[5 : 5+n]})
			data = data[5+n:]
		}
		for _, f := range g.frames {
			if f.flag&0x80 != 0 {
				g.trailers = hSplitTrailers(f.payload)
			}
		}
	case "twirp":
		if want.Status != 200 || g.status != 200 {
			var obj map[string]any
			if err := json.Unmarshal(g.body, &obj); err != nil {
				g.lift = "error body is not JSON"
				return
			}
			code, ok1 := obj["code"].(string)
			msg, ok2 := obj["msg"].(string)
			if !ok1 || !ok2 || len(obj) != 2 {
				g.lift = "error body is not {code,msg}"
				return
			}
			g.jerr = &[2]string{code, msg}
		}
	}
}

// hSplitTrailers splits a trailer block into lines the way a lenient HTTP/1 parser would
// (CRLF, bare LF and bare CR all end a line) and each line at the first ": ".
func hSplitTrailers(p []byte) [][2]string {
	var out [][2]string
	s := string(p)
	for len(s) > 0 {
		i := strings.IndexAny(s, "\r\n")
		line := s
		if i < 0 {
			s = ""
			line += "<unterminated>"
		} else {
			line = s[:i]
			if s[i] == '\r' && i+1 < len(s) && s[i+1] == '\n' {
				i++
			}
			s = s[i+1:]
		}
		if j := strings.Index(line, ": "); j >= 0 {
			out = append(out, [2]string{line[:j], line[j+2:]})
		} else {
			out = append(out, [2]string{line, "<no separator>"})
		}
	}
	return out
}

// ---------------------------------------------------------------------------------------------
// comparison
// ---------------------------------------------------------------------------------------------

func hShort(s string) string {
	if len(s) > 48 {
		return fmt.Sprintf("%q...(%d)", s[:48], len(s))
	}
	return fmt.Sprintf("%q", s)
}

func hWantText(t hText) string {
	if t.Opaque {
		return "*"
	}
	return hShort(t.str())
}

func hTextEq(t hText, got string) bool { return t.Opaque || t.str() == got }

func hFrameDesc(hc *hCase, fs []hGotFrame) string {
	var b []string
	for _, f := range fs {
		if f.flag != 0 {
			b = append(b, strconv.Itoa(f.flag))
			continue
		}
		which := "?"
		for i, w := range hc.wires {
			if bytes.Equal(w, f.payload) {
				which = strconv.Itoa(i + 1)
				break
			}
		}
		if which == "?" {
			which = fmt.Sprintf("?len%d", len(f.payload))
		}
		b = append(b, "0:"+which)
	}
	return "[" + strings.Join(b, " ") + "]"
}

func hMdDesc(m map[string]string) string {
	var b []string
	for k, v := range m {
		b = append(b, fmt.Sprintf("%q=%q", k, v))
	}
	sort.Strings(b)
	return "{" + strings.Join(b, ",") + "}"
}

// hCompare returns the first observable (in a fixed order) on which the lifted real response differs
// from the demanded one.
func hCompare(hc *hCase, g *hGot) (field, want, got string) {
	r := hc.r
	w := &r.Want
	if !g.called {
		return "handler", "called", "not called"
	}
	if w.Rpc == "path" && g.rpc != hc.path {
		return "rpc", hc.path, g.rpc
	}
	wmd := map[string]string{}
	for _, p := range w.Md {
		wmd[string(intsToBytes(p.K))] = string(intsToBytes(p.V))
	}
	gmd := g.md
	if gmd == nil {
		gmd = map[string]string{}
	}
	if hMdDesc(wmd) != hMdDesc(gmd) {
		return "metadata", hMdDesc(wmd), hMdDesc(gmd)
	}
	if w.Recv != g.recv {
		return "recv", w.Recv, g.recv
	}
	if w.Resp.Status != g.status {
		return "status", strconv.Itoa(w.Resp.Status), strconv.Itoa(g.status)
	}
	if w.Resp.Ctype != g.ctype {
		return "content-type", w.Resp.Ctype, g.ctype
	}
	if g.lift != "" {
		return "body", "liftable " + w.Resp.Proto, g.lift
	}
	switch w.Resp.Proto {
	case "twirp":
		if len(w.Resp.Jerr) == 0 {
			var exp []byte
			if len(w.Resp.Body) == 1 {
				exp = hc.wires[w.Resp.Body[0].Msg-1]
			}
			if !bytes.Equal(exp, g.body) {
				return "body", fmt.Sprintf("message len %d", len(exp)), fmt.Sprintf("different bytes len %d", len(g.body))
			}
			return "", "", ""
		}
		je := w.Resp.Jerr[0]
		if g.jerr == nil {
			return "json-error", "present", "absent"
		}
		if !hTextEq(je.Code, g.jerr[0]) {
			return "json-error.code", hWantText(je.Code), hShort(g.jerr[0])
		}
		if !hTextEq(je.Msg, g.jerr[1]) {
			return "json-error.msg", hWantText(je.Msg), hShort(g.jerr[1])
		}
	case "grpc":
		var wd []string
		same := len(w.Resp.Frames) == len(g.frames)
		for i, f := range w.Resp.Frames {
			if f.Flag == 0 {
				wd = append(wd, "0:"+strconv.Itoa(f.Msg))
			} else {
				wd = append(wd, strconv.Itoa(f.Flag))
			}
			if same {
				gf := g.frames[i]
				if gf.flag != f.Flag || (f.Flag == 0 && (f.Msg < 1 || f.Msg > len(hc.wires) || !bytes.Equal(gf.payload, hc.wires[f.Msg-1]) || len(gf.payload) != f.Len)) {
					same = false
				}
			}
		}
		if !same {
			return "frames", "[" + strings.Join(wd, " ") + "]", hFrameDesc(hc, g.frames)
		}
		// the trailer block must consist of exactly the demanded lines: report the first line that differs
		for i := 0; i < len(w.Resp.Trailers) || i < len(g.trailers); i++ {
			field := fmt.Sprintf("trailer line %d", i+1)
			switch {
			case i >= len(g.trailers):
				return field, w.Resp.Trailers[i].K + "=" + hWantText(w.Resp.Trailers[i].V), "no such line"
			case i >= len(w.Resp.Trailers):
				return field, "end of block", "extra line " + g.trailers[i][0] + "=" + hShort(g.trailers[i][1])
			case g.trailers[i][0] != w.Resp.Trailers[i].K || !hTextEq(w.Resp.Trailers[i].V, g.trailers[i][1]):
				return field, w.Resp.Trailers[i].K + "=" + hWantText(w.Resp.Trailers[i].V), g.trailers[i][0] + "=" + hShort(g.trailers[i][1])
			}
		}
	}
	if r.Out.K == "err" && g.numPanic == "" {
		if strconv.FormatUint(g.numcode, 10) != hNumOfOutcome(r) {
			return "drpcerr.Code", hNumOfOutcome(r), strconv.FormatUint(g.numcode, 10)
		}
	}
	return "", "", ""
}

// hNumOfOutcome: the numeric code the description demands for the handler's own error value
// (drpcerr.Code is exported and is called on it directly as well).
func hNumOfOutcome(r *httpRec) string {
	return r.Want.Outnum
}

// ---------------------------------------------------------------------------------------------
// TLC runs
// ---------------------------------------------------------------------------------------------

func tlaSyms(s string) string {
	var b []string
	for _, ch := range s {
		b = append(b, `"`+string(ch)+`"`)
	}
	return "<<" + strings.Join(b, ",") + ">>"
}

func tlaBytes(s string) string {
	var b []string
	for i := 0; i < len(s); i++ {
		b = append(b, strconv.Itoa(int(s[i])))
	}
	return "B(<<" + strings.Join(b, ",") + ">>)"
}

func tlaSet(items ...string) string { return "{" + strings.Join(items, ", ") + "}" }

func tlaStrSet(items ...string) string {
	var b []string
	for _, s := range items {
		b = append(b, strconv.Quote(s))
	}
	return tlaSet(b...)
}

var httpAllCTs = []string{"application/proto", "application/json",
	"application/grpc-web+proto", "application/grpc-web+json", "application/grpc-web-text+proto", "application/grpc-web-text+json",
	"application/protobuf", "application/json; charset=utf-8", ""}

const hInject = "x\r\ngrpc-status: 0"

// httpConsts returns the constants of one mode.
func httpConsts(mode string, quick bool) (defs, plain map[string]string) {
	defs = map[string]string{
		"CTs":         tlaStrSet(httpAllCTs...),
		"Progs":       tlaStrSet("unary", "s0", "s1", "s3"),
		"Codes":       "{NoCode}",
		"Msgs":        `{T("boom")}`,
		"ChainLens":   "{1}",
		"Pads":        "{0}",
		"ReqShapes":   "{SmallReq}",
		"BigSizes":    "{}",
		"HdrAlphabet": `{"%"}`,
		"PairEntries": "{}",
	}
	plain = map[string]string{"Mode": strconv.Quote(mode), "MaxHdr": "1"}
	switch mode {
	case "resp":
		nums := []string{"0", "1", "12", "18446744073709551615"}
		strs := []string{"teapot", "", "Not_Found", "drpcerr(5)"}
		msgs := []string{`T("boom")`, `T("")`, tlaBytes("a\rb"), tlaBytes("a\nb"), tlaBytes(hInject), tlaBytes("  padded \t"),
			tlaBytes("\t x\r\n"), tlaBytes("h\xc3\xa9llo \xe2\x98\x83"), tlaBytes("\r\n")}
		if !quick {
			nums = append(nums, "2", "13", "4294967296", "9223372036854775808")
			strs = append(strs, "NOT_FOUND", "internal error")
			msgs = append(msgs, tlaBytes("\n\ngrpc-message: forged\n\n"), tlaBytes("a: b"), tlaBytes("\x00\x7f"), tlaBytes("\"quoted\" <&> \\"), tlaBytes("\r"))
		}
		codes := []string{"NoCode", `[k |-> "str", v |-> ` + tlaBytes(hInject) + `]`, `[k |-> "str", v |-> ` + tlaBytes(" not_found\n") + `]`}
		if !quick {
			codes = append(codes, `[k |-> "str", v |-> `+tlaBytes("unknown ")+`]`, `[k |-> "str", v |-> `+tlaBytes("not\rfound")+`]`)
		}
		for _, n := range nums {
			codes = append(codes, fmt.Sprintf(`[k |-> "num", v |-> T(%q)]`, n))
		}
		for _, s := range strs {
			codes = append(codes, fmt.Sprintf(`[k |-> "str", v |-> T(%q)]`, s))
		}
		defs["Codes"] = tlaSet(codes...) + ` \cup {[k |-> "str", v |-> T(x)] : x \in DOMAIN TwirpTable}`
		defs["Msgs"] = tlaSet(msgs...)
	case "chain":
		defs["CTs"] = tlaStrSet("application/json", "application/grpc-web+proto")
		if quick {
			defs["ChainLens"], defs["Pads"] = "{1, 2}", "{0, 98, 99, 100}"
		} else {
			defs["ChainLens"], defs["Pads"] = "{1, 2, 3}", "{0, 97, 98, 99, 100, 150}"
		}
	case "size":
		defs["ReqShapes"] = `{[m |-> t, defect |-> "none"] : t \in {"min", "small", "lim-1", "lim", "lim+1", "lim+5"}} \cup ` +
			`{[m |-> "small", defect |-> d] : d \in {"nobody", "shorthdr", "hdronly", "trunc", "len32max", "b64junk"}} \cup ` +
			`{[m |-> t, defect |-> d] : t \in {"lim", "lim+1"}, d \in {"hdronly", "trunc"}}`
		defs["BigSizes"] = `{<<"min">>, <<"lim-1">>, <<"lim">>, <<"small", "lim-1", "small">>, <<"small", "lim", "small">>, <<"lim", "small">>, <<"small", "small", "lim-1">>}`
	case "meta":
		defs["CTs"] = tlaStrSet("application/json", "application/grpc-web-text+proto")
		defs["HdrAlphabet"] = tlaStrSet("%", "=", "3", "D", "d", "g", "+")
		plain["MaxHdr"] = "5"
		if !quick {
			plain["MaxHdr"] = "6"
		}
		var pe []string
		for _, e := range []string{"k=v", "k=w", "k", "=", "%3D=%3d", "%", "k=%g", "j=v", "k=", "%6B=x", "%6b", "a=b=c", "%25=%"} {
			pe = append(pe, tlaSyms(e))
		}
		defs["PairEntries"] = tlaSet(pe...)
	}
	return defs, plain
}

const httpInvs = "TypeOK TableHas18 StatusIffFailed NoInjection TrimmedValues InOrderComplete NeverTruncated MetaRoundTrip Emit"

// httpTLC runs one mode of Http.tla; every terminal record is handed to fn.
func httpTLC(c *vf.Ctx, mode string, fn func(raw []byte, r *httpRec)) bool {
	defs, plain := httpConsts(mode, c.Quick())
	name, mod, consts := vf.MCModule("Http", defs, plain)
	cfg := "SPECIFICATION Spec\n" + consts + "INVARIANTS " + httpInvs + "\nPROPERTY Monotone\nCHECK_DEADLOCK FALSE\n"
	n := 0
	res, err := vf.TLC(vf.TLCOpts{Module: name, Cfg: cfg, Extra: map[string]string{name + ".tla": mod},
		Timeout: 30 * time.Minute, HeapMB: 6000,
		OnLine: func(b []byte) {
			var r httpRec
			if err := json.Unmarshal(b, &r); err != nil {
				c.Inconclusive("unparsable TLC record: %v", err)
				return
			}
			n++
			fn(b, &r)
		}})
	if err != nil {
		c.Inconclusive("tlc: %v", err)
		return false
	}
	if !res.Finished {
		c.Inconclusive("TLC run %s mode %s did not finish cleanly: violated=%q err=%q timeout=%v\n%s", name, mode, res.Violated, res.ErrorText, res.TimedOut, res.Tail)
		return false
	}
	if n == 0 {
		c.Inconclusive("TLC run %s mode %s produced no case", name, mode)
		return false
	}
	c.AddTLC(res)
	parts, _ := c.Cov["tlc_runs"].([]string)
	c.Cov["tlc_runs"] = append(parts, fmt.Sprintf("Http mode=%s: generated=%d distinct=%d depth=%d cases=%d wall=%.1fs", mode, res.Generated, res.Distinct, res.Depth, n, res.Wall.Seconds()))
	return true
}

// httpRunner executes cases and reports every failure class once.
type httpRunner struct {
	c        *vf.Ctx
	rng      *rand.Rand
	full     bool // compare the whole response (C14); otherwise only panics and the allocation bound (C13)
	classes  map[string]int
	perMode  map[string]int
	bigCases int
	pool     []*httpRec // resp-mode cases, one per content type x script x outcome kind, for the concurrent pairs
	poolSeen map[string]bool
	pairs    int
}

func newHTTPRunner(c *vf.Ctx, full bool) *httpRunner {
	return &httpRunner{c: c, rng: rand.New(rand.NewSource(c.Seed)), full: full, classes: map[string]int{}, perMode: map[string]int{}, poolSeen: map[string]bool{}}
}

func (hr *httpRunner) report(sig string, r *httpRec, extra map[string]any) {
	hr.classes[sig]++
	if hr.classes[sig] > 1 {
		return
	}
	rep := map[string]any{"case": r}
	for k, v := range extra {
		rep[k] = v
	}
	hr.c.Violation(sig, rep)
}

const hAllocSlack = 1 << 20

func (hr *httpRunner) one(raw []byte, r *httpRec) {
	c := hr.c
	hc, g := hExec(r, hr.rng)
	if g.harness != "" {
		c.Inconclusive("cannot concretise a case of mode %s: %s", r.Mode, g.harness)
		return
	}
	sum := sha1.Sum(raw)
	c.Eval(r.Mode + ":" + string(sum[:12]))
	c.TraceValidated(1)
	hr.perMode[r.Mode]++
	if r.Req.M >= 1<<22-1 && r.Req.Defect == "none" {
		hr.bigCases++
	} else {
		for _, s := range r.Sizes {
			if s >= 1<<22-1 {
				hr.bigCases++
				break
			}
		}
	}
	if g.panicTx != "" {
		hr.report(fmt.Sprintf("http panic in %s: %s", g.panicFn, g.panicTx), r, map[string]any{"panic": g.panicTx, "function": g.panicFn})
		return
	}
	if g.numPanic != "" {
		hr.report("drpcerr.Code panic: "+g.numPanic, r, nil)
		return
	}
	if r.Want.Allocmax > 0 && g.alloc > uint64(r.Want.Allocmax)+hAllocSlack {
		// confirm (the counter is process-wide): the excess must reproduce
		_, g2 := hExec(r, hr.rng)
		if g2.alloc > uint64(r.Want.Allocmax)+hAllocSlack {
			hr.report(fmt.Sprintf("http %s/%s: allocation for a request of a few bytes exceeds limit+header (defect %s)", r.P.Fam, r.Mode, r.Req.Defect), r,
				map[string]any{"allocated": g.alloc, "bound": r.Want.Allocmax})
			return
		}
	}
	if !hr.full {
		return
	}
	if r.Mode == "resp" {
		k := fmt.Sprintf("%s|%s|%s", r.Ct, r.Prog, r.Out.K)
		if !hr.poolSeen[k] && r.Req.Defect == "none" {
			hr.poolSeen[k] = true
			hr.pool = append(hr.pool, r)
		}
	}
	if field, want, got := hCompare(hc, g); field != "" {
		hr.report(fmt.Sprintf("http %s/%s: %s: want %s, got %s", r.P.Fam, r.Mode, field, want, got), r,
			map[string]any{"field": field, "want": want, "got": got, "status": g.status, "content_type": g.ctype, "body_len": len(g.body), "json_encoding_with_methods": hc.jsonEnc})
		return
	}
	switch {
	case r.Mode == "resp" && r.P.Fam == "grpc" && r.Out.K == "err" && r.Out.Msg.B != nil && len(r.Sizes) == 3 && r.Out.Chain.Nodes[0].Code.K == "str":
		c.Sample(map[string]any{"case": r})
	case r.Mode == "size" && r.Want.Recv == "reject" && r.Req.Defect == "none" && r.Prog == "unary":
		c.Sample(map[string]any{"case": r})
	}
}

// ---------------------------------------------------------------------------------------------
// two requests in flight on one gateway: what each client receives is what Http.tla demands for that
// request alone (a request's behaviour in the model has no state outside itself)
// ---------------------------------------------------------------------------------------------

// hRoute dispatches by rpc path to the scripted handler of each request.
type hRoute struct{ m map[string]*hHandler }

func (x hRoute) HandleRPC(st drpc.Stream, rpc string) error {
	if h := x.m[rpc]; h != nil {
		return h.HandleRPC(st, rpc)
	}
	return errors.New("unrouted rpc " + rpc)
}

// slowWriter is the ResponseWriter of a slow client: its first Write parks (the bytes handed to it are still the
// gateway's: a Write may read its argument for as long as it runs), every Write copies only when it goes on.
type slowWriter struct {
	hdr     http.Header
	code    int
	body    bytes.Buffer
	parked  chan struct{}
	release chan struct{}
	once    sync.Once
}

func (w *slowWriter) Header() http.Header { return w.hdr }
func (w *slowWriter) WriteHeader(c int) {
	if w.code == 0 {
		w.code = c
	}
}
func (w *slowWriter) Write(p []byte) (int, error) {
	w.once.Do(func() { close(w.parked) })
	<-w.release
	if w.code == 0 {
		w.code = 200
	}
	return w.body.Write(p)
}
func (w *slowWriter) Flush() {}

// pair serves a (slow client) and b (ordinary client) on one gateway, b completely while a's first Write is parked.
func (hr *httpRunner) pair(a, b *httpRec) {
	c := hr.c
	hca, ga, ha, reqa := hPrepare(a, hr.rng, "/svc.Service/A")
	hcb, gb, hb, reqb := hPrepare(b, hr.rng, "/svc.Service/B")
	if ga.harness != "" || gb.harness != "" {
		return
	}
	gw := drpchttp.New(hRoute{m: map[string]*hHandler{"/svc.Service/A": ha, "/svc.Service/B": hb}})
	sw := &slowWriter{hdr: http.Header{}, parked: make(chan struct{}), release: make(chan struct{})}
	done := make(chan struct{})
	go func() {
		defer close(done)
		ga.panicFn, ga.panicTx = hGuard(func() { gw.ServeHTTP(sw, reqa) })
	}()
	select {
	case <-sw.parked:
	case <-done: // a wrote nothing
	case <-time.After(20 * time.Second):
		c.Warn("pair: the first request neither writes nor returns")
		close(sw.release)
		return
	}
	rec := httptest.NewRecorder()
	gb.panicFn, gb.panicTx = hGuard(func() { gw.ServeHTTP(rec, reqb) })
	close(sw.release)
	select {
	case <-done:
	case <-time.After(20 * time.Second):
		c.Warn("pair: the slow request does not finish after its client went on")
		return
	}
	hCollect(a, ga, ha, sw.code, sw.hdr, sw.body.Bytes())
	hCollect(b, gb, hb, rec.Code, rec.Header(), rec.Body.Bytes())
	hr.pairs++
	c.Eval(fmt.Sprintf("pair:%s|%s|%s|%v|%s|%s|%s|%v", a.Ct, a.Prog, a.Out.K, a.Sizes, b.Ct, b.Prog, b.Out.K, b.Sizes))
	for _, x := range []struct {
		who string
		hc  *hCase
		g   *hGot
		r   *httpRec
	}{{"the slow client's request", hca, ga, a}, {"the request served meanwhile", hcb, gb, b}} {
		if x.g.panicTx != "" {
			hr.report(fmt.Sprintf("http panic in %s: %s", x.g.panicFn, x.g.panicTx), x.r, map[string]any{"concurrent_with": b})
			continue
		}
		if field, want, got := hCompare(x.hc, x.g); field != "" {
			hr.report(fmt.Sprintf("http %s, two requests in flight on one gateway: %s gets a different response than alone: %s", x.r.P.Fam, x.who, field), x.r,
				map[string]any{"field": field, "want": want, "got": got, "slow_request": a, "other_request": b})
		}
	}
}

// pairs picks requests with at least one response byte from the resp mode and runs ordered pairs of them.
func (hr *httpRunner) runPairs() {
	pool := hr.pool
	if len(pool) < 2 {
		return
	}
	n := 600
	if !hr.c.Quick() {
		n = 6000
	}
	if all := len(pool) * (len(pool) - 1); all <= n {
		for i := range pool {
			for j := range pool {
				if i != j {
					hr.pair(pool[i], pool[j])
				}
			}
		}
	} else {
		for k := 0; k < n; k++ {
			i, j := hr.rng.Intn(len(pool)), hr.rng.Intn(len(pool))
			if i != j {
				hr.pair(pool[i], pool[j])
			}
		}
	}
	hr.c.Cov["concurrent_pairs"] = hr.pairs
}

func (hr *httpRunner) finish() {
	c := hr.c
	c.Cov["cases_per_mode"] = hr.perMode
	c.Cov["cases_with_4MiB_bodies"] = hr.bigCases
	if len(hr.classes) > 0 {
		c.Cov["failure_classes"] = hr.classes
	}
}

// C14 — HTTP gateway maps RPC outcomes to responses faithfully.
func C14(c *vf.Ctx) {
	c.Assume = append(c.Assume,
		"the gateway's intended behaviour is the one transcribed in spec/Http.tla from the drpchttp documentation and code: protocol by exact content type with '*' fallback (Twirp, application/proto), Twirp unary semantics and 18-entry status table, grpc-web framing and trailers, 4 MiB limits (request > 4 MiB rejected, grpc-web response message >= 4 MiB rejected), percent-decoded key=value metadata, unwrap loops bounded by 100",
		"a request whose metadata header is malformed is served without any metadata (what ServeHTTP does; the documentation is silent); '+' in a metadata header is a literal",
		"the scripted handler behaves like drpcmux/generated code: one MsgRecv, then its MsgSends, and it returns the error of a failing stream call",
		"the text of errors produced by the gateway itself (too large, EOF, base64) is not constrained beyond being a single trailer line",
		"message payloads are concretised by the harness (proto: raw bytes; JSON: documented fallback form or an encoding with JSONMarshal/JSONUnmarshal methods, chosen per case from VERIF_SEED where the length allows both)",
		"the documentation names application/protobuf while the code registers application/proto; the model follows the code (application/protobuf is served by the fallback protocol and answered as application/proto)")
	hr := newHTTPRunner(c, true)
	for _, mode := range []string{"resp", "chain", "size", "meta"} {
		httpTLC(c, mode, hr.one)
	}
	hr.runPairs()
	hr.finish()
	c.Cov["rule"] = "TLC enumerates Http.tla (one behaviour per request: Recv, Send*, Return, Finish) in four modes: resp = content types x handler script {unary, stream of 0/1/3} x outcome {ok, one-node error x code class x message class}; chain = error chains (code kind, Cause/Unwrap/both, nil/self/2-cycle ends, typed nil, wrapper depth around the bound 100) x {Twirp, grpc-web}; size = content types x request class (sizes around 4 MiB, framing defects, base64 junk) and response size sequences around 4 MiB; meta = every X-Drpc-Metadata string over the alphabet up to MaxHdr plus all two-entry lists over a fixed entry set. Each terminal state is one case, distinct by its full record; each is executed on the real drpchttp.New(handler) and compared field by field (rpc, metadata, received message, status, content type, frames/body, trailers, JSON error, drpcerr.Code). Requests in the model have no state outside themselves, so the same demanded response holds for a request served while another one is in flight on the same gateway: ordered pairs of resp-mode cases (one per content type x script x outcome kind) are served on one drpchttp handler, the first through a slow client whose first Write is parked while the second request is served completely; both responses are compared with what the model demands for each alone."
	c.Cov["exhaustive"] = false
	c.Cov["exhaustive_note"] = "exhaustive over the stated class product; payload bytes, error texts and numeric codes are class representatives"
}

func init() {
	All["C14"] = C14
	SpecModules = append(SpecModules, "Http")
}
