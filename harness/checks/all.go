// Package checks holds one entry point per property.
package checks

import "verif/vf"

// All maps a property id to its check.
var All = map[string]func(*vf.Ctx){
	"C08": C08,
	"C19": C19,
}

// Sub holds sub-process entry points.
var Sub = map[string]func(args []string) int{}

// SelfTest parses every specification module.
func SelfTest() int {
	rc := 0
	for _, m := range SpecModules {
		if err := vf.Sany(m); err != nil {
			println(err.Error())
			rc = 1
		}
	}
	return rc
}

// SpecModules lists the root modules that setup parses.
var SpecModules = []string{"Codec", "Signal", "Chan"}
