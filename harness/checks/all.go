// Package checks holds one entry point per property.  Every cNN.go registers itself in init().
package checks

import "verif/vf"

// All maps a property id to its check.
var All = map[string]func(*vf.Ctx){}

// Sub holds sub-process entry points.
var Sub = map[string]func(args []string) int{}

// SpecModules lists the root modules that setup parses.
var SpecModules []string

// SelfTest parses every specification module.
func SelfTest() int {
	rc := 0
	for _, m := range SpecModules {
		if err := vf.Sany(m); err != nil {
			println(err.Error())
			rc = 1
		}
	}
	return rc
}
