package checks

import (
	"strings"

	"verif/sys"
	"verif/vf"
)

// finishedRaceSchedule is a directed real schedule below the grain of the specification (StreamCore's CheckFin reads
// "terminated, no write in flight, no read in flight" in one step; the code reads three words one after the other):
// a sender finishes its operation and is preempted inside the trailing checkFinished, right before it looks at the
// termination signal (armed point signal.isset.load inside drpcsignal.Signal.IsSet); meanwhile another goroutine
// runs SendError, which takes the write lock, terminates the stream and is then inside the user's Error() method,
// i.e. it has not written its frame yet; a third goroutine is waiting to start the next RPC.  Then the sender goes
// on.  The property (C07): frames of the later stream never precede frames of the earlier one, so the next RPC may
// not start before the error frame is out.  Judged by the wire monitor on the recorded run; the run is not
// validated against System.tla (the model has no label inside IsSet).
func finishedRaceSchedule(c *vf.Ctx) {
	cfg := sys.Config{Small: true, Soft: true, GateU: true, Threads: []string{"c1", "c2", "c3"}}
	reached := 0
	for attempt := 0; attempt < 3; attempt++ {
		w := sys.New(cfg)
		w.Begin()
		r := freshStream(w, "none", true)
		if r == 0 {
			w.Cleanup()
			continue
		}
		w.D.ArmPoints("signal.isset.load")
		names := []string{"c1", "c2", "c3", "sv"}
		inCheckFinished := func(name string) bool {
			id := w.D.Thread(name).GoID()
			for _, g := range vf.Census() {
				if g.ID == id {
					return g.Has("drpcstream.(*Stream).checkFinished")
				}
			}
			return false
		}
		// advance lets every goroutine parked at the point go on, except those hold() wants kept, and lets the transport
		// flow; it stops when stop() holds or nothing moves any more
		advance := func(hold func(name string) bool, stop func() bool) {
			for i := 0; i < 400 && w.Quiet; i++ {
				if stop != nil && stop() {
					return
				}
				moved := false
				for _, n := range names {
					if w.Last().App[n] == "pt" && !(hold != nil && hold(n)) {
						if w.Step(sys.Stim{K: "point", T: n}) {
							moved = true
							break
						}
					}
				}
				if moved {
					continue
				}
				if w.Flow(1, nil) == 0 {
					return
				}
			}
		}
		// 1. the sender: up to the look at the termination signal inside the trailing checkFinished
		w.Step(sys.Stim{K: "op", T: "c1", Op: "Send1", R: r})
		holdS := func(n string) bool { return n == "c1" && inCheckFinished("c1") }
		advance(holdS, func() bool { return w.Last().App["c1"] == "pt" && inCheckFinished("c1") })
		if !(w.Last().App["c1"] == "pt" && inCheckFinished("c1")) {
			w.D.DisarmPoints()
			w.Cleanup()
			continue
		}
		// 2. SendError: write lock taken, stream terminated, now inside the user's Error()
		w.Step(sys.Stim{K: "op", T: "c2", Op: "SendErr", R: r})
		advance(holdS, func() bool { return w.Last().App["c2"] == "ma" })
		if w.Last().App["c2"] != "ma" {
			w.D.DisarmPoints()
			w.Cleanup()
			continue
		}
		// 3. the next RPC waits for its turn
		w.Step(sys.Stim{K: "start", T: "c3", Op: "Invoke", Md: "none"})
		advance(holdS, func() bool { return w.Last().App["c3"] == "blk" })
		reached++
		// 4. the sender goes on; everything except the goroutine inside Error() runs as far as it can
		w.Step(sys.Stim{K: "point", T: "c1"})
		advance(nil, nil)
		// 5. Error() returns: the error frame is written
		w.Step(sys.Stim{K: "relm", T: "c2"})
		advance(nil, nil)
		w.D.DisarmPoints()
		run := &sysRun{Cfg: cfg, Lines: w.Lines, Direct: w.Direct, Origin: "finished-race"}
		w.Cleanup()
		v := view(run)
		for _, f := range monWire(v) {
			if f.Prop == "C07" {
				c.Violation(f.Sig, map[string]any{"schedule": "sender preempted inside checkFinished before it looks at the termination signal; SendError inside Error(); next RPC waiting",
					"at_line": f.At, "info": f.Info, "trace": traceDump(run, f.At)})
			}
		}
		for _, dm := range run.Direct {
			c.Violation("direct monitor: "+dm, map[string]any{"trace": traceDump(run, len(run.Lines)-1)})
		}
		c.Eval("finished-race:" + strings.Repeat("x", attempt))
		break
	}
	c.Cov["finished_race_schedule_reached"] = reached
	if reached == 0 {
		c.Warn("C07: the checkFinished preemption schedule was not reached")
	}
}

func init() { All["FINRACEDEV"] = finishedRaceSchedule }
