package checks

import (
	"bytes"
	"encoding/json"
	"fmt"
	"math/rand"
	"os"
	"regexp"
	"strconv"
	"strings"
	"sync"
	"time"

	"verif/sys"
	"verif/vf"
)

func init() {
	SpecModules = append(SpecModules, "System", "SystemTrace")
}

// sysRun is one recorded run of the connection world.
type sysRun struct {
	Cfg         sys.Config
	Stims       []sys.Stim
	Lines       []sys.Line
	Direct      []string
	Origin      string
	InvViolated string // design invariant of System.tla that failed on a state reached by following this run
}

func tlaB(b bool) string { return strings.ToUpper(strconv.FormatBool(b)) }

func tlaSetOf(xs []string) string {
	q := make([]string, len(xs))
	for i, x := range xs {
		q[i] = `"` + x + `"`
	}
	return "{" + strings.Join(q, ",") + "}"
}

// sysModule builds the MC module and cfg for System.tla / SystemTrace.tla.
func sysModule(mode string, cfg sys.Config, maxRPC, maxStims int, kinds []string, points []string, invs string) (string, string, string) {
	return sysModulePeek(mode, cfg, maxRPC, maxStims, kinds, points, invs, 0)
}

func sysModulePeek(mode string, cfg sys.Config, maxRPC, maxStims int, kinds []string, points []string, invs string, peekLine int) (string, string, string) {
	base := "System"
	if mode == "trace" {
		base = "SystemTrace"
	}
	name, mod, consts := vf.MCModule(base, map[string]string{
		"CliThreads":  tlaSetOf(cfg.Threads),
		"ArmedPoints": tlaSetOf(points),
		"StimKinds":   tlaSetOf(kinds),
	}, map[string]string{
		"MaxRPC": strconv.Itoa(maxRPC), "MaxStims": strconv.Itoa(maxStims),
		"Small": tlaB(cfg.Small), "Manual": tlaB(cfg.Manual), "Soft": tlaB(cfg.Soft),
		"GateU": tlaB(cfg.GateU), "Gen": tlaB(mode == "gen"),
	})
	if mode == "trace" {
		consts += " PeekLine = " + strconv.Itoa(peekLine) + "\n"
	}
	var c string
	switch mode {
	case "design":
		c = "SPECIFICATION Spec\n" + consts + "INVARIANTS " + invs + "\nVIEW view\nCHECK_DEADLOCK FALSE\n"
	case "gen":
		c = "SPECIFICATION Spec\n" + consts + "INVARIANTS EmitStims\nCHECK_DEADLOCK FALSE\n"
	case "trace":
		c = "SPECIFICATION TSpec\n" + consts + "CONSTRAINT HighWater\nINVARIANTS TypeOK CloseOnce OneWrite StreamInvs WireOrdered Peek Accepted\nPOSTCONDITION Report\nCHECK_DEADLOCK FALSE\n"
	}
	return name, mod, c
}

var allStimKinds = []string{"start", "hstep", "relw", "relwerr", "deliver", "cancel", "cancelsrv", "close", "fault", "relu", "point"}

// sysGen asks TLC for realisable stimulus sequences (simulation of System.tla with Gen = TRUE).
func sysGen(c *vf.Ctx, cfg sys.Config, maxRPC, maxStims int, kinds []string, nsim int, seed int64, fn func([]sys.Stim)) {
	name, mod, cf := sysModule("gen", cfg, maxRPC, maxStims, kinds, nil, "")
	seen := map[string]bool{}
	res, err := vf.TLC(vf.TLCOpts{Module: name, Cfg: cf, Extra: map[string]string{name + ".tla": mod}, Simulate: fmt.Sprintf("num=%d", nsim),
		Depth: 1500, Seed: seed, Workers: 8, Timeout: 20 * time.Minute, HeapMB: 6000,
		OnLine: func(b []byte) {
			if seen[string(b)] {
				return
			}
			seen[string(b)] = true
			var r struct {
				Stims []sys.Stim `json:"stims"`
			}
			if json.Unmarshal(b, &r) == nil && len(r.Stims) > 0 {
				fn(r.Stims)
			}
		}})
	if err != nil || !res.Finished {
		msg := ""
		if res != nil {
			msg = res.Violated + " " + res.ErrorText + "\n" + res.Tail
		}
		c.Inconclusive("System behaviour generation failed: %v %s", err, msg)
		return
	}
	c.AddTLC(res)
}

// sysExec runs one stimulus list on a fresh real world.
func sysExec(cfg sys.Config, stims []sys.Stim, origin string) (*sysRun, bool) {
	w := sys.New(cfg)
	lines, quiet := w.Run(stims)
	r := &sysRun{Cfg: cfg, Stims: stims, Lines: lines, Direct: w.Direct, Origin: origin}
	clean := w.Cleanup()
	return r, quiet && clean
}

// sysValidate has TLC decide whether the runs are behaviours of System.tla. All runs must share cfg.
func sysValidate(c *vf.Ctx, cfg sys.Config, runs []*sysRun, shards int) (rejected map[*sysRun]int, validated int) {
	rejected = map[*sysRun]int{}
	reLine := regexp.MustCompile(`(?m)^/\\ l = (\d+)`)
	var mu sync.Mutex
	var wg sync.WaitGroup
	parts := make([][]*sysRun, shards)
	for i, r := range runs {
		parts[i%shards] = append(parts[i%shards], r)
	}
	for _, part := range parts {
		part := part
		if len(part) == 0 {
			continue
		}
		wg.Add(1)
		go func() {
			defer wg.Done()
			rest := part
			for attempt := 0; attempt < 8 && len(rest) > 0; attempt++ {
				var buf bytes.Buffer
				starts := []int{}
				n := 0
				for _, r := range rest {
					starts = append(starts, n)
					for _, l := range r.Lines {
						b, _ := json.Marshal(l)
						buf.Write(b)
						buf.WriteByte('\n')
						n++
					}
				}
				name, mod, cf := sysModule("trace", cfg, sys.MaxRPC, 1000000, allStimKinds, cfg.Points, "")
				hw, total := -1, -1
				res, err := vf.TLC(vf.TLCOpts{Module: name, Cfg: cf, Extra: map[string]string{name + ".tla": mod, "trace.ndjson": buf.String()},
					Workers: 1, DFS: true, Timeout: 30 * time.Minute, HeapMB: 3000,
					OnLine: func(b []byte) {
						var r struct{ Hw, Len int }
						if json.Unmarshal(b, &r) == nil {
							hw, total = r.Hw, r.Len
						}
					}})
				if err == nil && res.Violated != "" {
					// a design invariant fails in a state reached by following a real execution
					ms := reLine.FindAllStringSubmatch(res.TraceText, -1)
					if len(ms) > 0 {
						ln, _ := strconv.Atoi(ms[len(ms)-1][1])
						idx := 0
						for i := range rest {
							if starts[i] <= ln-1 {
								idx = i
							}
						}
						mu.Lock()
						rest[idx].InvViolated = res.Violated
						rejected[rest[idx]] = ln - 1 - starts[idx]
						validated += idx
						c.AddTLC(res)
						mu.Unlock()
						rest = rest[idx+1:]
						continue
					}
				}
				if err != nil || res.Violated != "" || hw < 0 {
					mu.Lock()
					if res != nil && res.Violated != "" {
						c.Inconclusive("System trace validation: invariant %s violated while following real traces:\n%s", res.Violated, res.TraceText)
					} else {
						msg := ""
						if res != nil {
							msg = res.ErrorText + "\n" + res.Tail
						}
						c.Inconclusive("System trace validation run failed: %v %s", err, msg)
					}
					mu.Unlock()
					return
				}
				mu.Lock()
				c.AddTLC(res)
				mu.Unlock()
				if hw == total+1 {
					mu.Lock()
					validated += len(rest)
					mu.Unlock()
					return
				}
				idx := 0
				for i := range rest {
					if starts[i] <= hw-1 {
						idx = i
					}
				}
				mu.Lock()
				rejected[rest[idx]] = hw - 1 - starts[idx]
				validated += idx
				mu.Unlock()
				rest = rest[idx+1:]
			}
		}()
	}
	wg.Wait()
	return rejected, validated
}

// drawMd picks the metadata of a call: none twice as often as some, and of the calls that carry
// metadata every other one (by position in the list, so that the draw consumes exactly one random
// number as before) carries M2 instead of M1 - two calls with different metadata overlapping on one
// connection is what a conn-wide metadata buffer needs in order to show (seeded change C11c).
func drawMd(rng *rand.Rand, i int) string {
	md := []string{"none", "none", "M1"}[rng.Intn(3)]
	if md == "M1" && i%2 == 1 {
		md = "M2"
	}
	return md
}

// sysRandomStims draws a seeded stimulus list with the given weights.
func sysRandomStims(rng *rand.Rand, cfg sys.Config, n int, w map[string]int) []sys.Stim {
	kinds := []string{}
	for k, x := range w {
		for i := 0; i < x; i++ {
			kinds = append(kinds, k)
		}
	}
	// deterministic order regardless of map iteration
	sortStrings(kinds)
	var out []sys.Stim
	eps := []string{"cli", "srv"}
	for i := 0; i < n; i++ {
		t := cfg.Threads[rng.Intn(len(cfg.Threads))]
		switch kinds[rng.Intn(len(kinds))] {
		case "invoke":
			iop := "Invoke"
			if rng.Intn(12) == 0 {
				iop = "InvokeBad" // a request the encoding cannot marshal
			}
			out = append(out, sys.Stim{K: "start", T: t, Op: iop, Md: drawMd(rng, i)})
			if hasPoint(cfg, "manager.acquire.got") && rng.Intn(10) < 7 {
				out = append(out, sys.Stim{K: "point", T: t})
			}
		case "newstream":
			out = append(out, sys.Stim{K: "start", T: t, Op: "NewStream", Md: drawMd(rng, i)})
			if hasPoint(cfg, "manager.acquire.got") && rng.Intn(10) < 7 {
				out = append(out, sys.Stim{K: "point", T: t})
			}
		case "op":
			ops := []string{"Send1", "Send2", "Recv", "Recv", "CloseSend", "Close", "Send1", "Send2", "Recv", "Recv", "CloseSend", "SendErr", "SendBad"}
			op := ops[rng.Intn(13)]
			if cfg.GateU && rng.Intn(8) == 0 {
				op = "SendG"
			}
			if op == "Recv" && rng.Intn(4) == 0 {
				op = "RecvRaw"
			}
			out = append(out, sys.Stim{K: "op", T: t, Op: op, R: 1 + rng.Intn(sys.MaxRPC)})
		case "hstep":
			out = append(out, sys.Stim{K: "hstep", A: []string{"recv", "recv", "send1", "send2", "closesend", "retnil", "reterr", "recv", "send1", "sendbad"}[rng.Intn(10)]})
		case "relw":
			out = append(out, sys.Stim{K: "relw", E: eps[rng.Intn(2)], How: "ok"})
		case "relwerr":
			out = append(out, sys.Stim{K: "relw", E: eps[rng.Intn(2)], How: "err"})
		case "deliver":
			e := eps[rng.Intn(2)]
			out = append(out, sys.Stim{K: "deliver", E: e})
			if hasPoint(cfg, "manager.reader.dispatch") && rng.Intn(10) < 7 {
				out = append(out, sys.Stim{K: "point", T: "rd_" + e}) // mostly the reader goes on at once; sometimes it stays preempted before the dispatch
			}
		case "cancel":
			out = append(out, sys.Stim{K: "cancel", R: 1 + rng.Intn(sys.MaxRPC)})
		case "cancelsrv":
			out = append(out, sys.Stim{K: "cancelsrv"})
		case "connclose":
			out = append(out, sys.Stim{K: "connclose", T: t})
		case "fault":
			out = append(out, sys.Stim{K: "fault", E: eps[rng.Intn(2)]})
		case "relu":
			k := "relu"
			if rng.Intn(4) == 0 {
				k = "relm"
			}
			out = append(out, sys.Stim{K: k, T: append(append([]string{}, cfg.Threads...), "sv")[rng.Intn(len(cfg.Threads)+1)]})
		case "point":
			ts := append(append([]string{}, cfg.Threads...), "sv")
			if hasPoint(cfg, "manager.stream.ctx") {
				ts = append(ts, "ms_cli", "ms_cli", "ms_srv")
			}
			if hasPoint(cfg, "manager.reader.dispatch") {
				ts = append(ts, "rd_cli", "rd_srv", "rd_cli", "rd_srv")
			}
			out = append(out, sys.Stim{K: "point", T: ts[rng.Intn(len(ts))]})
		}
	}
	return out
}

func sortStrings(a []string) {
	for i := 1; i < len(a); i++ {
		for j := i; j > 0 && a[j] < a[j-1]; j-- {
			a[j], a[j-1] = a[j-1], a[j]
		}
	}
}

// SYSDEV is a development entry point: random runs of the connection world validated against System.tla.
func sysDev(c *vf.Ctx) {
	rng := rand.New(rand.NewSource(c.Seed))
	weights := map[string]map[string]int{
		"happy":  {"invoke": 2, "newstream": 1, "op": 4, "hstep": 6, "relw": 10, "deliver": 10},
		"cancel": {"invoke": 2, "newstream": 2, "op": 4, "hstep": 5, "relw": 8, "deliver": 8, "cancel": 3},
		"close":  {"invoke": 2, "newstream": 2, "op": 4, "hstep": 5, "relw": 8, "deliver": 8, "connclose": 1, "cancelsrv": 1},
		"fault":  {"invoke": 2, "newstream": 2, "op": 4, "hstep": 5, "relw": 8, "deliver": 8, "fault": 1, "relwerr": 1},
		"all":    {"invoke": 2, "newstream": 2, "op": 5, "hstep": 6, "relw": 10, "deliver": 10, "cancel": 2, "connclose": 1, "cancelsrv": 1, "fault": 1, "relwerr": 1, "relu": 3, "point": 4},
	}
	only := os.Getenv("VERIF_SCEN")
	n := 40
	if v, err := strconv.Atoi(os.Getenv("VERIF_N")); err == nil {
		n = v
	}
	cfgI := 0
	for _, cfg := range []sys.Config{
		{Small: true, Threads: []string{"c1", "c2"}},
		{Small: false, Threads: []string{"c1", "c2"}},
		{Small: true, Soft: true, Threads: []string{"c1", "c2"}},
		{Small: false, Soft: true, Manual: true, Threads: []string{"c1", "c2"}},
		{Small: true, Soft: true, GateU: true, Threads: []string{"c1", "c2"}},
		{Small: true, Soft: true, Points: []string{"conn.created", "manager.newstream.beforeset"}, Threads: []string{"c1", "c2"}},
		{Small: false, Soft: false, Points: []string{"conn.created", "manager.newstream.beforeset"}, Threads: []string{"c1", "c2"}},
		{Small: true, Soft: true, Points: []string{"manager.reader.dispatch"}, Threads: []string{"c1", "c2"}},
		{Small: true, Soft: false, Points: []string{"manager.stream.ctx", "manager.acquire.got"}, Threads: []string{"c1", "c2"}},
		{Small: false, Soft: true, Points: []string{"manager.stream.ctx", "manager.reader.dispatch", "manager.acquire.got", "conn.meta.written"}, Threads: []string{"c1", "c2"}},
	} {
		if v := os.Getenv("VERIF_CFGI"); v != "" && v != strconv.Itoa(cfgI) {
			cfgI++
			continue
		}
		cfgI++
		var runs []*sysRun
		for _, scen := range []string{"happy", "cancel", "close", "fault", "all"} {
			if only != "" && only != scen {
				continue
			}
			for i := 0; i < n; i++ {
				st := sysRandomStims(rng, cfg, 40, weights[scen])
				r, ok := sysExec(cfg, st, scen)
				if !ok {
					c.Warn("run not quiescent/clean (%s)", scen)
					continue
				}
				for _, d := range r.Direct {
					c.Violation("direct monitor: "+d, map[string]any{"cfg": cfg, "trace": r.Lines})
				}
				runs = append(runs, r)
			}
		}
		var corrupted *sysRun
		if os.Getenv("VERIF_CORRUPT") != "" && len(runs) > 2 {
			// demonstration of the binding: one observed field of one line of one run is changed; exactly that run must be rejected
			corrupted = runs[len(runs)/2]
			ln := len(corrupted.Lines) / 2
			corrupted.Lines[ln].Obs.TClose["cli"]++
			fmt.Printf("CORRUPTED run %d of %d at line %d (tclose.cli+1)\n", len(runs)/2, len(runs), ln)
		}
		rej, val := sysValidate(c, cfg, runs, 12)
		c.TraceValidated(int64(val))
		if corrupted != nil {
			ln, ok := rej[corrupted]
			fmt.Printf("CORRUPTION: rejected=%v at line %d; other runs rejected: %d\n", ok, ln, len(rej)-map[bool]int{true: 1, false: 0}[ok])
			delete(rej, corrupted)
		}
		for r, line := range rej {
			c.Violation(fmt.Sprintf("system behaviour not allowed by System.tla %s (%s small=%v soft=%v manual=%v gateu=%v)", r.InvViolated, r.Origin, cfg.Small, cfg.Soft, cfg.Manual, cfg.GateU),
				map[string]any{"first_unmatched_line": line, "trace": r.Lines})
		}
		c.EvalN(int64(len(runs)))
	}
}

func init() { All["SYSDEV"] = sysDev }

func sys_ErrClass(err error) string { return sys.ErrClass(err) }
