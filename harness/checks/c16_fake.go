package checks

import (
	"encoding/json"
	"errors"
	"fmt"
	"io"
	"net"
	"runtime"
	"sort"
	"strconv"
	"strings"
	"sync"
	"time"

	"verif/vf"
)

// ---------------------------------------------------------------------------
// in-memory connection whose client side is written by the director
// ---------------------------------------------------------------------------

type c16Addr string

func (a c16Addr) Network() string { return "c16" }
func (a c16Addr) String() string  { return string(a) }

// c16Conn is the server side of a client connection. The director appends the client's
// bytes (ClientWrite) and closes the client side (ClientClose); Read blocks until there
// is something to return.
type c16Conn struct {
	id int

	mu           sync.Mutex
	cond         *sync.Cond
	buf          []byte
	clientClosed bool
	closes       int  // server-side Close calls made by the code under test
	closed       bool // server side closed (by anyone)
	cleanup      bool // the harness is tearing the behaviour down
	srvWrites    int
}

func newC16Conn(id int) *c16Conn {
	c := &c16Conn{id: id}
	c.cond = sync.NewCond(&c.mu)
	return c
}

func (c *c16Conn) Read(p []byte) (int, error) {
	c.mu.Lock()
	defer c.mu.Unlock()
	for {
		if c.closed {
			return 0, io.ErrClosedPipe
		}
		if len(c.buf) > 0 {
			if len(p) == 0 {
				return 0, nil
			}
			n := copy(p, c.buf)
			c.buf = c.buf[n:]
			return n, nil
		}
		if c.clientClosed {
			return 0, io.EOF
		}
		c.cond.Wait()
	}
}

func (c *c16Conn) Write(p []byte) (int, error) {
	c.mu.Lock()
	defer c.mu.Unlock()
	if c.closed || c.clientClosed {
		return 0, io.ErrClosedPipe
	}
	c.srvWrites += len(p)
	return len(p), nil
}

func (c *c16Conn) Close() error {
	c.mu.Lock()
	defer c.mu.Unlock()
	if !c.cleanup {
		c.closes++
	}
	c.closed = true
	c.cond.Broadcast()
	return nil
}

func (c *c16Conn) ClientWrite(p []byte) {
	c.mu.Lock()
	c.buf = append(c.buf, p...)
	c.cond.Broadcast()
	c.mu.Unlock()
}

func (c *c16Conn) ClientClose() {
	c.mu.Lock()
	c.clientClosed = true
	c.cond.Broadcast()
	c.mu.Unlock()
}

func (c *c16Conn) teardown() {
	c.mu.Lock()
	c.cleanup = true
	c.clientClosed = true
	c.closed = true
	c.cond.Broadcast()
	c.mu.Unlock()
}

func (c *c16Conn) muxCloses() int {
	c.mu.Lock()
	defer c.mu.Unlock()
	return c.closes
}

func (c *c16Conn) LocalAddr() net.Addr                { return c16Addr("server") }
func (c *c16Conn) RemoteAddr() net.Addr               { return c16Addr("client-" + strconv.Itoa(c.id)) }
func (c *c16Conn) SetDeadline(t time.Time) error      { return nil }
func (c *c16Conn) SetReadDeadline(t time.Time) error  { return nil }
func (c *c16Conn) SetWriteDeadline(t time.Time) error { return nil }

// c16ConnID recovers the id of the client connection behind whatever net.Conn Accept returned.
func c16ConnID(conn net.Conn) int {
	if conn == nil {
		return 0
	}
	s := conn.RemoteAddr().String()
	if strings.HasPrefix(s, "client-") {
		n, _ := strconv.Atoi(s[len("client-"):])
		return n
	}
	return 0
}

// ---------------------------------------------------------------------------
// fake base listener
// ---------------------------------------------------------------------------

var (
	errC16Injected   = errors.New("c16: injected base accept error")
	errC16BaseClosed = errors.New("c16: base listener closed")
)

type c16Item struct {
	conn *c16Conn
	err  error
}

type c16Listener struct {
	mu     sync.Mutex
	cond   *sync.Cond
	queue  []c16Item
	closed bool
	closes int
}

func newC16Listener() *c16Listener {
	l := &c16Listener{}
	l.cond = sync.NewCond(&l.mu)
	return l
}

// Accept: a closed listener fails first; otherwise the queued items in order.
func (l *c16Listener) Accept() (net.Conn, error) {
	l.mu.Lock()
	defer l.mu.Unlock()
	for {
		if l.closed {
			return nil, errC16BaseClosed
		}
		if len(l.queue) > 0 {
			it := l.queue[0]
			l.queue = l.queue[1:]
			if it.err != nil {
				return nil, it.err
			}
			return it.conn, nil
		}
		l.cond.Wait()
	}
}

func (l *c16Listener) Close() error {
	l.mu.Lock()
	l.closed = true
	l.closes++
	l.cond.Broadcast()
	l.mu.Unlock()
	return nil
}

func (l *c16Listener) Addr() net.Addr { return c16Addr("base") }

func (l *c16Listener) push(it c16Item) {
	l.mu.Lock()
	l.queue = append(l.queue, it)
	l.cond.Broadcast()
	l.mu.Unlock()
}

func (l *c16Listener) queued(c *c16Conn) bool {
	l.mu.Lock()
	defer l.mu.Unlock()
	for _, it := range l.queue {
		if it.conn == c {
			return true
		}
	}
	return false
}

// ---------------------------------------------------------------------------
// quiescence by stop-the-world census
// ---------------------------------------------------------------------------

// c16Quiesce waits until every goroutine other than the caller is parked on a
// synchronisation primitive (none running, none runnable). With no timers, no real I/O
// and a stop-the-world snapshot no wake-up can be in flight, so this is exact.
// It returns false (and the offending goroutines) if that does not happen in time.
func c16Quiesce(limit time.Duration) (bool, []vf.G) {
	self := vf.GoID()
	deadline := time.Now().Add(limit)
	for spins := 0; ; spins++ {
		runtime.Gosched()
		gs := vf.Census()
		var busy []vf.G
		for i := range gs {
			g := &gs[i]
			if g.ID == self || g.Blocked() {
				continue
			}
			if g.Has("os/signal.") || g.Has("runtime.ensureSigM") {
				continue
			}
			busy = append(busy, *g)
		}
		if len(busy) == 0 {
			return true, gs
		}
		if time.Now().After(deadline) {
			return false, busy
		}
		if spins > 100 {
			time.Sleep(20 * time.Microsecond)
		}
	}
}

// c16InDrpc reports the innermost drpcmigrate frame of a goroutine, if any.
func c16InDrpc(g *vf.G) string {
	return g.Innermost("storj.io/drpc/drpcmigrate.")
}

// ---------------------------------------------------------------------------
// JSON value -> TLA+ literal, canonical JSON
// ---------------------------------------------------------------------------

func c16TLA(v any) string {
	var b strings.Builder
	c16tla(&b, v)
	return b.String()
}

func c16tla(b *strings.Builder, v any) {
	switch x := v.(type) {
	case nil:
		b.WriteString(`"null"`)
	case bool:
		if x {
			b.WriteString("TRUE")
		} else {
			b.WriteString("FALSE")
		}
	case string:
		b.WriteString(strconv.Quote(x))
	case float64:
		b.WriteString(strconv.FormatInt(int64(x), 10))
	case int:
		b.WriteString(strconv.Itoa(x))
	case json.Number:
		b.WriteString(x.String())
	case []any:
		b.WriteString("<<")
		for i, e := range x {
			if i > 0 {
				b.WriteString(", ")
			}
			c16tla(b, e)
		}
		b.WriteString(">>")
	case map[string]any:
		keys := make([]string, 0, len(x))
		for k := range x {
			keys = append(keys, k)
		}
		sort.Strings(keys)
		b.WriteString("[")
		for i, k := range keys {
			if i > 0 {
				b.WriteString(", ")
			}
			b.WriteString(k)
			b.WriteString(" |-> ")
			c16tla(b, x[k])
		}
		b.WriteString("]")
	default:
		// typed slices/maps built by the harness: go through JSON
		raw, err := json.Marshal(v)
		if err != nil {
			panic(fmt.Sprintf("c16TLA: %T: %v", v, err))
		}
		var y any
		if err := json.Unmarshal(raw, &y); err != nil {
			panic(err)
		}
		c16tla(b, y)
	}
}

// c16Canon returns the canonical JSON text of a value (object keys sorted).
func c16Canon(v any) string {
	raw, err := json.Marshal(v)
	if err != nil {
		return "!" + err.Error()
	}
	var y any
	if err := json.Unmarshal(raw, &y); err != nil {
		return "!" + err.Error()
	}
	out, _ := json.Marshal(y)
	return string(out)
}
