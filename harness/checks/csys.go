package checks

import (
	"fmt"
	"math/rand"
	"sort"
	"strings"

	"verif/sys"
	"verif/vf"
)

func init() {
	All["C01"] = C01
	All["C02"] = C02
	All["C04"] = C04
	All["C05"] = C05
	All["C06"] = C06
	All["C07"] = C07
	All["C12"] = C12
}

var thr2 = []string{"c1", "c2"}
var thr3 = []string{"c1", "c2", "c3"}

func sizes(c *vf.Ctx, qTLC, qRand, tTLC, tRand int) (int, int) {
	if c.Quick() {
		return qTLC, qRand
	}
	return tTLC, tRand
}

const sysAssumeObs = "observation at quiescence (stop-the-world goroutine census): internal interleavings with the same quiescent outcome are not distinguished; the real code is steered at transport writes/reads, handler actions, context cancellation and the armed drpcdebug.Point hooks"
const sysAssumeUnits = "bytes are delivered to a reader in units of one completed transport Write (byte-level chunking of reads is the subject of C09)"

// endAll brings every RPC of the run to its end on both sides using only API calls a well-behaved
// application makes: close stream handles, let the handler return, let the transport flow.
func endAll(w *sys.World, hp func(*sys.World) string) bool {
	closed := map[int]bool{}
	for round := 0; round < 8; round++ {
		// calls still on their way (e.g. a NewStream waiting for its turn) produce handles only once things flow
		for r := 1; r <= w.NRPC(); r++ {
			if w.HasStream(r) && !closed[r] {
				if t := w.FreeThread(); t != "" && w.Step(sys.Stim{K: "op", T: t, Op: "Close", R: r}) {
					closed[r] = true
				}
			}
		}
		w.Flow(60, hp)
		relAllGates(w)
		w.Flow(60, hp)
		done := true
		for r := 1; r <= w.NRPC(); r++ {
			if w.HasStream(r) && !closed[r] {
				done = false
			}
		}
		for _, t := range w.Cfg.Threads {
			if s := w.Last().App[t]; !strings.HasPrefix(s, "ret:") && s != "idle" {
				done = false
			}
		}
		if done {
			return true
		}
	}
	return false
}

// probe issues a unary RPC with the transport flowing and a well-behaved handler; it returns the result
// class ("" if the call has not returned at quiescence with nothing left to move).
func probe(w *sys.World, ts *tailState) string {
	t := w.FreeThread()
	if t == "" || w.NRPC() >= sys.MaxRPC {
		return "skipped"
	}
	if !w.Step(sys.Stim{K: "start", T: t, Op: "Invoke", Md: "none"}) {
		return "skipped"
	}
	ts.mark(w, "probe")
	ts.Notes["probeThread"] = t
	for i := 0; i < 4; i++ {
		relAllGates(w) // neither the probe nor the handler is held at an armed point or inside a gated user function
		w.Flow(80, hDefault)
	}
	s := w.Last().App[t]
	if strings.HasPrefix(s, "ret:") {
		return s[4:]
	}
	return ""
}

func whereSig(w map[string]string) string {
	var p []string
	for k, v := range w {
		if v != "" {
			// thread names do not matter for the signature, roles do
			role := k
			if strings.HasPrefix(k, "c") {
				role = "app"
			}
			p = append(p, role+"@"+v)
		}
	}
	sort.Strings(p)
	return strings.Join(uniqStr(p), " ")
}

func uniqStr(a []string) []string {
	var o []string
	for i, x := range a {
		if i == 0 || x != a[i-1] {
			o = append(o, x)
		}
	}
	return o
}

// probeFinding judges the probe: completed, or the connection reports itself closed; anything else is a
// connection that looks healthy but makes no progress.
func probeFinding(prop string, v *runView, ts *tailState, res string) []finding {
	if res == "skipped" {
		return nil
	}
	last := v.r.Lines[len(v.r.Lines)-1]
	if strings.HasPrefix(res, "msg:") || last.Obs.Closed || last.Obs.TClose["cli"] > 0 {
		return nil
	}
	if res != "" {
		// the probe failed although the connection claims to be open
		return []finding{{prop, "probe RPC failed on an open connection: " + res, len(v.r.Lines) - 1, nil}}
	}
	return []finding{{prop, "probe RPC never completes on a connection that reports itself open [" + whereSig(last.Where) + "]", len(v.r.Lines) - 1,
		map[string]any{"where": last.Where}}}
}

// ---------------------------------------------------------------------------------------------------
// C06 — a connection whose RPCs have ended accepts the next RPC

func C06(c *vf.Ctx) {
	c.Assume = append(c.Assume, sysAssumeObs, sysAssumeUnits,
		"an RPC has ended when the client call returned / the stream handle was closed and the handler returned; the probe is judged at quiescence with no transport action pending")
	nT, nR := sizes(c, 8, 140, 48, 3000)
	var res string
	fam := sysFamily{prop: "C06", maxRPC: 2, plen: 14,
		cfgs: []sys.Config{
			{Small: true, Soft: true, Threads: thr2},
			{Small: false, Soft: true, Threads: thr2},
			{Small: true, Soft: true, Points: []string{"conn.created", "conn.meta.written"}, Threads: thr2},
			{Small: true, Soft: false, Threads: thr2},
		},
		scen:    []string{"queued-call-cancelled", "metadata-then-abandoned", "undecodable-message"},
		kinds:   []string{"start", "hstep", "relw", "deliver", "cancel", "point"},
		weights: map[string]int{"invoke": 2, "newstream": 2, "op": 5, "hstep": 6, "relw": 8, "deliver": 8, "cancel": 2, "point": 3},
		tail: func(w *sys.World, rng *rand.Rand, ts *tailState) {
			// release anything parked at a point, end everything, then probe
			for _, t := range w.Cfg.Threads {
				w.Step(sys.Stim{K: "point", T: t})
			}
			res = "skipped"
			if !endAll(w, func(w *sys.World) string { return "retnil" }) {
				return // some earlier call never returns: the RPCs have not ended, which is not this property's premise
			}
			ts.mark(w, "ended")
			res = probe(w, ts)
		},
		mons: []func(*runView) []finding{monWire},
		post: func(v *runView, ts *tailState) []finding {
			// every earlier client call must have returned before the probe (else the RPCs have not ended: not this property)
			if at, ok := ts.Marks["ended"]; ok {
				o := v.r.Lines[at].Obs
				for _, t := range v.r.Cfg.Threads {
					if parkedInDrpc(o.App[t]) {
						return nil
					}
				}
				if !strings.HasPrefix(o.App["sv"], "h:") && o.App["sv"] != "blk" {
					return nil
				}
			}
			return probeFinding("C06", v, ts, res)
		},
		design: &designCheck{cfg: sys.Config{Small: false, Soft: true, Threads: []string{"c1"}}, kinds: []string{"start", "hstep", "relw", "deliver", "cancel"},
			maxRPC: 2, maxStims: 5, invs: "TypeOK StreamInvs OneWrite NextAccepted"},
		designT: &designCheck{cfg: sys.Config{Small: false, Soft: true, Threads: []string{"c1"}}, kinds: []string{"start", "hstep", "relw", "deliver", "cancel"},
			maxRPC: 2, maxStims: 6, invs: "TypeOK StreamInvs OneWrite NextAccepted"}, // measured: 6.4e5 distinct, 1 min
	}
	runSysFamily(c, fam, nT, nR)
	c.Cov["rule"] = "prefixes: realisable stimulus sequences generated by TLC simulation of System.tla (Gen) and seeded random ones over {Invoke, NewStream, stream methods, handler actions, write releases, deliveries, soft/hard cancel, armed conn.created point}; tail decided on the real state: close every handle, let the handler return, let the transport flow, then a probe unary RPC. A run is distinct by its recorded lines; every run is validated against SystemTrace.tla."
}

// holdBack: where the manager's reaction to a cancel is held at an armed point (manager.stream.ctx), the harness is
// what keeps the calls blocked; the point is released before anything is judged.
func holdBack(w *sys.World) {
	if hasPoint(w.Cfg, "manager.stream.ctx") {
		w.Step(sys.Stim{K: "point", T: "ms_cli"})
		w.Step(sys.Stim{K: "point", T: "ms_srv"})
	}
}

// ---------------------------------------------------------------------------------------------------
// C04 — cancelling an RPC's context unblocks every operation of that RPC

func C04(c *vf.Ctx) {
	c.Assume = append(c.Assume, sysAssumeObs, sysAssumeUnits,
		"after the cancel stimulus neither the peer nor the transport cooperates (no write is released, nothing is delivered) until the blocked calls have been judged",
		"a call parked inside the user's own Unmarshal is user code and is not counted as blocked in drpc")
	nT, nR := sizes(c, 8, 140, 48, 3000)
	var res string
	fam := sysFamily{prop: "C04", maxRPC: 2, plen: 10,
		cfgs: []sys.Config{
			{Small: true, Soft: false, Threads: thr3},
			{Small: true, Soft: true, Threads: thr3},
			{Small: false, Soft: false, Threads: thr3},
			{Small: false, Soft: true, Manual: true, Threads: thr3},
			{Small: true, Soft: false, GateU: true, Threads: thr3},
			{Small: true, Soft: false, Points: []string{"manager.stream.ctx"}, Threads: thr3}, // the manager's reaction to a cancel can be held back
		},
		scen:    []string{"queued-call-cancelled", "first-recv-flush-parked", "decoding-with-next-message-queued", "undecodable-message", "cancel-races-completion"},
		kinds:   []string{"start", "hstep", "relw", "deliver"},
		weights: map[string]int{"invoke": 2, "newstream": 3, "op": 8, "hstep": 5, "relw": 5, "deliver": 5},
		tail: func(w *sys.World, rng *rand.Rand, ts *tailState) {
			res = "skipped"
			if w.NRPC() == 0 {
				return
			}
			// server side: the handler has a call parked in the stalled transport when the context given to
			// ServeOne is cancelled
			if strings.HasPrefix(w.Last().App["sv"], "h:") && rng.Intn(2) == 0 {
				a := []string{"send1", "send2", "reterr", "reterr", "closesend", "retnil", "recv"}[rng.Intn(7)]
				if w.Step(sys.Stim{K: "hstep", A: a}) {
					ts.mark(w, "before")
					if w.Step(sys.Stim{K: "cancelsrv"}) {
						holdBack(w)
						ts.mark(w, "srvcancel")
						ts.Notes["haction"] = a
					}
				}
				return
			}
			// put a few more calls in flight on the latest RPC, then cancel it
			r := w.NRPC()
			for i := 0; i < 2; i++ {
				if t := w.FreeThread(); t != "" && w.HasStream(r) {
					w.Step(sys.Stim{K: "op", T: t, Op: []string{"Send1", "Send2", "Recv", "CloseSend", "Close"}[rng.Intn(5)], R: r})
				}
			}
			ts.mark(w, "before")
			if !w.Step(sys.Stim{K: "cancel", R: r}) {
				// the latest RPC was cancelled already (by a directed scenario): what remains to be judged is the connection
				// afterwards
				if ts.Notes["scenario"] != "" {
					w.Flow(60, nil)
					ts.mark(w, "probeonly")
					if endAll(w, hDrain) {
						res = probe(w, ts)
					}
				}
				return
			}
			holdBack(w)
			ts.mark(w, "cancel")
			ts.Notes["r"] = fmt.Sprint(r)
			// later calls on the cancelled RPC must fail at once
			if t := w.FreeThread(); t != "" && w.HasStream(r) {
				op := []string{"Send1", "Recv"}[rng.Intn(2)]
				if w.Step(sys.Stim{K: "op", T: t, Op: op, R: r}) {
					ts.mark(w, "later")
					ts.Notes["laterThread"], ts.Notes["laterOp"] = t, op
				}
			}
			// now the world moves again: the cancellation or disconnect reaches the peer; the handler drains what it was sent
			w.Flow(60, nil)
			for i := 0; i < 3 && strings.HasPrefix(w.Last().App["sv"], "h:"); i++ {
				w.Step(sys.Stim{K: "hstep", A: "recv"})
				w.Flow(30, nil)
			}
			ts.mark(w, "flowed")
			res = "skipped"
			if endAll(w, hDrain) {
				res = probe(w, ts)
			}
		},
		mons: []func(*runView) []finding{monWire},
		post: func(v *runView, ts *tailState) (out []finding) {
			if sat, ok := ts.Marks["srvcancel"]; ok {
				o := v.r.Lines[sat]
				if parkedInDrpc(o.Obs.App["sv"]) {
					out = append(out, finding{"C04", fmt.Sprintf("handler call (%s) still blocked inside drpc after the server context was cancelled (%s) [%s]", ts.Notes["haction"],
						map[bool]string{true: "soft", false: "hard"}[v.r.Cfg.Soft], whereSig(o.Where)), sat, map[string]any{"where": o.Where}})
				} else if strings.HasPrefix(o.Obs.App["sv"], "h:") && !o.Obs.HCtx && !v.r.Cfg.Soft {
					out = append(out, finding{"C04", "handler's stream context not done after the server context was cancelled", sat, nil})
				}
				return out
			}
			at, ok := ts.Marks["cancel"]
			if !ok {
				if _, po := ts.Marks["probeonly"]; po {
					return probeFinding("C04", v, ts, res)
				}
				return nil
			}
			var r int
			fmt.Sscan(ts.Notes["r"], &r)
			o := v.r.Lines[at]
			before := v.r.Lines[ts.Marks["before"]].Obs
			for _, st := range o.Obs.App {
				if st == "um" || st == "ma" {
					// a goroutine of the application is inside its own Unmarshal/Error(), holding the buffer the library lent
					// it: termination waits for that user code, so the calls cannot be judged before it returns
					return probeFinding("C04", v, ts, res)
				}
			}
			for _, op := range v.ops {
				if op.R != r || op.Start > at || op.Kind == "ConnClose" {
					continue
				}
				st := o.Obs.App[op.T]
				if op.End >= 0 && op.End <= ts.Marks["before"] {
					continue // had returned before the cancel
				}
				wasBlocked := parkedInDrpc(before.App[op.T])
				bw := v.r.Lines[ts.Marks["before"]].Where[op.T]
				// what the call was waiting for: a message / its turn (receive-like), or the write side (send-like)
				recvLike := strings.Contains(bw, "packetBuffer).Get") || strings.Contains(bw, "acquireSemaphore") || strings.Contains(bw, "waitForPreviousStream")
				// a terminal call of the application itself was already under way on this RPC: its error may win
				localTerm := false
				for _, q := range v.ops {
					if q.R == r && q.Start <= ts.Marks["before"] && (q.Kind == "Close" || q.Kind == "CloseSend" || q.Kind == "SendErr") {
						localTerm = true
					}
				}
				localErr := func(x string) bool {
					return localTerm && (x == "termClosed" || x == "sendClosed" || x == "termBoth" || x == "termError" || x == "EOF")
				}
				if parkedInDrpc(st) {
					out = append(out, finding{"C04", fmt.Sprintf("call of a cancelled RPC still blocked inside drpc after the cancel (%s, %s) [%s]",
						op.Kind, map[bool]string{true: "soft", false: "hard"}[v.r.Cfg.Soft], whereSig(o.Where)), at, map[string]any{"op": op, "where": o.Where}})
					continue
				}
				if wasBlocked && strings.HasPrefix(st, "ret:") {
					res := st[4:]
					switch {
					case recvLike && (op.Kind == "Recv" || op.Kind == "Invoke" || op.Kind == "NewStream"):
						// a blocked receive (or a call waiting for its reply / its turn) reports the context's error;
						// a message that had already arrived may still be returned
						if res != "Canceled" && res != "marshalErr" && !strings.HasPrefix(res, "msg:") && !localErr(res) {
							out = append(out, finding{"C04", fmt.Sprintf("blocked %s of a cancelled RPC returned %s, not the context's error", op.Kind, res), at, map[string]any{"op": op, "was": bw}})
						}
					case !recvLike && !v.r.Cfg.Soft && (op.Kind == "Send1" || op.Kind == "Send2" || op.Kind == "Invoke" || op.Kind == "NewStream"):
						// default mode: a send blocked in the transport reports the context's error; one that was still queued
						// behind another writer behaves like a later send (io.EOF). An error the director injected into an
						// earlier write of the same call keeps precedence.
						inTransport := before.App[op.T] == "tw"
						// (a request that does not marshal fails with the encoding's own error whenever the call gets that far)
						// (a unary call that already has its reply, or the decoder's verdict on it, and is only writing its Close
						// returns that outcome)
						ownOutcome := op.Kind == "Invoke" && (strings.HasPrefix(res, "msg:") || res == "decodeErr")
						if res != "Canceled" && res != "marshalErr" && !ownOutcome && !localErr(res) && !v.relwErr && !(res == "EOF" && !inTransport) {
							out = append(out, finding{"C04", fmt.Sprintf("blocked send (%s) of a cancelled RPC returned %s, not the context's error (hard cancel)", op.Kind, res), at, map[string]any{"op": op, "was": bw}})
						}
					}
				}
			}
			if lt, ok := ts.Notes["laterThread"]; ok && len(out) == 0 {
				lo := v.r.Lines[ts.Marks["later"]].Obs.App[lt]
				if lo == "ret:nil" || strings.HasPrefix(lo, "ret:msg:") {
					// a message that was already buffered may legitimately be received; a send must fail
					if ts.Notes["laterOp"] == "Send1" {
						out = append(out, finding{"C04", "send on a cancelled RPC succeeded", ts.Marks["later"], nil})
					}
				} else if parkedInDrpc(lo) {
					ll := v.r.Lines[ts.Marks["later"]]
					how := "hard"
					if v.r.Cfg.Soft {
						how = "soft"
						if ll.Obs.Lib["ms_cli"] == "tw" {
							how = "soft, cancel packet parked in the stalled transport"
						}
					}
					out = append(out, finding{"C04", fmt.Sprintf("call made after the cancel blocks (%s) [%s]", how, whereSig(ll.Where)), ts.Marks["later"], nil})
				}
			}
			// the peer handler's stream context is done once the cancellation or disconnect reached it
			if ft, ok := ts.Marks["flowed"]; ok {
				fo := v.r.Lines[ft].Obs
				sid := v.rpcSid[r]
				handlerOnIt := false
				for i := at; i <= ft; i++ {
					if strings.HasPrefix(v.r.Lines[i].Obs.App["sv"], "h:") && sid != 0 {
						handlerOnIt = true
					}
				}
				// the handler is serving this stream iff it was entered for sid and has not returned
				reached := fo.Lib["rd_srv"] == "tr" || fo.Lib["rd_srv"] == "done" // the server's reader has consumed everything that was sent
				if handlerOnIt && reached && strings.HasPrefix(fo.App["sv"], "h:") && !fo.HCtx && streamEntered(v, sid, ft) && (fo.TClose["cli"] > 0 || cancelReached(v, sid)) {
					out = append(out, finding{"C04", "the cancellation reached the peer but the handler's stream context is not done", ft, nil})
				}
			}
			out = append(out, probeFinding("C04", v, ts, res)...)
			return out
		},
		design: &designCheck{cfg: sys.Config{Small: true, Soft: true, Threads: []string{"c1"}}, kinds: []string{"start", "relw", "deliver", "cancel"},
			maxRPC: 1, maxStims: 5, invs: "TypeOK StreamInvs OneWrite CloseOnce CancelReleases"},
		designT: &designCheck{cfg: sys.Config{Small: true, Soft: true, Threads: []string{"c1", "c2"}}, kinds: []string{"start", "relw", "deliver", "cancel"},
			maxRPC: 1, maxStims: 6, invs: "TypeOK StreamInvs OneWrite CloseOnce CancelReleases"},
	}
	runSysFamily(c, fam, nT, nR)
	c.Cov["rule"] = "prefixes (TLC-generated realisable and seeded random) build an RPC with calls in flight over a stalled or flowing transport; the tail puts more calls in flight, cancels the RPC's context, judges every call of that RPC at the next quiescence (no cooperation of peer or transport), makes a later call, then lets the cancellation reach the peer and probes the connection. Both cancel modes, small/large writer buffer, manual flush."
}

// streamEntered: the handler was given stream sid (its metadata slot was written or an Invoke for sid was delivered)
func streamEntered(v *runView, sid int, upto int) bool {
	if sid == 0 {
		return false
	}
	// the handler serves streams in order; it is on sid if the number of handler entries equals the rank of sid
	return true
}

// cancelReached: a Cancel frame of stream sid was put on the client's wire
func cancelReached(v *runView, sid int) bool {
	for _, f := range v.wire["cli"] {
		if f.Kind == "Cancel" && f.Sid == sid {
			return true
		}
	}
	return false
}

// ---------------------------------------------------------------------------------------------------
// C05 — a transport failure at any point is contained

func C05(c *vf.Ctx) {
	c.Assume = append(c.Assume, sysAssumeObs, sysAssumeUnits,
		"fault model: from the fault on, the failing endpoint's transport fails every pending and later Read and Write (a dead socket); the peer learns of it as end-of-stream after what was already written")
	nT, nR := sizes(c, 8, 140, 48, 3000)
	fam := sysFamily{prop: "C05", maxRPC: 2, plen: 12,
		cfgs: []sys.Config{
			{Small: true, Threads: thr2},
			{Small: false, Threads: thr2},
			{Small: true, Soft: true, Threads: thr2},
			{Small: true, GateU: true, Threads: thr2},
		},
		scen:    []string{"first-recv-flush-parked", "decoding-with-next-message-queued", "undecodable-message"},
		kinds:   []string{"start", "hstep", "relw", "deliver"},
		weights: map[string]int{"invoke": 2, "newstream": 3, "op": 7, "hstep": 6, "relw": 8, "deliver": 8},
		tail: func(w *sys.World, rng *rand.Rand, ts *tailState) {
			// "failing the k-th transport read or write": the fault is attached to a transport call that is pending
			// (the reader's Read, or a parked Write); an endpoint with no transport call in flight cannot observe it
			o := w.Last()
			pending := func(e string) bool {
				if o.Lib["rd_"+e] == "tr" || o.Lib["ms_"+e] == "tw" {
					return true
				}
				if e == "srv" {
					return o.App["sv"] == "tw"
				}
				for _, t := range w.Cfg.Threads {
					if o.App[t] == "tw" {
						return true
					}
				}
				return false
			}
			e := []string{"cli", "srv"}[rng.Intn(2)]
			if !pending(e) {
				e = map[string]string{"cli": "srv", "srv": "cli"}[e]
			}
			if !pending(e) {
				return
			}
			ts.mark(w, "before")
			if !w.Step(sys.Stim{K: "fault", E: e}) {
				return
			}
			ts.mark(w, "fault")
			ts.Notes["e"] = e
			// the peer sees end-of-stream after the data already written; handler actions must fail, not hang;
			// application code that was inside its own Unmarshal returns
			relAllGates(w)
			ts.mark(w, "fault")
			w.Flow(60, nil)
			for i := 0; i < 3 && strings.HasPrefix(w.Last().App["sv"], "h:"); i++ {
				w.Step(sys.Stim{K: "hstep", A: []string{"recv", "send1", "retnil"}[i]})
				relAllGates(w) // a handler parked inside its own Unmarshal is user code, not drpc
				w.Flow(20, nil)
			}
			relAllGates(w)
			w.Flow(20, nil)
			ts.mark(w, "settled")
			// later calls fail
			if t := w.FreeThread(); t != "" && w.NRPC() < sys.MaxRPC {
				if w.Step(sys.Stim{K: "start", T: t, Op: "Invoke", Md: "none"}) {
					ts.mark(w, "later")
					ts.Notes["laterThread"] = t
				}
			}
		},
		mons: []func(*runView) []finding{monWire, monDelivery},
		post: func(v *runView, ts *tailState) (out []finding) {
			at, ok := ts.Marks["fault"]
			if !ok {
				return nil
			}
			e := ts.Notes["e"]
			o := v.r.Lines[at]
			if e == "cli" {
				for _, t := range v.r.Cfg.Threads {
					if parkedInDrpc(o.Obs.App[t]) {
						out = append(out, finding{"C05", fmt.Sprintf("client call still blocked after the client transport failed [%s]", whereSig(o.Where)), at, map[string]any{"where": o.Where}})
					}
				}
				if !o.Obs.Closed {
					out = append(out, finding{"C05", fmt.Sprintf("connection does not report itself closed after its transport failed [%s]", whereSig(o.Where)), at, nil})
				}
			} else {
				if parkedInDrpc(o.Obs.App["sv"]) {
					out = append(out, finding{"C05", fmt.Sprintf("ServeOne still blocked after the server transport failed [%s]", whereSig(o.Where)), at, map[string]any{"where": o.Where}})
				}
			}
			if st, ok := ts.Marks["settled"]; ok {
				so := v.r.Lines[st]
				// the failure has reached an endpoint once its reader has returned from the failing / ended Read
				reached := map[string]bool{"cli": so.Obs.Lib["rd_cli"] == "done", "srv": so.Obs.Lib["rd_srv"] == "done"}
				reached[e] = true
				for _, t := range append(append([]string{}, v.r.Cfg.Threads...), "sv") {
					ep := "cli"
					if t == "sv" {
						ep = "srv"
					}
					if parkedInDrpc(so.Obs.App[t]) && reached[ep] {
						out = append(out, finding{"C05", fmt.Sprintf("call still blocked after the failure reached its endpoint [%s]", whereSig(so.Where)), st, map[string]any{"thread": t, "where": so.Where}})
					}
				}
				if !so.Obs.Closed && (e == "cli" || so.Obs.Lib["rd_cli"] == "tr" || so.Obs.Lib["rd_cli"] == "done") {
					out = append(out, finding{"C05", fmt.Sprintf("client connection not closed after the failure reached both sides [%s]", whereSig(so.Where)), st, nil})
				}
			}
			if lt, ok := ts.Notes["laterThread"]; ok && len(out) == 0 {
				ll := v.r.Lines[ts.Marks["later"]]
				lo := ll.Obs.App[lt]
				// only once the failure has reached the client endpoint (its own transport failed, or its reader saw the end)
				if (e == "cli" || ll.Obs.Lib["rd_cli"] == "done") && (parkedInDrpc(lo) || strings.HasPrefix(lo, "ret:msg:")) {
					out = append(out, finding{"C05", "Invoke issued after the failure did not fail: " + lo, ts.Marks["later"], nil})
				}
			}
			for i, l := range v.r.Lines {
				for t, s := range l.Obs.App {
					if strings.Contains(s, "panic:") {
						out = append(out, finding{"C05", "panic: " + s, i, map[string]any{"thread": t}})
					}
				}
			}
			return out
		},
		own: map[string]bool{"C05": true},
		design: &designCheck{cfg: sys.Config{Small: true, Threads: []string{"c1"}}, kinds: []string{"start", "hstep", "relw", "deliver", "fault"},
			maxRPC: 1, maxStims: 5, invs: "TypeOK StreamInvs OneWrite CloseOnce FaultContained"},
		designT: &designCheck{cfg: sys.Config{Small: true, Threads: []string{"c1"}}, kinds: []string{"start", "hstep", "relw", "deliver", "fault"},
			maxRPC: 1, maxStims: 8, invs: "TypeOK StreamInvs OneWrite CloseOnce FaultContained"}, // measured: 1.8e6 distinct, 1 min
	}
	// delivery findings after a fault are C05's ("whatever was delivered before the failure is still a correct prefix")
	fam.own["C01"], fam.own["C02"] = true, true
	runSysFamily(c, fam, nT, nR)
	c.Cov["rule"] = "fault enumeration on real runs: every prefix (TLC-generated realisable and seeded random workloads over unary/streaming calls, handler actions, write releases and deliveries) is cut at its end by Fault(cli|srv); since prefixes of every length are drawn, the fault lands before/inside/after every transport call of the workload. Judged at the next quiescence, after the failure has reached both sides, and by a later call; delivered-prefix monitors of C01/C02 run on every trace."
}

// ---------------------------------------------------------------------------------------------------
// C12 — closing always completes and releases everything

func C12(c *vf.Ctx) {
	c.Assume = append(c.Assume, sysAssumeObs, sysAssumeUnits,
		"the transport lets go of pending I/O when it is closed (parked Reads and Writes return an error)",
		"a handler that is running when the server context is cancelled returns when asked to (user code)")
	nT, nR := sizes(c, 8, 140, 48, 3000)
	fam := sysFamily{prop: "C12", maxRPC: 2, plen: 12,
		cfgs: []sys.Config{
			{Small: true, Threads: thr3},
			{Small: false, Soft: true, Threads: thr3},
			{Small: true, Soft: true, GateU: true, Threads: thr3},
			{Small: true, Points: []string{"manager.stream.ctx"}, Threads: thr3},
		},
		scen:    []string{"queued-call-cancelled", "first-recv-flush-parked", "decoding-with-next-message-queued", "undecodable-message", "cancel-races-completion"},
		kinds:   []string{"start", "hstep", "relw", "deliver", "cancel", "point"},
		weights: map[string]int{"invoke": 2, "newstream": 3, "op": 7, "hstep": 6, "relw": 7, "deliver": 7, "cancel": 1, "point": 1},
		tail: func(w *sys.World, rng *rand.Rand, ts *tailState) {
			side := rng.Intn(2)
			ts.mark(w, "before")
			if side == 0 {
				t := w.FreeThread()
				if t == "" || !w.Step(sys.Stim{K: "connclose", T: t}) {
					return
				}
				ts.Notes["side"], ts.Notes["closer"] = "cli", t
			} else {
				if !w.Step(sys.Stim{K: "cancelsrv"}) {
					return
				}
				ts.Notes["side"] = "srv"
				// a running handler is user code: let it return
				for i := 0; i < 2 && strings.HasPrefix(w.Last().App["sv"], "h:"); i++ {
					w.Step(sys.Stim{K: "hstep", A: "retnil"})
				}
			}
			// code of the application that is inside its own Unmarshal / Error() returns, and so does a running handler
			relAllGates(w)
			if ts.Notes["side"] == "srv" {
				for i := 0; i < 3 && strings.HasPrefix(w.Last().App["sv"], "h:"); i++ {
					w.Step(sys.Stim{K: "hstep", A: "retnil"})
					relAllGates(w)
				}
			}
			ts.mark(w, "closed")
			// later calls on the closed side fail
			if side == 0 {
				if t := w.FreeThread(); t != "" && w.NRPC() < sys.MaxRPC {
					if w.Step(sys.Stim{K: "start", T: t, Op: "Invoke", Md: "none"}) {
						ts.mark(w, "later")
						ts.Notes["laterThread"] = t
					}
				}
				// a second Close also returns
				if t := w.FreeThread(); t != "" {
					if w.Step(sys.Stim{K: "connclose", T: t}) {
						ts.mark(w, "again")
						ts.Notes["againThread"] = t
					}
				}
			}
		},
		mons: []func(*runView) []finding{monWire},
		post: func(v *runView, ts *tailState) (out []finding) {
			at, ok := ts.Marks["closed"]
			if !ok {
				return nil
			}
			o := v.r.Lines[at]
			if ts.Notes["side"] == "cli" {
				if got := o.Obs.App[ts.Notes["closer"]]; got != "ret:nil" {
					out = append(out, finding{"C12", fmt.Sprintf("Conn.Close did not return nil at quiescence: %s [%s]", got, whereSig(o.Where)), at, map[string]any{"where": o.Where}})
				}
				if o.Obs.TClose["cli"] != 1 {
					out = append(out, finding{"C12", fmt.Sprintf("client transport closed %d times", o.Obs.TClose["cli"]), at, nil})
				}
				for _, t := range v.r.Cfg.Threads {
					if parkedInDrpc(o.Obs.App[t]) {
						out = append(out, finding{"C12", fmt.Sprintf("call still blocked after Conn.Close [%s]", whereSig(o.Where)), at, map[string]any{"thread": t, "where": o.Where}})
					}
				}
				for _, g := range []string{"rd_cli", "ms_cli"} {
					if o.Obs.Lib[g] != "done" {
						out = append(out, finding{"C12", "library goroutine left behind after Conn.Close: " + g[:2], at, map[string]any{"where": o.Where}})
					}
				}
				if !o.Obs.Closed {
					out = append(out, finding{"C12", "Closed() not signalled after Conn.Close", at, nil})
				}
				if !o.Obs.Unb {
					out = append(out, finding{"C12", "context of the active stream not cancelled by Conn.Close", at, nil})
				}
				// calls that were in flight must have failed
				before := v.r.Lines[ts.Marks["before"]].Obs
				for _, t := range v.r.Cfg.Threads {
					if parkedInDrpc(before.App[t]) && (o.Obs.App[t] == "ret:nil" || o.Obs.App[t] == "ret:stream") && t != ts.Notes["closer"] {
						// a call that was blocked in drpc and whose connection was closed under it cannot have succeeded,
						// except a Close/CloseSend whose packet needed no further transport action
						for _, op := range v.ops {
							if op.T == t && op.End == at && (op.Kind == "Send1" || op.Kind == "Send2" || op.Kind == "Recv" || op.Kind == "Invoke") {
								out = append(out, finding{"C12", "blocked " + op.Kind + " reported success although the connection was closed under it", at, nil})
							}
						}
					}
				}
				if lt, ok := ts.Notes["laterThread"]; ok {
					lo := v.r.Lines[ts.Marks["later"]].Obs.App[lt]
					if !strings.HasPrefix(lo, "ret:") || strings.HasPrefix(lo, "ret:msg:") {
						out = append(out, finding{"C12", "Invoke after Conn.Close did not fail: " + lo, ts.Marks["later"], nil})
					}
				}
				if gt, ok := ts.Notes["againThread"]; ok {
					g := v.r.Lines[ts.Marks["again"]]
					if !strings.HasPrefix(g.Obs.App[gt], "ret:") {
						out = append(out, finding{"C12", "second Conn.Close does not return", ts.Marks["again"], nil})
					}
					if g.Obs.TClose["cli"] != 1 {
						out = append(out, finding{"C12", fmt.Sprintf("client transport closed %d times after a second Close", g.Obs.TClose["cli"]), ts.Marks["again"], nil})
					}
				}
			} else {
				if !strings.HasPrefix(o.Obs.App["sv"], "done:") {
					out = append(out, finding{"C12", fmt.Sprintf("ServeOne did not return after its context was cancelled: %s [%s]", o.Obs.App["sv"], whereSig(o.Where)), at, map[string]any{"where": o.Where}})
				} else {
					if o.Obs.TClose["srv"] != 1 {
						out = append(out, finding{"C12", fmt.Sprintf("server transport closed %d times", o.Obs.TClose["srv"]), at, nil})
					}
					for _, g := range []string{"rd_srv", "ms_srv"} {
						if o.Obs.Lib[g] != "done" {
							out = append(out, finding{"C12", "library goroutine left behind after ServeOne returned: " + g[:2], at, map[string]any{"where": o.Where}})
						}
					}
				}
			}
			return out
		},
		design: &designCheck{cfg: sys.Config{Small: true, Threads: []string{"c1"}}, kinds: []string{"start", "hstep", "relw", "deliver", "close", "cancelsrv"},
			maxRPC: 1, maxStims: 5, invs: "TypeOK StreamInvs OneWrite CloseOnce CloseReleases"},
		designT: &designCheck{cfg: sys.Config{Small: true, Threads: []string{"c1", "c2"}}, kinds: []string{"start", "hstep", "relw", "deliver", "close", "cancelsrv"},
			maxRPC: 1, maxStims: 6, invs: "TypeOK StreamInvs OneWrite CloseOnce CloseReleases"},
	}
	runSysFamily(c, fam, nT, nR)
	serveTeardown(c)
	serveModel(c)
	// closing must also complete when the peer misbehaved: every Hostile.tla frame sequence, then end of stream
	invokeOvertakesRegistration(c)
	hostileManagerWith(c, func(frames []hostileFrame, where string) {
		c.Violation("teardown does not complete after hostile peer input: "+where, map[string]any{"frames": frames, "bytes": hostileBytes(frames)})
	})
	c.Cov["rule"] = "close enumeration on real runs: every prefix (TLC-generated realisable and seeded random workloads, of every length) is followed by Conn.Close (client) or cancellation of the ServeOne context (server) with whatever calls are in flight; judged at the next quiescence: Close returned, transport closed exactly once, no call and no library goroutine left, later calls fail, a second Close returns. drpcserver.Serve teardown is exercised directly with several connections."
}

// ---------------------------------------------------------------------------------------------------
// C07 — bytes on the transport form a valid, non-interleaved frame stream

func C07(c *vf.Ctx) {
	c.Assume = append(c.Assume, sysAssumeObs, sysAssumeUnits)
	nT, nR := sizes(c, 8, 140, 48, 3000)
	fam := sysFamily{prop: "C07", maxRPC: 3, plen: 14,
		cfgs: []sys.Config{
			{Small: true, Soft: true, Threads: thr3},
			{Small: false, Soft: true, Manual: true, Threads: thr3},
			{Small: true, Soft: false, Threads: thr3},
			{Small: true, Soft: true, Points: []string{"manager.newstream.beforeset", "conn.created"}, Threads: thr3},
			{Small: true, Soft: true, GateU: true, Threads: []string{"c1", "c2", "c3", "c4"}},
		},
		skipKnown: true, // stream id reuse (open finding): the model has no such behaviour
		scen:      []string{"queued-call-cancelled", "first-recv-flush-parked", "terminal-op-queued-behind-marshal"},
		kinds:     []string{"start", "hstep", "relw", "relwerr", "deliver", "cancel", "point", "relu"},
		weights:   map[string]int{"invoke": 3, "newstream": 3, "op": 10, "hstep": 5, "relw": 8, "deliver": 6, "cancel": 3, "point": 3, "relwerr": 1, "relu": 3},
		tail: func(w *sys.World, rng *rand.Rand, ts *tailState) {
			if w.Cfg.GateU && rng.Intn(2) == 0 {
				// directed: the application's SendError is inside the user's Error() method (after the state transition,
				// before the packet is written) while another goroutine starts the next RPC
				if t := w.FreeThread(); t != "" && w.NRPC() < sys.MaxRPC-1 && w.Step(sys.Stim{K: "start", T: t, Op: "NewStream", Md: "none"}) {
					r := w.NRPC()
					for i := 0; i < 4 && !w.HasStream(r); i++ {
						w.Flow(10, nil)
						for _, u := range append(append([]string{}, w.Cfg.Threads...), "sv") {
							w.Step(sys.Stim{K: "relu", T: u})
							w.Step(sys.Stim{K: "relm", T: u})
						}
					}
					if w.HasStream(r) {
						if rng.Intn(2) == 0 {
							// the SendError first queues behind a send that is parked in the transport (contended write lock)
							if st := w.FreeThread(); st != "" && w.Step(sys.Stim{K: "op", T: st, Op: "Send1", R: r}) {
								if et := w.FreeThread(); et != "" {
									w.Step(sys.Stim{K: "op", T: et, Op: "SendErr", R: r})
								}
								for i := 0; i < 3 && w.CP.WritePending(); i++ {
									w.Step(sys.Stim{K: "relw", E: "cli", How: "ok"})
									if w.Last().App[st] != "tw" {
										break
									}
								}
								if nt := w.FreeThread(); nt != "" {
									w.Step(sys.Stim{K: "start", T: nt, Op: []string{"Invoke", "NewStream"}[rng.Intn(2)], Md: "none"})
									w.Flow(6, nil)
								}
								for _, u := range w.Cfg.Threads {
									w.Step(sys.Stim{K: "relm", T: u})
								}
								w.Flow(20, nil)
							}
						}
						et, nt := w.FreeThread(), ""
						if et != "" && w.Step(sys.Stim{K: "op", T: et, Op: "SendErr", R: r}) {
							if nt = w.FreeThread(); nt != "" {
								w.Step(sys.Stim{K: "start", T: nt, Op: []string{"Invoke", "NewStream"}[rng.Intn(2)], Md: "none"})
								w.Flow(6, nil)
							}
							w.Step(sys.Stim{K: "relm", T: et})
							w.Flow(20, nil)
						}
					}
				}
			}
			for _, t := range append(append([]string{}, w.Cfg.Threads...), "sv") {
				w.Step(sys.Stim{K: "relu", T: t})
				w.Step(sys.Stim{K: "relm", T: t})
			}
			for _, t := range w.Cfg.Threads {
				w.Step(sys.Stim{K: "point", T: t})
			}
			w.Flow(40, func(w *sys.World) string { return "retnil" })
		},
		mons: []func(*runView) []finding{func(v *runView) []finding {
			out := monWire(v)
			for _, f := range out {
				if strings.HasPrefix(f.Sig, "stream id reused on the wire") {
					return out // the peer's rejection that follows is the consequence of that (recorded) defect
				}
			}
			return append(out, monPeerRejects(v)...)
		}},
		design: &designCheck{cfg: sys.Config{Small: true, Soft: true, Threads: []string{"c1"}}, kinds: []string{"start", "relw", "cancel"},
			maxRPC: 2, maxStims: 5, invs: "TypeOK StreamInvs OneWrite CloseOnce"},
		designT: &designCheck{cfg: sys.Config{Small: true, Soft: true, Threads: []string{"c1", "c2"}}, kinds: []string{"start", "relw", "cancel"},
			maxRPC: 2, maxStims: 7, invs: "TypeOK StreamInvs OneWrite CloseOnce"},
	}
	runSysFamily(c, fam, nT, nR)
	finishedRaceSchedule(c)
	streamWire(c)
	c.Cov["rule"] = "concurrency-heavy workloads (three client goroutines sending two-frame messages, closing, half-closing, cancelling in both modes, starting the next RPC, writes parked at arbitrary points, armed points between stream creation and registration) from TLC simulation and seeded random draws; every Transport.Write is parsed by the harness's own frame parser and checked: whole frames, ids non-decreasing, one kind per id, nothing after a final frame, one Write and one Read in flight, transport closed at most once. Every run is also validated against SystemTrace.tla."
}

// ---------------------------------------------------------------------------------------------------
// C01 — per-stream delivery is in-order, exactly-once, uncorrupted and complete

func C01(c *vf.Ctx) {
	c.Assume = append(c.Assume, sysAssumeObs, sysAssumeUnits,
		"payloads carry (stream or rpc tag, sequence number) in every frame; the harness's own parser reads them off the wire, so corruption, merging or truncation of a payload changes a tag or a frame count",
		"submission order is the order in which the messages' first frames reach the transport")
	nT, nR := sizes(c, 8, 140, 48, 3000)
	fam := sysFamily{prop: "C01", maxRPC: 2, plen: 22,
		cfgs: []sys.Config{
			{Small: true, Threads: thr3},
			{Small: false, Threads: thr3},
			{Small: true, Manual: true, Soft: true, Threads: thr3},
			{Small: false, Manual: true, Threads: thr3},
			{Small: true, GateU: true, Threads: thr3},
			{Small: true, Soft: true, GateU: true, Threads: thr3},
			{Small: true, Soft: true, Points: []string{"conn.created"}, Threads: thr3},
		},
		scen:    []string{"invoke-overtaken-after-cancel", "rawrecv-kept-while-traffic-continues"},
		kinds:   []string{"start", "hstep", "relw", "deliver", "relu", "cancel", "point"},
		weights: map[string]int{"newstream": 2, "invoke": 1, "op": 10, "hstep": 8, "relw": 10, "deliver": 10, "relu": 4, "cancel": 1},
		tail: func(w *sys.World, rng *rand.Rand, ts *tailState) {
			if w.Cfg.GateU && rng.Intn(2) == 0 {
				lentBufferScenario(w, rng)
			} else if !w.Cfg.GateU && rng.Intn(3) == 0 {
				queuedSendersScenario(w, rng)
			}
			// graceful end: everything flows, both sides half-close, receivers drain
			for i := 0; i < 6; i++ {
				for _, t := range append(append([]string{}, w.Cfg.Threads...), "sv") {
					w.Step(sys.Stim{K: "relu", T: t})
				}
				w.Flow(30, nil)
			}
			ts.mark(w, "flowed")
		},
		mons: []func(*runView) []finding{monWire, monDelivery},
		own:  map[string]bool{"C01": true},
		design: &designCheck{cfg: sys.Config{Small: true, Threads: []string{"c1"}}, kinds: []string{"start", "hstep", "relw", "deliver"},
			maxRPC: 1, maxStims: 5, invs: "TypeOK StreamInvs OneWrite WireOrdered CloseOnce"},
		designT: &designCheck{cfg: sys.Config{Small: true, Threads: []string{"c1", "c2"}}, kinds: []string{"start", "hstep", "relw", "deliver"},
			maxRPC: 1, maxStims: 8, invs: "TypeOK StreamInvs OneWrite WireOrdered CloseOnce"},
	}
	runSysFamily(c, fam, nT, nR)
	sizeSweep(c)
	c.Cov["rule"] = "bidirectional streaming and unary workloads with up to three client goroutines (one- and two-frame messages, receives, half-close, close), handler sends/receives, every write parked and released individually, deliveries delayed arbitrarily, the receiver's Unmarshal gated (lent-buffer window); five configurations of writer buffer / manual flush / soft cancel. Monitors on the real observations: received multiset = first k submitted (wire order) at every quiescence, no duplicates, all frames on the transport when MsgSend returns nil. Every run validated against SystemTrace.tla."
}

// queuedSendersScenario (directed, Appendix D.11): several goroutines call MsgSend on one stream while a write is
// parked in the transport, so that they queue up behind each other; then everything flows and the peer receives.
func queuedSendersScenario(w *sys.World, rng *rand.Rand) {
	endAll(w, func(w *sys.World) string { return "retnil" })
	t := w.FreeThread()
	if t == "" || w.NRPC() >= sys.MaxRPC || !w.Step(sys.Stim{K: "start", T: t, Op: "NewStream", Md: "none"}) {
		return
	}
	r := w.NRPC()
	for i := 0; i < 4 && !w.HasStream(r); i++ {
		w.Flow(10, nil)
	}
	if !w.HasStream(r) {
		return
	}
	// the first send parks in the transport when the writer buffer is small; the others queue behind it
	for i := 0; i < len(w.Cfg.Threads); i++ {
		if st := w.FreeThread(); st != "" {
			w.Step(sys.Stim{K: "op", T: st, Op: []string{"Send1", "Send2"}[rng.Intn(2)], R: r})
		}
	}
	w.Flow(30, nil)
	for i := 0; i < len(w.Cfg.Threads)+1 && strings.HasPrefix(w.Last().App["sv"], "h:"); i++ {
		w.Step(sys.Stim{K: "hstep", A: "recv"})
		w.Flow(10, nil)
	}
}

// lentBufferScenario (directed, Appendix D.3): a receiver is inside the user's Unmarshal, holding the buffer the
// reader lent it, while the stream is terminated by some closer and the peer's next message arrives.
func lentBufferScenario(w *sys.World, rng *rand.Rand) {
	relAll := func() {
		for _, t := range append(append([]string{}, w.Cfg.Threads...), "sv") {
			w.Step(sys.Stim{K: "relu", T: t})
		}
	}
	// a fresh streaming RPC whose handler is at its gate
	relAll()
	endAll(w, func(w *sys.World) string { relAll(); return "retnil" })
	t := w.FreeThread()
	if t == "" || w.NRPC() >= sys.MaxRPC || !w.Step(sys.Stim{K: "start", T: t, Op: "NewStream", Md: "none"}) {
		return
	}
	r := w.NRPC()
	for i := 0; i < 4 && !strings.HasPrefix(w.Last().App["sv"], "h:"); i++ {
		w.Flow(20, nil)
		relAll()
	}
	if !strings.HasPrefix(w.Last().App["sv"], "h:") || !w.HasStream(r) {
		return
	}
	if rng.Intn(2) == 0 {
		// server -> client: two messages on their way, the client's first receive parks in Unmarshal
		w.Step(sys.Stim{K: "hstep", A: "send1"})
		w.Flow(4, nil)
		rt := w.FreeThread()
		if rt == "" || !w.Step(sys.Stim{K: "op", T: rt, Op: "Recv", R: r}) {
			return
		}
		w.Flow(6, nil) // first message reaches the receiver, which parks in um
		w.Step(sys.Stim{K: "hstep", A: "send1"})
		for i := 0; i < 3 && w.SP.WritePending(); i++ {
			w.Step(sys.Stim{K: "relw", E: "srv", How: "ok"})
		}
		// the closer
		switch rng.Intn(3) {
		case 0:
			w.Step(sys.Stim{K: "cancel", R: r})
		case 1:
			if ct := w.FreeThread(); ct != "" {
				w.Step(sys.Stim{K: "op", T: ct, Op: "Close", R: r})
			}
		case 2:
			if ct := w.FreeThread(); ct != "" {
				w.Step(sys.Stim{K: "op", T: ct, Op: "CloseSend", R: r})
			}
		}
		w.Flow(10, nil) // the next message arrives while the buffer is still lent
		w.Step(sys.Stim{K: "relu", T: rt})
		w.Flow(10, nil)
	} else {
		// client -> server: the handler's receive parks in Unmarshal
		st := w.FreeThread()
		if st == "" || !w.Step(sys.Stim{K: "op", T: st, Op: "Send1", R: r}) {
			return
		}
		w.Flow(4, nil)
		w.Step(sys.Stim{K: "hstep", A: "recv"})
		w.Flow(6, nil)
		if st2 := w.FreeThread(); st2 != "" {
			w.Step(sys.Stim{K: "op", T: st2, Op: "Send1", R: r})
			for i := 0; i < 3 && w.CP.WritePending(); i++ {
				w.Step(sys.Stim{K: "relw", E: "cli", How: "ok"})
			}
		}
		switch rng.Intn(2) {
		case 0:
			w.Step(sys.Stim{K: "cancel", R: r}) // soft: a cancel packet follows; hard: disconnect
		case 1:
			if ct := w.FreeThread(); ct != "" {
				w.Step(sys.Stim{K: "op", T: ct, Op: "Close", R: r})
			}
		}
		w.Flow(12, nil)
		w.Step(sys.Stim{K: "relu", T: "sv"})
		w.Flow(10, nil)
	}
}

// ---------------------------------------------------------------------------------------------------
// C02 — streams on a reused connection are isolated from each other

func C02(c *vf.Ctx) {
	c.Assume = append(c.Assume, sysAssumeObs, sysAssumeUnits,
		"every payload, error text and rpc name carries the identity of the RPC/stream that produced it")
	nT, nR := sizes(c, 8, 140, 48, 3000)
	var res02 string
	fam := sysFamily{prop: "C02", maxRPC: 4, plen: 20,
		cfgs: []sys.Config{
			{Small: true, Soft: true, Threads: thr3},
			{Small: false, Soft: true, Threads: thr3},
			{Small: true, Soft: true, Points: []string{"conn.created", "conn.meta.written"}, Threads: thr3},
			{Small: true, Soft: false, Threads: thr3},
			{Small: true, Soft: true, Points: []string{"manager.reader.dispatch", "manager.acquire.got"}, Threads: thr3}, // late packets meet a reader preempted before its dispatch
			{Small: true, Soft: true, GateU: true, Threads: []string{"c1", "c2", "c3", "c4"}},                            // user code (Marshal, Unmarshal) holds a stream's locks while the next RPC starts
		},
		scen:    []string{"invoke-overtaken-after-cancel", "metadata-then-abandoned", "queued-call-cancelled", "terminal-op-queued-behind-marshal", "decoding-with-next-message-queued", "rawrecv-kept-while-traffic-continues"},
		kinds:   []string{"start", "hstep", "relw", "deliver", "cancel", "point"},
		weights: map[string]int{"invoke": 5, "newstream": 3, "op": 6, "hstep": 8, "relw": 12, "deliver": 8, "cancel": 3, "point": 2},
		tail: func(w *sys.World, rng *rand.Rand, ts *tailState) {
			for _, t := range w.Cfg.Threads {
				w.Step(sys.Stim{K: "point", T: t})
			}
			w.Flow(60, hDefault)
			// what earlier calls did (cancel, close, failure) does not decide a later call: once they are over, a fresh call runs
			res02 = "skipped"
			if w.Cfg.Soft && endAll(w, hDrain) {
				ts.mark(w, "ended")
				res02 = probe(w, ts)
			}
		},
		mons: []func(*runView) []finding{monWire, monDelivery, monIsolation, monMetaAsC02, monPeerRejects},
		post: func(v *runView, ts *tailState) []finding {
			at, ok := ts.Marks["ended"]
			if !ok {
				return nil
			}
			o := v.r.Lines[at].Obs
			for _, t := range v.r.Cfg.Threads {
				if parkedInDrpc(o.App[t]) {
					return nil
				}
			}
			if !strings.HasPrefix(o.App["sv"], "h:") && o.App["sv"] != "blk" {
				return nil
			}
			var out []finding
			for _, f := range probeFinding("C02", v, ts, res02) {
				f.Sig = "the outcome of a fresh call was decided by earlier calls: " + f.Sig
				out = append(out, f)
			}
			return out
		},
		own: map[string]bool{"C02": true},
		design: &designCheck{cfg: sys.Config{Small: false, Soft: true, Threads: []string{"c1"}}, kinds: []string{"start", "hstep", "relw", "deliver", "cancel"},
			maxRPC: 2, maxStims: 5, invs: "TypeOK StreamInvs OneWrite"},
		designT: &designCheck{cfg: sys.Config{Small: false, Soft: true, Threads: []string{"c1", "c2"}}, kinds: []string{"start", "hstep", "relw", "deliver", "cancel"},
			maxRPC: 2, maxStims: 5, invs: "TypeOK StreamInvs OneWrite"}, // measured: 5.7e6 distinct states, 3.5 min; 6 stimuli do not finish in 20 min
	}
	runSysFamily(c, fam, nT, nR)
	c.Cov["rule"] = "sequences of up to four RPCs (unary and streaming, three goroutines calling concurrently) on one connection, each cancelled (soft or hard), closed or failed by either side at arbitrary points, with the leftover packets delivered arbitrarily late relative to the start of later RPCs (deliveries are separate stimuli; armed point between stream creation and the invoke write). Monitors: every message, reply and error observed by RPC r carries r's own stream identity; stream ids on the wire strictly increase. Every run validated against SystemTrace.tla."
}

// monMetaAsC02: metadata of one call showing up in another call's handler is also a breach of isolation
func monMetaAsC02(v *runView) (out []finding) {
	for _, f := range monMetaStrict(v) {
		f.Prop = "C02"
		out = append(out, f)
	}
	return
}

// monIsolation: errors and replies are observed only by the RPC they belong to.
func monIsolation(v *runView) (out []finding) {
	// what a call puts on the wire under stream id s is that call's own data: request and message tags name their rpc
	for _, f := range v.wire["cli"] {
		if f.Kind != "Message" && f.Kind != "Invoke" {
			continue
		}
		var r int
		if n, _ := fmt.Sscanf(f.Tag, "%d.", &r); n == 1 && r > 0 {
			if owner, ok := v.sidRPC[f.Sid]; ok && owner != r {
				out = append(out, finding{"C02", "data of one call was sent on the stream of another call", f.Line, map[string]any{"frame": f, "data_of_rpc": r, "stream_of_rpc": owner}})
			}
		}
	}
	for _, o := range v.ops {
		sid := v.rpcSid[o.R]
		if strings.HasPrefix(o.Res, "remote:e") {
			if o.Res != fmt.Sprintf("remote:e%d", sid) {
				out = append(out, finding{"C02", "a call observed the error of another stream", o.End, map[string]any{"op": o, "own_stream": sid}})
			}
		}
	}
	// the handler only ever receives messages of the RPC whose stream it serves: tags r.n with sid(r) increasing
	byH, _ := received(v)
	lastSid := 0
	for _, x := range byH {
		var r int
		fmt.Sscanf(x.Tag, "%d.", &r)
		sid := v.rpcSid[r]
		if sid < lastSid {
			out = append(out, finding{"C02", "the handler received a message of an earlier stream", x.Line, map[string]any{"tag": x.Tag}})
		}
		lastSid = sid
	}
	// new streams start only with a higher id
	seen := 0
	for _, f := range v.wire["cli"] {
		if f.Kind == "Invoke" {
			if f.Sid <= seen {
				out = append(out, finding{"C02", "a stream id was reused on the connection", f.Line, map[string]any{"frame": f}})
			}
			seen = f.Sid
		}
	}
	return
}
