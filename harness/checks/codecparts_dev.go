package checks

import "verif/vf"

// development only: runs the codec parts on their own (evidence DEVCODEC.json); deleted when merging.
func init() {
	All["DEVCODEC"] = func(c *vf.Ctx) {
		MetaCodec(c)
		ErrorCodec(c)
		C13Codecs(c)
		c.Cov["rule"] = "development run of the codec parts of C10/C11/C13: TLC enumerates MetaCodec.tla (dec/struct/enc modes) and ErrCodec.tla (chain/short modes); a case is distinct by its input items / (shape, code class, message class)"
		c.Cov["exhaustive"] = false
	}
}
