package checks

import "verif/vf"

// Temporary stub until the wire parts (C09/C18 builder) are merged.
func C13Wire(c *vf.Ctx) {}
