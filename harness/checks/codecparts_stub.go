package checks

import "verif/vf"

// Temporary stubs until the codec parts are merged.
func MetaCodec(c *vf.Ctx)  {}
func ErrorCodec(c *vf.Ctx) {}
