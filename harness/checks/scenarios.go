package checks

import (
	"math/rand"
	"strings"

	"verif/sys"
)

// Directed scenarios (DESIGN.md Appendix D): each drives the real world into a particular situation that random
// stimulus lists reach rarely; the property-specific tail of the family then acts on that situation.  A scenario
// only uses stimuli, so everything it does is part of the recorded trace and is validated like the rest.

type scenario struct {
	name string
	ok   func(c sys.Config) bool
	run  func(w *sys.World, rng *rand.Rand)
}

func hasPoint(c sys.Config, p string) bool {
	for _, x := range c.Points {
		if x == p {
			return true
		}
	}
	return false
}

func relAllGates(w *sys.World) {
	for _, t := range append(append([]string{}, w.Cfg.Threads...), "sv") {
		w.Step(sys.Stim{K: "relu", T: t})
		w.Step(sys.Stim{K: "relm", T: t})
		w.Step(sys.Stim{K: "point", T: t})
	}
	if hasPoint(w.Cfg, "manager.stream.ctx") {
		w.Step(sys.Stim{K: "point", T: "ms_cli"})
		w.Step(sys.Stim{K: "point", T: "ms_srv"})
	}
	if hasPoint(w.Cfg, "manager.reader.dispatch") {
		w.Step(sys.Stim{K: "point", T: "rd_cli"})
		w.Step(sys.Stim{K: "point", T: "rd_srv"})
	}
}

// freshStream ends what is there and opens a streaming RPC; it returns the rpc index (0 on failure).
func freshStream(w *sys.World, md string, wantHandler bool) int {
	relAllGates(w)
	endAll(w, func(w *sys.World) string { relAllGates(w); return "retnil" })
	t := w.FreeThread()
	if t == "" || w.NRPC() >= sys.MaxRPC-2 || !w.Step(sys.Stim{K: "start", T: t, Op: "NewStream", Md: md}) {
		return 0
	}
	r := w.NRPC()
	for i := 0; i < 5 && (!w.HasStream(r) || (wantHandler && !strings.HasPrefix(w.Last().App["sv"], "h:"))); i++ {
		relAllGates(w)
		w.Flow(20, nil)
		if w.HasStream(r) && wantHandler && !strings.HasPrefix(w.Last().App["sv"], "h:") {
			// with a large writer buffer the invoke is corked until the first send
			if st := w.FreeThread(); st != "" {
				w.Step(sys.Stim{K: "op", T: st, Op: "Send1", R: r})
			}
		}
	}
	if !w.HasStream(r) {
		return 0
	}
	return r
}

var scenarios = []scenario{
	{ // D.12 / second-round C02d, C04c, C06a: a queued call is cancelled while it waits for a soft-cancelled predecessor
		name: "queued-call-cancelled", ok: func(c sys.Config) bool { return c.Soft && c.Small },
		run: func(w *sys.World, rng *rand.Rand) {
			r1 := freshStream(w, "none", false)
			if r1 == 0 {
				return
			}
			w.Step(sys.Stim{K: "cancel", R: r1}) // the cancel packet parks in the stalled transport
			t := w.FreeThread()
			if t == "" || !w.Step(sys.Stim{K: "start", T: t, Op: []string{"Invoke", "NewStream"}[rng.Intn(2)], Md: "none"}) {
				return
			}
			w.Step(sys.Stim{K: "cancel", R: w.NRPC()}) // cancelled while waiting for the previous stream
			w.Flow(20, nil)                            // the transport moves again
		}},
	{ // D.4: the first receive's flush of the corked invoke is parked in the transport
		name: "first-recv-flush-parked", ok: func(c sys.Config) bool { return !c.Small },
		run: func(w *sys.World, rng *rand.Rand) {
			relAllGates(w)
			endAll(w, func(w *sys.World) string { relAllGates(w); return "retnil" })
			t := w.FreeThread()
			if t == "" || w.NRPC() >= sys.MaxRPC-2 || !w.Step(sys.Stim{K: "start", T: t, Op: "NewStream", Md: "none"}) {
				return
			}
			r := w.NRPC()
			if !w.HasStream(r) {
				return
			}
			if rt := w.FreeThread(); rt != "" {
				w.Step(sys.Stim{K: "op", T: rt, Op: "Recv", R: r}) // flush.Do(RawFlush): the write parks
			}
			if rng.Intn(2) == 0 {
				if st := w.FreeThread(); st != "" {
					w.Step(sys.Stim{K: "op", T: st, Op: "Send1", R: r}) // blocked in once.Do behind the flush
				}
			}
		}},
	{ // D.3 with the reader already back in Put: a receiver is decoding while the next message waits in the reader
		name: "decoding-with-next-message-queued", ok: func(c sys.Config) bool { return c.GateU },
		run: func(w *sys.World, rng *rand.Rand) {
			r := freshStream(w, "none", true)
			if r == 0 {
				return
			}
			if rng.Intn(2) == 0 { // client receives
				w.Step(sys.Stim{K: "hstep", A: "send1"})
				w.Flow(4, nil)
				rt := w.FreeThread()
				if rt == "" || !w.Step(sys.Stim{K: "op", T: rt, Op: "Recv", R: r}) {
					return
				}
				w.Flow(6, nil)
				w.Step(sys.Stim{K: "hstep", A: "send1"})
				w.Flow(8, nil) // second message: the client's reader parks in Put behind the held buffer
			} else { // handler receives
				if st := w.FreeThread(); st != "" {
					w.Step(sys.Stim{K: "op", T: st, Op: "Send1", R: r})
				}
				w.Flow(4, nil)
				w.Step(sys.Stim{K: "hstep", A: "recv"})
				w.Flow(6, nil)
				if st := w.FreeThread(); st != "" {
					w.Step(sys.Stim{K: "op", T: st, Op: "Send1", R: r})
				}
				w.Flow(8, nil)
			}
		}},
	{ // D.5: a call with metadata is abandoned between its metadata packet and its invoke; the next call has none
		name: "metadata-then-abandoned", ok: func(c sys.Config) bool { return c.Soft && hasPoint(c, "conn.meta.written") },
		run: func(w *sys.World, rng *rand.Rand) {
			relAllGates(w)
			endAll(w, func(w *sys.World) string { relAllGates(w); return "retnil" })
			t := w.FreeThread()
			if t == "" || w.NRPC() >= sys.MaxRPC-2 || !w.Step(sys.Stim{K: "start", T: t, Op: []string{"Invoke", "NewStream"}[rng.Intn(2)], Md: "M2"}) {
				return
			}
			r := w.NRPC()
			metaOut := func() bool {
				for _, wr := range w.CP.Writes() {
					for _, f := range wr.Frames {
						if f.Kind == 7 && wr.Done && !wr.Failed {
							if md := string(f.Data); strings.Contains(md, "M2") {
								return true
							}
						}
					}
				}
				return false
			}
			// go on until the metadata packet is out and the call is parked right after it (conn.meta.written)
			for i := 0; i < 6 && !(metaOut() && w.Last().App[t] == "pt"); i++ {
				w.Step(sys.Stim{K: "point", T: t})
				w.Flow(6, nil)
			}
			w.Step(sys.Stim{K: "cancel", R: r})
			w.Flow(10, nil)
			w.Step(sys.Stim{K: "point", T: t})
			w.Flow(10, nil)
			if t2 := w.FreeThread(); t2 != "" && rng.Intn(2) == 0 { // else the family's tail issues the next call
				w.Step(sys.Stim{K: "start", T: t2, Op: "Invoke", Md: "none"})
				for i := 0; i < 3; i++ {
					w.Step(sys.Stim{K: "point", T: t2})
					w.Flow(20, hDefault)
				}
			}
		}},
	{ // second-round C01d: a unary call is cancelled between stream creation and taking the conn's marshal lock,
		// while the next unary call has already marshalled its request
		name: "invoke-overtaken-after-cancel", ok: func(c sys.Config) bool { return c.Soft && hasPoint(c, "conn.created") },
		run: func(w *sys.World, rng *rand.Rand) {
			relAllGates(w)
			endAll(w, func(w *sys.World) string { relAllGates(w); return "retnil" })
			a := w.FreeThread()
			if a == "" || w.NRPC() >= sys.MaxRPC-2 || !w.Step(sys.Stim{K: "start", T: a, Op: "Invoke", Md: "none"}) {
				return
			}
			ra := w.NRPC()
			w.Step(sys.Stim{K: "cancel", R: ra}) // A is parked at conn.created; its stream is soft-cancelled
			w.Flow(10, nil)
			b := w.FreeThread()
			if b == "" || !w.Step(sys.Stim{K: "start", T: b, Op: "Invoke", Md: "none"}) {
				return
			}
			w.Flow(4, nil)
			w.Step(sys.Stim{K: "point", T: b}) // B goes on: marshals, starts writing
			w.Step(sys.Stim{K: "point", T: a}) // A resumes on its dead stream
			w.Flow(30, hDefault)
		}},
	{ // second-round C12c: the manager notices the cancel at the moment the stream completes by itself; a next call follows
		name: "cancel-races-completion", ok: func(c sys.Config) bool { return hasPoint(c, "manager.stream.ctx") },
		run: func(w *sys.World, rng *rand.Rand) {
			r := freshStream(w, "none", rng.Intn(2) == 0)
			if r == 0 {
				return
			}
			w.Step(sys.Stim{K: "cancel", R: r}) // manageStream has chosen the ctx.Done arm and is parked there
			if w.Last().Lib["ms_cli"] != "pt" {
				return
			}
			if t := w.FreeThread(); t != "" {
				w.Step(sys.Stim{K: "op", T: t, Op: "Close", R: r}) // the stream finishes by itself
			}
			w.Flow(20, nil)
			w.Step(sys.Stim{K: "point", T: "ms_cli"}) // Cancel finds the stream finished
			w.Flow(20, hDefault)
			if t := w.FreeThread(); t != "" && w.NRPC() < sys.MaxRPC-1 {
				if w.Step(sys.Stim{K: "start", T: t, Op: "NewStream", Md: "none"}) {
					r2 := w.NRPC()
					w.Flow(10, nil)
					if rt := w.FreeThread(); rt != "" && w.HasStream(r2) && rng.Intn(2) == 0 {
						w.Step(sys.Stim{K: "op", T: rt, Op: "Recv", R: r2})
						w.Flow(10, nil)
					}
				}
			}
		}},
	{ // second-round C07c: a CloseSend (or Close / SendError) queues on the write lock behind a sender that is inside the
		// user's Marshal; the remote side ends the stream meanwhile; the next call is waiting for its turn
		name: "terminal-op-queued-behind-marshal", ok: func(c sys.Config) bool { return c.GateU },
		run: func(w *sys.World, rng *rand.Rand) {
			r := freshStream(w, "none", true)
			if r == 0 {
				return
			}
			halfClosed := false
			if rng.Intn(2) == 0 { // the remote side has half-closed already: the client's CloseSend is what ends the stream
				halfClosed = w.Step(sys.Stim{K: "hstep", A: "closesend"})
				w.Flow(8, nil)
			}
			a := w.FreeThread()
			if a == "" || !w.Step(sys.Stim{K: "op", T: a, Op: "SendG", R: r}) || w.Last().App[a] != "ma" {
				return
			}
			a2 := ""
			if len(w.Cfg.Threads) >= 4 { // one more sender queues first: it will park in Marshal again, holding the lock the terminal op waits for
				if a2 = w.FreeThread(); a2 != "" {
					w.Step(sys.Stim{K: "op", T: a2, Op: "SendG", R: r})
				}
			}
			if b := w.FreeThread(); b != "" {
				op := []string{"CloseSend", "CloseSend", "Close", "SendErr"}[rng.Intn(4)]
				if halfClosed {
					op = "CloseSend"
				}
				w.Step(sys.Stim{K: "op", T: b, Op: op, R: r})
			}
			if !halfClosed || rng.Intn(2) == 0 {
				w.Step(sys.Stim{K: "hstep", A: []string{"reterr", "reterr", "retnil"}[rng.Intn(3)]})
			}
			w.Flow(12, nil) // the remote end of the stream reaches the client's reader
			if d := w.FreeThread(); d != "" && w.NRPC() < sys.MaxRPC-1 {
				w.Step(sys.Stim{K: "start", T: d, Op: []string{"Invoke", "NewStream"}[rng.Intn(2)], Md: "none"})
			}
			w.Step(sys.Stim{K: "relm", T: a})
			w.Flow(30, hDefault)
			if a2 != "" {
				w.Step(sys.Stim{K: "relm", T: a2})
				w.Flow(30, hDefault)
			}
		}},
	{ // fourth-round C02f: what RawRecv handed out is kept by the caller while more traffic arrives (also for the next RPC)
		name: "rawrecv-kept-while-traffic-continues", ok: func(c sys.Config) bool { return true },
		run: func(w *sys.World, rng *rand.Rand) {
			r := freshStream(w, "none", true)
			if r == 0 {
				return
			}
			w.Step(sys.Stim{K: "hstep", A: []string{"send1", "send2"}[rng.Intn(2)]})
			w.Flow(8, nil)
			if rt := w.FreeThread(); rt != "" {
				w.Step(sys.Stim{K: "op", T: rt, Op: "RecvRaw", R: r})
			}
			relAllGates(w)
			w.Flow(8, nil)
			w.Step(sys.Stim{K: "hstep", A: "send1"})
			w.Flow(8, nil)
			if rt := w.FreeThread(); rt != "" {
				w.Step(sys.Stim{K: "op", T: rt, Op: "Recv", R: r})
			}
			relAllGates(w)
			w.Flow(8, nil)
			if rng.Intn(2) == 0 { // the next RPC's reply lands in the same reader
				endAll(w, func(w *sys.World) string { relAllGates(w); return "retnil" })
				if t := w.FreeThread(); t != "" && w.NRPC() < sys.MaxRPC-1 {
					w.Step(sys.Stim{K: "start", T: t, Op: "Invoke", Md: "none"})
					for i := 0; i < 3; i++ {
						relAllGates(w)
						w.Flow(30, hDefault)
					}
				}
			}
		}},
	{ // an undecodable message: the receiver gets the decoder's error, the stream lives on
		name: "undecodable-message", ok: func(c sys.Config) bool { return true },
		run: func(w *sys.World, rng *rand.Rand) {
			r := freshStream(w, "none", true)
			if r == 0 {
				return
			}
			if rng.Intn(2) == 0 {
				if st := w.FreeThread(); st != "" {
					w.Step(sys.Stim{K: "op", T: st, Op: "SendBad", R: r})
				}
				w.Flow(8, nil)
				w.Step(sys.Stim{K: "hstep", A: "recv"})
				relAllGates(w)
				w.Flow(8, nil)
			} else {
				w.Step(sys.Stim{K: "hstep", A: "sendbad"})
				w.Flow(8, nil)
				if rt := w.FreeThread(); rt != "" {
					w.Step(sys.Stim{K: "op", T: rt, Op: "Recv", R: r})
				}
				relAllGates(w)
				w.Flow(8, nil)
			}
		}},
}

// runScenario picks one applicable scenario (or none) and runs it.
func runScenario(w *sys.World, rng *rand.Rand, names ...string) string {
	var app []scenario
	for _, s := range scenarios {
		if !s.ok(w.Cfg) {
			continue
		}
		if len(names) > 0 {
			found := false
			for _, n := range names {
				if n == s.name {
					found = true
				}
			}
			if !found {
				continue
			}
		}
		app = append(app, s)
	}
	if len(app) == 0 || rng.Intn(2) == 0 {
		return ""
	}
	s := app[rng.Intn(len(app))]
	s.run(w, rng)
	return s.name
}
