package checks

// Sources written into the scratch module of the C17 check (outside /repo and /verif).

const c17Module = "c17scratch"

// c17RtlibSrc is the observation library shared by the generated round-trip drivers.  It only
// observes (which RPC name arrived, which method ran, what came back, reflection facts of the
// generated description); every comparison with the specification happens in the check.
const c17RtlibSrc = `// Package rtlib records what the generated code does when it is exercised.
package rtlib

import (
	"context"
	"errors"
	"fmt"
	"io"
	"net"
	"reflect"
	"runtime"
	"sort"
	"strings"
	"sync"
	"time"

	"storj.io/drpc"
	"storj.io/drpc/drpcconn"
	"storj.io/drpc/drpcserver"
)

type Ran struct {
	Svc     int    ` + "`json:\"svc\"`" + `
	Meth    int    ` + "`json:\"meth\"`" + `
	Shape   string ` + "`json:\"shape\"`" + `
	Payload string ` + "`json:\"payload\"`" + `
}

type CallObs struct {
	Svc      int      ` + "`json:\"svc\"`" + `
	Meth     int      ` + "`json:\"meth\"`" + `
	Wire     []string ` + "`json:\"wire\"`" + `
	Ran      []Ran    ` + "`json:\"ran\"`" + `
	Reply    string   ` + "`json:\"reply\"`" + `
	Err      string   ` + "`json:\"err\"`" + `
	TimedOut bool     ` + "`json:\"timed_out\"`" + `
	Parked   []string ` + "`json:\"parked\"`" + `
	Skipped  bool     ` + "`json:\"skipped\"`" + `
	CliOps   []string ` + "`json:\"cliops\"`" + `
	SrvOps   []string ` + "`json:\"srvops\"`" + `
}

type DescMeth struct {
	RPC    string ` + "`json:\"rpc\"`" + `
	OK     bool   ` + "`json:\"ok\"`" + `
	NumIn  int    ` + "`json:\"numin\"`" + `
	NumOut int    ` + "`json:\"numout\"`" + `
	Type   string ` + "`json:\"type\"`" + `
}

type DescObs struct {
	Svc        int        ` + "`json:\"svc\"`" + `
	NumMethods int        ` + "`json:\"num_methods\"`" + `
	Methods    []DescMeth ` + "`json:\"methods\"`" + `
	PastEndOK  bool       ` + "`json:\"past_end_ok\"`" + `
	EncMethods []string   ` + "`json:\"enc_methods\"`" + `
	EncTrip    string     ` + "`json:\"enc_trip\"`" + `
	JSONTrip   string     ` + "`json:\"json_trip\"`" + `
	Unimpl     []string   ` + "`json:\"unimpl\"`" + `
}

type FileObs struct {
	Pkg    string    ` + "`json:\"pkg\"`" + `
	RegErr []string  ` + "`json:\"reg_err\"`" + `
	Descs  []DescObs ` + "`json:\"descs\"`" + `
	Calls  []CallObs ` + "`json:\"calls\"`" + `
	Panic  string    ` + "`json:\"panic\"`" + `

	Rec  *Rec ` + "`json:\"-\"`" + `
	dead bool
}

// Rec is shared by the wrapped handler and the server implementations.
type Rec struct {
	mu   sync.Mutex
	wire []string
	ran  []Ran
}

func (r *Rec) Wire(rpc string) { r.mu.Lock(); r.wire = append(r.wire, rpc); r.mu.Unlock() }
func (r *Rec) Ran(svc, meth int, shape, payload string) {
	r.mu.Lock()
	r.ran = append(r.ran, Ran{svc, meth, shape, payload})
	r.mu.Unlock()
}
func (r *Rec) snapshot() (int, int) { r.mu.Lock(); defer r.mu.Unlock(); return len(r.wire), len(r.ran) }
func (r *Rec) since(w, n int) ([]string, []Ran) {
	r.mu.Lock()
	defer r.mu.Unlock()
	return append([]string{}, r.wire[w:]...), append([]Ran{}, r.ran[n:]...)
}

func NewFileObs(pkg string) *FileObs { return &FileObs{Pkg: pkg, Rec: &Rec{}} }

func ErrStr(err error) string {
	if err == nil {
		return ""
	}
	return err.Error()
}

// EOF renders the end-of-stream result of a Recv.
func EOF(err error) string {
	switch {
	case err == nil:
		return "nil"
	case errors.Is(err, io.EOF):
		return "EOF"
	}
	return "err:" + err.Error()
}

type handler struct {
	h   drpc.Handler
	rec *Rec
}

func (h handler) HandleRPC(stream drpc.Stream, rpc string) error {
	h.rec.Wire(rpc)
	return h.h.HandleRPC(stream, rpc)
}

// Serve connects a client connection to a server that serves h over an in-memory pipe.
func Serve(h drpc.Handler, rec *Rec) (drpc.Conn, context.Context, func()) {
	c1, c2 := net.Pipe()
	ctx, cancel := context.WithCancel(context.Background())
	srv := drpcserver.New(handler{h, rec})
	done := make(chan struct{})
	go func() { defer close(done); _ = srv.ServeOne(ctx, c2) }()
	conn := drpcconn.New(c1)
	return conn, ctx, func() {
		_ = conn.Close()
		cancel()
		_ = c2.Close()
		_ = c1.Close()
		select {
		case <-done:
		case <-time.After(5 * time.Second):
		}
	}
}

var streamMethods = func() map[string]bool {
	m := map[string]bool{}
	t := reflect.TypeOf((*drpc.Stream)(nil)).Elem()
	for i := 0; i < t.NumMethod(); i++ {
		m[t.Method(i).Name] = true
	}
	return m
}()

// Ops lists the methods an interface adds to drpc.Stream; ifacePtr is (*I)(nil).
func Ops(ifacePtr interface{}) []string {
	t := reflect.TypeOf(ifacePtr).Elem()
	out := []string{}
	for i := 0; i < t.NumMethod(); i++ {
		if !streamMethods[t.Method(i).Name] {
			out = append(out, t.Method(i).Name)
		}
	}
	sort.Strings(out)
	if !t.Implements(reflect.TypeOf((*drpc.Stream)(nil)).Elem()) {
		out = append(out, "!notAStream")
	}
	return out
}

// Desc records the reflection facts of a generated description.  mk makes request messages,
// get reads the tag back; unimpl is the generated Unimplemented server.
func (o *FileObs) Desc(svc int, d drpc.Description, mk func(string) drpc.Message, fresh func() drpc.Message, get func(drpc.Message) string, unimpl interface{}) {
	do := DescObs{Svc: svc, NumMethods: d.NumMethods()}
	var enc drpc.Encoding
	for i := 0; i < do.NumMethods; i++ {
		rpc, e, recv, method, ok := d.Method(i)
		dm := DescMeth{RPC: rpc, OK: ok && recv != nil && e != nil}
		if method != nil {
			mt := reflect.TypeOf(method)
			if mt.Kind() == reflect.Func {
				dm.NumIn, dm.NumOut, dm.Type = mt.NumIn(), mt.NumOut(), mt.String()
			}
		}
		if e != nil {
			enc = e
		}
		do.Methods = append(do.Methods, dm)
	}
	_, _, _, _, do.PastEndOK = d.Method(do.NumMethods)
	if enc != nil {
		et := reflect.TypeOf(enc)
		for i := 0; i < et.NumMethod(); i++ {
			do.EncMethods = append(do.EncMethods, et.Method(i).Name)
		}
		sort.Strings(do.EncMethods)
		do.EncTrip = trip(func() ([]byte, error) { return enc.Marshal(mk("enc")) }, func(b []byte, m drpc.Message) error { return enc.Unmarshal(b, m) }, fresh, get, "enc")
		if ma, ok := enc.(interface {
			MarshalAppend([]byte, drpc.Message) ([]byte, error)
		}); ok {
			r := trip(func() ([]byte, error) {
				b, err := ma.MarshalAppend([]byte("pre"), mk("app"))
				if err == nil && !strings.HasPrefix(string(b), "pre") {
					return nil, errors.New("MarshalAppend lost the prefix")
				}
				if err == nil {
					b = b[3:]
				}
				return b, err
			}, func(b []byte, m drpc.Message) error { return enc.Unmarshal(b, m) }, fresh, get, "app")
			if r != "ok" {
				do.EncTrip = "append:" + r
			}
		}
		if j, ok := enc.(interface {
			JSONMarshal(drpc.Message) ([]byte, error)
			JSONUnmarshal([]byte, drpc.Message) error
		}); ok {
			do.JSONTrip = trip(func() ([]byte, error) { return j.JSONMarshal(mk("js")) }, j.JSONUnmarshal, fresh, get, "js")
		}
	}
	// every method of the Unimplemented server exists and answers (a value is enough here)
	if unimpl != nil {
		ut := reflect.TypeOf(unimpl)
		for i := 0; i < ut.NumMethod(); i++ {
			do.Unimpl = append(do.Unimpl, ut.Method(i).Name)
		}
		sort.Strings(do.Unimpl)
	}
	o.Descs = append(o.Descs, do)
}

func trip(marshal func() ([]byte, error), unmarshal func([]byte, drpc.Message) error, fresh func() drpc.Message, get func(drpc.Message) string, want string) (res string) {
	defer func() {
		if p := recover(); p != nil {
			res = fmt.Sprint("panic:", p)
		}
	}()
	b, err := marshal()
	if err != nil {
		return "marshal:" + err.Error()
	}
	m := fresh()
	if err := unmarshal(b, m); err != nil {
		return "unmarshal:" + err.Error()
	}
	if g := get(m); g != want {
		return "value:" + g
	}
	return "ok"
}

// Call runs one client call and records what the server saw during it.
func (o *FileObs) Call(svc, meth int, cliOps, srvOps []string, f func() (string, error)) {
	co := CallObs{Svc: svc, Meth: meth, CliOps: cliOps, SrvOps: srvOps}
	if o.dead {
		co.Skipped = true
		o.Calls = append(o.Calls, co)
		return
	}
	w, n := o.Rec.snapshot()
	type res struct {
		reply string
		err   error
		pan   string
	}
	ch := make(chan res, 1)
	go func() {
		var r res
		defer func() {
			if p := recover(); p != nil {
				r.pan = fmt.Sprint(p)
			}
			ch <- r
		}()
		r.reply, r.err = f()
	}()
	select {
	case r := <-ch:
		co.Reply, co.Err = r.reply, ErrStr(r.err)
		if r.pan != "" {
			co.Err = "panic:" + r.pan
		}
	case <-time.After(10 * time.Second):
		// slow or stuck?  It is stuck when no goroutine of the process can run any more (there is no
		// real I/O and no timer besides ours): only then the parked goroutines are reported.
		co.TimedOut = true
		for i := 0; i < 6; i++ {
			p, busy := census()
			if busy == 0 {
				co.Parked = p
				break
			}
			select {
			case r := <-ch:
				co.TimedOut = false
				co.Reply, co.Err = r.reply, ErrStr(r.err)
				if r.pan != "" {
					co.Err = "panic:" + r.pan
				}
			case <-time.After(2 * time.Second):
			}
			if !co.TimedOut {
				break
			}
		}
		if co.TimedOut {
			o.dead = true
		}
	}
	co.Wire, co.Ran = o.Rec.since(w, n)
	o.Calls = append(o.Calls, co)
}

// census lists, per waiting goroutine that is inside the drpc library, its state and innermost drpc
// frame, and counts the goroutines (other than the caller) that are not waiting.
func census() (parked []string, busy int) {
	buf := make([]byte, 8<<20)
	buf = buf[:runtime.Stack(buf, true)]
	parked = []string{}
	for gi, g := range strings.Split(string(buf), "\n\n") {
		lines := strings.Split(g, "\n")
		if len(lines) < 2 || !strings.HasPrefix(lines[0], "goroutine ") {
			continue
		}
		state := lines[0]
		if i := strings.Index(state, "["); i >= 0 {
			state = strings.TrimSuffix(state[i:], ":")
		}
		if strings.Contains(state, "running") || strings.Contains(state, "runnable") || strings.Contains(state, "syscall") {
			if gi > 0 { // the first goroutine of the dump is the caller
				busy++
			}
			continue
		}
		if i := strings.Index(state, ","); i > 0 {
			state = state[:i] + "]" // drop the waiting time
		}
		for _, l := range lines[1:] {
			if strings.HasPrefix(l, "storj.io/drpc/") {
				if i := strings.LastIndex(l, "("); i > 0 {
					l = l[:i]
				}
				parked = append(parked, state+" "+l)
				break
			}
		}
	}
	sort.Strings(parked)
	return parked, busy
}
`

// c17CustomLibSrc is the -protolib=<custom> package: messages encode themselves.
const c17CustomLibSrc = `// Package customlib is a non-protobuf encoding used through -protolib.
package customlib

import (
	"encoding/json"
	"errors"

	"storj.io/drpc"
)

type Msg interface {
	VEnc() []byte
	VDec([]byte) error
}

func Marshal(msg drpc.Message) ([]byte, error) {
	m, ok := msg.(Msg)
	if !ok {
		return nil, errors.New("customlib: not a message")
	}
	return m.VEnc(), nil
}

func Unmarshal(buf []byte, msg drpc.Message) error {
	m, ok := msg.(Msg)
	if !ok {
		return errors.New("customlib: not a message")
	}
	return m.VDec(buf)
}

func JSONMarshal(msg drpc.Message) ([]byte, error) { return json.Marshal(msg) }

func JSONUnmarshal(buf []byte, msg drpc.Message) error { return json.Unmarshal(buf, msg) }
`

// c17CustomMsgsSrc are hand-written message types for the custom encoding (%s = package name).
const c17CustomMsgsSrc = `package %s

type In struct {
	Q string
}

func (m *In) VEnc() []byte         { return []byte("I" + m.Q) }
func (m *In) VDec(b []byte) error { m.Q = string(b[1:]); return nil }

type Out struct {
	R string
}

func (m *Out) VEnc() []byte         { return []byte("O" + m.R) }
func (m *Out) VDec(b []byte) error { m.R = string(b[1:]); return nil }
`
