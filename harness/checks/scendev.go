package checks

import (
	"encoding/json"
	"fmt"
	"math/rand"
	"os"
	"strings"
	"time"

	"verif/sys"
	"verif/vf"
)

// SCENDEV is a development entry point: run one directed scenario (VERIF_SCEN) in a configuration given as a
// word list (VERIF_CFG, e.g. "small soft gateu pt:conn.created pt:conn.meta.written"), then end everything and
// probe; every recorded line is printed, and the run is validated against SystemTrace.tla.
func scenDev(c *vf.Ctx) {
	cfg := sys.Config{Threads: []string{"c1", "c2", "c3"}}
	for _, wd := range strings.Fields(os.Getenv("VERIF_CFG")) {
		switch {
		case wd == "small":
			cfg.Small = true
		case wd == "soft":
			cfg.Soft = true
		case wd == "gateu":
			cfg.GateU = true
		case wd == "manual":
			cfg.Manual = true
		case wd == "thr4":
			cfg.Threads = []string{"c1", "c2", "c3", "c4"}
		case strings.HasPrefix(wd, "pt:"):
			cfg.Points = append(cfg.Points, wd[3:])
		}
	}
	rng := rand.New(rand.NewSource(c.Seed))
	w := sys.New(cfg)
	w.Begin()
	for _, s := range scenarios {
		if s.name == os.Getenv("VERIF_SCEN") {
			if !s.ok(cfg) {
				fmt.Println("scenario not applicable in this configuration")
			}
			s.run(w, rng)
		}
	}
	ts := &tailState{Marks: map[string]int{}, Notes: map[string]string{}}
	relAllGates(w)
	ended := endAll(w, func(w *sys.World) string { return "retnil" })
	res := probe(w, ts)
	for i, l := range w.Lines {
		sb, _ := json.Marshal(l.Stim)
		ab, _ := json.Marshal(l.Obs.App)
		lb, _ := json.Marshal(l.Obs.Lib)
		nb, _ := json.Marshal(l.Obs.NewW)
		extra := ""
		if os.Getenv("VERIF_WHERE") != "" {
			extra = fmt.Sprint(" where=", l.Where)
		}
		fmt.Printf("%3d %s -> %s %s closed=%v unb=%v %s%s\n", i, sb, ab, lb, l.Obs.Closed, l.Obs.Unb, nb, extra)
	}
	fmt.Printf("ended=%v probe=%q direct=%v\n", ended, res, w.Direct)
	r := &sysRun{Cfg: cfg, Lines: w.Lines, Direct: w.Direct, Origin: "scendev"}
	w.Cleanup()
	rej, val := sysValidate(c, cfg, []*sysRun{r}, 1)
	fmt.Printf("validated=%d rejected=%d\n", val, len(rej))
	for rr, line := range rej {
		f, cl := diagnose(c, rr, line)
		fmt.Printf("rejected at line %d %s: %v %v\n", line, rr.InvViolated, f, cl)
	}
	c.EvalN(1)
}

func init() { All["SCENDEV"] = scenDev }

// DESIGNDEV measures one exhaustive design check of System.tla (development aid for fitting the thorough bounds):
// VERIF_CFG as for SCENDEV (plus thr1/thr2), VERIF_KINDS comma separated, VERIF_MAXRPC, VERIF_MAXSTIMS.
func designDev(c *vf.Ctx) {
	cfg := sys.Config{Threads: []string{"c1"}}
	for _, wd := range strings.Fields(os.Getenv("VERIF_CFG")) {
		switch {
		case wd == "small":
			cfg.Small = true
		case wd == "soft":
			cfg.Soft = true
		case wd == "gateu":
			cfg.GateU = true
		case wd == "manual":
			cfg.Manual = true
		case wd == "thr2":
			cfg.Threads = []string{"c1", "c2"}
		case strings.HasPrefix(wd, "pt:"):
			cfg.Points = append(cfg.Points, wd[3:])
		}
	}
	atoi := func(s string, d int) int {
		var n int
		if _, err := fmt.Sscanf(os.Getenv(s), "%d", &n); err != nil {
			return d
		}
		return n
	}
	kinds := strings.Split(os.Getenv("VERIF_KINDS"), ",")
	name, mod, cf := sysModule("design", cfg, atoi("VERIF_MAXRPC", 1), atoi("VERIF_MAXSTIMS", 5), kinds, cfg.Points, envOr("VERIF_INVS", "TypeOK StreamInvs OneWrite"))
	cf = strings.Replace(cf, "Gen = FALSE", "Gen = TRUE", 1)
	res, err := vf.TLC(vf.TLCOpts{Module: name, Cfg: cf, Extra: map[string]string{name + ".tla": mod}, Workers: 6, Timeout: 20 * time.Minute, HeapMB: 8000})
	if err != nil {
		fmt.Println("tlc:", err)
		return
	}
	if res.Violated != "" {
		fmt.Println(res.TraceText)
	}
	fmt.Printf("DESIGN %s kinds=%v maxRPC=%s maxStims=%s: finished=%v violated=%q generated=%d distinct=%d depth=%d wall=%.1fs\n", cfgString(cfg), kinds,
		os.Getenv("VERIF_MAXRPC"), os.Getenv("VERIF_MAXSTIMS"), res.Finished, res.Violated, res.Generated, res.Distinct, res.Depth, res.Wall.Seconds())
	c.EvalN(1)
}

func init() { All["DESIGNDEV"] = designDev }

func envOr(k, d string) string {
	if v := os.Getenv(k); v != "" {
		return v
	}
	return d
}
