package checks

import (
	"encoding/json"
	"fmt"
	"math/rand"
	"os"
	"strings"

	"verif/sys"
	"verif/vf"
)

// SCENDEV is a development entry point: run one directed scenario (VERIF_SCEN) in a configuration given as a
// word list (VERIF_CFG, e.g. "small soft gateu pt:conn.created pt:conn.meta.written"), then end everything and
// probe; every recorded line is printed, and the run is validated against SystemTrace.tla.
func scenDev(c *vf.Ctx) {
	cfg := sys.Config{Threads: []string{"c1", "c2", "c3"}}
	for _, wd := range strings.Fields(os.Getenv("VERIF_CFG")) {
		switch {
		case wd == "small":
			cfg.Small = true
		case wd == "soft":
			cfg.Soft = true
		case wd == "gateu":
			cfg.GateU = true
		case wd == "manual":
			cfg.Manual = true
		case wd == "thr4":
			cfg.Threads = []string{"c1", "c2", "c3", "c4"}
		case strings.HasPrefix(wd, "pt:"):
			cfg.Points = append(cfg.Points, wd[3:])
		}
	}
	rng := rand.New(rand.NewSource(c.Seed))
	w := sys.New(cfg)
	w.Begin()
	for _, s := range scenarios {
		if s.name == os.Getenv("VERIF_SCEN") {
			if !s.ok(cfg) {
				fmt.Println("scenario not applicable in this configuration")
			}
			s.run(w, rng)
		}
	}
	ts := &tailState{Marks: map[string]int{}, Notes: map[string]string{}}
	relAllGates(w)
	ended := endAll(w, func(w *sys.World) string { return "retnil" })
	res := probe(w, ts)
	for i, l := range w.Lines {
		sb, _ := json.Marshal(l.Stim)
		ab, _ := json.Marshal(l.Obs.App)
		lb, _ := json.Marshal(l.Obs.Lib)
		nb, _ := json.Marshal(l.Obs.NewW)
		extra := ""
		if os.Getenv("VERIF_WHERE") != "" {
			extra = fmt.Sprint(" where=", l.Where)
		}
		fmt.Printf("%3d %s -> %s %s closed=%v unb=%v %s%s\n", i, sb, ab, lb, l.Obs.Closed, l.Obs.Unb, nb, extra)
	}
	fmt.Printf("ended=%v probe=%q\n", ended, res)
	r := &sysRun{Cfg: cfg, Lines: w.Lines, Direct: w.Direct, Origin: "scendev"}
	w.Cleanup()
	rej, val := sysValidate(c, cfg, []*sysRun{r}, 1)
	fmt.Printf("validated=%d rejected=%d\n", val, len(rej))
	for rr, line := range rej {
		f, cl := diagnose(c, rr, line)
		fmt.Printf("rejected at line %d %s: %v %v\n", line, rr.InvViolated, f, cl)
	}
	c.EvalN(1)
}

func init() { All["SCENDEV"] = scenDev }
