package checks

import (
	"bufio"
	"context"
	"encoding/json"
	"fmt"
	"io"
	"os"
	"os/exec"
	"strings"
	"time"

	"storj.io/drpc"
	"storj.io/drpc/drpcconn"
	"storj.io/drpc/drpcserver"
	"storj.io/drpc/drpcstream"
	"storj.io/drpc/drpcwire"

	"verif/dir"
	"verif/vf"
)

func init() {
	All["C13"] = C13
	SpecModules = append(SpecModules, "Hostile")
	Sub["hostile"] = subHostile
}

// C13 — no bytes from a peer and no handler error can crash a receive path.
// The union of the hostile-input enumerations of the other specifications, each with the oracle
// "returns a value or an error, never panics, allocation within the configured limit".
func C13(c *vf.Ctx) {
	c.Assume = append(c.Assume,
		"structured enumeration: TLC enumerates class strings / frame sequences / error-chain shapes of the respective specifications (Codec, Wire, MetaCodec, ErrCodec, Http, Stream, Hostile) and the harness concretises them; coverage-guided fuzzing is a different technique and is not used",
		"library goroutines (manager reader) are exercised in a sub-process so that a panic is caught and attributed")
	// 1. frame and varint parsers on the class strings of Codec.tla (oracle: no panic, ok implies no error)
	cc := codecBase()
	cc.plain["Mode"], cc.plain["MaxLen"] = `"frame"`, "6"
	codecRun(c, cc, "", 0, func(r *codecRec) {
		checkParseFrame(c, "C13", r, true)
		c.Eval(recKey("c13frame", r))
		c.TraceValidated(1)
	})
	cc = codecBase()
	cc.plain["Mode"] = `"struct"`
	cc.defs["CtlBytes"] = "{0,4,255}"
	if !c.Quick() {
		cc.defs["VarLens"], cc.defs["TruncLens"] = "1..10", "0..9"
	}
	codecRun(c, cc, "", 0, func(r *codecRec) {
		checkParseFrame(c, "C13", r, true)
		c.Eval(recKey("c13struct", r))
		c.TraceValidated(1)
	})
	// 2. packet dispatch in the stream: every kind 0..63 with and without the control bit, payload classes, in three stream states
	hostileStream(c)
	// 3. the other specifications' hostile enumerations
	C13Http(c)
	C13Wire(c)
	C13Codecs(c)
	// 4. packet dispatch in the manager: a raw peer emitting arbitrary frame sequences (Hostile.tla), in a sub-process
	hostileManager(c)
	c.Cov["rule"] = "union of hostile-input enumerations: Codec.tla class strings and structure product into ParseFrame/ReadVarint; all 64 kinds x control bit x payload classes x stream states into Stream.HandlePacket (expected result class from StreamCore.tla); Wire.tla hostile frame sequences x chunkings into the Reader with its allocation bound; MetaCodec/ErrCodec class strings into the metadata and error decoders; Http.tla header/body/error-chain classes into the gateway; Hostile.tla frame sequences (exhaustive up to 2 frames, simulated beyond) into a real client and a real server endpoint run in a sub-process. Oracle everywhere: value or error, no panic, allocation within the limit."
	c.Cov["exhaustive"] = false
}

// hostileStream feeds every packet kind to a real Stream in three states and compares with the class StreamCore.tla demands.
func hostileStream(c *vf.Ctx) {
	type state struct {
		name string
		prep func(s *drpcstream.Stream)
	}
	states := []state{
		{"open", func(s *drpcstream.Stream) {}},
		{"terminated", func(s *drpcstream.Stream) { s.Cancel(context.Canceled) }},
		{"recv-closed", func(s *drpcstream.Stream) {
			_ = s.HandlePacket(drpcwire.Packet{ID: drpcwire.ID{Stream: 1, Message: 1}, Kind: drpcwire.KindCloseSend})
		}},
	}
	payloads := [][]byte{nil, {1}, make([]byte, 7), make([]byte, 8), append(make([]byte, 8), 'x'), make([]byte, 300)}
	n := 0
	for _, st := range states {
		for kind := 0; kind < 64; kind++ {
			for _, ctl := range []bool{false, true} {
				for pi, pay := range payloads {
					if kind == int(drpcwire.KindMessage) && st.name == "open" {
						continue // a message parks in the packet buffer until it is received (covered by C03)
					}
					sink := dir.NewGatedSink("s")
					sink.AutoW = true
					s := drpcstream.New(context.Background(), 1, drpcwire.NewWriter(sink, 0))
					st.prep(s)
					var err error
					p := guard(func() {
						err = s.HandlePacket(drpcwire.Packet{Data: pay, ID: drpcwire.ID{Stream: 1, Message: 2}, Kind: drpcwire.Kind(kind), Control: ctl})
					})
					n++
					c.Eval(fmt.Sprintf("hp:%s:%d:%v:%d", st.name, kind, ctl, pi))
					if p != nil {
						c.Violation(fmt.Sprintf("Stream.HandlePacket panics (kind %d control %v)", kind, ctl), map[string]any{"state": st.name, "payload_len": len(pay), "panic": fmt.Sprint(p)})
						continue
					}
					// what StreamCore.tla demands
					want := "nil"
					if st.name != "terminated" {
						switch {
						case kind == 1:
							want = "protoInvoke"
						case kind >= 2 && kind <= 6:
							want = "nil"
						case ctl:
							want = "nil"
						default:
							want = "internalKind"
						}
					}
					if got := streamErrClass(err); got != want {
						c.Violation(fmt.Sprintf("Stream.HandlePacket(kind class %s, control %v) returned %s, StreamCore.tla demands %s", kindClass13(kind), ctl, got, want),
							map[string]any{"state": st.name, "kind": kind})
					}
					// an unknown kind with the control bit must leave the stream as it was
					if st.name == "open" && (kind == 0 || kind > 7) && ctl && (s.IsTerminated() || s.IsFinished()) {
						c.Violation("unknown control packet disturbed the stream", map[string]any{"kind": kind})
					}
				}
			}
		}
	}
	c.Cov["stream_dispatch_cases"] = n
}

func kindClass13(k int) string {
	if k >= 1 && k <= 7 {
		return dir.KindName(k)
	}
	return "unknown"
}

type hostileFrame struct {
	Kind int    `json:"kind"`
	Ctl  bool   `json:"ctl"`
	Done bool   `json:"done"`
	Sid  int    `json:"sid"`
	Mid  int    `json:"mid"`
	Pay  string `json:"pay"`
}

func hostileBytes(fs []hostileFrame) []byte {
	var out []byte
	for _, f := range fs {
		var pay []byte
		switch f.Pay {
		case "empty":
		case "x":
			pay = []byte("x")
		case "rpc":
			pay = []byte("/svc/Method")
		case "garbage":
			pay = []byte{0x0a, 0xff, 0xff, 0x01, 0x12}
		case "err7":
			pay = make([]byte, 7)
		case "err9":
			pay = append(make([]byte, 8), 'E')
		}
		out = append(out, dir.EncodeFrame(dir.WFrame{Sid: uint64(f.Sid), Mid: uint64(f.Mid), Kind: f.Kind, Done: f.Done, Control: f.Ctl, Data: pay})...)
	}
	return out
}

// hostileManager has TLC enumerate frame sequences and runs them against real endpoints in a sub-process.
func hostileManager(c *vf.Ctx) { hostileManagerWith(c, nil) }

// hostileManagerWith runs the Hostile.tla sequences; onHang (if not nil) is told about every sequence after which an
// endpoint neither finished serving nor could be closed, with the drpc frames its goroutines are parked in.
func hostileManagerWith(c *vf.Ctx, onHang func(frames []hostileFrame, where string)) {
	var seqs [][]hostileFrame
	seen := map[string]bool{}
	collect := func(b []byte) {
		if seen[string(b)] {
			return
		}
		seen[string(b)] = true
		var r struct {
			Frames []hostileFrame `json:"frames"`
		}
		if json.Unmarshal(b, &r) == nil {
			seqs = append(seqs, r.Frames)
		}
	}
	defs := map[string]string{
		"Kinds": "{1, 2, 3, 4, 6, 7, 9}", "Sids": "{0, 1, 2}", "Mids": "{0, 1, 2}", "Payloads": `{"empty", "x", "garbage"}`,
	}
	run := func(maxLen int, sim string, d map[string]string) {
		name, mod, consts := vf.MCModule("Hostile", d, map[string]string{"MaxLen": fmt.Sprint(maxLen)})
		cfg := "SPECIFICATION Spec\n" + consts + "INVARIANT Out\nCHECK_DEADLOCK FALSE\n"
		res, err := vf.TLC(vf.TLCOpts{Module: name, Cfg: cfg, Extra: map[string]string{name + ".tla": mod}, Simulate: sim, Depth: maxLen + 2, Seed: c.Seed,
			Workers: 4, Timeout: 10 * time.Minute, HeapMB: 4000, OnLine: collect})
		if err != nil || !res.Finished {
			c.Inconclusive("Hostile.tla run failed: %v", err)
			return
		}
		c.AddTLC(res)
	}
	run(1, "", map[string]string{"Kinds": "{0, 1, 2, 3, 4, 5, 6, 7, 9, 63}", "Sids": "{0, 1, 2}", "Mids": "{0, 1}", "Payloads": `{"empty", "rpc", "garbage", "err7"}`})
	// Mids 1,2: a second packet on the same stream (invoke on an existing stream, unknown kind after the invoke)
	if c.Quick() {
		run(2, "", map[string]string{"Kinds": "{1, 2, 9}", "Sids": "{1, 2}", "Mids": "{1, 2}", "Payloads": `{"x"}`})
		run(2, "", map[string]string{"Kinds": "{1, 4, 7}", "Sids": "{1, 2}", "Mids": "{1}", "Payloads": `{"x"}`})
	} else {
		run(2, "", map[string]string{"Kinds": "{1, 2, 4, 7, 9}", "Sids": "{1, 2}", "Mids": "{1, 2}", "Payloads": `{"x"}`})
	}
	nsim := 30
	if !c.Quick() {
		nsim = 600
	}
	run(6, fmt.Sprintf("num=%d", nsim), defs)
	if len(seqs) == 0 {
		c.Inconclusive("no hostile sequences generated")
		return
	}
	// hand the sequences to a sub-process; it reports progress line by line
	f, err := os.CreateTemp("", "verif-hostile-*.json")
	if err != nil {
		c.Inconclusive("tmp: %v", err)
		return
	}
	defer os.Remove(f.Name())
	_ = json.NewEncoder(f).Encode(seqs)
	f.Close()
	self, _ := os.Executable()
	start := 0
	crashes := 0
	hangs := 0
	for start < len(seqs) && crashes < 5 && hangs < 6 {
		cmd := exec.Command(self, "sub", "hostile", f.Name(), fmt.Sprint(start))
		out, _ := cmd.StdoutPipe()
		var stderr strings.Builder
		cmd.Stderr = &stderr
		if err := cmd.Start(); err != nil {
			c.Inconclusive("sub-process: %v", err)
			return
		}
		last := start - 1
		sc := bufio.NewScanner(out)
		for sc.Scan() {
			var i int
			var what string
			if n, _ := fmt.Sscanf(sc.Text(), "case %d %s", &i, &what); n == 2 {
				last = i
				c.Eval(fmt.Sprintf("hostile:%d", i))
				c.TraceValidated(1)
				if strings.HasPrefix(what, "hang") {
					where := strings.TrimPrefix(sc.Text(), fmt.Sprintf("case %d hang", i))
					hangs++
					if onHang != nil {
						onHang(seqs[i], strings.TrimSpace(where))
						if hangs >= 6 {
							_ = cmd.Process.Kill()
						}
					} else {
						c.Warn("hostile sequence %d: endpoint neither served nor closed within the bound (not a C13 verdict) %s", i, where)
					}
				}
			}
		}
		werr := cmd.Wait()
		if werr == nil {
			break
		}
		// the sub-process died while running case last+1
		bad := last + 1
		if bad >= len(seqs) {
			break
		}
		crashes++
		msg := stderr.String()
		if i := strings.Index(msg, "panic:"); i >= 0 {
			msg = msg[i:]
		}
		first := strings.SplitN(msg, "\n", 2)[0]
		c.Violation("library goroutine panics on peer bytes: "+trunc(first, 120), map[string]any{"frames": seqs[bad], "bytes": hostileBytes(seqs[bad]), "stderr": trunc(msg, 2000)})
		start = bad + 1
	}
	c.Cov["hostile_sequences"] = len(seqs)
	if len(seqs) > 3 {
		c.Sample(map[string]any{"hostile_frames": seqs[len(seqs)/2]})
	}
}

type nopHandler struct{}

func (nopHandler) HandleRPC(stream drpc.Stream, rpc string) error {
	var m dir.Msg
	for {
		if err := stream.MsgRecv(&m, &dir.GateEnc{}); err != nil {
			return nil
		}
	}
}

// subHostile runs hostile sequences against a real server endpoint and a real client endpoint.
func subHostile(args []string) int {
	b, err := os.ReadFile(args[0])
	if err != nil {
		return 2
	}
	var seqs [][]hostileFrame
	if json.Unmarshal(b, &seqs) != nil {
		return 2
	}
	start := 0
	fmt.Sscan(args[1], &start)
	for i := start; i < len(seqs); i++ {
		raw := hostileBytes(seqs[i])
		status := "ok"
		// server endpoint
		{
			sp := dir.NewGatedSink("srv")
			sp.AutoW, sp.AutoR = true, true
			srv := drpcserver.New(nopHandler{})
			done := make(chan struct{})
			go func() { _ = srv.ServeOne(context.Background(), sp); close(done) }()
			sp.Push(raw)
			sp.PeerEOF()
			select {
			case <-done:
			case <-time.After(1500 * time.Millisecond):
				if w := stableParked(); w != "" {
					status = "hang server:ServeOne does not return after the peer closed [" + w + "]"
				}
				sp.Fail()
				select {
				case <-done:
				case <-time.After(2 * time.Second):
				}
			}
		}
		// client endpoint with one call in flight
		{
			cp := dir.NewGatedSink("cli")
			cp.AutoW, cp.AutoR = true, true
			conn := drpcconn.New(cp)
			res := make(chan error, 1)
			go func() {
				var out dir.Msg
				res <- conn.Invoke(context.Background(), "/svc/M", &dir.GateEnc{}, &dir.Msg{Data: []byte("q")}, &out)
			}()
			cp.Push(raw)
			cp.PeerEOF()
			select {
			case <-res:
				// whatever the peer did, the connection is either usable or says why not: a further call returns (an error
				// or a reply), it does not crash
				res2 := make(chan error, 1)
				go func() {
					var out dir.Msg
					res2 <- conn.Invoke(context.Background(), "/svc/M2", &dir.GateEnc{}, &dir.Msg{Data: []byte("q")}, &out)
				}()
				select {
				case <-res2:
				case <-time.After(200 * time.Millisecond):
				}
			case <-time.After(200 * time.Millisecond):
				// a peer may legitimately leave the call waiting (e.g. it never answers); what matters is that Close works
			}
			cdone := make(chan struct{})
			go func() { _ = conn.Close(); close(cdone) }()
			select {
			case <-cdone:
			case <-time.After(5 * time.Second):
				if w := stableParked(); w != "" {
					status = "hang client:Conn.Close does not return [" + w + "]"
				}
			}
		}
		fmt.Printf("case %d %s\n", i, status)
	}
	return 0
}

// stableParked returns the drpc frames goroutines are parked in if two censuses 300 ms apart agree and nothing
// with a drpc frame is runnable; "" otherwise (slow, not hung).
func stableParked() string {
	snap := func() (string, bool) {
		var w []string
		for _, g := range vf.Census() {
			fr := g.Innermost("storj.io/drpc/")
			if fr == "" {
				continue
			}
			if !g.Blocked() {
				return "", false
			}
			w = append(w, fr[strings.LastIndex(fr, "/")+1:])
		}
		sortStrings(w)
		return strings.Join(w, " "), true
	}
	a, ok := snap()
	if !ok || a == "" {
		return ""
	}
	time.Sleep(300 * time.Millisecond)
	b, ok := snap()
	if !ok || a != b {
		return ""
	}
	return a
}

var _ = io.EOF
