package checks

import (
	"bufio"
	"bytes"
	"encoding/json"
	"fmt"
	"hash/fnv"
	"io"
	"os"
	"os/exec"
	"sort"
	"strings"
	"sync"
	"sync/atomic"
	"time"

	"verif/vf"
)

// ---- the pool of replay sub-processes ------------------------------------------------------

type c15Worker struct {
	cmd      *exec.Cmd
	inc      io.WriteCloser
	q        chan []byte // lines for the worker's stdin; written by its own goroutine so that nobody blocks holding a lock
	mu       sync.Mutex
	inflight map[int]bool
	current  int
	lastMove time.Time
	stderr   bytes.Buffer
	done     chan struct{} // the process has exited and its output has been read
	dead     atomic.Bool
	killed   atomic.Bool // by the watchdog
}

// write feeds the worker's stdin from its queue.
func (w *c15Worker) write() {
	bw := bufio.NewWriterSize(w.inc, 1<<16)
	for msg := range w.q {
		if w.dead.Load() {
			continue
		}
		if _, err := bw.Write(msg); err != nil {
			w.dead.Store(true)
			continue
		}
		if len(w.q) == 0 {
			if err := bw.Flush(); err != nil {
				w.dead.Store(true)
			}
		}
	}
	_ = bw.Flush()
	_ = w.inc.Close()
}

type c15Farm struct {
	c       *vf.Ctx
	workers []*c15Worker
	mu      sync.Mutex
	next    int
	raw     map[int][]byte // behaviours in flight
	tag     map[int]string
	seen    map[uint64]bool
	// aggregation
	replayed   int64
	steps      int64
	diverged   int64
	probe      chan c15Variant
	dropped    int64
	stopped    bool
	divSamples []string
	problems   map[string]int
	actions    map[string]int64
	held       map[string]int64 // steps after which an operation is parked in user code with Pool.mu held, by action and method
	routes     map[string]int64
	anoms      map[string]int64
	sigCount   map[string]int
	sigBest    map[string]map[string]any
	sigLen     map[string]int
	byTag      map[string]int64
	sampled    map[string]bool
}

func newC15Farm(c *vf.Ctx, n int) (*c15Farm, error) {
	f := &c15Farm{c: c, probe: make(chan c15Variant, 1), raw: map[int][]byte{}, tag: map[int]string{}, seen: map[uint64]bool{}, problems: map[string]int{},
		actions: map[string]int64{}, held: map[string]int64{}, routes: map[string]int64{}, anoms: map[string]int64{},
		sigCount: map[string]int{}, sigBest: map[string]map[string]any{}, sigLen: map[string]int{}, byTag: map[string]int64{}, sampled: map[string]bool{}}
	for i := 0; i < n; i++ {
		w := &c15Worker{inflight: map[int]bool{}, done: make(chan struct{}), lastMove: time.Now(), current: -1, q: make(chan []byte, 256)}
		w.cmd = exec.Command(os.Args[0], "sub", "c15replay")
		w.cmd.Env = append(os.Environ(), "GOMAXPROCS=2")
		inc, err := w.cmd.StdinPipe()
		if err != nil {
			return nil, err
		}
		w.inc = inc
		out, err := w.cmd.StdoutPipe()
		if err != nil {
			return nil, err
		}
		w.cmd.Stderr = &w.stderr
		if err := w.cmd.Start(); err != nil {
			return nil, err
		}
		f.workers = append(f.workers, w)
		go f.read(w, out)
		go w.write()
	}
	go f.watchdog()
	return f, nil
}

func (f *c15Farm) read(w *c15Worker, out io.Reader) {
	defer close(w.done)
	rd := bufio.NewReaderSize(out, 1<<20)
	for {
		line, err := rd.ReadBytes('\n')
		if bytes.HasPrefix(line, []byte("@@start ")) {
			var i int
			fmt.Sscanf(string(line), "@@start %d", &i)
			w.mu.Lock()
			w.current = i
			w.lastMove = time.Now()
			w.mu.Unlock()
		} else if bytes.HasPrefix(line, []byte("@@")) {
			var r c15Result
			if jerr := json.Unmarshal(bytes.TrimSpace(line[2:]), &r); jerr == nil && r.Probe != nil {
				select {
				case f.probe <- *r.Probe:
				default:
				}
			} else if jerr == nil {
				w.mu.Lock()
				delete(w.inflight, r.I)
				w.current = -1
				w.lastMove = time.Now()
				w.mu.Unlock()
				f.result(&r)
			}
		}
		if err != nil {
			break
		}
	}
	_ = w.cmd.Wait()
}

// submit hands one behaviour (raw JSON record of Pool.tla) to a worker; duplicates are dropped.
func (f *c15Farm) submit(tag string, rec []byte) {
	h := fnv.New64a()
	h.Write(rec)
	key := h.Sum64()
	f.mu.Lock()
	if f.seen[key] {
		f.mu.Unlock()
		return
	}
	f.seen[key] = true
	i := f.next
	f.next++
	cp := append([]byte(nil), rec...)
	f.raw[i] = cp
	f.tag[i] = tag
	f.mu.Unlock()
	w := f.workers[i%len(f.workers)]
	if w.dead.Load() {
		f.mu.Lock()
		f.dropped++
		f.mu.Unlock()
		return
	}
	msg := make([]byte, 0, len(cp)+32)
	msg = append(msg, fmt.Sprintf(`{"i":%d,"b":`, i)...)
	msg = append(msg, cp...)
	msg = append(msg, "}\n"...)
	w.mu.Lock()
	if len(w.inflight) == 0 {
		w.lastMove = time.Now()
	}
	w.inflight[i] = true
	w.mu.Unlock()
	w.q <- msg
}

// watchdog kills a worker that has work and does not move (a replay that hangs in the real pool).
func (f *c15Farm) watchdog() {
	for {
		time.Sleep(time.Second)
		f.mu.Lock()
		stop := f.stopped
		f.mu.Unlock()
		if stop {
			return
		}
		for _, w := range f.workers {
			w.mu.Lock()
			n, idle, cur := len(w.inflight), time.Since(w.lastMove), w.current
			w.mu.Unlock()
			if n > 0 && idle > 90*time.Second && !w.dead.Load() {
				select {
				case <-w.done:
					continue // exited: handled in drain
				default:
				}
				w.dead.Store(true)
				w.killed.Store(true)
				_ = w.cmd.Process.Kill()
				f.mu.Lock()
				raw := f.raw[cur]
				f.mu.Unlock()
				f.c.Inconclusive("replay worker made no progress for 90 s (behaviour %s); killed", c15Short(raw))
			}
		}
	}
}

func (f *c15Farm) result(r *c15Result) {
	f.mu.Lock()
	raw := f.raw[r.I]
	tag := f.tag[r.I]
	delete(f.raw, r.I)
	delete(f.tag, r.I)
	f.mu.Unlock()
	var b c15Beh
	if err := json.Unmarshal(raw, &b); err != nil {
		f.c.Inconclusive("behaviour record: %v", err)
		return
	}
	labels := b.Labels()
	hk := fnv.New64a()
	fmt.Fprintf(hk, "%d/%d/%v/%v:%s", b.Cap, b.Kcap, b.Exp, b.Fine, strings.Join(labels, ";"))
	f.c.Eval(fmt.Sprintf("%016x", hk.Sum64()))
	f.mu.Lock()
	defer f.mu.Unlock()
	f.replayed++
	f.byTag[tag]++
	f.steps += int64(r.Steps)
	for i := range b.Steps {
		f.actions[b.Steps[i].A]++
		if pk := b.Steps[i].Pk; pk.Op != "" {
			f.held[b.Steps[i].A+" while "+pk.Op+" is in "+pk.At+"()"]++
		}
	}
	if n := len(b.Steps); n > 0 {
		for _, rt := range b.Steps[n-1].Rt {
			f.routes[rt]++
		}
		for _, an := range b.Steps[n-1].An {
			f.anoms[an]++
		}
		for _, an := range b.Final {
			f.anoms[an]++
		}
	}
	if r.Problem != "" {
		f.problems[r.Problem]++
	}
	replay := func(v *c15Viol) map[string]any {
		m := map[string]any{"options": map[string]any{"Capacity": b.Cap, "KeyCapacity": b.Kcap, "Expiration": b.Exp},
			"calls": labels, "config": tag}
		if v != nil {
			m["observed_after_step"] = v.Step
			m["detail"] = v.Detail
		}
		return m
	}
	if r.Diverged != "" {
		f.diverged++
		if len(f.divSamples) < 5 {
			f.divSamples = append(f.divSamples, fmt.Sprintf("%v after step %d: %s", labels, r.DivStep, r.Diverged))
		}
	}
	for i := range r.Viol {
		v := &r.Viol[i]
		f.sigCount[v.Sig]++
		if old, ok := f.sigLen[v.Sig]; !ok || len(labels) < old {
			f.sigLen[v.Sig] = len(labels)
			f.sigBest[v.Sig] = replay(v)
		}
	}
	// a few samples: one per (route set) of the final state
	if n := len(b.Steps); n > 6 && len(r.Viol) == 0 {
		k := strings.Join(b.Steps[n-1].Rt, ",")
		if !f.sampled[k] && len(f.sampled) < 6 {
			f.sampled[k] = true
			f.c.Sample(replay(nil))
		}
	}
}

// drain waits until every submitted behaviour has been answered (or its worker is gone), then stops the workers.
func (f *c15Farm) drain() {
	for _, w := range f.workers {
		close(w.q)
	}
	crashReported := false
	for _, w := range f.workers {
		for {
			w.mu.Lock()
			n := len(w.inflight)
			w.mu.Unlock()
			if n == 0 {
				break
			}
			exited := false
			select {
			case <-w.done:
				exited = true
			default:
			}
			if exited {
				// gone with behaviours in flight: killed by the watchdog (reported there) or crashed
				if !w.killed.Load() && !crashReported {
					crashReported = f.crashed(w)
				}
				break
			}
			time.Sleep(5 * time.Millisecond)
		}
		select {
		case <-w.done:
		case <-time.After(10 * time.Second):
			_ = w.cmd.Process.Kill()
		}
	}
	f.mu.Lock()
	f.stopped = true
	dropped := f.dropped
	f.mu.Unlock()
	if dropped > 0 {
		if crashReported {
			f.c.Warn("%d behaviours were not replayed because their worker had crashed", dropped)
		} else {
			f.c.Inconclusive("%d behaviours were not replayed because their worker was gone", dropped)
		}
	}
}

func c15Short(raw []byte) string {
	var b c15Beh
	if json.Unmarshal(raw, &b) != nil {
		return "?"
	}
	return fmt.Sprintf("cap=%d kcap=%d exp=%v %v", b.Cap, b.Kcap, b.Exp, b.Labels())
}

// crashed: the sub-process died with behaviours in flight.
func (f *c15Farm) crashed(w *c15Worker) (violation bool) {
	w.mu.Lock()
	cur := w.current
	w.mu.Unlock()
	f.mu.Lock()
	raw := f.raw[cur]
	tag := f.tag[cur]
	f.mu.Unlock()
	es := w.stderr.String()
	if strings.Contains(es, "panic:") && strings.Contains(es, "drpcpool.") && raw != nil {
		var b c15Beh
		_ = json.Unmarshal(raw, &b)
		first := es
		if i := strings.Index(es, "panic:"); i >= 0 {
			first = es[i:]
		}
		if i := strings.IndexByte(first, '\n'); i >= 0 {
			first = first[:i]
		}
		f.c.Violation("panic in a goroutine of the pool (expiry call-back)", map[string]any{
			"options": map[string]any{"Capacity": b.Cap, "KeyCapacity": b.Kcap, "Expiration": b.Exp},
			"calls":   b.Labels(), "config": tag, "panic": first})
		return true
	}
	if len(es) > 2000 {
		es = es[len(es)-2000:]
	}
	f.c.Inconclusive("replay worker exited with behaviours in flight: %s", es)
	return false
}

// ---- the check -----------------------------------------------------------------------------

type c15Bounds struct {
	nconns, puts, env, takes int
	afterClose               bool
	fine                     bool   // the user code the pool calls under Pool.mu is a step of its own; expiration on, capacities >= 0
	caps, kcaps              string // fine only: the sets of Capacity / KeyCapacity values ("" = {0,1,2})
}

// with a negative capacity nothing is cached and without expiration nothing runs beside the operation:
// the fine grain adds nothing there
func (b c15Bounds) options() (caps, kcaps, exps string) {
	if !b.fine {
		return "{-1,0,1,2}", "{-1,0,1,2}", "{TRUE,FALSE}"
	}
	caps, kcaps = "{0,1,2}", "{0,1,2}"
	if b.caps != "" {
		caps = b.caps
	}
	if b.kcaps != "" {
		kcaps = b.kcaps
	}
	return caps, kcaps, "{TRUE}"
}

func (b c15Bounds) String() string {
	caps, kcaps, exps := b.options()
	g := ""
	if b.fine {
		g = "fine grain "
	}
	return fmt.Sprintf("%skeys=2 conns=%d puts=%d env=%d takes=%d afterClose=%v caps=%s kcaps=%s exp=%s", g, b.nconns, b.puts, b.env, b.takes, b.afterClose, caps, kcaps, exps)
}

const c15Invs = "TypeOK Consistent Parked Safe FixedClean TakeOK NoEndlessLoop"

// emit: "" (no history), "terminal" (one behaviour per terminal state) or "edges" (one per transition)
func c15Cfg(b c15Bounds, v c15Variant, emit string, view bool) (string, string, string) {
	hist := emit != ""
	caps, kcaps, exps := b.options()
	name, mod, consts := vf.MCModule("Pool", map[string]string{"Caps": caps, "KeyCaps": kcaps},
		map[string]string{"Keys": "{1,2}", "NConns": fmt.Sprint(b.nconns), "MaxPuts": fmt.Sprint(b.puts), "MaxEnv": fmt.Sprint(b.env),
			"MaxTakes": fmt.Sprint(b.takes), "Exps": exps, "AfterClose": strings.ToUpper(fmt.Sprint(b.afterClose)),
			"Hist": strings.ToUpper(fmt.Sprint(hist)), "FixUnlink": strings.ToUpper(fmt.Sprint(v.UnlinkOnce)), "FixOwnList": strings.ToUpper(fmt.Sprint(v.OwnList)),
			"Fine": strings.ToUpper(fmt.Sprint(b.fine))})
	cfg := "SPECIFICATION Spec\n" + consts + "INVARIANTS " + c15Invs
	if emit == "terminal" {
		cfg += " EmitTerminal"
	}
	cfg += "\n"
	if emit == "edges" {
		cfg += "ACTION_CONSTRAINT EmitEdge\n"
	}
	if view {
		cfg += "VIEW view\n"
	}
	return name, mod, cfg
}

// C15 - connection pool never exceeds its bounds or mishandles ownership.
func C15(c *vf.Ctx) {
	c.Assume = append(c.Assume,
		"callers only put connections they own (a fresh one, or one Take handed out); Put, Take and Close hold Pool.mu throughout. Coarse grain: one action each. Fine grain: every call of user code under the lock (Unblocked/Closed in Take, Close of an entry in Put's eviction and in Pool.Close) ends a step with the lock held; meanwhile timers fire and call-backs close their connection, and removeEntry, Put, Take and Close wait for the lock. The expiry call-back is three steps: fire, val.Close(), removeEntry under the lock",
		"all timers share one duration, so they fire in put order; fake time (testing/synctest) makes the real timers fire exactly when the director advances the clock",
		"the environment closes, blocks and unblocks connections only between pool calls; what a method of a connection returns is the connection's state when it returns")
	q := c.Quick()

	farm, err := newC15Farm(c, 8)
	if err != nil {
		c.Inconclusive("cannot start the replay workers: %v", err)
		return
	}

	// which variant of the algorithm does the tree implement (the specification has a constant for each)
	var variant c15Variant
	{
		w := farm.workers[0]
		w.q <- []byte("{\"probe\":true}\n")
		select {
		case variant = <-farm.probe:
		case <-time.After(60 * time.Second):
			c.Inconclusive("the probe of the algorithm variant did not answer")
			farm.drain()
			return
		case <-w.done:
			c.Inconclusive("the replay worker died during the probe: %s", w.stderr.String())
			farm.drain()
			return
		}
		c.Cov["algorithm_variant_of_the_tree"] = variant
	}

	var wg sync.WaitGroup
	var covMu sync.Mutex
	runs := []string{}
	run := func(tag string, b c15Bounds, emit string, view bool, sim string, workers int) {
		wg.Add(1)
		go func() {
			defer wg.Done()
			name, mod, cfg := c15Cfg(b, variant, emit, view)
			o := vf.TLCOpts{Module: name, Cfg: cfg, Extra: map[string]string{name + ".tla": mod}, Timeout: 25 * time.Minute, HeapMB: 6000,
				NoDeadlck: true, Workers: workers, Simulate: sim, Seed: c.Seed}
			if sim != "" {
				o.Depth = 60
				if b.fine {
					o.Depth = 100 // an operation is up to one step per entry more
				}
			}
			if b.fine {
				o.HeapMB = 4000
			}
			if emit != "" {
				o.OnLine = func(rec []byte) { farm.submit(tag, rec) }
			}
			res, err := vf.TLC(o)
			if err != nil {
				c.Inconclusive("tlc %s: %v", tag, err)
				return
			}
			if res.Violated != "" {
				// a counter-example of the model alone is not a verdict about the code
				c.Inconclusive("Pool.tla (%s) violates %s: the specification allows a failure of the property outside the recorded routes; no verdict about the code from this alone\n%s", tag, res.Violated, res.TraceText)
				return
			}
			if !res.Finished {
				c.Inconclusive("TLC %s did not finish: %s %s", tag, res.ErrorText, res.Tail)
				return
			}
			c.AddTLC(res)
			covMu.Lock()
			runs = append(runs, fmt.Sprintf("%s [%s] sim=%q: generated=%d distinct=%d depth=%d records=%d wall=%.1fs", tag, b, sim, res.Generated, res.Distinct, res.Depth, res.NRecords, res.Wall.Seconds()))
			covMu.Unlock()
		}()
	}

	// A. exhaustive design check (all 32 option settings in one run): invariants only
	// B. behaviours: every transition of the graph (smaller bounds), each as a shortest behaviour into
	//    its source state plus the step, and a seeded simulation sample of larger bounds
	// C. the same with the pool used after Pool.Close (separate configuration)
	if q {
		run("design", c15Bounds{3, 3, 1, 1, false, false, "", ""}, "", true, "", 6)
		run("transitions", c15Bounds{3, 3, 0, 1, false, false, "", ""}, "edges", true, "", 4)
		run("simulation", c15Bounds{3, 4, 2, 2, false, false, "", ""}, "terminal", false, "num=1500", 2)
		run("after-close", c15Bounds{3, 3, 0, 0, true, false, "", ""}, "edges", true, "", 3)
		run("fine-design", c15Bounds{3, 3, 1, 1, false, true, "", ""}, "", true, "", 3)
		run("fine-transitions", c15Bounds{3, 3, 0, 1, false, true, "{0,2}", "{0,1}"}, "edges", true, "", 3)
	} else {
		run("design", c15Bounds{4, 4, 1, 1, false, false, "", ""}, "", true, "", 9)
		run("simulation", c15Bounds{4, 5, 2, 3, false, false, "", ""}, "terminal", false, "num=40000", 2)
		run("transitions", c15Bounds{3, 3, 1, 1, false, false, "", ""}, "edges", true, "", 3)
		run("after-close", c15Bounds{3, 3, 0, 1, true, false, "", ""}, "edges", true, "", 2)
		run("after-close-terminal", c15Bounds{4, 4, 0, 0, true, false, "", ""}, "terminal", true, "", 2)
		run("fine-design", c15Bounds{3, 3, 1, 2, false, true, "", ""}, "", true, "", 3)
		run("fine-design-4", c15Bounds{4, 4, 0, 1, false, true, "", ""}, "", true, "", 3)
		run("fine-transitions", c15Bounds{3, 3, 0, 1, false, true, "", ""}, "edges", true, "", 2)
		run("fine-after-close", c15Bounds{3, 3, 0, 0, true, true, "", ""}, "edges", true, "", 2)
		run("fine-simulation", c15Bounds{4, 5, 2, 3, false, true, "", ""}, "terminal", false, "num=20000", 2)
	}
	wg.Wait()
	farm.drain()

	// verdicts: one per signature, the shortest behaviour as replay
	sigs := make([]string, 0, len(farm.sigCount))
	for s := range farm.sigCount {
		sigs = append(sigs, s)
	}
	sort.Strings(sigs)
	for _, s := range sigs {
		r := farm.sigBest[s]
		r["behaviours_with_this_signature"] = farm.sigCount[s]
		c.Violation(s, r)
	}
	for p, n := range farm.problems {
		c.Inconclusive("%d behaviours could not be imposed on the real pool: %s", n, p)
	}
	if farm.replayed == 0 {
		c.Inconclusive("no behaviour was replayed")
	}
	if farm.diverged > 0 {
		c.Warn("%d behaviours left the specification (first observable difference; judged by the property monitors from there on), e.g. %v", farm.diverged, farm.divSamples)
	}
	sort.Strings(runs)
	c.TraceValidated(farm.replayed)
	c.Cov["tlc_runs"] = runs
	c.Cov["behaviours_replayed"] = farm.replayed
	c.Cov["behaviours_by_run"] = farm.byTag
	c.Cov["steps_replayed_and_compared"] = farm.steps
	c.Cov["behaviours_that_left_the_specification"] = farm.diverged
	c.Cov["actions_replayed"] = farm.actions
	c.Cov["steps_replayed_with_Pool_mu_held"] = farm.held
	c.Cov["behaviours_by_route_in_final_state"] = farm.routes
	c.Cov["behaviours_by_anomaly_predicted_by_the_specification"] = farm.anoms
	c.Cov["signatures"] = farm.sigCount
	c.Cov["rule"] = "Pool.tla models Put/Take/Close and the three steps of the expiry call-back over the pointer structure of the two intrusive lists and their count fields, at two grains that share one transcription of the code (functions that run an operation from one call of user code under Pool.mu to the next): coarse - an operation is one action - and fine - the operation stops, with the lock held, in every ent.val.Unblocked()/Closed() of Take and every ent.val.Close() of Put's eviction and Pool.Close; while it is stopped timers fire and call-backs close, and the call-back's removeEntry waits for the lock. TLC checks TypeOK, Consistent (lists and counts agree between critical sections unless a recorded route was taken), Parked (what an operation hands to user code is linked / its timer stopped), Safe (no statement of the property fails unless a recorded route was taken), TakeOK and NoEndlessLoop exhaustively: coarse over all 32 option settings (Capacity, KeyCapacity in {-1,0,1,2}, expiration on/off), fine over Capacity, KeyCapacity in {0,1,2} with expiration on. Every transition of the state graph (as a shortest behaviour into its source state plus the step; smaller bounds) at both grains, a seeded simulation sample of maximal behaviours of larger bounds, and every transition of a configuration that uses the pool after Pool.Close are replayed on a real drpcpool.Pool in a testing/synctest bubble. A pool method runs on a goroutine of its own; in a fine-grained behaviour the fake connection parks it in every method the pool calls under its mutex, the director lets the clock reach exactly the deadline of a timer (it wakes at that instant; a goroutine waiting for a sync.Mutex is not durably blocked, so it neither sleeps past the deadline nor calls synctest.Wait while the lock is held) and finds the call-back at the gate of the fake Close or, by a goroutine census, waiting for Pool.mu. After every step the Close calls per connection, the parked call-backs, where the operation is parked (method, connection), and - between critical sections - count fields, walked list lengths, key presence, Take result and panics are compared with the specification, and the property's monitors (bounds on walked lengths, Take result open/unblocked/not expiring/handed out once, not closed while handed out, finally - after every operation and call-back has run to completion - handed out or closed) run on the real observations. At the end of every behaviour time is advanced to compare which timers are still pending; a behaviour on which the real pool leaves the specification is continued with the monitors only and ends with a direct probe of the bounds (fresh puts under every key). A behaviour is distinct by (options, grain, call sequence)."
	c.Cov["exhaustive"] = false
}

func init() {
	All["C15"] = C15
	SpecModules = append(SpecModules, "Pool")
}
