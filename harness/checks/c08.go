package checks

import (
	"bytes"
	"encoding/json"
	"fmt"
	"math/rand"
	"time"

	"storj.io/drpc/drpcwire"

	"verif/vf"
)

// codecRec is one oracle record printed by Codec.tla.
type codecRec struct {
	In []int `json:"in"`
	R  struct {
		Res     string `json:"res"`
		Kind    int    `json:"kind"`
		Done    bool   `json:"done"`
		Control bool   `json:"control"`
		Sid     []int  `json:"sid"`
		Mid     []int  `json:"mid"`
		Val     []int  `json:"val"`
		Plen    int    `json:"plen"`
		Poff    int    `json:"poff"`
		Rem     int    `json:"rem"`
	} `json:"r"`
	Frm json.RawMessage `json:"frm"`
}

func digitsToU64(d []int) uint64 {
	var v uint64
	for i, x := range d {
		v |= uint64(x) << (7 * uint(i)) // shift 63 for the 10th group drops all but bit 0
	}
	return v
}

func intsToBytes(in []int) []byte {
	b := make([]byte, len(in))
	for i, x := range in {
		b[i] = byte(x)
	}
	return b
}

func sameSlice(a, b []byte) bool {
	if len(a) != len(b) {
		return false
	}
	if len(a) == 0 {
		return true
	}
	return &a[0] == &b[0]
}

type codecConsts struct {
	defs  map[string]string
	plain map[string]string
}

func codecBase() codecConsts {
	return codecConsts{
		defs: map[string]string{
			"CtlBytes":   "{0,1,2,3,4,5,14,15,16,126,127,128,131,255}",
			"Bytes":      "{0,1,127,128,129,255}",
			"VarLens":    "{1,2,9,10}",
			"TruncLens":  "{0,1,9}",
			"EncKinds":   "{0,1,2,7,63}",
			"EncIds":     "{<<0>>,<<1>>,<<127>>,<<0,1>>,<<127,127>>,<<0,0,1>>,<<127,127,127,127,127,127,127,127,127,1>>,<<0,0,0,0,0,0,0,0,0,1>>,<<127,127,127,127,127,127,127,127,127>>}",
			"EncLens":    "{0,1,127,128,130}",
			"SplitCases": "{<<0,0>>}",
		},
		plain: map[string]string{"Mode": `"frame"`, "MaxLen": "5"},
	}
}

func (cc codecConsts) cfg(invs string) (string, string, string) {
	name, mod, consts := vf.MCModule("Codec", cc.defs, cc.plain)
	cfg := "SPECIFICATION Spec\n" + consts + "INVARIANTS " + invs + "\nPROPERTY Monotone\nCHECK_DEADLOCK FALSE\n"
	return name, mod, cfg
}

const codecInvs = "TypeOK Deterministic NeedMoreIsPrefix MinFrame RoundTrip SplitOK Emit"

// callParse runs f under recover.
func guard(f func()) (panicked any) {
	defer func() { panicked = recover() }()
	f()
	return nil
}

// checkParseFrame compares the real ParseFrame with the demanded answer.
func checkParseFrame(c *vf.Ctx, prop string, r *codecRec, onlyPanic bool) {
	buf := intsToBytes(r.In)
	var rem []byte
	var fr drpcwire.Frame
	var ok bool
	var err error
	if p := guard(func() { rem, fr, ok, err = drpcwire.ParseFrame(buf) }); p != nil {
		c.Violation(fmt.Sprintf("ParseFrame panic on class %s", r.R.Res), map[string]any{"input": r.In, "panic": fmt.Sprint(p)})
		return
	}
	if onlyPanic {
		if ok && err != nil {
			c.Violation("ParseFrame ok with error", map[string]any{"input": r.In})
		}
		return
	}
	bad := func(what string) {
		c.Violation("ParseFrame "+r.R.Res+": "+what, map[string]any{"input": r.In, "expected": r.R, "got": map[string]any{
			"ok": ok, "err": fmt.Sprint(err), "kind": fr.Kind, "done": fr.Done, "control": fr.Control, "sid": fr.ID.Stream, "mid": fr.ID.Message, "dlen": len(fr.Data), "remlen": len(rem)}})
	}
	switch r.R.Res {
	case "ok":
		switch {
		case !ok || err != nil:
			bad("frame not returned")
		case int(fr.Kind) != r.R.Kind || fr.Done != r.R.Done || fr.Control != r.R.Control:
			bad("control byte fields differ")
		case fr.ID.Stream != digitsToU64(r.R.Sid) || fr.ID.Message != digitsToU64(r.R.Mid):
			bad("ids differ")
		case len(fr.Data) != r.R.Plen || !bytes.Equal(fr.Data, buf[r.R.Poff:r.R.Poff+r.R.Plen]):
			bad("payload differs")
		case len(rem) != r.R.Rem || !bytes.Equal(rem, buf[len(buf)-r.R.Rem:]):
			bad("remainder differs")
		case r.R.Rem > 0 && !sameSlice(rem, buf[len(buf)-r.R.Rem:]):
			bad("remainder is not the tail of the input")
		}
	case "more":
		switch {
		case ok || err != nil:
			bad("expected need-more")
		case !sameSlice(rem, buf):
			bad("remainder must be the whole input on need-more")
		}
	case "err":
		switch {
		case ok || err == nil:
			bad("expected an error")
		case !sameSlice(rem, buf):
			bad("remainder must be the whole input on error")
		}
	}
}

func checkReadVarint(c *vf.Ctx, r *codecRec) {
	buf := intsToBytes(r.In)
	var rem []byte
	var out uint64
	var ok bool
	var err error
	if p := guard(func() { rem, out, ok, err = drpcwire.ReadVarint(buf) }); p != nil {
		c.Violation("ReadVarint panic", map[string]any{"input": r.In, "panic": fmt.Sprint(p)})
		return
	}
	bad := func(what string) {
		c.Violation("ReadVarint "+r.R.Res+": "+what, map[string]any{"input": r.In, "expected": r.R, "got": map[string]any{"ok": ok, "err": fmt.Sprint(err), "out": out, "remlen": len(rem)}})
	}
	switch r.R.Res {
	case "ok":
		switch {
		case !ok || err != nil:
			bad("value not returned")
		case out != digitsToU64(r.R.Val):
			bad("value differs")
		case len(rem) != r.R.Rem || (r.R.Rem > 0 && !sameSlice(rem, buf[len(buf)-r.R.Rem:])):
			bad("remainder differs")
		}
	case "more":
		if ok || err != nil || !sameSlice(rem, buf) {
			bad("expected need-more with the input returned")
		}
	case "err":
		if ok || err == nil {
			bad("expected an error")
		}
	}
}

type encFrm struct {
	Kind    int   `json:"kind"`
	Done    bool  `json:"done"`
	Control bool  `json:"control"`
	Sid     []int `json:"sid"`
	Mid     []int `json:"mid"`
	Plen    int   `json:"plen"`
	Tail    []int `json:"tail"`
}

func checkEncode(c *vf.Ctx, r *codecRec, rng *rand.Rand) {
	var f encFrm
	if err := json.Unmarshal(r.Frm, &f); err != nil {
		c.Inconclusive("bad enc record: %v", err)
		return
	}
	in := intsToBytes(r.In)
	enc := in[:len(in)-len(f.Tail)]
	payload := enc[len(enc)-f.Plen:]
	fr := drpcwire.Frame{Data: payload, ID: drpcwire.ID{Stream: digitsToU64(f.Sid), Message: digitsToU64(f.Mid)},
		Kind: drpcwire.Kind(f.Kind), Done: f.Done, Control: f.Control}
	prefix := make([]byte, rng.Intn(4))
	rng.Read(prefix)
	var out []byte
	if p := guard(func() { out = drpcwire.AppendFrame(append([]byte(nil), prefix...), fr) }); p != nil {
		c.Violation("AppendFrame panic", map[string]any{"frame": f, "panic": fmt.Sprint(p)})
		return
	}
	if !bytes.Equal(out[:len(prefix)], prefix) || !bytes.Equal(out[len(prefix):], enc) {
		c.Violation("AppendFrame bytes differ from the wire description", map[string]any{"frame": f, "expected": r.In[:len(enc)], "got": out[len(prefix):]})
		return
	}
	// decode direction on the real encoder's own output followed by the tail
	whole := append(append([]byte(nil), out[len(prefix):]...), intsToBytes(f.Tail)...)
	rem, got, ok, err := drpcwire.ParseFrame(whole)
	if !ok || err != nil || got.ID != fr.ID || got.Kind != fr.Kind || got.Done != fr.Done || got.Control != fr.Control ||
		!bytes.Equal(got.Data, payload) || !bytes.Equal(rem, intsToBytes(f.Tail)) {
		c.Violation("ParseFrame(AppendFrame(f)) != f", map[string]any{"frame": f, "ok": ok, "err": fmt.Sprint(err)})
	}
	// varints alone
	for _, d := range [][]int{f.Sid, f.Mid} {
		v := digitsToU64(d)
		b := drpcwire.AppendVarint(nil, v)
		want := make([]byte, len(d))
		for i, x := range d {
			want[i] = byte(x)
			if i < len(d)-1 {
				want[i] |= 128
			}
		}
		if !bytes.Equal(b, want) {
			c.Violation("AppendVarint bytes differ from the wire description", map[string]any{"digits": d, "got": b})
		}
	}
}

type splitFrm struct {
	Len    int   `json:"len"`
	N      int   `json:"n"`
	Chunks []int `json:"chunks"`
}

func checkSplit(c *vf.Ctx, r *codecRec) {
	var f splitFrm
	if err := json.Unmarshal(r.Frm, &f); err != nil {
		c.Inconclusive("bad split record: %v", err)
		return
	}
	data := make([]byte, f.Len)
	for i := range data {
		data[i] = byte(i*131 + 7)
	}
	pkt := drpcwire.Packet{Data: data, ID: drpcwire.ID{Stream: 3, Message: 9}, Kind: drpcwire.KindMessage, Control: f.Len%2 == 1}
	var got []drpcwire.Frame
	if p := guard(func() {
		_ = drpcwire.SplitN(pkt, f.N, func(fr drpcwire.Frame) error { got = append(got, fr); return nil })
	}); p != nil {
		c.Violation("SplitN panic", map[string]any{"case": f, "panic": fmt.Sprint(p)})
		return
	}
	bad := func(what string) {
		lens := []int{}
		for _, g := range got {
			lens = append(lens, len(g.Data))
		}
		c.Violation("SplitN: "+what, map[string]any{"case": f, "got_chunk_lengths": lens})
	}
	if len(got) != len(f.Chunks) {
		bad("number of frames differs")
		return
	}
	off := 0
	for i, g := range got {
		if len(g.Data) != f.Chunks[i] || !bytes.Equal(g.Data, data[off:off+f.Chunks[i]]) {
			bad("chunk differs")
			return
		}
		off += f.Chunks[i]
		if g.Done != (i == len(got)-1) || g.ID != pkt.ID || g.Kind != pkt.Kind || g.Control != pkt.Control {
			bad("frame header fields differ")
			return
		}
	}
	pre, suf := drpcwire.SplitData(data, f.N)
	if len(pre) != f.Chunks[0] || len(suf) != f.Len-f.Chunks[0] || !bytes.Equal(append(append([]byte(nil), pre...), suf...), data) {
		bad("SplitData differs")
	}
	// early stop: callback error is returned and stops the iteration
	calls := 0
	stop := fmt.Errorf("stop")
	err := drpcwire.SplitN(pkt, f.N, func(fr drpcwire.Frame) error { calls++; return stop })
	if err != stop || calls != 1 {
		bad("callback error not propagated")
	}
}

// codecRun runs one TLC mode of Codec.tla and hands every record to fn.
func codecRun(c *vf.Ctx, cc codecConsts, sim string, depth int, fn func(r *codecRec)) bool {
	name, mod, cfg := cc.cfg(codecInvs)
	n := 0
	res, err := vf.TLC(vf.TLCOpts{Module: name, Cfg: cfg, Extra: map[string]string{name + ".tla": mod},
		Simulate: sim, Depth: depth, Seed: c.Seed, Timeout: 30 * time.Minute, HeapMB: 6000,
		OnLine: func(b []byte) {
			var r codecRec
			if err := json.Unmarshal(b, &r); err != nil {
				c.Inconclusive("unparsable TLC record: %v", err)
				return
			}
			n++
			fn(&r)
		}})
	if err != nil {
		c.Inconclusive("tlc: %v", err)
		return false
	}
	if !res.Finished {
		c.Inconclusive("TLC run %s mode %s did not finish cleanly: violated=%q err=%q timeout=%v\n%s", name, cc.plain["Mode"], res.Violated, res.ErrorText, res.TimedOut, res.Tail)
		return false
	}
	c.AddTLC(res)
	parts, _ := c.Cov["tlc_runs"].([]string)
	c.Cov["tlc_runs"] = append(parts, fmt.Sprintf("mode=%s sim=%q maxlen=%s: generated=%d distinct=%d records=%d wall=%.1fs", cc.plain["Mode"], sim, cc.plain["MaxLen"], res.Generated, res.Distinct, n, res.Wall.Seconds()))
	if sim != "" { // simulation does not report distinct states; count the emitted states
		c.AddTLC(&vf.TLCResult{Generated: int64(n), Distinct: 0})
	}
	return true
}

func recKey(mode string, r *codecRec) string {
	return fmt.Sprintf("%s:%v", mode, r.In)
}

// C08 — frame codec round-trips; parsing is total and agrees with the wire description.
func C08(c *vf.Ctx) {
	rng := rand.New(rand.NewSource(c.Seed))
	c.Assume = append(c.Assume,
		"the wire description is the one transcribed in spec/Codec.tla from drpcwire/packet.go, varint.go, split.go and README (control byte layout, three varints, payload; varints of at most 10 bytes with arithmetic modulo 2^64)",
		"64-bit values are represented by base-128 digit sequences in the model; exhaustive over the byte-class alphabet and the structure product, sampled (TLC simulation over all 256 byte values, seeded) beyond",
		"on a parse error the position of the returned remainder of ReadVarint is not constrained by the description and is not compared")
	q := c.Quick()

	// 1. exhaustive class strings (frame mode)
	cc := codecBase()
	cc.plain["Mode"], cc.plain["MaxLen"] = `"frame"`, "6"
	if !q {
		cc.plain["MaxLen"] = "8"
	}
	codecRun(c, cc, "", 0, func(r *codecRec) {
		checkParseFrame(c, "C08", r, false)
		c.Eval(recKey("frame", r))
		if r.R.Res == "ok" && len(r.In) > 5 {
			c.Sample(map[string]any{"mode": "frame", "input": r.In, "demanded": r.R})
		}
		c.TraceValidated(1)
	})

	// 2. exhaustive class strings (varint mode)
	cc = codecBase()
	cc.plain["Mode"], cc.plain["MaxLen"] = `"varint"`, "7"
	cc.defs["Bytes"] = "{0,1,2,127,128,129,255}"
	if !q {
		cc.plain["MaxLen"] = "8"
	}
	codecRun(c, cc, "", 0, func(r *codecRec) {
		checkReadVarint(c, r)
		c.Eval(recKey("varint", r))
		c.TraceValidated(1)
	})
	// long varints: only continuation/terminator classes, up to 12 bytes
	cc = codecBase()
	cc.plain["Mode"], cc.plain["MaxLen"] = `"varint"`, "12"
	cc.defs["Bytes"] = "{1,129,255}"
	if q {
		cc.defs["Bytes"] = "{1,255}"
	}
	codecRun(c, cc, "", 0, func(r *codecRec) {
		checkReadVarint(c, r)
		c.Eval(recKey("varint", r))
		if len(r.In) == 10 && r.R.Res == "ok" {
			c.Sample(map[string]any{"mode": "varint", "input": r.In, "demanded": r.R})
		}
		c.TraceValidated(1)
	})

	// 3. structure product
	cc = codecBase()
	cc.plain["Mode"] = `"struct"`
	cc.defs["CtlBytes"] = "{0,3,4,129,255}"
	if !q {
		cc.defs["VarLens"] = "1..10"
		cc.defs["TruncLens"] = "0..9"
		cc.defs["CtlBytes"] = "{0,1,3,4,14,127,129,255}"
	}
	codecRun(c, cc, "", 0, func(r *codecRec) {
		checkParseFrame(c, "C08", r, false)
		c.Eval(recKey("struct", r))
		if r.R.Res == "err" {
			c.Sample(map[string]any{"mode": "struct", "input": r.In, "demanded": r.R})
		}
		c.TraceValidated(1)
	})

	// 4. encode direction
	cc = codecBase()
	cc.plain["Mode"] = `"enc"`
	if !q {
		cc.defs["EncLens"] = "{0,1,2,127,128,129,300}"
		cc.defs["EncKinds"] = "{0,1,2,3,4,5,6,7,8,31,32,62,63}"
	}
	codecRun(c, cc, "", 0, func(r *codecRec) {
		checkEncode(c, r, rng)
		c.Eval(recKey("enc", r))
		c.TraceValidated(1)
	})

	// 5. split
	cc = codecBase()
	cc.plain["Mode"] = `"split"`
	cc.defs["SplitCases"] = "({0,1,2,3,4,5,6,7,8,9} \\X {-2,-1,1,2,3,4,5,8,9,10}) \\cup ({0,1,65535,65536,65537,131071,131072,131073,200000} \\X {0,-1,65536,65537,100000})"
	codecRun(c, cc, "", 0, func(r *codecRec) {
		checkSplit(c, r)
		c.Eval("split:" + string(r.Frm))
		c.TraceValidated(1)
	})

	// 6. seeded sampling over all byte values, answer computed by TLC
	cc = codecBase()
	cc.plain["Mode"], cc.plain["MaxLen"] = `"frame"`, "14"
	cc.defs["Bytes"], cc.defs["CtlBytes"] = "0..255", "0..255"
	num := 160 // TLC's simulator evaluates the invariant on every successor (256 per step), so records = num x depth x 256
	if !q {
		num = 3200
	}
	codecRun(c, cc, fmt.Sprintf("num=%d", num/16+1), 15, func(r *codecRec) {
		checkParseFrame(c, "C08", r, false)
		c.Eval(recKey("frame", r))
		c.TraceValidated(1)
	})
	// biased sampling: low bytes so that frames complete
	cc.defs["Bytes"] = "{0,1,2,3,4,5,128,129,130,255}"
	codecRun(c, cc, fmt.Sprintf("num=%d", num/16+1), 15, func(r *codecRec) {
		checkParseFrame(c, "C08", r, false)
		c.Eval(recKey("frame", r))
		c.TraceValidated(1)
	})

	// 7. identity round trips for sampled 64-bit values (oracle: the property itself)
	vals := []uint64{0, 1, 127, 128, 16383, 16384, 1<<21 - 1, 1 << 21, 1<<28 - 1, 1 << 28, 1<<35 - 1, 1 << 35, 1<<42 - 1, 1 << 42,
		1<<49 - 1, 1 << 49, 1<<56 - 1, 1 << 56, 1<<63 - 1, 1 << 63, 1<<64 - 1}
	n := 20000
	if !q {
		n = 2000000
	}
	for i := 0; i < n; i++ {
		v := rng.Uint64() >> uint(rng.Intn(64))
		vals = append(vals, v)
	}
	for _, v := range vals {
		b := drpcwire.AppendVarint(nil, v)
		tail := []byte{0xff, 0x80}
		rem, out, ok, err := drpcwire.ReadVarint(append(b, tail...))
		if !ok || err != nil || out != v || !bytes.Equal(rem, tail) || len(b) > 10 {
			c.Violation("varint round trip", map[string]any{"value": v, "encoded": b, "out": out, "ok": ok})
			break
		}
		// every proper prefix needs more
		for j := 0; j < len(b); j++ {
			_, _, ok, err := drpcwire.ReadVarint(b[:j])
			if ok || err != nil {
				c.Violation("varint proper prefix not need-more", map[string]any{"value": v, "prefix": b[:j]})
				break
			}
		}
		fr := drpcwire.Frame{ID: drpcwire.ID{Stream: v, Message: ^v}, Kind: drpcwire.Kind(v % 64), Done: v&64 != 0, Control: v&128 != 0, Data: b}
		enc := drpcwire.AppendFrame(nil, fr)
		rem, got, ok, err := drpcwire.ParseFrame(append(enc, tail...))
		if !ok || err != nil || got.ID != fr.ID || got.Kind != fr.Kind || got.Done != fr.Done || got.Control != fr.Control || !bytes.Equal(got.Data, fr.Data) || !bytes.Equal(rem, tail) {
			c.Violation("frame round trip", map[string]any{"value": v})
			break
		}
		c.EvalN(1)
	}
	c.Cov["rule"] = "TLC enumerates Codec.tla: every string over the class alphabet up to MaxLen (frame and varint modes), the structure product of control byte x three varints (well-formed of each encoded length / truncated / over-long) x payload shorter/equal/longer (struct mode), the encode space (enc mode), SplitN cases, and seeded random strings over all 256 byte values (simulation). A case is distinct by its input bytes; all are non-trivial (each is compared field by field with the answer the description demands)."
	c.Cov["exhaustive"] = false
	c.Cov["exhaustive_note"] = "exhaustive over the class alphabet / structure product for the stated bounds; 64-bit values and arbitrary byte strings are sampled"
	c.Cov["sampled_u64_round_trips"] = len(vals)
}

func init() {
	All["C08"] = C08
	SpecModules = append(SpecModules, "Codec")
}
