package checks

import (
	"fmt"
	"hash/fnv"
	"math/rand"
	"os"
	"sync"
	"sync/atomic"

	"verif/vf"
)

// wireEngine replays records of Wire.tla (modes reasm and burst) on the real
// drpcwire.Reader under many read partitions.
type wireEngine struct {
	c         *vf.Ctx
	crashOnly bool // C13: no panic, value or error, allocation bound
	lim       sigLimiter
	runs      int64
	records   int64
	allParts  int64 // records for which every composition was tried
	subWarn   int64
	maxRatio  atomic.Value
	// sampling of the expensive all-compositions plan for sequences of more than two frames
	allEvery  uint64
	pairEvery uint64 // every pair of cuts for one record in pairEvery
	nRandom   int
	light     bool // long streams: fewer partitions
	mu        sync.Mutex
	worstCap  map[int]int // per Max: largest buffer capacity seen
	sampled   int
}

func newWireEngine(c *vf.Ctx, crashOnly bool) *wireEngine {
	return &wireEngine{c: c, crashOnly: crashOnly, allEvery: 1, nRandom: 6, worstCap: map[int]int{}}
}

func memBound(max int) int { return 4*max + 64<<10 }

type failure struct {
	desc   string
	part   partition
	rc     runCfg
	ids    idMap
	out    runOut
	spansB bool
}

// record replays one oracle record.
func (e *wireEngine) record(raw []byte, r *wRec) {
	if r.New == nil {
		e.c.Inconclusive("record without a demanded result: %s", raw)
		return
	}
	atomic.AddInt64(&e.records, 1)
	h := fnv.New64a()
	_, _ = h.Write(raw)
	hv := h.Sum64()
	rng := rand.New(rand.NewSource(e.c.Seed ^ int64(hv)))
	e.c.Eval(recHash(raw))

	opts := []int{r.Max}
	if r.Max == 4<<20 {
		opts = []int{0, r.Max}
	}
	idms := []idMap{idIdentity}
	switch hv % 3 {
	case 1:
		idms = append(idms, idMedium)
	case 2:
		idms = append(idms, idHuge)
	}
	want := r.New
	bound := memBound(r.Max)
	maxPkts := len(r.Frames) + 2

	var fails []failure
	total, passes := 0, 0
	byteOK := true
	byteSeen := false
	var runs int64

	for ii, ids := range idms {
		cc, err := concretise(r, ids)
		if err != nil {
			e.c.Inconclusive("cannot concretise record: %v: %s", err, raw)
			return
		}
		n := len(cc.bytes)
		all := n <= 14 && !cc.endless && ii == 0 && (len(r.Frames) <= 1 || hv%e.allEvery == 0)
		if all {
			atomic.AddInt64(&e.allParts, 1)
		}
		nRandom := e.nRandom
		idx := 0
		plan := func(yield func(p partition) bool) {
			if e.light && n > 0 {
				// long streams: all at once, byte at a time, a few cuts and fixed sizes
				if !yield(partition{[]int{n}, "all-at-once"}) {
					return
				}
				if (n < 1<<20 || hv%4 == 0) && !yield(partition{fixedChunks(n, 1), "byte-at-a-time"}) {
					return
				}
				cuts := interestingCuts(n, cc.ends, rng, 2)
				for k := 0; k < 4 && len(cuts) > 0; k++ {
					if !yield(partition{cutsToChunks(n, cuts[rng.Intn(len(cuts))]), "one-cut"}) {
						return
					}
				}
				for _, k := range []int{4095, 4097, 12288} {
					if k < n && !yield(partition{fixedChunks(n, k), fmt.Sprintf("%d-byte reads", k)}) {
						return
					}
				}
				for k := 0; k < 2; k++ {
					if !yield(partition{randomChunks(n, rng), "random"}) {
						return
					}
				}
				return
			}
			partitionPlan(n, cc.ends, all, e.pairEvery <= 1 || hv%e.pairEvery == 1%e.pairEvery, rng, nRandom, yield)
		}
		plan(func(p partition) bool {
			idx++
			popts := opts
			if e.light && len(opts) > 1 { // long streams: alternate between the option value 0 (default) and the explicit 4 MiB
				popts = opts[idx%len(opts):][:1]
			}
			for _, mo := range popts {
				variants := []runCfg{{chunks: p.chunks, fin: r.Fin, maxOpt: mo, reuse: idx%2 == 0, desc: p.desc}}
				if idx%3 == 0 || p.desc == "all-at-once" || p.desc == "byte-at-a-time" {
					variants = append(variants, runCfg{chunks: p.chunks, fin: r.Fin, finWithData: true, maxOpt: mo, reuse: idx%2 == 1, desc: p.desc + "+err-with-data"})
				}
				if idx%5 == 0 || p.desc == "all-at-once" || p.desc == "byte-at-a-time" || p.desc == "random" {
					z := map[int]int{}
					switch idx % 3 {
					case 0:
						for k := 0; k <= len(p.chunks) && k < 4096; k++ {
							z[k] = 1
						}
					case 1:
						z[0], z[len(p.chunks)-1+0] = 99, 99
					default:
						z[rng.Intn(len(p.chunks)+1)] = 99
						z[rng.Intn(len(p.chunks)+1)] = 1 + rng.Intn(98)
					}
					pre := 0
					if r.Fin != "noprog" { // at most 98: the reader gives up after 100 Read calls without data, the one returning the error included
						pre = []int{0, 1, 98}[idx%3]
					}
					variants = append(variants, runCfg{chunks: p.chunks, zeros: z, fin: r.Fin, finWithData: idx%2 == 0, finPreZeros: pre, maxOpt: mo, reuse: true, desc: p.desc + "+empty-reads"})
				}
				for vi := range variants {
					rc := &variants[vi]
					if cc.endless {
						rc.limit = len(cc.bytes) + bound + 1<<20
						rc.endlessStep = []int{0, 1000, 7, 4096}[(idx+vi)%4]
					}
					o := runNewReader(cc, rc, maxPkts)
					runs++
					total++
					isByte := p.desc == "byte-at-a-time"
					var desc string
					if e.crashOnly {
						if o.panicked != nil {
							desc = "panic"
						} else if len(o.pkts) > len(r.Frames) {
							desc = "more packets than frames"
						}
					} else {
						desc = compareNew(r, cc, want, &o)
					}
					// memory bound
					tailStart := 0
					if len(cc.ends) > 0 {
						tailStart = cc.ends[len(cc.ends)-1]
					}
					switch {
					case desc == "panic":
					case o.maxCap > bound:
						desc = "memory: buffer capacity above 4*Max+64KiB"
					case o.maxReq > bound:
						desc = "memory: read request above 4*Max+64KiB"
					case cc.endless && o.consumed-tailStart > bound:
						desc = "memory: bytes consumed of a frame that can never fit above 4*Max+64KiB"
					}
					e.mu.Lock()
					if o.maxCap > e.worstCap[r.Max] {
						e.worstCap[r.Max] = o.maxCap
					}
					e.mu.Unlock()
					if desc == "" {
						passes++
						if isByte {
							byteSeen = true
						}
						if !e.crashOnly && want.Err == "proto" {
							if _, sub := errClass(o.err); sub != want.Why && atomic.AddInt64(&e.subWarn, 1) <= 5 {
								e.c.Warn("protocol error sub-class differs (class agrees): demanded %s, got %s: %s", want.Why, sub, raw)
							}
						}
						continue
					}
					if isByte {
						byteOK = false
						byteSeen = true
					}
					spans := false
					for _, en := range cc.ends {
						if o.lastStart < en && en < o.lastEnd {
							spans = true
						}
					}
					if len(fails) < 64 {
						o.pkts = nil
						fails = append(fails, failure{desc: desc, part: p, rc: *rc, ids: ids, out: o, spansB: spans})
					} else {
						fails = append(fails, failure{desc: desc, spansB: spans})
					}
				}
			}
			return len(fails) < 4096
		})
	}
	atomic.AddInt64(&e.runs, runs)
	e.c.EvalN(runs)
	e.c.TraceValidated(1)
	if hv%997 == 0 {
		e.mu.Lock()
		if e.sampled < 6 {
			e.sampled++
			e.c.Sample(map[string]any{"record": jsonRaw(raw), "runs": runs})
		}
		e.mu.Unlock()
	}
	if len(fails) == 0 {
		return
	}
	// group by description
	byDesc := map[string][]failure{}
	for _, f := range fails {
		byDesc[f.desc] = append(byDesc[f.desc], f)
	}
	for desc, fs := range byDesc {
		var sig string
		switch {
		case desc == "panic":
			sig = fmt.Sprintf("Reader panics on peer bytes (tail %s)", r.Tail.T)
		case len(desc) > 7 && desc[:7] == "memory:":
			sig = "Reader " + desc
		case e.crashOnly:
			sig = "Reader " + desc
		default:
			scope := "under every read partition"
			if len(fails) < total {
				scope = "partition-dependent"
				if byteSeen && byteOK {
					scope += " (byte-at-a-time delivery agrees)"
				}
				allSpan := true
				for _, f := range fs {
					allSpan = allSpan && f.spansB
				}
				if allSpan {
					scope += ", every failing read spans a frame boundary"
				}
			}
			sig = fmt.Sprintf("reassembly differs from Wire.tla: demanded %s, got %s; %s", wantClassShort(want), desc, scope)
		}
		if !e.lim.ok(sig, 3) {
			continue
		}
		f := fs[0]
		cls, sub := errClass(f.out.err)
		e.c.Violation(sig, map[string]any{
			"record":                 jsonRaw(raw),
			"demanded":               wantClass(want),
			"got_error":              fmt.Sprint(f.out.err),
			"got_error_class":        cls + "/" + sub,
			"got_packets":            len(f.out.pkts),
			"MaximumBufferSize":      f.rc.maxOpt,
			"read_sizes":             clip(f.part.chunks, 64),
			"partition":              f.rc.desc,
			"empty_reads_before":     f.rc.zeros,
			"error_with_last_data":   f.rc.finWithData,
			"id_map":                 f.ids.String(),
			"failing_runs":           len(fs),
			"runs_of_this_record":    total,
			"passing_runs":           passes,
			"reader_buffer_capacity": f.out.maxCap,
			"largest_read_request":   f.out.maxReq,
			"bytes_consumed":         f.out.consumed,
		})
	}
}

type jsonRaw []byte

func (j jsonRaw) MarshalJSON() ([]byte, error) { return j, nil }

func clip(a []int, n int) []int {
	if len(a) > n {
		return a[:n]
	}
	return a
}

func (e *wireEngine) finish(prefix string) {
	c := e.c
	c.Cov[prefix+"records_replayed"] = atomic.LoadInt64(&e.records)
	c.Cov[prefix+"reader_runs"] = atomic.LoadInt64(&e.runs)
	c.Cov[prefix+"records_with_every_composition"] = atomic.LoadInt64(&e.allParts)
	wc := map[string]int{}
	for k, v := range e.worstCap {
		wc[fmt.Sprint(k)] = v
	}
	c.Cov[prefix+"largest_buffer_capacity_by_max"] = wc
	if n := e.lim.counts(); len(n) > 0 {
		c.Cov[prefix+"failure_signatures"] = n
	}
}

// reasmCfg is one TLC configuration of the reasm mode.
type reasmCfg struct {
	label     string
	cfgs      string
	idRels    string
	kindRels  string
	ctls      string
	pays      string
	fins      string
	allEvery  uint64
	pairEvery uint64
	light     bool
	nRandom   int
	workers   int
}

const (
	paysFull  = "{<<0,0>>,<<0,1>>,<<1,0>>,<<1,1>>}"
	paysEdge  = "{<<0,1>>,<<1,0>>,<<1,1>>}"
	idsFull   = `{"ls","lm","eq","hm","hs"}`
	idsWide   = `{"ls","lm","eq","hm","hm2","hs","hs0"}`
	idsNoLs   = `{"lm","eq","hm","hs"}`
	idsUp     = `{"eq","hm","hs"}`
	finsAll   = `{"eof","ioerr","noprog"}`
	kindsBoth = `{"same","diff"}`
)

func reasmPlan(quick bool) []reasmCfg {
	if quick {
		return []reasmCfg{
			{label: "reasm depth<=2 full alphabet Max in {1,2,64}", cfgs: "{<<1,2,1>>,<<2,2,1>>,<<64,2,0>>}", idRels: idsFull, kindRels: kindsBoth, ctls: "BOOLEAN", pays: paysFull, fins: finsAll, allEvery: 64, pairEvery: 8, nRandom: 3},
			{label: "reasm depth 3 reduced alphabet Max=2", cfgs: "{<<2,3,0>>}", idRels: idsUp, kindRels: kindsBoth, ctls: "BOOLEAN", pays: "{<<0,1>>,<<1,1>>}", fins: `{"ioerr"}`, allEvery: 128, pairEvery: 16, nRandom: 2},
			{label: "reasm depth<=2 Max in {4067,4068,4069}", cfgs: "{<<4067,2,1>>,<<4068,2,0>>,<<4069,2,0>>}", idRels: idsNoLs, kindRels: kindsBoth, ctls: "{FALSE}", pays: paysEdge, fins: `{"eof","noprog"}`, allEvery: 1, pairEvery: 16, nRandom: 2},
			{label: "reasm depth<=2 default Max (4 MiB)", cfgs: "{<<4194304,2,0>>}", idRels: `{"eq","hm"}`, kindRels: `{"same"}`, ctls: "{FALSE}", pays: paysEdge, fins: `{"eof"}`, allEvery: 1, light: true, workers: 8},
		}
	}
	return []reasmCfg{
		{label: "reasm depth<=3 full alphabet Max=2", cfgs: "{<<2,3,1>>}", idRels: idsFull, kindRels: kindsBoth, ctls: "BOOLEAN", pays: paysFull, fins: finsAll, allEvery: 512, pairEvery: 64, nRandom: 2},
		{label: "reasm depth<=3 Max=1", cfgs: "{<<1,3,1>>}", idRels: idsNoLs, kindRels: kindsBoth, ctls: "BOOLEAN", pays: paysEdge, fins: finsAll, allEvery: 256, pairEvery: 32, nRandom: 2},
		{label: "reasm depth<=2 wide id alphabet Max in {2,64}", cfgs: "{<<2,2,1>>,<<64,2,1>>}", idRels: idsWide, kindRels: kindsBoth, ctls: "BOOLEAN", pays: "{<<0,0>>,<<0,1>>,<<0,2>>,<<1,-1>>,<<1,0>>,<<1,1>>}", fins: finsAll, allEvery: 8, pairEvery: 4, nRandom: 3},
		{label: "reasm tails after <=2 frames, reduced alphabet, Max in {1,2,64}", cfgs: "{<<1,2,2>>,<<2,2,2>>,<<64,2,2>>}", idRels: idsUp, kindRels: `{"same"}`, ctls: "{FALSE}", pays: "{<<0,1>>}", fins: finsAll, allEvery: 16, pairEvery: 4, nRandom: 3},
		{label: "reasm depth 3 Max=64", cfgs: "{<<64,3,0>>}", idRels: idsNoLs, kindRels: kindsBoth, ctls: "BOOLEAN", pays: paysEdge, fins: finsAll, allEvery: 16, pairEvery: 32, nRandom: 2},
		{label: "reasm depth 4 reduced alphabet Max=2", cfgs: "{<<2,4,0>>}", idRels: idsUp, kindRels: kindsBoth, ctls: "BOOLEAN", pays: "{<<0,1>>}", fins: `{"ioerr"}`, allEvery: 2048, pairEvery: 64, nRandom: 2},
		{label: "reasm depth<=3 Max in {4067,4068,4069}", cfgs: "{<<4067,3,1>>,<<4068,3,0>>,<<4069,3,0>>}", idRels: idsNoLs, kindRels: kindsBoth, ctls: "{FALSE}", pays: paysEdge, fins: finsAll, allEvery: 1, pairEvery: 32, nRandom: 2},
		{label: "reasm depth<=2 Max in {4067,4068,4069} with control", cfgs: "{<<4067,2,1>>,<<4068,2,1>>,<<4069,2,1>>}", idRels: idsFull, kindRels: kindsBoth, ctls: "BOOLEAN", pays: paysFull, fins: finsAll, allEvery: 1, pairEvery: 16, nRandom: 3},
		{label: "reasm depth<=2 default Max (4 MiB)", cfgs: "{<<4194304,2,1>>}", idRels: idsUp, kindRels: `{"same"}`, ctls: "{FALSE}", pays: paysEdge, fins: `{"eof","ioerr"}`, allEvery: 1, light: true, workers: 8},
	}
}

func burstCases(quick bool) string {
	// <<Max, packets, frames per packet, payload length, every n-th packet is control>>
	s := "{<<64,200,1,1,0>>, <<1,300,1,1,0>>, <<2,150,2,1,5>>, <<64,1000,1,0,0>>, <<64,100,2,30,3>>, <<4067,30,1,300,0>>, <<4069,60,2,100,7>>, <<4194304,600,1,60,0>>"
	if !quick {
		s += ", <<1,2000,1,0,0>>, <<2,1500,1,2,0>>, <<64,3000,1,1,9>>, <<64,500,3,20,0>>, <<4067,300,1,4000,0>>, <<4068,300,2,2000,0>>, <<4069,100,1,4069,0>>, <<4194304,3000,1,1000,11>>, <<100000,200,4,20000,0>>"
	}
	return s + "}"
}

// C09 — packet reassembly depends only on the byte stream and is memory-bounded.
func C09(c *vf.Ctx) {
	defer relaxGC()()
	c.Assume = append(c.Assume,
		"the reference reassembly is the one transcribed in spec/Wire.tla from drpcwire/reader.go's documentation and the README (watermark (1,1), message+1 after a done frame, discard on higher id, kind constant, control OR, data > Max rejected)",
		"an incomplete frame is rejected for its size once more than Max+31 pending bytes of it are buffered and never while at most Max+28 are; the band in between is not enumerated (28 is the reader's documented frame overhead, 31 the real maximum header size)",
		"error values are compared by class (drpc.ProtocolError, drpc.InternalError wrapping io.ErrNoProgress, the transport's own error value); the sub-class (overflow / monotonicity / kind change / varint) is reported as a conformance warning only",
		"well-formed frames are encoded with drpcwire.AppendFrame (checked against Codec.tla by C08); headers stay below 29 bytes (canonical varints)",
		"memory bound checked: capacity of the reader's buffers, largest Read request, and bytes consumed of a never-fitting frame, each <= 4*Max+64KiB")
	q := c.Quick()
	e := newWireEngine(c, false)
	// burst family first: long regular sequences, fixed-size and coarse reads
	bwc := wireBase("burst")
	bwc.defs["BurstCases"] = burstCases(q)
	b := newWireEngine(c, false)
	wireRun(c, "burst", bwc, 8, b.burst)
	for _, rc := range reasmPlan(q) {
		wc := wireBase("reasm")
		wc.defs["Cfgs"], wc.defs["IdRels"], wc.defs["KindRels"], wc.defs["Ctls"], wc.defs["Pays"], wc.defs["Fins"] = rc.cfgs, rc.idRels, rc.kindRels, rc.ctls, rc.pays, rc.fins
		e.allEvery, e.pairEvery, e.light = rc.allEvery, rc.pairEvery, rc.light
		if rc.nRandom > 0 {
			e.nRandom = rc.nRandom
		}
		wireRun(c, rc.label, wc, rc.workers, e.record)
		if fastFail(c) {
			e.finish("")
			b.finish("burst_")
			return
		}
	}
	e.finish("")
	b.finish("burst_")
	c.Cov["rule"] = "TLC enumerates Wire.tla (mode reasm): every frame sequence up to the stated depth over the alphabet {id relative to the watermark} x {kind same/different} x done x control x payload {0,1,Max,Max+1}, each optionally ended by a hostile tail (frame cut in the header / in the payload with pending bytes around Max+28..Max+32, 11-byte varint in each field, length field 2^63, a peer that never stops sending) and a final transport condition (EOF, error, 100 empty reads); plus long regular bursts (mode burst). A case is distinct by its record (Max, frames, tail, final condition); every case is executed on the real Reader under all compositions of the byte stream (<= 14 bytes) or all-at-once / byte-at-a-time / every cut / every pair of cuts / fixed sizes / seeded random partitions, with the error delivered with the last data or alone and with runs of empty reads, and compared packet by packet (id, kind, control bit, every data byte) and by error class with the result TLC computed."
	c.Cov["exhaustive"] = false
	c.Cov["exhaustive_note"] = "exhaustive over the frame alphabet up to the stated depth and over all read partitions for streams of at most 14 bytes (sampled 1/allEvery for sequences of three and more frames); longer streams use the structured partition family plus seeded random partitions"
}

// burst replays one record of the burst mode: fixed-size reads of many sizes.
func (e *wireEngine) burst(raw []byte, r *wRec) {
	if r.New == nil {
		e.c.Inconclusive("record without a demanded result")
		return
	}
	atomic.AddInt64(&e.records, 1)
	h := fnv.New64a()
	_, _ = h.Write(raw[:min(len(raw), 4096)])
	rng := rand.New(rand.NewSource(e.c.Seed ^ int64(h.Sum64())))
	key := fmt.Sprintf("burst:%d:%d:%016x", r.Max, len(r.Frames), h.Sum64())
	e.c.Eval(key)
	cc, err := concretise(r, idIdentity)
	if err != nil {
		e.c.Inconclusive("cannot concretise burst: %v", err)
		return
	}
	n := len(cc.bytes)
	want := r.New
	bound := memBound(r.Max)
	opts := []int{r.Max}
	if r.Max == 4<<20 {
		opts = []int{0}
	}
	var parts []partition
	parts = append(parts, partition{[]int{n}, "all-at-once"}, partition{fixedChunks(n, 1), "byte-at-a-time"})
	for _, k := range []int{2, 3, 5, 7, 13, 29, 64, 100, 1000, 4095, 4096, 4097, 12288, 28672} {
		if k < n {
			parts = append(parts, partition{fixedChunks(n, k), fmt.Sprintf("%d-byte reads", k)})
		}
	}
	for k := 0; k < 6; k++ {
		parts = append(parts, partition{randomChunks(n, rng), "random"})
	}
	total, passes := 0, 0
	byteOK := true
	type bf struct {
		desc string
		p    partition
		o    runOut
		mo   int
		span bool
	}
	var fails []bf
	for i, p := range parts {
		for _, mo := range opts {
			rc := runCfg{chunks: p.chunks, fin: "eof", maxOpt: mo, reuse: i%2 == 0, finWithData: i%3 == 0, desc: p.desc}
			o := runNewReader(cc, &rc, len(want.Pkts)+2)
			total++
			desc := compareNew(r, cc, want, &o)
			switch {
			case desc == "panic":
			case o.maxCap > bound:
				desc = "memory: buffer capacity above 4*Max+64KiB"
			case o.maxReq > bound:
				desc = "memory: read request above 4*Max+64KiB"
			}
			e.mu.Lock()
			if o.maxCap > e.worstCap[r.Max] {
				e.worstCap[r.Max] = o.maxCap
			}
			e.mu.Unlock()
			if desc == "" {
				passes++
				continue
			}
			if p.desc == "byte-at-a-time" {
				byteOK = false
			}
			span := false
			for _, en := range cc.ends {
				if o.lastStart < en && en < o.lastEnd {
					span = true
					break
				}
			}
			o.pkts = o.pkts[:0]
			fails = append(fails, bf{desc, p, o, mo, span})
		}
	}
	atomic.AddInt64(&e.runs, int64(total))
	e.c.EvalN(int64(total))
	e.c.TraceValidated(1)
	if len(fails) == 0 {
		return
	}
	byDesc := map[string][]bf{}
	for _, f := range fails {
		byDesc[f.desc] = append(byDesc[f.desc], f)
	}
	for desc, fs := range byDesc {
		var sig string
		switch {
		case desc == "panic":
			sig = "Reader panics on peer bytes (burst)"
		case len(desc) > 7 && desc[:7] == "memory:":
			sig = "Reader " + desc
		default:
			scope := "under every read partition"
			if len(fails) < total {
				scope = "partition-dependent"
				if byteOK {
					scope += " (byte-at-a-time delivery agrees)"
				}
				allSpan := true
				for _, f := range fs {
					allSpan = allSpan && f.span
				}
				if allSpan {
					scope += ", every failing read spans a frame boundary"
				}
			}
			sig = fmt.Sprintf("reassembly differs from Wire.tla: demanded %s, got %s; %s", wantClassShort(want), desc, scope)
		}
		if !e.lim.ok(sig, 3) {
			continue
		}
		f := fs[0]
		var failing []string
		for _, x := range fs {
			failing = append(failing, x.p.desc)
		}
		fr := r.Frames[0]
		e.c.Violation(sig, map[string]any{
			"burst":              map[string]any{"frames": len(r.Frames), "first_frame": fr, "stream_bytes": n},
			"demanded":           wantClass(want),
			"got_error":          fmt.Sprint(f.o.err),
			"MaximumBufferSize":  f.mo,
			"partition":          f.p.desc,
			"read_sizes":         clip(f.p.chunks, 16),
			"failing_partitions": failing,
			"passing_runs":       passes,
			"runs":               total,
		})
	}
}

// fastFail: with VERIF_FAST_FAIL=1 (used when testing the check against mutants) a check
// stops after the first stage that found a violation; the verdict is already decided then.
func fastFail(c *vf.Ctx) bool { return os.Getenv("VERIF_FAST_FAIL") == "1" && c.Violations() > 0 }

func init() {
	All["C09"] = C09
	SpecModules = append(SpecModules, "Wire")
}
