package checks

// Shared machinery of the checks bound to spec/Wire.tla (C09, C18, C13Wire):
// record types of the oracle, the concretiser (abstract frames -> bytes), the
// scripted io.Reader that realises a read partition, and the lifting of what the
// real readers return back to the abstract result type of the specification.

import (
	"encoding/json"
	"errors"
	"fmt"
	"hash/fnv"
	"io"
	"math/rand"
	"os"
	"runtime/debug"
	"sort"
	"strings"
	"sync"
	"time"

	"storj.io/drpc"
	"storj.io/drpc/drpcwire"

	"verif/vf"
)

// relaxGC: every reader run allocates the reader's two 4 KiB buffers while the live heap is
// tiny, so with the default GC percentage most of the time goes into collections. Collect
// only when the heap has grown a lot (bounded by a memory limit); restored on return.
func relaxGC() func() {
	old := debug.SetGCPercent(3000)
	lim := debug.SetMemoryLimit(12 << 30)
	return func() { debug.SetGCPercent(old); debug.SetMemoryLimit(lim) }
}

// ---------------------------------------------------------------------------
// oracle records
// ---------------------------------------------------------------------------

type wFrame struct {
	Sid     int  `json:"sid"`
	Mid     int  `json:"mid"`
	Kind    int  `json:"kind"`
	Len     int  `json:"len"`
	Done    bool `json:"done"`
	Control bool `json:"control"`
}

type wPkt struct {
	Sid     int   `json:"sid"`
	Mid     int   `json:"mid"`
	Kind    int   `json:"kind"`
	Len     int   `json:"len"`
	Control bool  `json:"control"`
	Parts   []int `json:"parts"`
}

type wRes struct {
	Pkts []wPkt `json:"pkts"`
	Err  string `json:"err"` // eof | ioerr | internal | proto
	Why  string `json:"why"`
}

type wTail struct {
	T        string `json:"t"` // none | trunc | longvarint
	Hdr      int    `json:"hdr"`
	Hpresent int    `json:"hpresent"`
	Declared int    `json:"declared"` // -1 = 2^63
	Have     int    `json:"have"`     // -1 = the peer never stops sending
	Field    int    `json:"field"`
}

type wOutcome struct {
	Ret  string `json:"ret"`
	Term bool   `json:"term"`
	Recv string `json:"recv"`
	Send string `json:"send"`
}

type wHK struct {
	Kind    int      `json:"kind"`
	Control bool     `json:"control"`
	Pre     string   `json:"pre"`
	Outcome wOutcome `json:"outcome"`
}

type wMeta struct {
	Md         [][2]string `json:"md"`
	Many       int         `json:"many"`
	OldEncodes bool        `json:"oldEncodes"`
	NewToOld   string      `json:"newToOld"`
	OldToNew   string      `json:"oldToNew"`
}

type wOpWire struct {
	Op   string `json:"op"`
	Wire struct {
		Kind    int    `json:"kind"`
		Control bool   `json:"control"`
		Body    string `json:"body"`
	} `json:"wire"`
}

type wRec struct {
	Mode   string   `json:"mode"`
	Max    int      `json:"max"`
	Frames []wFrame `json:"frames"`
	Tail   wTail    `json:"tail"`
	Fin    string   `json:"fin"`
	New    *wRes    `json:"new"`
	Old    *wRes    `json:"old"`
	HK     *wHK     `json:"hk"`
	Meta   *wMeta   `json:"meta"`
	OpW    *wOpWire `json:"opw"`
}

func recHash(raw []byte) string {
	h := fnv.New64a()
	_, _ = h.Write(raw)
	return fmt.Sprintf("%016x", h.Sum64())
}

// ---------------------------------------------------------------------------
// TLC constants of Wire.tla
// ---------------------------------------------------------------------------

type wireConsts struct {
	defs  map[string]string
	plain map[string]string
}

func wireBase(mode string) wireConsts {
	return wireConsts{
		defs: map[string]string{
			"Cfgs":         "{<<2,2,1>>}",
			"IdRels":       `{"ls","lm","eq","hm","hs"}`,
			"KindRels":     `{"same","diff"}`,
			"Ctls":         "BOOLEAN",
			"Pays":         "{<<0,0>>,<<0,1>>,<<1,0>>,<<1,1>>}",
			"Fins":         `{"eof","ioerr","noprog"}`,
			"BurstCases":   "{<<64,200,1,1,0>>}",
			"EmitKinds":    "{1,2,6}",
			"EmitPays":     "{0,1}",
			"EmitGaps":     "{1}",
			"KindSpace":    "0..63",
			"MetaClasses":  `{"empty","a","bin"}`,
			"MetaMany":     "{0}",
			"EmitObserved": "{}",
		},
		plain: map[string]string{"Mode": `"` + mode + `"`, "EmitDepth": "3", "EmitMulti": "TRUE", "EmitStreams": "TRUE"},
	}
}

const wireInvs = "Deterministic PacketsWellFormed IdsIncrease CompatNewToOld CompatOldToNew UnknownControlIgnored EmitRec"

// wireRun runs one TLC configuration of Wire.tla; every record is handed, in
// parallel, to fn (raw JSON and the parsed record).
func wireRun(c *vf.Ctx, label string, wc wireConsts, workers int, fn func(raw []byte, r *wRec)) bool {
	name, mod, consts := vf.MCModule("Wire", wc.defs, wc.plain)
	cfg := "SPECIFICATION Spec\n" + consts + "INVARIANTS " + wireInvs + "\nPROPERTY MonotoneReasm\nCHECK_DEADLOCK FALSE\n"
	if workers <= 0 {
		workers = 16
	}
	ch := make(chan []byte, 4096)
	var wg sync.WaitGroup
	for i := 0; i < workers; i++ {
		wg.Add(1)
		go func() {
			defer wg.Done()
			for raw := range ch {
				var r wRec
				if err := json.Unmarshal(raw, &r); err != nil {
					c.Inconclusive("unparsable TLC record: %v", err)
					continue
				}
				fn(raw, &r)
			}
		}()
	}
	n := 0
	t0 := time.Now()
	res, err := vf.TLC(vf.TLCOpts{Module: name, Cfg: cfg, Extra: map[string]string{name + ".tla": mod},
		Timeout: 40 * time.Minute, HeapMB: 8000,
		OnLine: func(b []byte) {
			n++
			ch <- append([]byte(nil), b...)
		}})
	close(ch)
	wg.Wait()
	if err != nil {
		c.Inconclusive("tlc: %v", err)
		return false
	}
	if !res.Finished {
		c.Inconclusive("TLC run of Wire.tla (%s) did not finish cleanly: violated=%q err=%q timeout=%v\n%s", label, res.Violated, res.ErrorText, res.TimedOut, res.Tail)
		return false
	}
	c.AddTLC(res)
	fmt.Fprintf(os.Stderr, "  [%s] %s: %d records, tlc %.1fs, total %.1fs\n", c.ID, label, n, res.Wall.Seconds(), time.Since(t0).Seconds())
	parts, _ := c.Cov["tlc_runs"].([]string)
	c.Cov["tlc_runs"] = append(parts, fmt.Sprintf("%s: generated=%d distinct=%d records=%d wall=%.1fs", label, res.Generated, res.Distinct, n, res.Wall.Seconds()))
	return true
}

// ---------------------------------------------------------------------------
// concretiser
// ---------------------------------------------------------------------------

// idMap is an order- and successor-preserving injection of the small ids of the
// model into uint64, so that the varints of a header have different lengths.
// Stream ids 0 and 1 (and their message ids) are kept because the initial
// watermark (1,1) is absolute.
type idMap int

const (
	idIdentity idMap = iota
	idMedium
	idHuge
)

func (m idMap) offs() (so, mo uint64) {
	switch m {
	case idMedium:
		return 1 << 20, 300
	case idHuge:
		return 1 << 63, 1 << 63
	}
	return 0, 0
}

func (m idMap) id(sid, mid int) drpcwire.ID {
	so, mo := m.offs()
	if sid <= 1 {
		return drpcwire.ID{Stream: uint64(sid), Message: uint64(mid)}
	}
	return drpcwire.ID{Stream: uint64(sid) + so, Message: uint64(mid) + mo}
}

func (m idMap) unmap(id drpcwire.ID) (sid, mid int, ok bool) {
	so, mo := m.offs()
	if id.Stream <= 1 {
		if id.Message > 1<<30 {
			return 0, 0, false
		}
		return int(id.Stream), int(id.Message), true
	}
	s, mm := id.Stream-so, id.Message-mo
	if s > 1<<30 || mm > 1<<30 || s < 2 {
		return 0, 0, false
	}
	return int(s), int(mm), true
}

func (m idMap) String() string { return [...]string{"identity", "medium", "huge"}[m] }

// payload of the i-th frame (1-based): recognisable, position dependent
func framePayload(i, n int) []byte {
	b := make([]byte, n)
	x := byte(i*73 + 11)
	for j := range b {
		b[j] = x
		x += 31
		if j&255 == 255 {
			x += byte(i) + 3
		}
	}
	return b
}

// varint with exactly k bytes (canonical encoding of 2^(7(k-1)))
func varintOfLen(k int) []byte {
	b := make([]byte, k)
	for i := 0; i < k-1; i++ {
		b[i] = 0x80
	}
	b[k-1] = 1
	if k == 1 {
		b[0] = 1
	}
	return b
}

type concrete struct {
	bytes    []byte
	payloads [][]byte // per frame
	ends     []int    // byte offset after each frame
	endless  bool
	ids      idMap
}

// concretise lays the frames out as in spec/Codec.tla (control byte, three varints, payload).
// Well-formed frames go through drpcwire.AppendFrame (checked against Codec.tla by C08);
// hostile tails are encoded by hand.
func concretise(r *wRec, ids idMap) (*concrete, error) {
	cc := &concrete{ids: ids}
	for i, f := range r.Frames {
		p := framePayload(i+1, f.Len)
		cc.payloads = append(cc.payloads, p)
		cc.bytes = drpcwire.AppendFrame(cc.bytes, drpcwire.Frame{Data: p, ID: ids.id(f.Sid, f.Mid), Kind: drpcwire.Kind(f.Kind), Done: f.Done, Control: f.Control})
		cc.ends = append(cc.ends, len(cc.bytes))
	}
	switch r.Tail.T {
	case "", "none":
	case "longvarint":
		t := []byte{2 << 1}
		for k := 1; k < r.Tail.Field; k++ {
			t = append(t, 1)
		}
		for k := 0; k < 10; k++ {
			t = append(t, 0xff)
		}
		t = append(t, 1)
		cc.bytes = append(cc.bytes, t...)
	case "trunc":
		var lv []byte
		if r.Tail.Declared < 0 {
			lv = drpcwire.AppendVarint(nil, 1<<63)
		} else {
			lv = drpcwire.AppendVarint(nil, uint64(r.Tail.Declared))
		}
		rest := r.Tail.Hdr - 1 - len(lv)
		a := (rest + 1) / 2
		b := rest - a
		if a < 1 || b < 1 || a > 10 || b > 10 {
			return nil, fmt.Errorf("tail header of %d bytes not realisable", r.Tail.Hdr)
		}
		h := []byte{2 << 1}
		h = append(h, varintOfLen(a)...)
		h = append(h, varintOfLen(b)...)
		h = append(h, lv...)
		if len(h) != r.Tail.Hdr || r.Tail.Hpresent > len(h) {
			return nil, fmt.Errorf("tail header length mismatch")
		}
		cc.bytes = append(cc.bytes, h[:r.Tail.Hpresent]...)
		if r.Tail.Have > 0 {
			if r.Tail.Hpresent != r.Tail.Hdr {
				return nil, fmt.Errorf("payload after a cut header")
			}
			cc.bytes = append(cc.bytes, framePayload(len(r.Frames)+1, r.Tail.Have)...)
		}
		cc.endless = r.Tail.Have < 0
	default:
		return nil, fmt.Errorf("unknown tail %q", r.Tail.T)
	}
	return cc, nil
}

// ---------------------------------------------------------------------------
// scripted transport
// ---------------------------------------------------------------------------

var errInjected = errors.New("verif: injected transport error")
var errFeedLimit = errors.New("verif: feed limit reached")
var errReadAfterFin = errors.New("verif: Read called again after the transport had reported its final error")

// scriptReader delivers data in the given chunk sizes (the rest in one piece),
// optionally with runs of (0,nil) reads, then the final condition.
type scriptReader struct {
	data        []byte
	pos         int
	chunks      []int
	ci          int
	left        int         // bytes left of the current chunk
	zerosBefore map[int]int // before the k-th chunk (0-based) return that many (0,nil)
	zerosDone   int
	fin         string // eof | ioerr | noprog
	finWithData bool
	finZeros    int
	finPreZeros int // (0,nil) reads in front of the final condition
	finPreDone  int
	endless     bool
	endlessStep int // endless: size of the filler reads (0 = whatever is asked for)
	limit       int // endless: stop after that many bytes in total

	calls     int
	maxReq    int
	maxRet    int
	consumed  int
	afterFin  int
	lastStart int // byte range of the last read that returned data
	lastEnd   int
}

func (s *scriptReader) finErr() error {
	if s.fin == "ioerr" {
		return errInjected
	}
	return io.EOF
}

func (s *scriptReader) Read(p []byte) (int, error) {
	s.calls++
	if len(p) > s.maxReq {
		s.maxReq = len(p)
	}
	if len(p) == 0 {
		return 0, nil
	}
	if s.afterFin > 0 {
		// the final condition was already delivered once; a reader that asks again lost it
		s.afterFin++
		return 0, errReadAfterFin
	}
	if s.pos >= len(s.data) {
		if s.endless {
			if s.consumed >= s.limit {
				return 0, errFeedLimit
			}
			n := len(p)
			if s.endlessStep > 0 && s.endlessStep < n {
				n = s.endlessStep
			}
			for i := 0; i < n; i++ {
				p[i] = 0xAB
			}
			s.lastStart, s.lastEnd = s.consumed, s.consumed+n
			s.consumed += n
			if n > s.maxRet {
				s.maxRet = n
			}
			return n, nil
		}
		if s.finPreDone < s.finPreZeros {
			s.finPreDone++
			return 0, nil
		}
		if s.fin == "noprog" && s.finZeros < 100 {
			s.finZeros++
			return 0, nil
		}
		s.afterFin++
		return 0, s.finErr()
	}
	if s.left == 0 {
		if z := s.zerosBefore[s.ci]; s.zerosDone < z {
			s.zerosDone++
			return 0, nil
		}
		s.zerosDone = 0
		if s.ci < len(s.chunks) {
			s.left = s.chunks[s.ci]
		} else {
			s.left = len(s.data) - s.pos
		}
		s.ci++
		if s.left <= 0 {
			s.left = 1
		}
	}
	n := s.left
	if n > len(p) {
		n = len(p)
	}
	if n > len(s.data)-s.pos {
		n = len(s.data) - s.pos
	}
	copy(p, s.data[s.pos:s.pos+n])
	s.lastStart, s.lastEnd = s.pos, s.pos+n
	s.pos += n
	s.left -= n
	s.consumed += n
	if n > s.maxRet {
		s.maxRet = n
	}
	if s.pos >= len(s.data) {
		s.left = 0
		if s.finWithData && !s.endless && s.fin != "noprog" && s.finPreZeros == 0 {
			s.afterFin++
			return n, s.finErr()
		}
	}
	return n, nil
}

// ---------------------------------------------------------------------------
// running the current reader
// ---------------------------------------------------------------------------

type gotPkt struct {
	ID      drpcwire.ID
	Kind    int
	Control bool
	Data    []byte
}

type runOut struct {
	pkts               []gotPkt
	err                error
	panicked           any
	maxReq             int
	maxRet             int
	maxCap             int
	consumed           int
	calls              int
	lastStart, lastEnd int
}

type runCfg struct {
	chunks      []int
	zeros       map[int]int
	fin         string
	finWithData bool
	maxOpt      int  // value of ReaderOptions.MaximumBufferSize
	reuse       bool // ReadPacketUsing with a recycled buffer
	limit       int
	endlessStep int
	finPreZeros int
	desc        string
}

func runNewReader(cc *concrete, rc *runCfg, maxPkts int) (out runOut) {
	sr := &scriptReader{data: cc.bytes, chunks: rc.chunks, zerosBefore: rc.zeros, fin: rc.fin, finWithData: rc.finWithData,
		endless: cc.endless, limit: rc.limit, endlessStep: rc.endlessStep, finPreZeros: rc.finPreZeros}
	defer func() {
		out.maxReq, out.maxRet, out.consumed, out.calls = sr.maxReq, sr.maxRet, sr.consumed, sr.calls
		out.lastStart, out.lastEnd = sr.lastStart, sr.lastEnd
		if p := recover(); p != nil {
			out.panicked = p
		}
	}()
	rd := drpcwire.NewReaderWithOptions(sr, drpcwire.ReaderOptions{MaximumBufferSize: rc.maxOpt})
	var buf []byte
	for len(out.pkts) <= maxPkts {
		var pkt drpcwire.Packet
		var err error
		if rc.reuse {
			pkt, err = rd.ReadPacketUsing(buf)
		} else {
			pkt, err = rd.ReadPacket()
		}
		if c := rd.VerifBufCap(); c > out.maxCap {
			out.maxCap = c
		}
		if err != nil {
			out.err = err
			return out
		}
		out.pkts = append(out.pkts, gotPkt{ID: pkt.ID, Kind: int(pkt.Kind), Control: pkt.Control, Data: append([]byte(nil), pkt.Data...)})
		if rc.reuse {
			buf = pkt.Data
			// scribble over the recycled buffer: the next packet must not depend on it
			for i := range buf {
				buf[i] = 0xEE
			}
		}
	}
	return out
}

// errClass lifts a Go error to the error classes of the specification.
func errClass(err error) (class, sub string) {
	switch {
	case err == nil:
		return "none", ""
	case err == io.EOF:
		return "eof", ""
	case err == errInjected:
		return "ioerr", ""
	case err == errFeedLimit:
		return "feedlimit", ""
	case drpc.ProtocolError.Has(err):
		t := err.Error()
		switch {
		case strings.Contains(t, "data overflow"):
			return "proto", "overflow"
		case strings.Contains(t, "monotonicity"):
			return "proto", "mono"
		case strings.Contains(t, "kind change"):
			return "proto", "kind"
		case strings.Contains(t, "varint"):
			return "proto", "varint"
		case strings.Contains(t, "truncated"):
			return "proto", "truncated"
		}
		return "proto", "other"
	case drpc.InternalError.Has(err):
		if errors.Is(err, io.ErrNoProgress) {
			return "internal", "noprog"
		}
		return "internal", "other"
	case errors.Is(err, io.ErrNoProgress):
		return "internal", "noprog"
	}
	return "other", err.Error()
}

// compareNew compares a run of the current reader with the demanded result.
// It returns "" when they agree, otherwise a canonical description of the first difference.
func compareNew(r *wRec, cc *concrete, want *wRes, o *runOut) string {
	if o.panicked != nil {
		return "panic"
	}
	for k, g := range o.pkts {
		if k >= len(want.Pkts) {
			return "extra packet"
		}
		w := want.Pkts[k]
		sid, mid, ok := cc.ids.unmap(g.ID)
		switch {
		case !ok || sid != w.Sid || mid != w.Mid:
			return "packet id differs"
		case g.Kind != w.Kind:
			return "packet kind differs"
		case g.Control != w.Control:
			return "packet control bit differs"
		case len(g.Data) != w.Len:
			return "packet length differs"
		}
		off := 0
		for _, pi := range w.Parts {
			p := cc.payloads[pi-1]
			if off+len(p) > len(g.Data) || string(g.Data[off:off+len(p)]) != string(p) {
				return "packet data differs"
			}
			off += len(p)
		}
		if off != len(g.Data) {
			return "packet data differs"
		}
	}
	cls, sub := errClass(o.err)
	if len(o.pkts) < len(want.Pkts) {
		if cls == "proto" {
			return "early error proto/" + sub
		}
		return "early error " + cls
	}
	if cls != want.Err {
		if cls == "proto" {
			return "error class proto/" + sub
		}
		if cls == "other" {
			return "error class other"
		}
		return "error class " + cls
	}
	return ""
}

func wantClass(w *wRes) string {
	if w.Err == "proto" {
		return fmt.Sprintf("%d packets then proto/%s", len(w.Pkts), w.Why)
	}
	return fmt.Sprintf("%d packets then %s", len(w.Pkts), w.Err)
}

func wantClassShort(w *wRes) string {
	if w.Err == "proto" {
		return "proto/" + w.Why
	}
	return w.Err
}

// ---------------------------------------------------------------------------
// read partitions
// ---------------------------------------------------------------------------

// interesting cut positions of a long stream: around frame boundaries, header ends and
// the sizes the reader's buffer goes through
func interestingCuts(n int, ends []int, rng *rand.Rand, extra int) []int {
	set := map[int]struct{}{}
	add := func(p int) {
		if p > 0 && p < n {
			set[p] = struct{}{}
		}
	}
	prev := 0
	for _, e := range ends {
		for d := -3; d <= 6; d++ {
			add(e + d)
			add(prev + d)
		}
		prev = e
	}
	for d := -3; d <= 3; d++ {
		add(n + d)
		for _, b := range []int{4096, 8192, 12288, 28672} {
			add(b + d)
		}
	}
	for i := 0; i < extra; i++ {
		add(1 + rng.Intn(n))
	}
	out := make([]int, 0, len(set))
	for p := range set {
		out = append(out, p)
	}
	sort.Ints(out)
	return out
}

func cutsToChunks(n int, cuts ...int) []int {
	ch := make([]int, 0, len(cuts)+1)
	prev := 0
	for _, c := range cuts {
		ch = append(ch, c-prev)
		prev = c
	}
	ch = append(ch, n-prev)
	return ch
}

func fixedChunks(n, k int) []int {
	ch := make([]int, 0, n/k+1)
	for n > 0 {
		x := k
		if x > n {
			x = n
		}
		ch = append(ch, x)
		n -= x
	}
	return ch
}

func randomChunks(n int, rng *rand.Rand) []int {
	var ch []int
	style := rng.Intn(4)
	for n > 0 {
		var x int
		switch style {
		case 0:
			x = 1 + rng.Intn(3)
		case 1:
			x = 1 + rng.Intn(9)
		case 2:
			x = 1 + rng.Intn(n)
		default:
			x = 1 << uint(rng.Intn(14))
			x = 1 + rng.Intn(x)
		}
		if x > n {
			x = n
		}
		ch = append(ch, x)
		n -= x
		if len(ch) > 100000 { // very long streams: finish in one piece
			ch = append(ch, n)
			break
		}
	}
	return ch
}

type partition struct {
	chunks []int
	desc   string
}

// partitionPlan enumerates the read partitions tried for a stream of n bytes.
// all = every composition of n (n <= 14).
func partitionPlan(n int, ends []int, all, pairs bool, rng *rand.Rand, nRandom int, yield func(p partition) bool) {
	if n == 0 {
		yield(partition{nil, "empty"})
		return
	}
	if all && n <= 14 {
		for mask := 0; mask < 1<<uint(n-1); mask++ {
			var ch []int
			run := 1
			for i := 0; i < n-1; i++ {
				if mask&(1<<uint(i)) != 0 {
					ch = append(ch, run)
					run = 1
				} else {
					run++
				}
			}
			ch = append(ch, run)
			d := "composition"
			if mask == 0 {
				d = "all-at-once"
			} else if mask == 1<<uint(n-1)-1 {
				d = "byte-at-a-time"
			}
			if !yield(partition{ch, d}) {
				return
			}
		}
		return
	}
	if !yield(partition{[]int{n}, "all-at-once"}) {
		return
	}
	if !yield(partition{fixedChunks(n, 1), "byte-at-a-time"}) {
		return
	}
	var cuts []int
	if n <= 64 {
		for p := 1; p < n; p++ {
			cuts = append(cuts, p)
		}
	} else {
		cuts = interestingCuts(n, ends, rng, 8)
	}
	for _, p := range cuts {
		if !yield(partition{cutsToChunks(n, p), "one-cut"}) {
			return
		}
	}
	if !pairs {
		// a few pairs only
		for k := 0; k < 4 && len(cuts) > 1; k++ {
			i, j := rng.Intn(len(cuts)), rng.Intn(len(cuts))
			if i == j {
				continue
			}
			if i > j {
				i, j = j, i
			}
			if !yield(partition{cutsToChunks(n, cuts[i], cuts[j]), "two-cuts"}) {
				return
			}
		}
	} else if len(cuts) <= 24 {
		for i := 0; i < len(cuts); i++ {
			for j := i + 1; j < len(cuts); j++ {
				if !yield(partition{cutsToChunks(n, cuts[i], cuts[j]), "two-cuts"}) {
					return
				}
			}
		}
	} else {
		for k := 0; k < 60; k++ {
			i, j := rng.Intn(len(cuts)), rng.Intn(len(cuts))
			if i == j {
				continue
			}
			if i > j {
				i, j = j, i
			}
			if !yield(partition{cutsToChunks(n, cuts[i], cuts[j]), "two-cuts"}) {
				return
			}
		}
	}
	for _, k := range []int{2, 3, 7} {
		if k < n {
			if !yield(partition{fixedChunks(n, k), fmt.Sprintf("%d-byte reads", k)}) {
				return
			}
		}
	}
	for k := 0; k < nRandom; k++ {
		if !yield(partition{randomChunks(n, rng), "random"}) {
			return
		}
	}
}

// ---------------------------------------------------------------------------
// bookkeeping of failures: one verdict per signature class, a few replays each
// ---------------------------------------------------------------------------

type sigLimiter struct {
	mu sync.Mutex
	n  map[string]int
}

func (s *sigLimiter) ok(sig string, max int) bool {
	s.mu.Lock()
	defer s.mu.Unlock()
	if s.n == nil {
		s.n = map[string]int{}
	}
	s.n[sig]++
	return s.n[sig] <= max
}

func (s *sigLimiter) counts() map[string]int {
	s.mu.Lock()
	defer s.mu.Unlock()
	out := map[string]int{}
	for k, v := range s.n {
		out[k] = v
	}
	return out
}
