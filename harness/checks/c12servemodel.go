package checks

// drpcserver.Serve against spec/Serve.tla (part of C12): TLC checks the model's invariants with stimuli
// interleaved freely, then enumerates every behaviour in which stimuli are applied at quiescence, bounded by the
// number of stimuli; each behaviour (stimuli + the observation demanded at every quiescent point) is replayed on
// the real Server.Serve with a scripted listener, real drpcconn clients over net.Pipe and a handler that stays in
// user code until released.  The replay runs inside a testing/synctest bubble: quiescence is synctest.Wait, and
// the temporary-error sleep elapses exactly when the TimerFire stimulus advances the bubble's clock.
//
// testing/synctest needs a *testing.T, hence a sub-process ("verif sub servereplay") as for C15.

import (
	"bufio"
	"context"
	"encoding/json"
	"errors"
	"fmt"
	"io"
	"net"
	"os"
	"os/exec"
	"sort"
	"strings"
	"sync"
	"testing"
	"testing/synctest"
	"time"

	"storj.io/drpc"
	"storj.io/drpc/drpcconn"
	"storj.io/drpc/drpcserver"

	"verif/dir"
	"verif/vf"
)

type serveConnObs struct {
	St     string `json:"st"`
	Closed int    `json:"closed"`
}
type serveObs struct {
	Acc   string         `json:"acc"`
	Res   string         `json:"res"`
	Mon   bool           `json:"mon"`
	Lis   int            `json:"lis"`
	Conns []serveConnObs `json:"conns"`
}
type serveStim struct {
	K string `json:"k"`
	X string `json:"x,omitempty"`
	C int    `json:"c,omitempty"`
}
type serveStep struct {
	S   serveStim `json:"s"`
	Pre serveObs  `json:"pre"`
}
type serveBeh struct {
	Steps []serveStep `json:"steps"`
	Obs   serveObs    `json:"obs"`
}
type serveResult struct {
	I       int        `json:"i"`
	Got     []serveObs `json:"got"` // observation before each stimulus, then the final one
	Problem string     `json:"problem,omitempty"`
}

// ---- the environment -------------------------------------------------------------------------------

type tempErr struct{}

func (tempErr) Error() string   { return "temporary accept failure" }
func (tempErr) Timeout() bool   { return false }
func (tempErr) Temporary() bool { return true }

type scriptLis struct {
	mu      sync.Mutex
	cond    *sync.Cond
	q       []any // net.Conn | error
	closes  int
	handed  int
	waiting bool
}

func newScriptLis() *scriptLis { l := &scriptLis{}; l.cond = sync.NewCond(&l.mu); return l }

// Accept returns what was offered, in order; with nothing offered it fails once the listener is closed.
func (l *scriptLis) Accept() (net.Conn, error) {
	l.mu.Lock()
	defer l.mu.Unlock()
	for {
		if len(l.q) > 0 {
			x := l.q[0]
			l.q = l.q[1:]
			if c, ok := x.(net.Conn); ok {
				l.handed++
				return c, nil
			}
			return nil, x.(error)
		}
		if l.closes > 0 {
			return nil, errors.New("listener closed")
		}
		l.cond.Wait()
	}
}
func (l *scriptLis) Close() error {
	l.mu.Lock()
	l.closes++
	l.cond.Broadcast()
	l.mu.Unlock()
	return nil
}
func (l *scriptLis) Addr() net.Addr { return &net.UnixAddr{Name: "script"} }
func (l *scriptLis) offer(x any) {
	l.mu.Lock()
	l.q = append(l.q, x)
	l.cond.Broadcast()
	l.mu.Unlock()
}

type serveHandler struct {
	mu    sync.Mutex
	gates map[string]chan struct{}
}

func (h *serveHandler) gate(rpc string) chan struct{} {
	h.mu.Lock()
	defer h.mu.Unlock()
	g := h.gates[rpc]
	if g == nil {
		g = make(chan struct{})
		h.gates[rpc] = g
	}
	return g
}

// HandleRPC reads the request, stays in user code until released (whatever happens to its context), then replies.
func (h *serveHandler) HandleRPC(stream drpc.Stream, rpc string) error {
	var m dir.Msg
	enc := &dir.GateEnc{}
	_ = stream.MsgRecv(&m, enc)
	<-h.gate(rpc)
	h.mu.Lock()
	delete(h.gates, rpc)
	h.mu.Unlock()
	_ = stream.MsgSend(&dir.Msg{Data: []byte("re")}, enc)
	return nil
}

// serveReplayOne runs inside a synctest bubble.
func serveReplayOne(b *serveBeh) (res serveResult) {
	lis := newScriptLis()
	h := &serveHandler{gates: map[string]chan struct{}{}}
	srv := drpcserver.New(h)
	ctx, cancel := context.WithCancel(context.Background())
	type ret struct{ err error }
	done := make(chan ret, 1)
	var serveGoid int64
	started := make(chan struct{})
	go func() {
		serveGoid = vf.GoID()
		close(started)
		done <- ret{srv.Serve(ctx, lis)}
	}()
	<-started
	var result *ret
	nmax := len(b.Obs.Conns)
	type cliT struct {
		conn   *drpcconn.Conn
		srv    *countConn
		cliEnd net.Conn
		nrpc   int
	}
	var clis []*cliT
	goidConn := map[int64]int{}
	var wg sync.WaitGroup
	observe := func() serveObs {
		synctest.Wait()
		if result == nil {
			select {
			case r := <-done:
				result = &r
			default:
			}
		}
		o := serveObs{Res: "none"}
		gs := vf.Census()
		if result != nil {
			o.Acc = "ret"
			o.Res = "nil"
			if result.err != nil {
				o.Res = "err"
			}
		} else {
			o.Acc = "sleep"
			for i := range gs {
				if gs[i].ID == serveGoid {
					switch {
					case gs[i].Has("scriptLis).Accept"):
						o.Acc = "accept"
					case gs[i].Has("sync.(*WaitGroup).Wait"):
						o.Acc = "dwait"
					}
				}
			}
		}
		o.Mon = true
		var fresh []int64
		live := map[int]bool{}
		for i := range gs {
			g := &gs[i]
			if g.Has("drpcserver.(*Server).Serve.func1") {
				o.Mon = false
			}
			if g.Has("drpcserver.(*Server).ServeOne") && g.Has("drpcctx.(*Tracker).track") {
				if c, ok := goidConn[g.ID]; ok {
					live[c] = true
				} else {
					fresh = append(fresh, g.ID)
				}
			}
		}
		sort.Slice(fresh, func(i, j int) bool { return fresh[i] < fresh[j] })
		for _, id := range fresh {
			c := len(goidConn) + 1
			goidConn[id] = c
			live[c] = true
		}
		lis.mu.Lock()
		o.Lis = lis.closes
		handed := lis.handed
		lis.mu.Unlock()
		for c := 1; c <= nmax; c++ {
			co := serveConnObs{St: "none"}
			if c <= handed {
				co.St = "done"
				if live[c] {
					co.St = "serving"
				}
				// the c-th connection handed out by Accept is the c-th offered one
				if c-1 < len(clis) {
					co.Closed = int(clis[c-1].srv.closes.Load())
				}
			}
			o.Conns = append(o.Conns, co)
		}
		return o
	}
	apply := func(s serveStim) string {
		switch s.K {
		case "offer":
			switch s.X {
			case "conn":
				a, bb := net.Pipe()
				cc := &countConn{Conn: bb}
				clis = append(clis, &cliT{conn: drpcconn.New(a), srv: cc, cliEnd: a})
				lis.offer(net.Conn(cc))
			case "temp":
				lis.offer(error(tempErr{}))
			case "perm":
				lis.offer(errors.New("permanent accept failure"))
			}
		case "cancel":
			cancel()
		case "closelis":
			_ = lis.Close()
		case "rpc":
			if s.C < 1 || s.C > len(clis) {
				return "rpc on a connection that was never offered"
			}
			cl := clis[s.C-1]
			cl.nrpc++
			rpc := fmt.Sprintf("/c%d", s.C)
			_ = h.gate(rpc)
			wg.Add(1)
			go func() {
				defer wg.Done()
				var out dir.Msg
				_ = cl.conn.Invoke(context.Background(), rpc, &dir.GateEnc{}, &dir.Msg{Data: []byte("q")}, &out)
			}()
		case "release":
			rpc := fmt.Sprintf("/c%d", s.C)
			h.mu.Lock()
			g := h.gates[rpc]
			h.mu.Unlock()
			if g == nil {
				return "release without a handler in user code"
			}
			close(g)
		case "end":
			if s.C < 1 || s.C > len(clis) {
				return "end of a connection that was never offered"
			}
			_ = clis[s.C-1].conn.Close()
		case "timer":
			time.Sleep(500*time.Millisecond + time.Millisecond) // drpcserver's temporarySleep, on the bubble's clock
		default:
			return "unknown stimulus " + s.K
		}
		return ""
	}
	for _, st := range b.Steps {
		res.Got = append(res.Got, observe())
		if p := apply(st.S); p != "" {
			res.Problem = p
			break
		}
	}
	if res.Problem == "" {
		res.Got = append(res.Got, observe())
	}
	// teardown: nothing may survive the bubble
	cancel()
	_ = lis.Close()
	h.mu.Lock()
	for k, g := range h.gates {
		close(g)
		delete(h.gates, k)
	}
	h.mu.Unlock()
	for _, cl := range clis {
		_ = cl.conn.Close()
		_ = cl.srv.Close()
	}
	lis.mu.Lock()
	for _, x := range lis.q {
		if c, ok := x.(net.Conn); ok {
			_ = c.Close()
		}
	}
	lis.q = nil
	lis.mu.Unlock()
	if result == nil {
		r := <-done
		result = &r
	}
	wg.Wait()
	synctest.Wait()
	return res
}

func serveReplayMain(args []string) int {
	testing.Init()
	os.Args = os.Args[:1]
	out := bufio.NewWriterSize(os.Stdout, 1<<16)
	test := func(t *testing.T) {
		in := bufio.NewReaderSize(os.Stdin, 1<<20)
		for {
			line, err := in.ReadBytes('\n')
			if len(line) > 1 {
				var rec struct {
					I int       `json:"i"`
					B *serveBeh `json:"b"`
				}
				var res serveResult
				if jerr := json.Unmarshal(line, &rec); jerr != nil || rec.B == nil {
					res.Problem = fmt.Sprintf("bad behaviour record: %v", jerr)
				} else {
					fmt.Fprintf(out, "@@start %d\n", rec.I)
					out.Flush()
					synctest.Test(t, func(t *testing.T) { res = serveReplayOne(rec.B) })
				}
				res.I = rec.I
				jb, _ := json.Marshal(res)
				out.WriteString("@@")
				out.Write(jb)
				out.WriteByte('\n')
				out.Flush()
			}
			if err != nil {
				return
			}
		}
	}
	testing.Main(func(pat, str string) (bool, error) { return true, nil },
		[]testing.InternalTest{{Name: "ServeReplay", F: test}}, nil, nil)
	return 0
}

func init() {
	Sub["servereplay"] = serveReplayMain
	SpecModules = append(SpecModules, "Serve")
	All["SERVEDEV"] = serveModel // development entry: the Serve.tla part of C12 alone
}

// ---- the check side ----------------------------------------------------------------------------------

func serveCfg(maxConn, maxStims int, gen bool, invs string) string {
	view := ""
	if !gen {
		view = "VIEW View\n"
	}
	return fmt.Sprintf("CONSTANTS MaxConn = %d MaxStims = %d Gen = %s\nSPECIFICATION Spec\nINVARIANT %s\nCHECK_DEADLOCK FALSE\n%s",
		maxConn, maxStims, strings.ToUpper(fmt.Sprint(gen)), invs, view)
}

func serveModel(c *vf.Ctx) {
	if c.Quick() {
		serveModelCfg(c, 2, 7, 6)
		return
	}
	serveModelCfg(c, 2, 9, 8)
	serveModelCfg(c, 3, 7, 6)
}

func serveModelCfg(c *vf.Ctx, nconn, free, genN int) {
	// A. invariants with stimuli interleaved freely with the goroutines' steps
	res, err := vf.TLC(vf.TLCOpts{Module: "Serve", Cfg: serveCfg(nconn, free, false, "Inv"), Workers: 8, Timeout: 20 * time.Minute, HeapMB: 6000})
	if err != nil || res == nil || !res.Finished {
		msg := ""
		if res != nil {
			msg = res.Violated + " " + res.ErrorText + "\n" + res.TraceText
		}
		c.Inconclusive("design check of Serve.tla failed: %v %s", err, msg)
		return
	}
	c.AddTLC(res)
	covAppend(c, "serve_design", fmt.Sprintf("Serve.tla free interleaving MaxConn=%d MaxStims=%d: generated=%d distinct=%d depth=%d", nconn, free, res.Generated, res.Distinct, res.Depth))
	// A'. the same as temporal properties under weak fairness of the goroutines' steps
	lcfg := fmt.Sprintf("CONSTANTS MaxConn = %d MaxStims = %d Gen = FALSE\nSPECIFICATION LiveSpec\nINVARIANT Inv\nPROPERTY CancelLeadsToReturn EndLeadsToDone\nCHECK_DEADLOCK FALSE\n", nconn, free-1)
	lres, lerr := vf.TLC(vf.TLCOpts{Module: "Serve", Cfg: lcfg, Workers: 8, Timeout: 20 * time.Minute, HeapMB: 6000})
	if lerr != nil || lres == nil || !lres.Finished {
		msg := ""
		if lres != nil {
			msg = lres.Violated + " " + lres.ErrorText + "\n" + lres.TraceText
		}
		c.Inconclusive("liveness check of Serve.tla failed: %v %s", lerr, msg)
		return
	}
	c.AddTLC(lres)
	covAppend(c, "serve_design", fmt.Sprintf("Serve.tla liveness (WF of internal steps; CancelLeadsToReturn, EndLeadsToDone) MaxConn=%d MaxStims=%d: distinct=%d", nconn, free-1, lres.Distinct))
	// B. behaviours with stimuli at quiescence, each leaf with the demanded observations
	byStims := map[string][]*serveBeh{}
	var order []string
	res, err = vf.TLC(vf.TLCOpts{Module: "Serve", Cfg: serveCfg(nconn, genN, true, "Inv Emit"), Workers: 1, Timeout: 20 * time.Minute, HeapMB: 6000,
		OnLine: func(b []byte) {
			var beh serveBeh
			if json.Unmarshal(b, &beh) != nil {
				return
			}
			var ss []serveStim
			for _, s := range beh.Steps {
				ss = append(ss, s.S)
			}
			k, _ := json.Marshal(ss)
			if _, ok := byStims[string(k)]; !ok {
				order = append(order, string(k))
			}
			byStims[string(k)] = append(byStims[string(k)], &beh)
		}})
	if err != nil || res == nil || !res.Finished {
		msg := ""
		if res != nil {
			msg = res.Violated + " " + res.ErrorText + "\n" + res.TraceText
		}
		c.Inconclusive("behaviour generation from Serve.tla failed: %v %s", err, msg)
		return
	}
	c.AddTLC(res)
	if len(order) == 0 {
		c.Inconclusive("Serve.tla produced no behaviours")
		return
	}
	// thorough: all of them; quick: all of them as well (they are cheap); cap for safety
	limit := 250000
	total := len(order)
	if len(order) > limit {
		order = order[:limit]
	}
	exe, _ := os.Executable()
	nproc := 8
	var mu sync.Mutex
	var wg sync.WaitGroup
	replayed, timers := 0, 0
	parts := make([][]int, nproc)
	for i := range order {
		parts[i%nproc] = append(parts[i%nproc], i)
	}
	for _, part := range parts {
		part := part
		if len(part) == 0 {
			continue
		}
		wg.Add(1)
		go func() {
			defer wg.Done()
			cmd := exec.Command(exe, "sub", "servereplay")
			stdin, _ := cmd.StdinPipe()
			stdout, _ := cmd.StdoutPipe()
			cmd.Stderr = io.Discard
			if err := cmd.Start(); err != nil {
				c.Inconclusive("serve replay sub-process: %v", err)
				return
			}
			go func() {
				w := bufio.NewWriter(stdin)
				for _, i := range part {
					jb, _ := json.Marshal(map[string]any{"i": i, "b": byStims[order[i]][0]})
					w.Write(jb)
					w.WriteByte('\n')
				}
				w.Flush()
				stdin.Close()
			}()
			rd := bufio.NewReaderSize(stdout, 1<<20)
			lastStart := -1
			got := 0
			for {
				line, err := rd.ReadBytes('\n')
				if strings.HasPrefix(string(line), "@@start ") {
					fmt.Sscanf(string(line), "@@start %d", &lastStart)
				} else if strings.HasPrefix(string(line), "@@{") {
					var r serveResult
					if json.Unmarshal(line[2:], &r) == nil {
						got++
						mu.Lock()
						replayed++
						cands := byStims[order[r.I]]
						for _, s := range cands[0].Steps {
							if s.S.K == "timer" {
								timers++
							}
						}
						mu.Unlock()
						serveJudge(c, cands, &r)
					}
				}
				if err != nil {
					break
				}
			}
			_ = cmd.Wait()
			if got < len(part) {
				// the sub-process died inside a behaviour: a panic or a bubble that could not end (something still blocked)
				var ss any
				if lastStart >= 0 {
					ss = byStims[order[lastStart]][0].Steps
				}
				c.Violation("Serve replay: the process died or goroutines were left blocked after teardown", map[string]any{"behaviour": ss, "replayed_in_this_worker": got, "of": len(part)})
			}
		}()
	}
	wg.Wait()
	c.EvalN(int64(replayed))
	covAppend(c, "serve_replay", fmt.Sprintf("Serve.tla behaviours (stimuli at quiescence, MaxConn=%d, MaxStims=%d): %d distinct stimulus sequences, %d replayed on the real drpcserver.Serve in synctest bubbles (%d TimerFire steps on the virtual clock)", nconn, genN, total, replayed, timers))
}

func serveJudge(c *vf.Ctx, cands []*serveBeh, r *serveResult) {
	if r.Problem != "" {
		c.Warn("serve replay: %s", r.Problem)
		return
	}
	var firstDiff string
	for _, b := range cands {
		want := make([]serveObs, 0, len(b.Steps)+1)
		for _, s := range b.Steps {
			want = append(want, s.Pre)
		}
		want = append(want, b.Obs)
		ok := len(want) == len(r.Got)
		diff := ""
		for i := 0; ok && i < len(want); i++ {
			wj, _ := json.Marshal(want[i])
			gj, _ := json.Marshal(r.Got[i])
			if string(wj) != string(gj) {
				ok = false
				after := "start"
				if i > 0 {
					after = b.Steps[i-1].S.K
					if b.Steps[i-1].S.X != "" {
						after += " " + b.Steps[i-1].S.X
					}
				}
				diff = fmt.Sprintf("after %s: %s", after, serveDiff(want[i], r.Got[i]))
			}
		}
		if ok {
			return
		}
		if firstDiff == "" {
			firstDiff = diff
		}
	}
	c.Violation("drpcserver.Serve behaviour not allowed by Serve.tla: "+firstDiff, map[string]any{"behaviour": cands[0].Steps, "demanded_final": cands[0].Obs, "observed": r.Got, "alternatives_in_model": len(cands)})
}

func serveDiff(w, g serveObs) string {
	var d []string
	if w.Acc != g.Acc {
		d = append(d, fmt.Sprintf("Serve is at %q, model %q", g.Acc, w.Acc))
	}
	if w.Res != g.Res {
		d = append(d, fmt.Sprintf("result %q, model %q", g.Res, w.Res))
	}
	if w.Mon != g.Mon {
		d = append(d, fmt.Sprintf("listener-closing goroutine gone=%v, model %v", g.Mon, w.Mon))
	}
	if w.Lis != g.Lis {
		d = append(d, fmt.Sprintf("listener closed %d times, model %d", g.Lis, w.Lis))
	}
	for i := range w.Conns {
		if i < len(g.Conns) && w.Conns[i] != g.Conns[i] {
			d = append(d, fmt.Sprintf("connection %d is %s/closed %d, model %s/closed %d", i+1, g.Conns[i].St, g.Conns[i].Closed, w.Conns[i].St, w.Conns[i].Closed))
		}
	}
	return strings.Join(d, "; ")
}
