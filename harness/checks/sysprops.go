package checks

import (
	"encoding/json"
	"fmt"
	"math/rand"
	"os"
	"sort"
	"strconv"
	"strings"
	"sync"
	"time"

	"verif/sys"
	"verif/vf"
)

// sysFamily describes the scenario family of one connection-level property.
type sysFamily struct {
	prop    string
	cfgs    []sys.Config
	kinds   []string       // stimulus kinds TLC may use when generating prefixes
	weights map[string]int // weights of the seeded random prefixes
	plen    int            // prefix length
	maxRPC  int
	tail    func(w *sys.World, rng *rand.Rand, st *tailState) // property-specific continuation, decided on the real state
	mons    []func(v *runView) []finding
	post    func(v *runView, st *tailState) []finding
	own     map[string]bool // properties whose findings this check reports as violations
	design  *designCheck
	designT *designCheck // thorough tier (nil = same)
	scen    []string     // directed scenarios that may precede the tail
	// runs in which a monitor reports an open known finding the model does not have are not validated (they are
	// reported; validating them only re-discovers the rejection at the price of a diagnosis run each)
	skipKnown bool
}

type designCheck struct {
	cfg      sys.Config
	kinds    []string
	maxRPC   int
	maxStims int
	invs     string
}

// tailState carries what the tail did, for the post monitors.
type tailState struct {
	Marks map[string]int // named line indices
	Notes map[string]string
}

func (t *tailState) mark(w *sys.World, name string) { t.Marks[name] = len(w.Lines) - 1 }

var hDefault = func(w *sys.World) string { // a well-behaved handler: read the request, answer, return
	switch h := w.Last().App["sv"]; {
	case h == "h:none":
		return "recv"
	case strings.HasPrefix(h, "h:msg:"):
		return "send1"
	default:
		return "retnil"
	}
}

// hDrain: a handler that reads until its peer is done (or the stream fails) and then returns
var hDrain = func(w *sys.World) string {
	h := w.Last().App["sv"]
	if h == "h:none" || strings.HasPrefix(h, "h:msg:") {
		return "recv"
	}
	return "retnil"
}

func cfgString(c sys.Config) string {
	return fmt.Sprintf("small=%v manual=%v soft=%v gateu=%v points=%v", c.Small, c.Manual, c.Soft, c.GateU, c.Points)
}

// diagnose asks TLC which observations the model allows at the rejected line and returns the names of the
// observable fields in which the real observation differs from the closest candidate.
func diagnose(c *vf.Ctx, r *sysRun, line int) (fields []string, closest map[string]any) {
	var buf strings.Builder
	for _, l := range r.Lines[:line+1] {
		b, _ := json.Marshal(l)
		buf.Write(b)
		buf.WriteByte('\n')
	}
	name, mod, cf := sysModulePeek("trace", r.Cfg, sys.MaxRPC, 1000000, allStimKinds, r.Cfg.Points, "", line+1)
	var cands []map[string]any
	_, err := vf.TLC(vf.TLCOpts{Module: name, Cfg: cf, Extra: map[string]string{name + ".tla": mod, "trace.ndjson": buf.String()},
		Workers: 1, DFS: true, Timeout: 5 * time.Minute, HeapMB: 2000,
		OnLine: func(b []byte) {
			var x struct {
				Peek map[string]any `json:"peek"`
			}
			if json.Unmarshal(b, &x) == nil && x.Peek != nil {
				cands = append(cands, x.Peek)
			}
		}})
	if err != nil || len(cands) == 0 {
		return []string{"unknown"}, nil
	}
	rb, _ := json.Marshal(r.Lines[line].Obs)
	var real map[string]any
	_ = json.Unmarshal(rb, &real)
	best := -1
	for _, cand := range cands {
		var d []string
		for k, rv := range real {
			cv := cand[k]
			rm, ok1 := rv.(map[string]any)
			cm, ok2 := cv.(map[string]any)
			if ok1 && ok2 {
				for kk, x := range rm {
					a, _ := json.Marshal(x)
					b, _ := json.Marshal(cm[kk])
					if string(a) != string(b) {
						d = append(d, k+"."+kk+": real "+string(a)+" model "+string(b))
					}
				}
				continue
			}
			a, _ := json.Marshal(rv)
			b, _ := json.Marshal(cv)
			if string(a) != string(b) {
				d = append(d, k+": real "+string(a)+" model "+string(b))
			}
		}
		if best < 0 || len(d) < best {
			best, fields, closest = len(d), d, cand
		}
	}
	sort.Strings(fields)
	return fields, closest
}

// relevant decides whether a difference between the real and the allowed observation concerns property p.
func relevant(p string, v *runView, line int, fields []string) bool {
	after := func(at int) bool { return at >= 0 && at <= line }
	anyCancel := false
	for _, l := range v.cancelAt {
		if after(l) {
			anyCancel = true
		}
	}
	anyFault := false
	for _, l := range v.faultAt {
		if after(l) {
			anyFault = true
		}
	}
	closing := after(v.closeAt) || after(v.csrvAt)
	for _, f := range fields {
		stuck := (strings.Contains(f, `real "blk"`) || strings.Contains(f, `real "tw"`)) && strings.HasPrefix(f, "app.")
		switch {
		case f == "unknown":
			return true
		case strings.HasPrefix(f, "neww"):
			if p == "C07" || p == "C01" || p == "C18" {
				return true
			}
		case strings.HasPrefix(f, "tclose"), strings.HasPrefix(f, "lib."), strings.HasPrefix(f, "closed"):
			if p == "C12" || (p == "C05" && anyFault) || (p == "C04" && anyCancel) || p == "C07" && strings.HasPrefix(f, "tclose") {
				return true
			}
			// a reader that is parked somewhere while the model has it back in Transport.Read: the connection cannot take the next RPC
			if (p == "C06" || p == "C10") && strings.HasPrefix(f, "lib.rd_") && strings.Contains(f, `real "blk"`) && strings.Contains(f, `model "tr"`) {
				return true
			}
		case strings.HasPrefix(f, "hmeta"):
			if p == "C11" {
				return true
			}
		case strings.HasPrefix(f, "hctx"), strings.HasPrefix(f, "unb"):
			if (p == "C04" && anyCancel) || (p == "C12" && closing) || (p == "C05" && anyFault) || p == "C06" {
				return true
			}
		case stuck:
			switch {
			case anyCancel:
				if p == "C04" {
					return true
				}
			case anyFault:
				if p == "C05" {
					return true
				}
			case closing:
				if p == "C12" {
					return true
				}
			default:
				if p == "C06" || p == "C01" {
					return true
				}
			}
		case strings.HasPrefix(f, "app."):
			msg := strings.Contains(f, `msg:`)
			rem := strings.Contains(f, `remote:`)
			switch {
			case msg && (p == "C01" || p == "C02"):
				return true
			case rem && p == "C10":
				return true
			case anyCancel && p == "C04", anyFault && p == "C05", closing && p == "C12":
				return true
			case !anyCancel && !anyFault && !closing && (p == "C01" || p == "C06"):
				return true
			}
		}
	}
	return false
}

// runSysFamily executes the scenario family, applies the monitors and validates every run against System.tla.
func runSysFamily(c *vf.Ctx, fam sysFamily, nTLC, nRand int) {
	rng := rand.New(rand.NewSource(c.Seed))
	own := fam.own
	if own == nil {
		own = map[string]bool{fam.prop: true}
	}
	// A. design check of the family's model configuration
	var dwg sync.WaitGroup
	if fam.design != nil {
		dwg.Add(1)
		go func() {
			defer dwg.Done()
			d := fam.design
			if !c.Quick() && fam.designT != nil {
				d = fam.designT
			}
			name, mod, cf := sysModule("design", d.cfg, d.maxRPC, d.maxStims, d.kinds, d.cfg.Points, d.invs)
			cf = strings.Replace(cf, "Gen = FALSE", "Gen = TRUE", 1) // realisable behaviours, exhaustively, bounded by MaxStims
			res, err := vf.TLC(vf.TLCOpts{Module: name, Cfg: cf, Extra: map[string]string{name + ".tla": mod}, Workers: 6, Timeout: 30 * time.Minute, HeapMB: 8000})
			if err != nil {
				c.Inconclusive("tlc: %v", err)
				return
			}
			if res.Violated != "" {
				c.Inconclusive("design check of System.tla for %s violates %s:\n%s", fam.prop, res.Violated, res.TraceText)
				return
			}
			if !res.Finished {
				c.Inconclusive("design check of System.tla for %s did not finish: %s\n%s", fam.prop, res.ErrorText, res.Tail)
				return
			}
			c.AddTLC(res)
			c.Cov["design_check"] = fmt.Sprintf("System.tla %s kinds=%v maxRPC=%d maxStims=%d: generated=%d distinct=%d depth=%d wall=%.1fs invariants=%s",
				cfgString(d.cfg), d.kinds, d.maxRPC, d.maxStims, res.Generated, res.Distinct, res.Depth, res.Wall.Seconds(), d.invs)
		}()
	}
	total, rejected, dropped, skipped := 0, 0, 0, 0
	var phases []string
	scenUsed := map[string]int{}
	for _, cfg := range fam.cfgs {
		var prefixes [][]sys.Stim
		tGen := time.Now()
		if nTLC > 0 {
			sysGen(c, cfg, fam.maxRPC, fam.plen, fam.kinds, nTLC, c.Seed, func(s []sys.Stim) { prefixes = append(prefixes, s) })
		}
		ntlc := len(prefixes)
		for i := 0; i < nRand; i++ {
			prefixes = append(prefixes, sysRandomStims(rng, cfg, fam.plen+rng.Intn(fam.plen), fam.weights))
		}
		var runs []*sysRun
		views := map[*sysRun]*runView{}
		genS := time.Since(tGen).Seconds()
		tExec := time.Now()
		for i, pre := range prefixes {
			w := sys.New(cfg)
			w.Begin()
			for _, st := range pre {
				w.Step(st)
			}
			ts := &tailState{Marks: map[string]int{}, Notes: map[string]string{}}
			ts.mark(w, "prefix")
			if len(fam.scen) > 0 {
				if sc := runScenario(w, rng, fam.scen...); sc != "" {
					ts.Notes["scenario"] = sc
					scenUsed[sc]++
				}
				ts.mark(w, "scenario")
			}
			if fam.tail != nil {
				fam.tail(w, rng, ts)
			}
			origin := "rnd"
			if i < ntlc {
				origin = "tlc"
			}
			r := &sysRun{Cfg: cfg, Stims: pre, Lines: w.Lines, Direct: w.Direct, Origin: origin}
			clean := w.Cleanup()
			if !w.Quiet {
				dropped++
				continue
			}
			if !clean {
				c.Warn("%s: goroutines left behind after a run", fam.prop)
			}
			v := view(r)
			views[r] = v
			var fs []finding
			for _, m := range fam.mons {
				fs = append(fs, m(v)...)
			}
			if fam.post != nil {
				fs = append(fs, fam.post(v, ts)...)
			}
			knownDefect := false
			for _, f := range fs {
				if own[f.Prop] {
					if fam.skipKnown && c.IsKnown(f.Sig) {
						knownDefect = true
					}
					c.Violation(f.Sig, map[string]any{"property": f.Prop, "config": cfgString(cfg), "at_line": f.At, "info": f.Info, "trace": traceDump(r, f.At)})
				} else {
					c.Warn("%s family: finding for %s: %s", fam.prop, f.Prop, f.Sig)
				}
			}
			b, _ := json.Marshal(r.Lines)
			c.Eval(cfgString(cfg) + string(b))
			if knownDefect {
				// the run shows a recorded defect the model does not have: it is reported above; validating it would only
				// reject it again (and cost a diagnosis run)
				skipped++
				total++
				continue
			}
			runs = append(runs, r)
		}
		total += len(runs)
		execS := time.Since(tExec).Seconds()
		tVal := time.Now()
		rej, val := sysValidate(c, cfg, runs, 8)
		c.TraceValidated(int64(val))
		phases = append(phases, fmt.Sprintf("%s: prefixes=%d (tlc %d) gen=%.1fs exec=%.1fs validate=%.1fs rejected=%d", cfgString(cfg), len(prefixes), ntlc, genS, execS, time.Since(tVal).Seconds(), len(rej)))
		for r, line := range rej {
			rejected++
			v := views[r]
			if r.InvViolated != "" {
				// a design invariant failed in a state reached by following the real run; the Go monitors decide
				// the property, this is recorded as a conformance note
				c.Warn("%s family: design invariant %s fails along a real run (%s)", fam.prop, r.InvViolated, cfgString(cfg))
				continue
			}
			fields, closest := diagnose(c, r, line)
			if relevant(fam.prop, v, line, fields) {
				c.Violation(fmt.Sprintf("behaviour not allowed by System.tla: %s", strings.Join(fieldNames(fields), ",")),
					map[string]any{"config": cfgString(cfg), "first_unmatched_line": line, "differences": fields, "closest_allowed": closest, "trace": traceDump(r, line)})
			} else {
				c.Warn("%s family: a run diverges from System.tla in observables outside this property: %v", fam.prop, fields)
				if b, err := json.MarshalIndent(map[string]any{"config": cfgString(cfg), "first_unmatched_line": line, "differences": fields, "closest_allowed": closest, "trace": traceDump(r, line)}, "", " "); err == nil {
					_ = os.MkdirAll(vf.OutDir(), 0o755)
					_ = os.WriteFile(fmt.Sprintf("%s/%s-divergence-%d.json", vf.OutDir(), fam.prop, rejected), b, 0o644)
				}
			}
		}
		if len(runs) > 0 {
			c.Sample(map[string]any{"config": cfgString(cfg), "trace": traceDump(runs[len(runs)/2], len(runs[len(runs)/2].Lines)-1)})
		}
	}
	dwg.Wait()
	c.Cov["directed_scenarios_run"] = scenUsed
	c.Cov["phases"] = phases
	c.Cov["runs_recorded"] = total
	c.Cov["runs_rejected_by_trace_validation"] = rejected
	c.Cov["runs_not_quiescent_dropped"] = dropped
	if skipped > 0 {
		c.Cov["runs_showing_a_known_finding_not_validated"] = skipped
	}
	c.Cov["exhaustive"] = false
	if os.Getenv("VERIF_DEBUG") != "" {
		fmt.Fprintf(os.Stderr, "%s: runs=%d rejected=%d dropped=%d\n", fam.prop, total, rejected, dropped)
	}
}

func fieldNames(fields []string) []string {
	seen := map[string]bool{}
	var out []string
	for _, f := range fields {
		n := strings.SplitN(f, ":", 2)[0]
		if strings.HasPrefix(n, "app.") || strings.HasPrefix(n, "lib.") {
			// keep the class of the difference, not the thread name
			rest := strings.SplitN(f, ": ", 2)[1]
			n = n[:3] + "(" + rest + ")"
		}
		if !seen[n] {
			seen[n] = true
			out = append(out, n)
		}
	}
	sort.Strings(out)
	return out
}

func traceDump(r *sysRun, upto int) []string {
	var out []string
	for i, l := range r.Lines {
		if i > upto {
			break
		}
		s, _ := json.Marshal(l.Stim)
		o, _ := json.Marshal(l.Obs)
		wh, _ := json.Marshal(l.Where)
		out = append(out, strconv.Itoa(i)+" "+string(s)+" -> "+string(o)+" where="+string(wh))
	}
	return out
}
