package checks

import (
	"context"
	"errors"
	"fmt"
	"net"
	"sync"
	"sync/atomic"

	"storj.io/drpc"
	"storj.io/drpc/drpcconn"
	"storj.io/drpc/drpcserver"

	"verif/dir"
	"verif/vf"
)

type countConn struct {
	net.Conn
	closes atomic.Int32
}

func (c *countConn) Close() error { c.closes.Add(1); return c.Conn.Close() }

type fakeListener struct {
	ch     chan net.Conn
	closed chan struct{}
	once   sync.Once
}

func (l *fakeListener) Accept() (net.Conn, error) {
	select {
	case c := <-l.ch:
		return c, nil
	case <-l.closed:
		return nil, errors.New("listener closed")
	}
}
func (l *fakeListener) Close() error   { l.once.Do(func() { close(l.closed) }); return nil }
func (l *fakeListener) Addr() net.Addr { return &net.UnixAddr{Name: "fake"} }

type gateHandler struct{ g dir.Gate }

func (h *gateHandler) HandleRPC(stream drpc.Stream, rpc string) error {
	<-stream.Context().Done()
	h.g.Wait() // user code that is still busy after its context was cancelled
	return nil
}

// serveTeardown: drpcserver.Serve returns only after every connection it accepted has been fully torn down.
func serveTeardown(c *vf.Ctx) {
	for _, n := range []int{1, 3} {
		d := dir.NewDirector()
		h := &gateHandler{}
		srv := drpcserver.New(h)
		lis := &fakeListener{ch: make(chan net.Conn), closed: make(chan struct{})}
		ctx, cancel := context.WithCancel(context.Background())
		d.Go("serve", func() string { return sys_ErrClass(srv.Serve(ctx, lis)) })
		var sconns []*countConn
		var clients []*drpcconn.Conn
		enc := &dir.GateEnc{}
		for i := 0; i < n; i++ {
			a, b := net.Pipe()
			sc := &countConn{Conn: b}
			sconns = append(sconns, sc)
			lis.ch <- sc
			cl := drpcconn.New(a)
			clients = append(clients, cl)
			name := fmt.Sprintf("cl%d", i)
			d.Go(name, func() string {
				var out dir.Msg
				return sys_ErrClass(cl.Invoke(context.Background(), "/x", enc, &dir.Msg{Data: []byte("q")}, &out))
			})
		}
		d.Quiesce()
		cancel()
		snap, ok := d.Quiesce()
		c.EvalN(1)
		if !ok {
			c.Warn("serve teardown: no quiescence")
			continue
		}
		// all handlers are parked in user code: Serve must still be waiting
		if _, busy := snap.Threads["serve"]; !busy {
			c.Violation("Serve returned while handlers of accepted connections were still running", map[string]any{"connections": n})
		}
		for h.g.Waiting() > 0 {
			h.g.Release()
		}
		snap, _ = d.Quiesce()
		if _, busy := snap.Threads["serve"]; busy {
			c.Violation("Serve does not return after its context was cancelled and all handlers returned ["+whereSig(map[string]string{"serve": snap.Threads["serve"].Frame})+"]", map[string]any{"connections": n})
		}
		for i, sc := range sconns {
			if k := sc.closes.Load(); k != 1 {
				c.Violation(fmt.Sprintf("Serve returned with an accepted transport closed %d times", k), map[string]any{"connection": i})
			}
		}
		for _, g := range snap.Lib {
			if g.Has("drpcserver.") || g.Has("drpcmanager.(*Manager).manage") && g.Creator != 0 {
				// client-side managers are still alive (their transports were closed by the peer; they exit on their own)
			}
		}
		for _, cl := range clients {
			_ = cl.Close()
		}
		d.Quiesce()
	}
}
