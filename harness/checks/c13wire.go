package checks

import "verif/vf"

// C13Wire runs the hostile frame sequences of Wire.tla (mode reasm: every short frame
// sequence over the id/kind/done/control/payload alphabet followed by the hostile tails)
// through the real drpcwire.Reader under the read partitions of C09, with the oracle
// "no panic, a value or an error, allocation within 4*Max+64KiB" only.  It is not
// registered as a check of its own: C13 is the union of such enumerations.
func C13Wire(c *vf.Ctx) {
	defer relaxGC()()
	e := newWireEngine(c, true)
	q := c.Quick()
	plan := []reasmCfg{
		{label: "C13 wire: hostile tails after <=2 frames, Max in {1,64}", cfgs: "{<<1,2,1>>,<<64,2,1>>}", idRels: idsFull, kindRels: kindsBoth, ctls: "BOOLEAN", pays: paysFull, fins: finsAll, allEvery: 256, nRandom: 3},
		{label: "C13 wire: hostile tails, Max in {4067,4069}", cfgs: "{<<4067,1,1>>,<<4069,1,1>>}", idRels: idsNoLs, kindRels: kindsBoth, ctls: "BOOLEAN", pays: paysEdge, fins: finsAll, allEvery: 1, nRandom: 3},
	}
	if !q {
		plan = append(plan,
			reasmCfg{label: "C13 wire: depth 3, Max=2", cfgs: "{<<2,3,1>>}", idRels: idsNoLs, kindRels: kindsBoth, ctls: "BOOLEAN", pays: paysEdge, fins: `{"eof","noprog"}`, allEvery: 256, nRandom: 3},
			reasmCfg{label: "C13 wire: default Max", cfgs: "{<<4194304,1,1>>}", idRels: idsUp, kindRels: `{"same"}`, ctls: "{FALSE}", pays: paysEdge, fins: `{"eof"}`, allEvery: 1, light: true, workers: 8})
	}
	for _, rc := range plan {
		wc := wireBase("reasm")
		wc.defs["Cfgs"], wc.defs["IdRels"], wc.defs["KindRels"], wc.defs["Ctls"], wc.defs["Pays"], wc.defs["Fins"] = rc.cfgs, rc.idRels, rc.kindRels, rc.ctls, rc.pays, rc.fins
		e.allEvery, e.pairEvery, e.light = rc.allEvery, 16, rc.light
		if rc.nRandom > 0 {
			e.nRandom = rc.nRandom
		}
		wireRun(c, rc.label, wc, rc.workers, e.record)
	}
	e.finish("wire_")
}
