package checks

// Codec parts of C10 (error payload), C11 (metadata encoding) and their contribution to C13
// (decoders never panic).  Self-contained functions called by the connection-level checks:
//
//	MetaCodec(c)   spec/MetaCodec.tla  -> drpcmetadata.Decode / Encode
//	ErrorCodec(c)  spec/ErrCodec.tla   -> drpcwire.MarshalError / UnmarshalError, drpcerr.Code / WithCode
//	C13Codecs(c)   the hostile parts of both specs under a no-panic / value-or-error oracle
//
// plus two case generators for the connection-level checks: ErrCodecCases and MetaMapCases.
// The TLA+ specs are the oracle; the Go code below only concretises abstract symbols into bytes /
// error values and lifts real results back.

import (
	"bytes"
	"encoding/binary"
	"encoding/json"
	"errors"
	"fmt"
	"math/rand"
	"sort"
	"strings"
	"sync"
	"time"

	"github.com/zeebo/errs"
	"google.golang.org/protobuf/encoding/protowire"
	"google.golang.org/protobuf/proto"
	"google.golang.org/protobuf/reflect/protodesc"
	"google.golang.org/protobuf/reflect/protoreflect"
	"google.golang.org/protobuf/types/descriptorpb"
	"google.golang.org/protobuf/types/dynamicpb"

	"storj.io/drpc/drpcerr"
	"storj.io/drpc/drpcmetadata"
	"storj.io/drpc/drpcwire"

	"verif/vf"
)

func init() {
	SpecModules = append(SpecModules, "MetaCodec", "ErrCodec")
}

// ---------------------------------------------------------------------------------------------
// shared helpers
// ---------------------------------------------------------------------------------------------

// codecMu serialises the record call-backs and coverage notes of TLC runs that are in flight together.
var codecMu sync.Mutex

func covAppend(c *vf.Ctx, key, line string) {
	codecMu.Lock()
	defer codecMu.Unlock()
	parts, _ := c.Cov[key].([]string)
	c.Cov[key] = append(parts, line)
	sort.Strings(c.Cov[key].([]string))
}

// tlcJobs runs several small TLC enumerations side by side (each is dominated by JVM start-up and
// printing); their call-backs are serialised by codecMu.
type tlcJobs struct{ fs []func() }

func (j *tlcJobs) meta(c *vf.Ctx, covKey string, mc metaConsts, fn func(r *metaRec)) {
	j.fs = append(j.fs, func() { metaRun(c, covKey, mc, fn) })
}

func (j *tlcJobs) err(c *vf.Ctx, covKey, mode, shapes, shortBytes string, shortMax int, fn func(r *errRec)) {
	j.fs = append(j.fs, func() { errRun(c, covKey, mode, shapes, shortBytes, shortMax, fn) })
}

func (j *tlcJobs) wait() {
	var wg sync.WaitGroup
	for _, f := range j.fs {
		wg.Add(1)
		go func(f func()) { defer wg.Done(); f() }(f)
	}
	wg.Wait()
	j.fs = nil
}

// runBounded runs f in its own goroutine under recover and waits at most d for it.  A hang is
// decided by the goroutine census: a violation only if the goroutine is (still) inside a drpc frame
// in two snapshots, inconclusive otherwise.
func runBounded(c *vf.Ctx, what string, replay any, d time.Duration, f func()) (panicked any, finished bool) {
	type res struct{ p any }
	done := make(chan res, 1)
	gid := make(chan int64, 1)
	go func() {
		gid <- vf.GoID()
		var p any
		defer func() {
			if r := recover(); r != nil {
				p = r
			}
			done <- res{p}
		}()
		f()
	}()
	id := <-gid
	select {
	case r := <-done:
		return r.p, true
	case <-time.After(d):
	}
	inside := func() string {
		for _, g := range vf.Census() {
			if g.ID == id {
				return g.Innermost("storj.io/drpc/")
			}
		}
		return ""
	}
	a := inside()
	time.Sleep(500 * time.Millisecond)
	select {
	case r := <-done: // finished late: slow machine, not a hang
		return r.p, true
	default:
	}
	b := inside()
	if a != "" && b != "" {
		c.Violation(fmt.Sprintf("%s does not return: goroutine stays inside %s", what, shortFunc(b)), replay)
	} else {
		c.Inconclusive("%s did not return within %v and the census does not show it inside drpc (%q, %q)", what, d, a, b)
	}
	return nil, false
}

func shortFunc(f string) string {
	if i := strings.LastIndex(f, "/"); i >= 0 {
		return f[i+1:]
	}
	return f
}

func hexHead(b []byte, n int) string {
	if len(b) > n {
		return fmt.Sprintf("%x...(%d bytes)", b[:n], len(b))
	}
	return fmt.Sprintf("%x", b)
}

// ---------------------------------------------------------------------------------------------
// MetaCodec.tla
// ---------------------------------------------------------------------------------------------

type metaWant struct {
	Enc []int `json:"enc"`
	K   []int `json:"k"`
	V   []int `json:"v"`
}

// metaRec is one oracle record printed by MetaCodec.tla.
type metaRec struct {
	Mode string `json:"mode"`
	In   []int  `json:"in"`
	R    struct {
		Res string    `json:"res"`
		M   [][][]int `json:"m"`
		Why string    `json:"why"`
	} `json:"r"`
	P    string     `json:"p"`
	Want []metaWant `json:"want"`
}

type metaConsts struct {
	defs  map[string]string
	plain map[string]string
}

const metaAllDefects = `{"none","ktag12","ktag1A","ktag08","vtag0A","vtag1A","vtag10","klen+1","klen-1","klenNM","klen10","klen11","klenBig","klenCut",` +
	`"vlen+1","vlen-1","vlenNM","vlen10","vlen11","vlenHuge","swap","nokey","noval","empty","dupkey","dupval","unk","unkmid","trail",` +
	`"elen+1","elen-1","elenNM","elen10","elen11","elenHuge","etag12","etag1A","etag08","etag0B"}`

func metaBase() metaConsts {
	return metaConsts{
		defs: map[string]string{
			// 0A 12 entry/key/value tags (also lengths 10, 18 and payload), 0 1 2 inner lengths, 4 5 6 entry lengths,
			// 81 continuation (non-minimal / multi-byte lengths), 1A another tag, 61 payload, 7F a length that is too big
			"Bytes":      "{10,18,0,1,2,4,5,6,129,26,97,127}",
			"Keys":       "{<<>>, <<97>>, <<10,18>>}",
			"Vals":       "{<<>>, <<120>>}",
			"Defects":    metaAllDefects,
			"KeyClasses": "{[id |-> 1, len |-> 0],[id |-> 2, len |-> 1],[id |-> 3, len |-> 1],[id |-> 4, len |-> 127],[id |-> 5, len |-> 128],[id |-> 6, len |-> 16383],[id |-> 7, len |-> 16384]}",
			"ValLens":    "{0,1,127,128,16384}",
			"ManySizes":  "{10,100}",
		},
		plain: map[string]string{"Mode": `"dec"`, "MaxLen": "7", "MaxEntries": "2"},
	}
}

const metaInvs = "TypeOK Deterministic Budget MinEntry StrictRefinesProto RoundTrip EncIsProto Emit"

// metaRun runs one TLC mode of MetaCodec.tla and hands every record to fn.
func metaRun(c *vf.Ctx, covKey string, mc metaConsts, fn func(r *metaRec)) bool {
	name, mod, consts := vf.MCModule("MetaCodec", mc.defs, mc.plain)
	cfg := "SPECIFICATION Spec\n" + consts + "INVARIANTS " + metaInvs + "\nPROPERTY ErrSticky\nCHECK_DEADLOCK FALSE\n"
	n := 0
	res, err := vf.TLC(vf.TLCOpts{Module: name, Cfg: cfg, Extra: map[string]string{name + ".tla": mod},
		Seed: c.Seed, Timeout: 30 * time.Minute, HeapMB: 3000, Workers: 4,
		OnLine: func(b []byte) {
			var r metaRec
			if err := json.Unmarshal(b, &r); err != nil {
				c.Inconclusive("unparsable MetaCodec record: %v", err)
				return
			}
			codecMu.Lock()
			n++
			fn(&r)
			codecMu.Unlock()
		}})
	if err != nil {
		c.Inconclusive("tlc: %v", err)
		return false
	}
	if !res.Finished {
		c.Inconclusive("TLC run %s mode %s did not finish cleanly: violated=%q err=%q timeout=%v\n%s", name, mc.plain["Mode"], res.Violated, res.ErrorText, res.TimedOut, res.Tail)
		return false
	}
	c.AddTLC(res)
	covAppend(c, covKey, fmt.Sprintf("MetaCodec mode=%s maxlen=%s maxentries=%s bytes=%s: generated=%d distinct=%d records=%d wall=%.1fs",
		mc.plain["Mode"], mc.plain["MaxLen"], mc.plain["MaxEntries"], mc.defs["Bytes"], res.Generated, res.Distinct, n, res.Wall.Seconds()))
	return true
}

// metaFill concretises the runs of one case: string id of n bytes, the same bytes every time it is asked for.
type metaFill struct {
	rng   *rand.Rand
	kind  int
	cache map[[2]int][]byte
}

func newMetaFill(seed int64, kind int) *metaFill {
	return &metaFill{rng: rand.New(rand.NewSource(seed)), kind: kind, cache: map[[2]int][]byte{}}
}

var metaFillKinds = []string{"ascii", "random bytes", "tag look-alikes", "invalid utf-8 / high bytes"}

func (f *metaFill) get(id, n int) []byte {
	if b, ok := f.cache[[2]int{id, n}]; ok {
		return b
	}
	b := make([]byte, n)
	switch f.kind % 4 {
	case 0:
		for i := range b {
			b[i] = byte('a' + f.rng.Intn(26))
		}
	case 1:
		f.rng.Read(b)
	case 2:
		pat := []byte{0x0a, 0x12, 0x00, 0x04, 0x0a, 0x01, 0x80}
		for i := range b {
			b[i] = pat[f.rng.Intn(len(pat))]
		}
	case 3:
		pat := []byte{0xff, 0x80, 0xc0, 0xfe, 0x00}
		for i := range b {
			b[i] = pat[f.rng.Intn(len(pat))]
		}
	}
	if n > 0 { // distinct ids are distinct strings even when the lengths agree
		b[0] = byte(0x30 + id)
	}
	f.cache[[2]int{id, n}] = b
	return b
}

// concretise turns items (byte, or run -(16n+id)) into bytes.
func (f *metaFill) bytes(items []int) []byte {
	var out []byte
	for _, x := range items {
		if x >= 0 {
			out = append(out, byte(x))
		} else {
			out = append(out, f.get((-x)%16, (-x)/16)...)
		}
	}
	return out
}

func (f *metaFill) demandedMap(m [][][]int) map[string]string {
	out := map[string]string{}
	for _, kv := range m {
		out[string(f.bytes(kv[0]))] = string(f.bytes(kv[1]))
	}
	return out
}

func sameMap(a, b map[string]string) bool {
	if len(a) != len(b) {
		return false
	}
	for k, v := range a {
		if w, ok := b[k]; !ok || w != v {
			return false
		}
	}
	return true
}

func mapBrief(m map[string]string) any {
	type kv struct{ K, V string }
	out := []kv{}
	for k, v := range m {
		out = append(out, kv{hexHead([]byte(k), 24), hexHead([]byte(v), 24)})
	}
	sort.Slice(out, func(i, j int) bool { return out[i].K < out[j].K })
	if len(out) > 8 {
		out = out[:8]
	}
	return out
}

// checkMetaDecode runs the real Decode on the concretised input and compares with the demanded answer.
func checkMetaDecode(c *vf.Ctx, r *metaRec, f *metaFill, onlyTotal bool) {
	buf := f.bytes(r.In)
	in := append([]byte(nil), buf...)
	var m map[string]string
	var err error
	if p := guard(func() { m, err = drpcmetadata.Decode(in) }); p != nil {
		c.Violation("drpcmetadata.Decode panic ("+panicClass(p)+")", map[string]any{"input": r.In, "demanded": r.R, "panic": fmt.Sprint(p)})
		return
	}
	if err != nil && m != nil {
		c.Violation("drpcmetadata.Decode returns a map together with an error", map[string]any{"input": r.In})
		return
	}
	total := 0
	for k, v := range m {
		total += len(k) + len(v)
	}
	if total > len(buf) {
		c.Violation("drpcmetadata.Decode returns more bytes than it was given", map[string]any{"input": r.In})
		return
	}
	if onlyTotal {
		return
	}
	switch r.R.Res {
	case "ok":
		want := f.demandedMap(r.R.M)
		if err != nil {
			c.Violation("drpcmetadata.Decode rejects a well-formed encoding", map[string]any{"input": hexHead(buf, 64), "items": headInts(r.In), "demanded": mapBrief(want), "err": err.Error()})
		} else if !sameMap(m, want) {
			c.Violation("drpcmetadata.Decode returns a different map", map[string]any{"input": hexHead(buf, 64), "items": headInts(r.In), "demanded": mapBrief(want), "got": mapBrief(m)})
		}
	case "err":
		if err == nil {
			c.Violation("drpcmetadata.Decode accepts malformed bytes ("+whyClass(r.R.Why)+")", map[string]any{"input": hexHead(buf, 64), "items": headInts(r.In), "why": r.R.Why, "got": mapBrief(m)})
		}
	default:
		c.Inconclusive("MetaCodec record with result %q", r.R.Res)
	}
}

func headInts(in []int) []int {
	if len(in) > 64 {
		return in[:64]
	}
	return in
}

func whyClass(w string) string {
	if strings.HasPrefix(w, "truncated") {
		return "truncated"
	}
	return w
}

func panicClass(p any) string {
	s := fmt.Sprint(p)
	switch {
	case strings.Contains(s, "out of range"):
		return "index or slice out of range"
	case strings.Contains(s, "nil pointer"):
		return "nil pointer dereference"
	case strings.Contains(s, "uncomparable"):
		return "comparing uncomparable type"
	case strings.Contains(s, "nil map"):
		return "assignment to nil map"
	case strings.Contains(s, "makeslice"), strings.Contains(s, "out of memory"):
		return "allocation"
	}
	if len(s) > 40 {
		s = s[:40]
	}
	return s
}

// pwEntry builds the protobuf encoding of one map<string,string> = 1 entry with protowire.
func pwEntry(k, v string) []byte {
	e := protowire.AppendTag(nil, 1, protowire.BytesType)
	e = protowire.AppendString(e, k)
	e = protowire.AppendTag(e, 2, protowire.BytesType)
	e = protowire.AppendString(e, v)
	out := protowire.AppendTag(nil, 1, protowire.BytesType)
	return protowire.AppendBytes(out, e)
}

// permutationOf reports whether data is the concatenation of the entries in some order.  An entry
// starts with its own length, so no entry is a proper prefix of a different one and greedy matching decides.
func permutationOf(data []byte, entries [][]byte) bool {
	used := make([]bool, len(entries))
	pos := 0
	for n := 0; n < len(entries); n++ {
		hit := -1
		for i, e := range entries {
			if !used[i] && bytes.HasPrefix(data[pos:], e) {
				hit = i
				break
			}
		}
		if hit < 0 {
			return false
		}
		used[hit] = true
		pos += len(entries[hit])
	}
	return pos == len(data)
}

// metaDesc describes `message Metadata { map<string,string> data = 1; }` for the real protobuf
// library.  proto2 syntax so that the library does not apply proto3's UTF-8 validation to strings
// (that is a semantic check of the library, not part of the wire format).
var metaDesc = func() protoreflect.MessageDescriptor {
	str := descriptorpb.FieldDescriptorProto_TYPE_STRING.Enum()
	opt := descriptorpb.FieldDescriptorProto_LABEL_OPTIONAL.Enum()
	fdp := &descriptorpb.FileDescriptorProto{
		Name:    proto.String("metadata.proto"),
		Package: proto.String("metadata"),
		MessageType: []*descriptorpb.DescriptorProto{{
			Name: proto.String("Metadata"),
			Field: []*descriptorpb.FieldDescriptorProto{{
				Name: proto.String("data"), JsonName: proto.String("data"), Number: proto.Int32(1),
				Label:    descriptorpb.FieldDescriptorProto_LABEL_REPEATED.Enum(),
				Type:     descriptorpb.FieldDescriptorProto_TYPE_MESSAGE.Enum(),
				TypeName: proto.String(".metadata.Metadata.DataEntry"),
			}},
			NestedType: []*descriptorpb.DescriptorProto{{
				Name: proto.String("DataEntry"),
				Field: []*descriptorpb.FieldDescriptorProto{
					{Name: proto.String("key"), JsonName: proto.String("key"), Number: proto.Int32(1), Label: opt, Type: str},
					{Name: proto.String("value"), JsonName: proto.String("value"), Number: proto.Int32(2), Label: opt, Type: str},
				},
				Options: &descriptorpb.MessageOptions{MapEntry: proto.Bool(true)},
			}},
		}},
	}
	fd, err := protodesc.NewFile(fdp, nil)
	if err != nil {
		return nil
	}
	return fd.Messages().Get(0)
}()

// pbDecode decodes with the real protobuf library.
func pbDecode(data []byte) (map[string]string, error) {
	msg := dynamicpb.NewMessage(metaDesc)
	if err := proto.Unmarshal(data, msg); err != nil {
		return nil, err
	}
	out := map[string]string{}
	msg.Get(metaDesc.Fields().Get(0)).Map().Range(func(k protoreflect.MapKey, v protoreflect.Value) bool {
		out[k.String()] = v.String()
		return true
	})
	return out, nil
}

// pbEncode encodes with the real protobuf library.
func pbEncode(m map[string]string) ([]byte, error) {
	msg := dynamicpb.NewMessage(metaDesc)
	mp := msg.Mutable(metaDesc.Fields().Get(0)).Map()
	for k, v := range m {
		mp.Set(protoreflect.ValueOfString(k).MapKey(), protoreflect.ValueOfString(v))
	}
	return proto.MarshalOptions{Deterministic: true}.Marshal(msg)
}

// checkMetaEncode: the real Encode on the concretised map against the layout the spec demands.
func checkMetaEncode(c *vf.Ctx, r *metaRec, f *metaFill, rng *rand.Rand) {
	m := map[string]string{}
	var entries [][]byte
	for _, w := range r.Want {
		k, v := string(f.bytes(w.K)), string(f.bytes(w.V))
		if _, dup := m[k]; dup {
			c.Inconclusive("concretisation produced equal keys for distinct key classes")
			return
		}
		m[k] = v
		e := f.bytes(w.Enc)
		entries = append(entries, e)
		// the spec's layout and the protobuf library's must be the same bytes; if not, the spec is in doubt
		if !bytes.Equal(e, pwEntry(k, v)) {
			c.Inconclusive("MetaCodec.tla entry layout differs from protowire for klen=%d vlen=%d", len(k), len(v))
			return
		}
	}
	desc := map[string]any{"entries": len(m), "class": classOfWant(r.Want), "fill": metaFillKinds[f.kind%4]}
	prefix := make([]byte, rng.Intn(4))
	rng.Read(prefix)
	var out []byte
	var err error
	if p := guard(func() { out, err = drpcmetadata.Encode(append([]byte(nil), prefix...), m) }); p != nil {
		desc["panic"] = fmt.Sprint(p)
		c.Violation("drpcmetadata.Encode panic", desc)
		return
	}
	if err != nil {
		desc["err"] = err.Error()
		c.Violation("drpcmetadata.Encode returns an error", desc)
		return
	}
	if len(out) < len(prefix) || !bytes.Equal(out[:len(prefix)], prefix) {
		c.Violation("drpcmetadata.Encode does not append to the given buffer", desc)
		return
	}
	enc := out[len(prefix):]
	desc["got"] = hexHead(enc, 48)
	if !permutationOf(enc, entries) {
		if len(entries) > 0 {
			desc["demanded_first_entry"] = hexHead(entries[0], 48)
		}
		c.Violation("drpcmetadata.Encode bytes are not the protobuf map<string,string>=1 entries", desc)
		return
	}
	// round trip through the real decoder, from the real encoder's bytes and from the spec's order
	for i, data := range [][]byte{enc, f.bytes(r.In)} {
		got, derr := drpcmetadata.Decode(append([]byte(nil), data...))
		if derr != nil || !sameMap(got, m) {
			desc["decode_err"] = fmt.Sprint(derr)
			desc["got_map"] = mapBrief(got)
			c.Violation([]string{"drpcmetadata.Decode(Encode(m)) != m", "drpcmetadata.Decode of the demanded encoding != m"}[i], desc)
			return
		}
	}
	if r.R.Res != "ok" || !sameMap(f.demandedMap(r.R.M), m) {
		c.Inconclusive("MetaCodec.tla enc record does not decode to its own map in the model")
		return
	}
	// the real protobuf library reads what Encode wrote, and Decode reads what the library writes
	if metaDesc != nil {
		got, perr := pbDecode(enc)
		if perr != nil || !sameMap(got, m) {
			desc["protobuf_err"] = fmt.Sprint(perr)
			c.Violation("protobuf library does not read drpcmetadata.Encode output as the same map", desc)
			return
		}
		pb, perr := pbEncode(m)
		if perr != nil || !permutationOf(pb, entries) {
			c.Inconclusive("protobuf library output differs from the MetaCodec.tla layout (%v)", perr)
			return
		}
		got, derr := drpcmetadata.Decode(pb)
		if derr != nil || !sameMap(got, m) {
			desc["decode_err"] = fmt.Sprint(derr)
			c.Violation("drpcmetadata.Decode does not read the protobuf library's encoding as the same map", desc)
			return
		}
	}
}

func classOfWant(w []metaWant) string {
	var parts []string
	for _, e := range w {
		kl, vl := 0, 0
		for _, x := range e.K {
			kl += itemLen16(x)
		}
		for _, x := range e.V {
			vl += itemLen16(x)
		}
		parts = append(parts, fmt.Sprintf("k%d/v%d", kl, vl))
		if len(parts) == 6 {
			parts = append(parts, "...")
			break
		}
	}
	return strings.Join(parts, ",")
}

func itemLen16(x int) int {
	if x < 0 {
		return (-x) / 16
	}
	return 1
}

func metaKey(r *metaRec, kind int) string {
	if r.Mode == "enc" {
		return fmt.Sprintf("meta:enc:%d:%v", kind, r.In)
	}
	return fmt.Sprintf("meta:%v", r.In)
}

// MetaMapCases hands the maps of MetaCodec.tla's enc mode (concretised) to each; used by the
// connection-level part of C11 to choose the metadata it attaches to calls.
func MetaMapCases(c *vf.Ctx, maxEntries int, each func(key string, m map[string]string)) bool {
	mc := metaBase()
	mc.plain["Mode"], mc.plain["MaxEntries"] = `"enc"`, fmt.Sprint(maxEntries)
	i := 0
	return metaRun(c, "codec_tlc_runs", mc, func(r *metaRec) {
		i++
		f := newMetaFill(c.Seed*1000003+int64(i), i)
		m := map[string]string{}
		for _, w := range r.Want {
			m[string(f.bytes(w.K))] = string(f.bytes(w.V))
		}
		each(fmt.Sprintf("%s fill=%d", classOfWant(r.Want), i%4), m)
	})
}

// MetaCodec — codec part of C11: Decode agrees with the entry grammar on every class string, Encode emits
// exactly the protobuf layout (entry multiset), both round-trip.
func MetaCodec(c *vf.Ctx) {
	defer func(t time.Time) { c.Cov["metacodec_wall_s"] = time.Since(t).Seconds() }(time.Now())
	rng := rand.New(rand.NewSource(c.Seed))
	q := c.Quick()
	c.Assume = append(c.Assume,
		"metadata encoding: the description is spec/MetaCodec.tla (protobuf wire format of `map<string,string> = 1`, what v0.0.17's gogo-generated invoke.Metadata emits, and the strict entry grammar of drpcmetadata/serialize.go); TLC checks that every input the strict grammar accepts is read as the same map by the lenient protobuf reading (StrictRefinesProto)",
		"metadata decoder: the demanded answer is the strict grammar (key field then value field, nothing else); inputs a lenient protobuf decoder would accept but the grammar rejects are counted (strictness_gap), not judged",
		"metadata strings: lengths 0,1,127,128,16383,16384 and maps of up to 3 (quick 2) abstract entries or 10/100 small ones are enumerated by TLC; the bytes of long strings are chosen by the harness (ascii, random, tag look-alikes, invalid UTF-8), seeded",
		"the real protobuf library cross-check uses a proto2 descriptor so that proto3's UTF-8 validation of strings (not a wire-format matter) does not apply")
	plain := newMetaFill(0, 0)
	gap, okc := 0, 0
	var jobs tlcJobs

	decode := func(r *metaRec) {
		checkMetaDecode(c, r, plain, false)
		c.Eval(metaKey(r, 0))
		c.TraceValidated(1)
		if r.R.Res == "ok" {
			okc++
			if len(r.R.M) > 1 {
				c.Sample(map[string]any{"spec": "MetaCodec", "mode": r.Mode, "input": r.In, "demanded": r.R})
			}
		} else if r.P == "ok" {
			gap++
		}
	}

	// 1. every class string (extension of a not yet malformed prefix) up to MaxLen
	mc := metaBase()
	mc.plain["MaxLen"] = "7"
	if !q {
		mc.plain["MaxLen"] = "8"
	}
	jobs.meta(c, "codec_tlc_runs", mc, decode)

	// 2. all 256 byte values at each of the first positions
	mc = metaBase()
	mc.defs["Bytes"] = "0..255"
	mc.plain["MaxLen"] = "3" // 4 would be 8.4 million strings (two-byte entry lengths x any two bytes)
	jobs.meta(c, "codec_tlc_runs", mc, decode)

	// 3. structure product: entries x defects, cut-offs, last-wins merging
	mc = metaBase()
	mc.plain["Mode"] = `"struct"`
	if !q {
		mc.defs["Keys"] = "{<<>>, <<97>>, <<10,18>>, <<98,99,100>>}"
		mc.defs["Vals"] = "{<<>>, <<120>>, <<121, 0>>}"
	}
	jobs.meta(c, "codec_tlc_runs", mc, decode)
	// duplicate keys with different values: last one wins (only two keys so that collisions are frequent)
	mc = metaBase()
	mc.plain["Mode"], mc.plain["MaxEntries"] = `"struct"`, "3"
	mc.defs["Keys"], mc.defs["Vals"] = "{<<>>, <<97>>}", "{<<>>, <<120>>, <<121, 122>>}"
	mc.defs["Defects"] = `{"none", "elenNM", "klen10"}`
	if !q {
		mc.defs["Defects"] = `{"none", "elenNM", "klen10", "vlen+1", "trail", "unk", "swap", "dupkey"}`
	}
	jobs.meta(c, "codec_tlc_runs", mc, decode)

	// 4. encode direction: layout per entry, multiset comparison, round trips, real protobuf library
	mc = metaBase()
	mc.plain["Mode"] = `"enc"`
	rounds := 2
	if !q {
		mc.plain["MaxEntries"] = "3"
		rounds = 4
	}
	ncase := 0
	jobs.meta(c, "codec_tlc_runs", mc, func(r *metaRec) {
		ncase++
		for k := 0; k < rounds; k++ {
			f := newMetaFill(c.Seed*7919+int64(ncase)*16+int64(k), ncase+k)
			checkMetaEncode(c, r, f, rng)
			c.Eval(metaKey(r, (ncase+k)%4))
		}
		c.TraceValidated(1)
		if len(r.Want) == 2 && ncase%97 == 0 {
			c.Sample(map[string]any{"spec": "MetaCodec", "mode": "enc", "entries_demanded": r.Want})
		}
	})
	jobs.wait()
	if metaDesc == nil {
		c.Warn("protobuf descriptor for the metadata message could not be built; library cross-check skipped")
	}

	// 5. seeded maps beyond the classes: oracle = the property itself (identity round trip, protobuf layout)
	n := 2000
	if !q {
		n = 60000
	}
	lens := []int{0, 1, 2, 3, 7, 126, 127, 128, 129, 255, 256, 300, 16383, 16384, 16385}
	for i := 0; i < n; i++ {
		m := map[string]string{}
		var entries [][]byte
		for j, ne := 0, rng.Intn(6); j < ne; j++ {
			mk := func() string {
				l := rng.Intn(12)
				if rng.Intn(8) == 0 {
					l = lens[rng.Intn(len(lens))]
				}
				if l > 300 && i%50 != 0 {
					l = l % 300
				}
				b := make([]byte, l)
				rng.Read(b)
				return string(b)
			}
			k, v := mk(), mk()
			if _, dup := m[k]; dup {
				continue
			}
			m[k] = v
			entries = append(entries, pwEntry(k, v))
		}
		var out []byte
		var got map[string]string
		var err error
		if p := guard(func() {
			out, err = drpcmetadata.Encode(nil, m)
			if err == nil {
				got, err = drpcmetadata.Decode(out)
			}
		}); p != nil {
			c.Violation("drpcmetadata round trip panic", map[string]any{"map": mapBrief(m), "panic": fmt.Sprint(p)})
			break
		}
		if err != nil || !sameMap(got, m) {
			c.Violation("drpcmetadata.Decode(Encode(m)) != m", map[string]any{"map": mapBrief(m), "err": fmt.Sprint(err), "class": "sampled"})
			break
		}
		if !permutationOf(out, entries) {
			c.Violation("drpcmetadata.Encode bytes are not the protobuf map<string,string>=1 entries", map[string]any{"map": mapBrief(m), "class": "sampled", "got": hexHead(out, 48)})
			break
		}
		c.EvalN(1)
	}
	c.Cov["metacodec_decoder_cases_accepted"] = okc
	c.Cov["metacodec_strictness_gap"] = fmt.Sprintf("%d enumerated inputs are valid protobuf for the message (a v0.0.17 peer would accept them) but are rejected by the strict grammar of the pinned tree; the canonical form that released encoders emit is accepted (enc mode)", gap)
	c.Cov["metacodec_sampled_round_trips"] = n
}

// ---------------------------------------------------------------------------------------------
// ErrCodec.tla
// ---------------------------------------------------------------------------------------------

type errNode struct {
	C []int  `json:"c"`
	K string `json:"k"`
	N int    `json:"n"`
}

// errRec is one oracle record printed by ErrCodec.tla.
type errRec struct {
	Mode    string    `json:"mode"`
	Shape   string    `json:"shape"`
	Tail    string    `json:"tail"`
	Code    string    `json:"code"`
	Msgcls  string    `json:"msgcls"`
	Nodes   []errNode `json:"nodes"`
	Base    []int     `json:"base"`
	Text    []int     `json:"text"`
	Found   []int     `json:"found"`
	Payload []int     `json:"payload"`
	Obs     struct {
		Code []int `json:"code"`
		Msg  []int `json:"msg"`
	} `json:"obs"`
	Steps int `json:"steps"`
}

const errLimit = 100 // Limit of ErrCodec.tla: errors looked at by drpcerr.Code

func limbsToU64(l []int) uint64 {
	var v uint64
	for _, x := range l {
		v = v<<16 | uint64(x)
	}
	return v
}

// errText concretises a text: -n stands for n bytes chosen by the harness.
func errText(items []int, rng *rand.Rand, cache map[int][]byte) []byte {
	var out []byte
	for _, x := range items {
		if x >= 0 {
			out = append(out, byte(x))
			continue
		}
		b, ok := cache[-x]
		if !ok {
			b = make([]byte, -x)
			rng.Read(b)
			for i := 0; i < len(b); i += 97 { // sprinkle format verbs, NUL and line ends
				const sp = "%s\x00\r\n%d%!"
				b[i] = sp[(i/97)%len(sp)]
			}
			cache[-x] = b
		}
		out = append(out, b...)
	}
	return out
}

// harness error types of the abstract node kinds
type hCode struct {
	inner error
	code  uint64
}

func (h *hCode) Error() string { return innerText(h.inner) }
func (h *hCode) Code() uint64  { return h.code }

type hWrap struct {
	inner   error
	hostile bool
	calls   *int
}

func (h *hWrap) next() error {
	*h.calls++
	if *h.calls > 1000000 { // break an unbounded walk so that the check can report it
		return nil
	}
	return h.inner
}
func (h *hWrap) text() string {
	if h.hostile {
		return "hostile"
	}
	return innerText(h.inner)
}

type hCause struct{ hWrap }

func (h *hCause) Error() string { return h.text() }
func (h *hCause) Cause() error  { return h.next() }

type hUnwrap struct{ hWrap }

func (h *hUnwrap) Error() string { return h.text() }
func (h *hUnwrap) Unwrap() error { return h.next() }

// hUncomp is an error of a value type that cannot be compared with == (it holds a slice).
type hUncomp struct {
	hWrap
	pad []int
}

func (h hUncomp) Error() string { return h.text() }
func (h hUncomp) Unwrap() error { return h.next() }

type hTNil struct{ _ int }

func (h *hTNil) Error() string { return "typed nil" }
func (h *hTNil) Unwrap() error { return nil }

func innerText(e error) string {
	if e == nil {
		return "<nil>"
	}
	return e.Error()
}

// buildErr builds the concrete error value of an abstract chain (outermost first in nodes).
func buildErr(nodes []errNode, tail string, base string, calls *int) (error, string) {
	type flatNode struct {
		k string
		c []int
	}
	var flat []flatNode
	for _, n := range nodes {
		for i := 0; i < n.N; i++ {
			flat = append(flat, flatNode{n.K, n.C})
		}
	}
	hostile := tail != "end"
	vals := make([]error, len(flat))
	var cur error
	for i := len(flat) - 1; i >= 0; i-- {
		switch flat[i].k {
		case "P":
			cur = errors.New(base)
		case "WC":
			code := limbsToU64(flat[i].c)
			w := drpcerr.WithCode(cur, code)
			if w == nil || code == 0 {
				return nil, "WC node with nil inner error or code 0 in a resolved chain"
			}
			cur = w
		case "HC":
			cur = &hCode{inner: cur, code: limbsToU64(flat[i].c)}
		case "F":
			if cur == nil {
				return nil, "fmt.Errorf(%w) of nil does not wrap"
			}
			cur = fmt.Errorf("w: %w", cur)
		case "E":
			if _, isErrs := cur.(interface{ Name() (string, bool) }); cur == nil || isErrs {
				return nil, "errs.Wrap of nil / of an errs error does not add a wrapper"
			}
			cur = errs.Wrap(cur)
		case "C":
			cur = &hCause{hWrap{inner: cur, hostile: hostile, calls: calls}}
		case "U":
			cur = &hUnwrap{hWrap{inner: cur, hostile: hostile, calls: calls}}
		case "UV":
			cur = hUncomp{hWrap{inner: cur, hostile: hostile, calls: calls}, []int{1}}
		case "TN":
			cur = (*hTNil)(nil)
		default:
			return nil, "unknown node kind " + flat[i].k
		}
		vals[i] = cur
	}
	setInner := func(e, to error) bool {
		switch w := e.(type) {
		case *hCause:
			w.inner = to
		case *hUnwrap:
			w.inner = to
		default:
			return false
		}
		return true
	}
	last := len(flat) - 1
	switch tail {
	case "self":
		if !setInner(vals[last], vals[last]) {
			return nil, "self tail needs a harness wrapper"
		}
	case "cyc2":
		to := vals[last]
		if last > 0 {
			to = vals[last-1]
		}
		if !setInner(vals[last], to) {
			return nil, "cyc2 tail needs a harness wrapper"
		}
	}
	return cur, ""
}

const errInvs = "TypeOK Terminates CodeIsFirst NoZeroWithCode Layout Intact HostileZero ShortRule Emit"

// errRun runs one TLC mode of ErrCodec.tla.
func errRun(c *vf.Ctx, covKey, mode, shapes, shortBytes string, shortMax int, fn func(r *errRec)) bool {
	name, mod, consts := vf.MCModule("ErrCodec",
		map[string]string{"Shapes": shapes, "Codes": "StdCodes", "Msgs": "StdMsgs", "ShortBytes": shortBytes},
		map[string]string{"Mode": `"` + mode + `"`, "Limit": fmt.Sprint(errLimit), "ShortMax": fmt.Sprint(shortMax)})
	cfg := "SPECIFICATION Spec\n" + consts + "INVARIANTS " + errInvs + "\nCHECK_DEADLOCK FALSE\n"
	n := 0
	res, err := vf.TLC(vf.TLCOpts{Module: name, Cfg: cfg, Extra: map[string]string{name + ".tla": mod},
		Seed: c.Seed, Timeout: 20 * time.Minute, HeapMB: 2000, Workers: 4,
		OnLine: func(b []byte) {
			var r errRec
			if err := json.Unmarshal(b, &r); err != nil {
				c.Inconclusive("unparsable ErrCodec record: %v", err)
				return
			}
			codecMu.Lock()
			n++
			fn(&r)
			codecMu.Unlock()
		}})
	if err != nil {
		c.Inconclusive("tlc: %v", err)
		return false
	}
	if !res.Finished {
		c.Inconclusive("TLC run %s mode %s did not finish cleanly: violated=%q err=%q timeout=%v\n%s", name, mode, res.Violated, res.ErrorText, res.TimedOut, res.Tail)
		return false
	}
	c.AddTLC(res)
	covAppend(c, covKey, fmt.Sprintf("ErrCodec mode=%s shapes=%s shortbytes=%s shortmax=%d: generated=%d distinct=%d records=%d wall=%.1fs",
		mode, shapes, shortBytes, shortMax, res.Generated, res.Distinct, n, res.Wall.Seconds()))
	return true
}

// ErrCase is one concrete handler error with what the peer must observe.
type ErrCase struct {
	Key      string // shape/code class/message class
	Err      error  // the error a handler returns
	WantCode uint64 // drpcerr.Code of the error at the client
	WantMsg  string // Error() of the error at the client
}

// ErrCodecCases enumerates ErrCodec.tla (chains ending in a plain error x code classes x message classes)
// and hands each concretised error to each; used by the connection-level part of C10.
func ErrCodecCases(c *vf.Ctx, each func(ErrCase)) bool {
	rng := rand.New(rand.NewSource(c.Seed ^ 0x10c0dec))
	cache := map[int][]byte{}
	return errRun(c, "codec_tlc_runs", "chain", "EndShapes", "{0}", 0, func(r *errRec) {
		calls := 0
		e, why := buildErr(r.Nodes, r.Tail, string(errText(r.Base, rng, cache)), &calls)
		if e == nil {
			c.Inconclusive("cannot build error for shape %s: %s", r.Shape, why)
			return
		}
		each(ErrCase{Key: r.Shape + "/" + r.Code + "/" + r.Msgcls, Err: e, WantCode: limbsToU64(r.Obs.Code), WantMsg: string(errText(r.Obs.Msg, rng, cache))})
	})
}

// observe extracts what a caller sees of an error.
func observe(e error) (code uint64, msg string, p any) {
	p = guard(func() { code, msg = drpcerr.Code(e), e.Error() })
	return
}

// chainClass is the failing-input class used in signatures: where the chain leads and where its code sits.
func chainClass(r *errRec) string {
	depth, at := 0, "no code attached"
	for _, n := range r.Nodes {
		if n.K == "WC" || n.K == "HC" {
			switch {
			case depth == 0:
				at = "code on the outermost error"
			case depth < errLimit:
				at = "code on a wrapped error"
			default:
				at = "code deeper than the lookup bound"
			}
			break
		}
		depth += n.N
	}
	if r.Tail != "end" {
		return "chain leading to " + r.Tail + ", " + at
	}
	return at
}

// checkErrChain compares the real drpcerr / drpcwire functions with one chain-mode record.
func checkErrChain(c *vf.Ctx, r *errRec, rng *rand.Rand, cache map[int][]byte, hostileOnly bool) (hung bool) {
	cls := chainClass(r)
	sig := func(what string) string { return what + " (" + cls + ")" }
	rep := map[string]any{"shape": r.Shape, "tail": r.Tail, "code_class": r.Code, "msg_class": r.Msgcls, "nodes": r.Nodes}
	base := string(errText(r.Base, rng, cache))
	calls := 0
	e, why := buildErr(r.Nodes, r.Tail, base, &calls)
	if e == nil {
		c.Inconclusive("cannot build error for shape %s: %s", r.Shape, why)
		return
	}
	// drpcerr.Code on the handler's error value
	var got uint64
	calls = 0
	p, fin := runBounded(c, "drpcerr.Code ("+cls+")", rep, 20*time.Second, func() { got = drpcerr.Code(e) })
	if !fin {
		return true
	}
	if p != nil {
		rep["panic"] = fmt.Sprint(p)
		c.Violation("drpcerr.Code panic ("+panicClass(p)+"; "+cls+")", rep)
		return
	}
	if calls > errLimit {
		rep["unwrap_calls"] = calls
		c.Violation(sig("drpcerr.Code follows more links than its bound"), rep)
		return
	}
	if want := limbsToU64(r.Found); got != want {
		rep["got"], rep["demanded"] = got, want
		c.Violation(sig("drpcerr.Code returns a different code"), rep)
		return
	}
	if r.Tail != "end" || hostileOnly {
		return
	}
	// text of the handler's error: harness types delegate, fmt adds "w: ", WithCode must be transparent
	text := errText(r.Text, rng, cache)
	if e.Error() != string(text) {
		hasWC := false
		for _, n := range r.Nodes {
			hasWC = hasWC || n.K == "WC"
		}
		if hasWC {
			rep["got"], rep["demanded"] = hexHead([]byte(e.Error()), 48), hexHead(text, 48)
			c.Violation(sig("drpcerr.WithCode changes the error text"), rep)
		} else {
			c.Inconclusive("harness error chain %s has text %q, spec says %q", r.Shape, hexHead([]byte(e.Error()), 32), hexHead(text, 32))
		}
		return
	}
	// MarshalError: exact payload
	want := errText(r.Payload, rng, cache)
	var data []byte
	if p := guard(func() { data = drpcwire.MarshalError(e) }); p != nil {
		rep["panic"] = fmt.Sprint(p)
		c.Violation("drpcwire.MarshalError panic", rep)
		return
	}
	if !bytes.Equal(data, want) {
		rep["got"], rep["demanded"] = hexHead(data, 32), hexHead(want, 32)
		what := "text"
		if len(data) < 8 || !bytes.Equal(data[:8], want[:8]) {
			what = "code bytes"
		}
		c.Violation(sig("drpcwire.MarshalError payload differs from the layout: "+what), rep)
		return
	}
	// UnmarshalError of the demanded payload and of the real one: what the peer observes
	wcode, wmsg := limbsToU64(r.Obs.Code), string(errText(r.Obs.Msg, rng, cache))
	for _, d := range [][]byte{want, data} {
		var e2 error
		if p := guard(func() { e2 = drpcwire.UnmarshalError(append([]byte(nil), d...)) }); p != nil {
			rep["panic"] = fmt.Sprint(p)
			c.Violation("drpcwire.UnmarshalError panic", rep)
			return
		}
		if e2 == nil {
			c.Violation(sig("drpcwire.UnmarshalError returns nil"), rep)
			return
		}
		gcode, gmsg, p := observe(e2)
		if p != nil {
			rep["panic"] = fmt.Sprint(p)
			c.Violation("panic observing the unmarshaled error", rep)
			return
		}
		if gcode != wcode {
			rep["got"], rep["demanded"] = gcode, wcode
			c.Violation(sig("peer observes a different code"), rep)
			return
		}
		if gmsg != wmsg {
			rep["got"], rep["demanded"] = hexHead([]byte(gmsg), 48), hexHead([]byte(wmsg), 48)
			c.Violation("peer observes a different message (message class "+r.Msgcls+")", rep)
			return
		}
	}
	return false
}

// checkErrShort compares UnmarshalError on raw data with one short-mode record.
func checkErrShort(c *vf.Ctx, r *errRec, onlyTotal bool) {
	data := intsToBytes(r.Payload)
	rep := map[string]any{"data": r.Payload}
	var e error
	if p := guard(func() { e = drpcwire.UnmarshalError(append([]byte(nil), data...)) }); p != nil {
		rep["panic"] = fmt.Sprint(p)
		c.Violation(fmt.Sprintf("drpcwire.UnmarshalError panic on %d bytes (%s)", len(data), panicClass(p)), rep)
		return
	}
	if e == nil {
		c.Violation(fmt.Sprintf("drpcwire.UnmarshalError returns nil on %d bytes", len(data)), rep)
		return
	}
	code, msg, p := observe(e)
	if p != nil {
		rep["panic"] = fmt.Sprint(p)
		c.Violation("panic observing the unmarshaled error", rep)
		return
	}
	if onlyTotal {
		return
	}
	cls := "at least 8 bytes"
	if len(data) < 8 {
		cls = "fewer than 8 bytes"
	}
	if want := limbsToU64(r.Obs.Code); code != want {
		rep["got"], rep["demanded"] = code, want
		c.Violation("drpcwire.UnmarshalError: different code for data of "+cls, rep)
		return
	}
	if want := string(intsToBytes(r.Obs.Msg)); msg != want {
		rep["got"], rep["demanded"] = msg, want
		c.Violation("drpcwire.UnmarshalError: different message for data of "+cls, rep)
	}
}

// ErrorCodec — codec part of C10: every chain shape x code class x message class through the real
// Code / MarshalError / UnmarshalError against the (code, message) ErrCodec.tla demands.
func ErrorCodec(c *vf.Ctx) {
	defer func(t time.Time) { c.Cov["errcodec_wall_s"] = time.Since(t).Seconds() }(time.Now())
	rng := rand.New(rand.NewSource(c.Seed ^ 0xe44c0dec))
	cache := map[int][]byte{}
	c.Assume = append(c.Assume,
		"error payload: the description is spec/ErrCodec.tla (8-byte big-endian code ++ text; fewer than 8 bytes = code 0 and the text with the note); 64-bit codes are four 16-bit limbs in the model",
		fmt.Sprintf("the code of an error is what drpcerr.Code defines: the outermost error with Code() uint64 among the first %d errors reached through Cause()/Unwrap(); a code attached deeper than that is by definition not the error's code (checked at depths 99 and 100)", errLimit),
		"error values are built per abstract chain shape from errors.New, drpcerr.WithCode, fmt.Errorf(%w), errs.Wrap and harness types with only Code(), only Cause(), only Unwrap(); long messages (70000 bytes) are filled by the harness, seeded")
	seen := map[string]bool{}
	hung := false
	var jobs tlcJobs
	jobs.err(c, "codec_tlc_runs", "chain", "EndShapes", "{0}", 0, func(r *errRec) {
		if hung {
			return
		}
		hung = checkErrChain(c, r, rng, cache, false)
		c.Eval("err:chain:" + r.Shape + "/" + r.Code + "/" + r.Msgcls)
		c.TraceValidated(1)
		if k := r.Shape; !seen[k] && r.Code == "2^63" && len(seen) < 3 {
			seen[k] = true
			c.Sample(map[string]any{"spec": "ErrCodec", "shape": r.Shape, "code": r.Code, "msg": r.Msgcls, "payload_demanded": headInts(r.Payload), "observed_demanded": r.Obs.Code})
		}
	})
	// raw data handed to UnmarshalError: lengths 0..9 (the 8-byte boundary) over {00, '%', 's', FF}
	sb, sm := "{0, 37, 255}", 9
	if !c.Quick() {
		sb, sm = "{0, 37, 115, 255}", 10
	}
	jobs.err(c, "codec_tlc_runs", "short", "{}", sb, sm, func(r *errRec) {
		checkErrShort(c, r, false)
		c.Eval(fmt.Sprintf("err:short:%v", r.Payload))
		c.TraceValidated(1)
	})
	jobs.wait()
	// WithCode's documented identities
	plain := errors.New("x")
	if drpcerr.WithCode(plain, 0) != plain {
		c.Violation("drpcerr.WithCode(err, 0) is not err", nil)
	}
	if drpcerr.WithCode(nil, 5) != nil {
		c.Violation("drpcerr.WithCode(nil, code) is not nil", nil)
	}
	if drpcerr.Code(nil) != 0 {
		c.Violation("drpcerr.Code(nil) is not 0", nil)
	}
	// seeded codes and texts beyond the classes: oracle = the property itself (intact round trip, big-endian layout)
	n := 20000
	if !c.Quick() {
		n = 500000
	}
	for i := 0; i < n; i++ {
		code := rng.Uint64() >> uint(rng.Intn(64))
		txt := make([]byte, rng.Intn(40))
		rng.Read(txt)
		e := drpcerr.WithCode(errors.New(string(txt)), code)
		data := drpcwire.MarshalError(e)
		var be [8]byte
		binary.BigEndian.PutUint64(be[:], code)
		e2 := drpcwire.UnmarshalError(data)
		if len(data) != 8+len(txt) || !bytes.Equal(data[:8], be[:]) || !bytes.Equal(data[8:], txt) || e2 == nil || drpcerr.Code(e2) != code || e2.Error() != string(txt) {
			c.Violation("error payload round trip (sampled code/text)", map[string]any{"code": code, "text": txt})
			break
		}
		c.EvalN(1)
	}
	c.Cov["errcodec_sampled_round_trips"] = n
}

// ---------------------------------------------------------------------------------------------
// C13 contribution
// ---------------------------------------------------------------------------------------------

// hostileVariants concretises a class string several times: payload / big / continuation classes
// are replaced by other members of their class.
func hostileVariant(in []int, rng *rand.Rand) []int {
	out := append([]int(nil), in...)
	for i, x := range out {
		switch x {
		case 97:
			out[i] = rng.Intn(256)
		case 127:
			out[i] = 64 + rng.Intn(64)
		case 129:
			out[i] = 128 + rng.Intn(128)
		case 255:
			out[i] = 128 + rng.Intn(128)
		}
	}
	return out
}

// C13Codecs — decoders under hostile inputs: no panic, a value or an error, bounded work.
func C13Codecs(c *vf.Ctx) {
	defer func(t time.Time) { c.Cov["c13codecs_wall_s"] = time.Since(t).Seconds() }(time.Now())
	rng := rand.New(rand.NewSource(c.Seed ^ 0xc13))
	q := c.Quick()
	c.Assume = append(c.Assume,
		"hostile inputs of the codecs are the class strings / chains enumerated by spec/MetaCodec.tla and spec/ErrCodec.tla (every string over the class alphabet up to the bound, the defect product, all 256 byte values at the first positions, data of 0..10 bytes, error chains leading to nil / themselves / a 2-cycle / a typed nil pointer, depth 150); each class string is also run with seeded substitutions inside its classes",
		"oracle here is only: no panic, a value or an error (never both), output no larger than the input, drpcerr.Code looks at no more than its bound of errors and returns; a hang is reported only when the goroutine census shows the goroutine inside drpc")
	plain := newMetaFill(0, 0)
	var jobs tlcJobs
	variants := 4
	if !q {
		variants = 8
	}
	hostile := func(r *metaRec) {
		checkMetaDecode(c, r, plain, true)
		c.Eval("c13:" + metaKey(r, 0))
		for k := 0; k < variants; k++ {
			v := *r
			v.In = hostileVariant(r.In, rng)
			checkMetaDecode(c, &v, plain, true)
			c.EvalN(1)
		}
		c.TraceValidated(1)
	}
	// hostile alphabet: FF and 80-FF continuation bytes, lengths that are too big, tags, a little payload
	mc := metaBase()
	mc.defs["Bytes"] = "{10,18,0,1,4,5,129,255,127,97}"
	mc.plain["MaxLen"] = "7"
	if !q {
		mc.defs["Bytes"] = "{10,18,0,1,4,5,6,129,255,127,97}"
		mc.plain["MaxLen"] = "8"
	}
	jobs.meta(c, "c13_codec_tlc_runs", mc, hostile)
	mc = metaBase()
	mc.defs["Bytes"] = "0..255"
	mc.plain["MaxLen"] = "3" // 4 would be 8.4 million strings (two-byte entry lengths x any two bytes)
	jobs.meta(c, "c13_codec_tlc_runs", mc, hostile)
	mc = metaBase()
	mc.plain["Mode"] = `"struct"`
	mc.defs["Keys"], mc.defs["Vals"] = "{<<>>, <<97>>, <<255,128>>}", "{<<>>, <<97, 97, 97>>}"
	if !q {
		mc.plain["MaxEntries"] = "3"
		mc.defs["Keys"] = "{<<>>, <<255,128>>}"
	}
	jobs.meta(c, "c13_codec_tlc_runs", mc, hostile)

	// UnmarshalError on 0..9 (thorough 0..10) bytes
	sb, sm := "{0, 37, 255}", 9
	if !q {
		sb, sm = "{0, 37, 128, 255}", 10
	}
	jobs.err(c, "c13_codec_tlc_runs", "short", "{}", sb, sm, func(r *errRec) {
		checkErrShort(c, r, true)
		c.Eval(fmt.Sprintf("c13:err:short:%v", r.Payload))
		c.TraceValidated(1)
	})

	// drpcerr.Code on hostile error values
	cache := map[int][]byte{}
	hung := false
	jobs.err(c, "c13_codec_tlc_runs", "chain", "HostileShapes", "{0}", 0, func(r *errRec) {
		if hung || c.Violations() > 10 { // a goroutine that does not return keeps a core busy: stop after the first
			return
		}
		hung = checkErrChain(c, r, rng, cache, true)
		c.Eval("c13:err:chain:" + r.Shape + "/" + r.Code)
		c.TraceValidated(1)
		if r.Shape == "C120-cyc2" {
			c.Sample(map[string]any{"spec": "ErrCodec", "hostile_chain": r.Shape, "tail": r.Tail, "code_demanded": r.Found, "lookups_in_model": r.Steps})
		}
	})
	jobs.wait()
}
