package checks

import (
	"context"
	"encoding/json"
	"fmt"
	"io"
	"math/rand"
	"net"
	"os"
	"runtime"
	"sort"
	"strings"
	"sync"
	"time"

	"storj.io/drpc/drpcmigrate"

	"verif/vf"
)

// ---------------------------------------------------------------------------
// records printed by ListenMux.tla
// ---------------------------------------------------------------------------

type c16Stim struct {
	K  string   `json:"k"`
	C  int      `json:"c"`
	N  int      `json:"n"`
	P  string   `json:"p"`
	G  int      `json:"g"`
	A  int      `json:"a"`
	Pl []string `json:"pl"`
	B  int      `json:"b"` // 1: the next stimulus follows back to back, without waiting for quiescence
}

func (s c16Stim) String() string {
	t := s.K
	switch s.K {
	case "route":
		t = "route(" + s.P + ")"
	case "incoming":
		t = fmt.Sprintf("incoming(%d,%s)", s.C, strings.Join(s.Pl, ""))
	case "write":
		t = fmt.Sprintf("write(%d,%d)", s.C, s.N)
	case "cclose":
		t = fmt.Sprintf("cclose(%d)", s.C)
	case "accept":
		t = fmt.Sprintf("accept(%s%d,#%d)", s.P, s.G, s.A)
	case "lclose":
		t = fmt.Sprintf("lclose(%s%d)", s.P, s.G)
	}
	if s.B == 1 {
		t += "+" // "and, without waiting, ..."
	}
	return t
}

type c16Step struct {
	Obs  json.RawMessage `json:"obs"` // observation BEFORE the stimulus (model records), AFTER it (recorded traces)
	Stim c16Stim         `json:"stim"`
}

type c16Beh struct {
	Steps []c16Step       `json:"steps"`
	Final json.RawMessage `json:"final"`
	key   string          // distinctness: the stimulus sequence (and, with stimuli that do not wait for quiescence, the outcome)
}

// expected observation after stimulus i (0-based)
func (b *c16Beh) after(i int) json.RawMessage {
	if i+1 < len(b.Steps) {
		return b.Steps[i+1].Obs
	}
	return b.Final
}

type c16LisKey struct {
	P string
	G int
}

func (k c16LisKey) tuple() []any { return []any{k.P, k.G} }

// ---------------------------------------------------------------------------
// the world: one real ListenMux and its environment
// ---------------------------------------------------------------------------

type c16Acc struct {
	started bool
	late    bool // started after Run had returned
	lis     c16LisKey
	done    bool
	conn    net.Conn
	cid     int
	err     error
	got     []byte
	eof     bool
}

type c16World struct {
	nConns, nAccs, prefixLen int

	base   *c16Listener
	mux    *drpcmigrate.ListenMux
	cancel context.CancelFunc
	ctx    context.Context

	conns []*c16Conn // 1-based
	pay   [][]byte
	sent  []int
	ceof  []bool

	lis     map[c16LisKey]net.Listener
	keyOf   map[net.Listener]c16LisKey
	gen     map[string]int
	rret    c16LisKey
	rretSet bool

	mu         sync.Mutex
	accs       []*c16Acc // 1-based
	runStarted bool
	runDone    bool
	runErr     error
	routeBusy  bool

	// bookkeeping for the monitor "the route registered for its first bytes"
	step      int                // index of the stimulus group being applied (one group = one quiescent point)
	reg       map[string]c16Reg  // per prefix: what the last completed Route call returned, and when
	closedLis map[c16LisKey]bool // listeners the director has closed
	stopped   bool               // a stimulus that stops the multiplexer has been issued (cancel, base Accept error)
	prefixAt  []int              // per connection: the group in which the client completed the prefix (0 = not yet)

	seed int64
}

type c16Reg struct {
	key  c16LisKey
	step int
}

func newC16World(nConns, nAccs, prefixLen int, seed int64) *c16World {
	w := &c16World{nConns: nConns, nAccs: nAccs, prefixLen: prefixLen, seed: seed}
	w.base = newC16Listener()
	w.mux = drpcmigrate.NewListenMux(w.base, prefixLen)
	w.ctx, w.cancel = context.WithCancel(context.Background())
	w.conns = make([]*c16Conn, nConns+1)
	w.pay = make([][]byte, nConns+1)
	w.sent = make([]int, nConns+1)
	w.ceof = make([]bool, nConns+1)
	w.accs = make([]*c16Acc, nAccs+1)
	for i := range w.accs {
		w.accs[i] = &c16Acc{}
	}
	w.lis = map[c16LisKey]net.Listener{}
	w.keyOf = map[net.Listener]c16LisKey{}
	w.gen = map[string]int{}
	w.reg = map[string]c16Reg{}
	w.closedLis = map[c16LisKey]bool{}
	w.prefixAt = make([]int, nConns+1)
	def := w.mux.Default()
	w.lis[c16LisKey{"def", 0}] = def
	w.keyOf[def] = c16LisKey{"def", 0}
	return w
}

func c16ErrClass(err error) string {
	switch {
	case err == nil:
		return "nil"
	case err == drpcmigrate.Closed:
		return "Closed"
	case err == errC16Injected:
		return "baseErr"
	case err == errC16BaseClosed:
		return "baseClosed"
	}
	return "other"
}

// apply performs one stimulus. It returns an error if the stimulus cannot be performed
// (a record the harness does not understand).
func (w *c16World) apply(s c16Stim) error {
	switch s.K {
	case "run":
		w.mu.Lock()
		w.runStarted = true
		w.mu.Unlock()
		go func() {
			err := w.mux.Run(w.ctx)
			w.mu.Lock()
			w.runDone, w.runErr = true, err
			w.mu.Unlock()
		}()
	case "cancel":
		w.mu.Lock()
		w.stopped = true
		w.mu.Unlock()
		w.cancel()
	case "baseerr":
		w.mu.Lock()
		w.stopped = true
		w.mu.Unlock()
		w.base.push(c16Item{err: errC16Injected})
	case "route":
		// Route takes the mux's mutex; run it on its own goroutine so that a mux that never
		// releases the mutex shows up as an observation, not as a hung check
		go w.route(s.P)
	case "incoming":
		if s.C < 1 || s.C > w.nConns || w.conns[s.C] != nil {
			return fmt.Errorf("bad incoming %v", s)
		}
		c := newC16Conn(s.C)
		w.conns[s.C] = c
		w.pay[s.C] = []byte(strings.Join(s.Pl, ""))
		w.base.push(c16Item{conn: c})
	case "write":
		c := w.conns[s.C]
		if c == nil || w.sent[s.C]+s.N > len(w.pay[s.C]) {
			return fmt.Errorf("bad write %v", s)
		}
		c.ClientWrite(w.pay[s.C][w.sent[s.C] : w.sent[s.C]+s.N])
		if w.sent[s.C] < w.prefixLen && w.sent[s.C]+s.N >= w.prefixLen {
			w.prefixAt[s.C] = w.step
		}
		w.sent[s.C] += s.N
	case "cclose":
		c := w.conns[s.C]
		if c == nil {
			return fmt.Errorf("bad cclose %v", s)
		}
		w.ceof[s.C] = true
		c.ClientClose()
	case "accept":
		w.mu.Lock()
		l, ok := w.lis[c16LisKey{s.P, s.G}]
		a := w.accs[s.A]
		if !ok || a.started {
			w.mu.Unlock()
			return fmt.Errorf("bad accept %v", s)
		}
		a.started, a.lis, a.late = true, c16LisKey{s.P, s.G}, w.runDone
		w.mu.Unlock()
		rng := rand.New(rand.NewSource(w.seed*131 + int64(s.A)))
		go func() {
			conn, err := l.Accept()
			w.mu.Lock()
			a.done, a.conn, a.err, a.cid = true, conn, err, c16ConnID(conn)
			w.mu.Unlock()
			if conn == nil {
				return
			}
			// the application: read whatever the connection yields, in reads of varying size
			for {
				buf := make([]byte, 1+rng.Intn(5))
				n, err := conn.Read(buf)
				w.mu.Lock()
				a.got = append(a.got, buf[:n]...)
				if err == io.EOF {
					a.eof = true
				}
				w.mu.Unlock()
				if err != nil {
					return
				}
			}
		}()
	case "lclose":
		w.mu.Lock()
		l, ok := w.lis[c16LisKey{s.P, s.G}]
		if ok {
			w.closedLis[c16LisKey{s.P, s.G}] = true
		}
		w.mu.Unlock()
		if !ok {
			return fmt.Errorf("bad lclose %v", s)
		}
		_ = l.Close()
	default:
		return fmt.Errorf("unknown stimulus %q", s.K)
	}
	return nil
}

// route calls mux.Route(p) and names the listener it returns: a listener object seen for the first
// time is the next generation of its prefix.
func (w *c16World) route(p string) {
	w.mu.Lock()
	w.routeBusy = true
	w.mu.Unlock()
	l := w.mux.Route(p)
	w.mu.Lock()
	defer w.mu.Unlock()
	w.routeBusy = false
	k, ok := w.keyOf[l]
	if !ok {
		w.gen[p]++
		k = c16LisKey{p, w.gen[p]}
		w.keyOf[l] = k
		w.lis[k] = l
	}
	w.rret, w.rretSet = k, true
	w.reg[p] = c16Reg{key: k, step: w.step}
}

// applyBurst performs several stimuli back to back on ONE goroutine (not the director's, so that a
// Route that never gets the multiplexer's mutex is an observation and not a hung check): nothing
// yields between them, Route is called synchronously, so the goroutines the earlier stimuli woke
// (a listener's monitor after Close) normally have not run yet when the later ones happen - and if
// they have, that order is a behaviour of the specification as well. The burst ends early at a
// stimulus that names a listener which does not exist here (the implementation took another order
// than the behaviour being replayed, so Route returned another listener). finished is closed at the
// end; started() is the number of stimuli issued so far.
func (w *c16World) applyBurst(stims []c16Stim) (finished chan struct{}, started func() int, errp *error) {
	finished = make(chan struct{})
	errp = new(error)
	n := 0
	started = func() int {
		w.mu.Lock()
		defer w.mu.Unlock()
		return n
	}
	go func() {
		defer close(finished)
		for _, s := range stims {
			if s.K == "accept" || s.K == "lclose" {
				w.mu.Lock()
				_, ok := w.lis[c16LisKey{s.P, s.G}]
				w.mu.Unlock()
				if !ok {
					return
				}
			}
			w.mu.Lock()
			n++
			w.mu.Unlock()
			if s.K == "route" {
				w.route(s.P)
				continue
			}
			if err := w.apply(s); err != nil {
				*errp = err
				return
			}
		}
	}()
	return finished, started, errp
}

func c16Bytes(b []byte) []any {
	out := make([]any, len(b))
	for i, x := range b {
		out[i] = string([]byte{x})
	}
	return out
}

// observe projects the real state onto the specification's Obs and evaluates the monitors
// derived from the property statement. It must be called at quiescence.
func (w *c16World) observe() (obs map[string]any, monitors []string) {
	w.mu.Lock()
	defer w.mu.Unlock()
	fail := func(format string, a ...any) { monitors = append(monitors, fmt.Sprintf(format, a...)) }

	runClass, rerr := "idle", "none"
	if w.runStarted {
		runClass = "running"
	}
	if w.runDone {
		runClass, rerr = "ret", c16ErrClass(w.runErr)
	}
	rret := c16LisKey{"", 0}
	if w.rretSet {
		rret = w.rret
	}

	accs := make([]any, 0, w.nAccs)
	deliveredTo := map[int][]int{} // conn id -> acceptor slots
	for i := 1; i <= w.nAccs; i++ {
		a := w.accs[i]
		class, lis, res := "idle", c16LisKey{"", 0}, []any{"none", 0, ""}
		if a.started {
			class, lis = "blocked", a.lis
			if a.done {
				class = "ret"
				switch {
				case a.conn != nil && a.err == nil:
					res = []any{"conn", a.cid, ""}
					deliveredTo[a.cid] = append(deliveredTo[a.cid], i)
				case a.conn == nil && a.err != nil:
					res = []any{"err", 0, c16ErrClass(a.err)}
				case a.conn == nil && a.err == nil:
					res = []any{"err", 0, "nil"}
					fail("Accept returned neither a connection nor an error")
				default:
					res = []any{"conn", a.cid, c16ErrClass(a.err)}
					fail("Accept returned both a connection and an error")
				}
			}
			// after the multiplexer has stopped every Accept fails rather than blocking
			if w.runDone && !a.done {
				fail("Accept still blocked after Run returned")
			}
			if a.late && a.done && a.conn != nil {
				fail("Accept called after Run returned yields a connection")
			}
		}
		accs = append(accs, []any{class, lis.tuple(), res})
	}

	conns := make([]any, 0, w.nConns)
	for c := 1; c <= w.nConns; c++ {
		cc := w.conns[c]
		class, lis, by := "new", c16LisKey{"", 0}, 0
		var got []byte
		eof := false
		if cc != nil {
			slots := deliveredTo[c]
			closes := cc.muxCloses()
			switch {
			case w.base.queued(cc):
				class = "queued"
			case len(slots) > 0:
				class = "delivered"
				by = slots[0]
				a := w.accs[by]
				lis, got, eof = a.lis, a.got, a.eof
				if len(slots) > 1 {
					fail("connection delivered to more than one Accept")
				}
				if closes > 0 {
					fail("connection delivered and also closed by the multiplexer")
				}
				pay, sent := w.pay[c], w.sent[c]
				if lis.P == "def" {
					if string(got) != string(pay[:sent]) {
						fail("default-route connection does not yield the client's bytes from the first byte")
					}
					// "the route registered for its first N bytes ..., otherwise the default listener": a Route call
					// for these bytes had returned (at an earlier quiescent point than the one at which the client
					// completed the prefix) a listener that has not been closed since, and the multiplexer has not
					// been stopped - that listener is the registered route
					if sent >= w.prefixLen && w.prefixAt[c] > 0 && !w.stopped {
						if rg, ok := w.reg[string(pay[:w.prefixLen])]; ok && !w.closedLis[rg.key] && rg.step < w.prefixAt[c] {
							fail("connection delivered to the default listener although a live route is registered for its first bytes")
						}
					}
				} else {
					if sent < w.prefixLen || lis.P != string(pay[:w.prefixLen]) {
						fail("connection delivered to a listener whose prefix is not its first bytes")
					} else if string(got) != string(pay[w.prefixLen:sent]) {
						fail("routed connection does not yield the client's bytes minus the prefix")
					}
				}
				if eof && !w.ceof[c] {
					fail("accepted connection reports EOF although the client has not closed")
				}
				if !eof && w.ceof[c] {
					fail("accepted connection does not report the client's close")
				}
			case closes > 0:
				class = "closed"
			default:
				class = "inflight"
				if w.runDone && (w.sent[c] >= w.prefixLen || w.ceof[c]) {
					fail("connection neither delivered nor closed after Run returned")
				}
			}
		}
		conns = append(conns, []any{class, lis.tuple(), by, c16Bytes(got), eof})
	}

	obs = map[string]any{
		"run":   []any{runClass, rerr},
		"rret":  rret.tuple(),
		"conns": conns,
		"accs":  accs,
	}
	return obs, monitors
}

// teardown releases everything the behaviour started.
func (w *c16World) teardown() {
	w.cancel()
	_ = w.base.Close()
	w.mu.Lock()
	ls := make([]net.Listener, 0, len(w.lis))
	for _, l := range w.lis {
		ls = append(ls, l)
	}
	w.mu.Unlock()
	for _, l := range ls {
		_ = l.Close()
	}
	for _, c := range w.conns {
		if c != nil {
			c.teardown()
		}
	}
}

// ---------------------------------------------------------------------------
// replay of one behaviour
// ---------------------------------------------------------------------------

type c16Trace struct {
	Steps []map[string]any // {stim, obs(after)} as recorded on the real code
	Stims []string
}

type c16Result struct {
	conform    bool     // every observation equals the model's
	divergedAt int      // index of the first differing observation (when !conform)
	diff       string   // which part differs
	monitors   []string // property monitors that fired (real observations only)
	monitorAt  int
	trace      c16Trace // the recorded trace up to and including the divergence
	stuck      string   // harness problem (not a verdict)
	truncated  bool     // conforming, but the rest of the behaviour names a listener that does not exist here
	features   map[string]bool
}

// c16Features names what a real observation exhibits (for the coverage report).
func c16Features(obs map[string]any, into map[string]bool) {
	if run, _ := obs["run"].([]any); len(run) == 2 && run[0] == "ret" {
		into["run_returned"] = true
		if run[1] != "nil" {
			into["run_returned_base_error"] = true
		}
	}
	conns, _ := obs["conns"].([]any)
	nd := 0
	for _, x := range conns {
		t := x.([]any)
		switch t[0] {
		case "delivered":
			nd++
			if t[1].([]any)[0] == "def" {
				into["delivered_default"] = true
				if len(t[3].([]any)) > 2 {
					into["delivered_default_with_data_beyond_prefix"] = true
				}
			} else {
				into["delivered_routed"] = true
				if len(t[3].([]any)) > 0 {
					into["delivered_routed_with_data"] = true
				}
			}
			if t[4] == true {
				into["delivered_saw_eof"] = true
			}
		case "closed":
			into["closed_by_mux"] = true
		case "inflight":
			into["in_flight_at_end"] = true
		}
	}
	if nd >= 2 {
		into["two_or_more_delivered"] = true
	}
	accs, _ := obs["accs"].([]any)
	for _, x := range accs {
		t := x.([]any)
		if t[0] == "blocked" {
			into["accept_blocked_at_end"] = true
		}
		if res := t[2].([]any); res[0] == "err" {
			into["accept_error"] = true
		}
	}
	if rr, _ := obs["rret"].([]any); len(rr) == 2 {
		if g, ok := rr[1].(int); ok && g >= 2 {
			into["route_reregistered"] = true
		}
	}
}

func c16DiffClass(want, got map[string]any) string {
	parts := []string{}
	for _, k := range []string{"run", "rret"} {
		if c16Canon(want[k]) != c16Canon(got[k]) {
			parts = append(parts, k)
		}
	}
	names := map[string][]string{"conns": {"class", "listener", "by", "bytes", "eof"}, "accs": {"class", "listener", "result"}}
	for _, k := range []string{"conns", "accs"} {
		wa, _ := want[k].([]any)
		ga, _ := got[k].([]any)
		fields := map[string]bool{}
		for i := range wa {
			if i >= len(ga) {
				break
			}
			wt, _ := wa[i].([]any)
			gt, _ := ga[i].([]any)
			for j := range wt {
				if j < len(gt) && c16Canon(wt[j]) != c16Canon(gt[j]) {
					fields[names[k][j]] = true
				}
			}
		}
		fs := []string{}
		for f := range fields {
			fs = append(fs, f)
		}
		sort.Strings(fs)
		if len(fs) > 0 {
			parts = append(parts, k+"."+strings.Join(fs, "+"))
		}
	}
	return strings.Join(parts, ",")
}

func c16Replay(b *c16Beh, k c16Cfg, prefixLen int, seed int64) (r c16Result) {
	nConns, nAccs, runFirst := k.conns, k.accs, k.runFirst
	w := newC16World(nConns, nAccs, prefixLen, seed)
	defer func() {
		w.teardown()
		c16Quiesce(2 * time.Second)
	}()
	for _, p := range k.preRoutes {
		_ = w.apply(c16Stim{K: "route", P: p})
		if ok, _ := c16Quiesce(5 * time.Second); !ok {
			r.stuck = "no quiescence after the initial Route"
			return r
		}
	}
	w.mu.Lock()
	w.rretSet = false
	w.mu.Unlock()
	if runFirst {
		_ = w.apply(c16Stim{K: "run"})
		if ok, _ := c16Quiesce(5 * time.Second); !ok {
			r.stuck = "no quiescence after the initial Run"
			return r
		}
	}
	r.conform = true
	r.divergedAt, r.monitorAt = -1, -1
	r.features = map[string]bool{}
	for first := 0; first < len(b.Steps); {
		// a group: stimuli flagged b and the one that follows them; one observation after the group
		i := first
		for i < len(b.Steps)-1 && b.Steps[i].Stim.B == 1 {
			i++
		}
		w.step = i + 1
		cut := false
		if i == first {
			if k := b.Steps[i].Stim; k.K == "accept" || k.K == "lclose" {
				w.mu.Lock()
				_, ok := w.lis[c16LisKey{k.P, k.G}]
				w.mu.Unlock()
				if !ok {
					// every observation so far equals the model's, but inside an earlier burst Route returned another
					// listener than in the behaviour being replayed (invisible when a later Route result replaced it):
					// the rest of this behaviour cannot be issued here
					r.truncated = true
					return r
				}
			}
			if err := w.apply(b.Steps[i].Stim); err != nil {
				r.stuck = err.Error()
				return r
			}
		} else {
			group := make([]c16Stim, 0, i-first+1)
			for j := first; j <= i; j++ {
				group = append(group, b.Steps[j].Stim)
			}
			finished, started, errp := w.applyBurst(group)
			select {
			case <-finished:
				if *errp != nil {
					r.stuck = (*errp).Error()
					return r
				}
			case <-time.After(5 * time.Second):
				// parked inside the multiplexer (Route waiting for a mutex nobody releases): the census below
				// decides whether that is quiescence; the stimuli not issued make the observation differ
			}
			n := started()
			if n == 0 {
				r.stuck = "first stimulus of a burst not applicable: " + group[0].String()
				return r
			}
			if n < len(group) {
				// the rest of the burst could not be issued: what happened is the burst up to here, then quiescence
				cut, i = true, first+n-1
			}
			for j := first; j < i; j++ {
				r.trace.Steps = append(r.trace.Steps, map[string]any{"stim": b.Steps[j].Stim, "obs": nil})
				r.trace.Stims = append(r.trace.Stims, b.Steps[j].Stim.String())
			}
		}
		st := b.Steps[i]
		st.Stim.B = 0 // (a flag on the last stimulus before quiescence means nothing)
		first = i + 1
		ok, busy := c16Quiesce(5 * time.Second)
		if !ok {
			fr := []string{}
			for _, g := range busy {
				fr = append(fr, g.State+"@"+strings.Join(g.Frames, "<"))
			}
			r.stuck = "no quiescence after " + st.Stim.String() + ": " + strings.Join(fr, " | ")
			return r
		}
		obs, mon := w.observe()
		r.trace.Steps = append(r.trace.Steps, map[string]any{"stim": st.Stim, "obs": obs})
		r.trace.Stims = append(r.trace.Stims, st.Stim.String())
		if st.Stim.K == "route" && i > 0 && b.Steps[i-1].Stim.B == 1 && b.Steps[i-1].Stim.K == "lclose" && b.Steps[i-1].Stim.P == st.Stim.P {
			// Close and Route of the same prefix back to back: which side of the monitor's delete did Route land on?
			if rr := obs["rret"].([]any); rr[1] == b.Steps[i-1].Stim.G {
				r.features["close_then_route_before_the_monitor_deleted_the_route__closed_listener_returned"] = true
			} else {
				r.features["close_then_route_after_the_monitor_deleted_the_route__new_listener_registered"] = true
			}
		}
		if i == len(b.Steps)-1 {
			c16Features(obs, r.features)
		}
		if len(mon) > 0 && len(r.monitors) == 0 {
			r.monitors, r.monitorAt = mon, i
		}
		if cut {
			r.conform, r.divergedAt, r.diff = false, i, "the next stimulus of the burst names a listener that Route has not created here"
			return r
		}
		var want map[string]any
		if err := json.Unmarshal(b.after(i), &want); err != nil {
			r.stuck = "bad model observation: " + err.Error()
			return r
		}
		if c16Canon(want) != c16Canon(obs) {
			r.conform, r.divergedAt, r.diff = false, i, c16DiffClass(want, obs)
			return r
		}
	}
	return r
}

// ---------------------------------------------------------------------------
// TLC configurations
// ---------------------------------------------------------------------------

type c16Cfg struct {
	conns, accs, maxGen int
	prefixes, payloads  string
	lims                string
	gen, hist           bool
	runFirst            bool
	preRoutes           []string
	kinds               string // "" = all
	burstFirst          string // stimulus kinds that may be followed by the next stimulus without waiting for quiescence ("" = none)
	burstNext           string // stimulus kinds that may follow them before quiescence
}

const c16Invs = "TypeOK ExactlyOnce NoneLeftBehind Transparent RegistrationKept RoutedByRegistration AcceptFailsAfterStop RunResult"

func tlaBool(b bool) string {
	if b {
		return "TRUE"
	}
	return "FALSE"
}

func (k c16Cfg) defs() (map[string]string, map[string]string) {
	return map[string]string{
			"Prefixes":  k.prefixes,
			"Conns":     fmt.Sprintf("1..%d", k.conns),
			"Payloads":  k.payloads,
			"Accs":      fmt.Sprintf("1..%d", k.accs),
			"Lims":      k.lims,
			"Allowed":   k.allowedSet(),
			"PreRoutes": k.preRouteSet(),
			"BurstFirst": c16Set(k.burstFirst), "BurstNext": c16Set(k.burstNext),
		}, map[string]string{
			"RunFirst":  tlaBool(k.runFirst),
			"PrefixLen": "2", "MaxGen": fmt.Sprint(k.maxGen), "Gen": tlaBool(k.gen), "Hist": tlaBool(k.hist),
		}
}

func c16Set(s string) string {
	if s == "" {
		return "{}"
	}
	return s
}

func (k c16Cfg) preRouteSet() string {
	qs := make([]string, len(k.preRoutes))
	for i, p := range k.preRoutes {
		qs[i] = `"` + p + `"`
	}
	return "{" + strings.Join(qs, ",") + "}"
}

// allowedSet is the TLA+ expression for the stimuli the environment may use.
func (k c16Cfg) allowedSet() string {
	if k.kinds == "" {
		return "StimSet"
	}
	return k.kinds
}

const (
	c16PayBasic = `{<<"A","A">>, <<"A","A","x","y">>, <<"B","B","x">>, <<"A","B","x","y">>}`
	c16PayRich  = `{<<"A">>, <<"A","A">>, <<"A","A","x","y">>, <<"B","B","x">>, <<"A","B","x","y">>, <<"x","A","A">>, <<"B","B","y","x","A">>, <<"x","y">>}`
	c16Pfx      = `{"AA","BB"}`
)

// ---------------------------------------------------------------------------
// the check
// ---------------------------------------------------------------------------

// C16 — listener multiplexer routes every connection once, by prefix, transparently.
func C16(c *vf.Ctx) {
	q := c.Quick()
	c.Assume = append(c.Assume,
		"ListenMux: one Run per multiplexer; the base listener's Accept fails once it is closed; connections block in Read until bytes or EOF arrive (no read deadlines)",
		"ListenMux replay: the director acts when the process is quiescent (every other goroutine parked; stop-the-world census) or, for stimuli the behaviour flags, back to back with the previous stimulus from one goroutine (no hook inside drpcmigrate: which of the woken goroutines has already run is not controlled, every order is a behaviour of the specification and the outcome is judged by TLC); other windows inside non-blocking regions of the multiplexer are covered by the design check with free interleavings, in the model only",
		"ListenMux: 'registered' is what mux.go implements: a prefix is registered while m.routes has an entry for it; Route returns the entry's listener even if that listener has been closed and its monitor has not yet removed the entry (the caller then holds a closed listener and the prefix falls back to the default listener), and registers a new listener only when there is no entry; one Route call at a time",
		"HeaderConn: the underlying connection follows the io.Writer contract (a short write returns an error) and a failed connection accepts no further bytes",
		"prefix length 2, byte alphabet {A,B,x,y}; routes AA and BB")
	var tlcRuns []string
	var runsMu sync.Mutex
	note := func(format string, a ...any) {
		runsMu.Lock()
		tlcRuns = append(tlcRuns, fmt.Sprintf(format, a...))
		runsMu.Unlock()
	}

	// A. exhaustive design checks (run in the background; they only need CPUs)
	var wg sync.WaitGroup
	design := func(label string, k c16Cfg, view string, heap int, timeout time.Duration) {
		wg.Add(1)
		go func() {
			defer wg.Done()
			defs, plain := k.defs()
			name, mod, consts := vf.MCModule("ListenMux", defs, plain)
			cfg := "SPECIFICATION Spec\n" + consts + "INVARIANTS " + c16Invs + "\nVIEW " + view + "\nCHECK_DEADLOCK FALSE\n"
			res, err := vf.TLC(vf.TLCOpts{Module: name, Cfg: cfg, Extra: map[string]string{name + ".tla": mod}, Timeout: timeout, HeapMB: heap, Workers: 8})
			c16Judge(c, res, err, "ListenMux "+label, note)
		}()
	}
	designHeader := func(label string, writers, sizes string, nwrites int, timeout time.Duration) {
		wg.Add(1)
		go func() {
			defer wg.Done()
			name, mod, consts := vf.MCModule("HeaderConn", map[string]string{"Writers": writers, "Sizes": sizes, "Lims": "{1000}"},
				map[string]string{"NWrites": fmt.Sprint(nwrites), "HLen": "2", "Gen": "FALSE", "Hist": "FALSE"})
			cfg := "SPECIFICATION Spec\n" + consts + "INVARIANTS " + c16HdrInvs + "\nVIEW view\nCHECK_DEADLOCK FALSE\n"
			res, err := vf.TLC(vf.TLCOpts{Module: name, Cfg: cfg, Extra: map[string]string{name + ".tla": mod}, Timeout: timeout, HeapMB: 3000, Workers: 4})
			c16Judge(c, res, err, "HeaderConn "+label, note)
		}()
	}
	if q {
		design("all stimulus sequences of length <= 5 at quiescence, 3 connections, 3 Accept calls",
			c16Cfg{conns: 3, accs: 3, maxGen: 1, prefixes: c16Pfx, payloads: c16PayBasic, lims: "{5}", gen: true}, "viewn", 4000, 5*time.Minute)
		design("free interleaving of stimuli and internal steps, length <= 5, 3 connections, 3 Accept calls",
			c16Cfg{conns: 3, accs: 3, maxGen: 1, prefixes: c16Pfx, payloads: c16PayBasic, lims: "{5}", gen: false}, "viewn", 4000, 5*time.Minute)
		design("free interleaving, unbounded, 1 connection, 1 Accept call, route AA, Route repeated (2 listeners per prefix)",
			c16Cfg{conns: 1, accs: 1, maxGen: 2, prefixes: `{"AA"}`, payloads: `{<<"A","A","x">>}`, lims: "{1000}", gen: false}, "view", 4000, 5*time.Minute)
		designHeader("3 writers x 1 write, free interleaving", `{"w1","w2","w3"}`, "{0,1,3}", 1, 5*time.Minute)
	} else {
		design("free interleaving, unbounded, 1 connection, 2 Accept calls, route AA, Route repeated (2 listeners per prefix)",
			c16Cfg{conns: 1, accs: 2, maxGen: 2, prefixes: `{"AA"}`, payloads: `{<<"A","A","x">>, <<"A","B","x">>}`, lims: "{1000}", gen: false}, "view", 6000, 14*time.Minute)
		design("all stimulus sequences of length <= 7 at quiescence, 3 connections, 3 Accept calls",
			c16Cfg{conns: 3, accs: 3, maxGen: 1, prefixes: c16Pfx, payloads: c16PayBasic, lims: "{7}", gen: true}, "viewn", 12000, 14*time.Minute)
		design("free interleaving of stimuli and internal steps, length <= 6, 3 connections, 3 Accept calls",
			c16Cfg{conns: 3, accs: 3, maxGen: 1, prefixes: c16Pfx, payloads: c16PayBasic, lims: "{6}", gen: false}, "viewn", 8000, 14*time.Minute)
		design("free interleaving, unbounded, 1 connection, 1 Accept call, routes AA/BB",
			c16Cfg{conns: 1, accs: 1, maxGen: 1, prefixes: c16Pfx, payloads: c16PayBasic, lims: "{1000}", gen: false}, "view", 8000, 14*time.Minute)
		design("all stimulus orders at quiescence, unbounded, 2 connections, 2 Accept calls, route AA",
			c16Cfg{conns: 2, accs: 2, maxGen: 1, prefixes: `{"AA"}`, payloads: `{<<"A","A">>, <<"A","A","x">>, <<"A","B","x">>}`, lims: "{1000}", gen: true}, "view", 12000, 14*time.Minute)
		designHeader("3 writers x 2 writes, free interleaving", `{"w1","w2","w3"}`, "{0,1,3}", 2, 10*time.Minute)
	}

	// B. behaviours replayed on the real ListenMux
	headerReplay := c16HeaderReplay(c, q, note) // generation starts now
	waitMux := c16ListenMuxReplay(c, q, note)

	// C. HeaderConn behaviours replayed on the real HeaderConn
	headerReplay()

	waitMux()
	wg.Wait()
	sort.Strings(tlcRuns)
	c.Cov["tlc_runs"] = tlcRuns
	c.Cov["rule"] = "ListenMux.tla models the multiplexer at goroutine-park grain (Run, monitorContext/Base/Listener, routeConn, Accept, prefixConn) with its environment; TLC checks exactly-once delivery, nothing-left-behind, byte transparency for every write split, Accept-fails-after-stop and Run's result exhaustively for the stated bounds. Route is a call (stimulus) and a separate registration step under the mux lock, a listener's monitor is a wake-up and a separate delete under the mux lock, RegistrationKept states what 'the route registered for its first bytes' means (a listener handed out by Route stays registered until it is closed; only its own monitor removes the entry) and RoutedByRegistration is the routing clause itself (a connection looked up while a live listener exists for its first bytes goes to that listener and never to the default one), so Route / Close / Route are explored against the monitor in every order. Behaviours (stimulus sequences with the observation the model demands at every quiescent point) are generated by TLC (seeded simulation over 3 connections / 4 Accept calls / routes AA,BB / re-registration, plus every behaviour of small configurations, one of them with Close and Route issued back to back so that the second Route races the closed listener's monitor) and replayed on the real drpcmigrate.ListenMux over a fake base listener and director-written connections; after each stimulus the process is run to quiescence (stop-the-world census) and the observation (Run state/result, Route result, per connection class/listener/acceptor/bytes/EOF, per Accept call state/result) is compared; a differing observation is accepted only if TLC (ListenMuxTrace.tla) finds it among the quiescent states the specification can reach, otherwise it is a violation; monitors transcribed from the property statement run on every real observation. HeaderConn.tla likewise: every behaviour of start/release (full, short, failing underlying writes; concurrent first writes) is replayed on the real HeaderConn over a gated connection and wire bytes, return values and blocked writers are compared. A behaviour is distinct by its stimulus sequence."
	c.Cov["exhaustive"] = false
}

func c16Judge(c *vf.Ctx, res *vf.TLCResult, err error, label string, note func(string, ...any)) bool {
	if err != nil {
		c.Inconclusive("tlc %s: %v", label, err)
		return false
	}
	if res.Violated != "" {
		c.Inconclusive("model %s violates %s (design-level; not a verdict about the code)\n%s", label, res.Violated, res.TraceText)
		return false
	}
	if !res.Finished {
		c.Inconclusive("TLC %s did not finish (timeout=%v): %s %s", label, res.TimedOut, res.ErrorText, res.Tail)
		return false
	}
	c.AddTLC(res)
	note("%s: generated=%d distinct=%d depth=%d records=%d wall=%.1fs", label, res.Generated, res.Distinct, res.Depth, res.NRecords, res.Wall.Seconds())
	return true
}

// c16ListenMuxReplay replays the behaviours; the returned function waits for the trace validations and writes the counters.
func c16ListenMuxReplay(c *vf.Ctx, q bool, note func(string, ...any)) (wait func()) {
	type genRun struct {
		label string
		k     c16Cfg
		sim   string
		depth int
	}
	nsim := 150 // per TLC worker (4 workers)
	if !q {
		nsim = 2500
	}
	const routedKinds = `{s \in StimSet : s.k \in {"incoming","write","cclose","accept"}}`
	runs := []genRun{
		{"every behaviour of length 4 after Run started: 1 connection, 1 Accept call, route AA", c16Cfg{conns: 1, accs: 1, maxGen: 1, prefixes: `{"AA"}`,
			payloads: `{<<"A","A","x">>, <<"A","B","x">>}`, lims: "{4}", gen: true, hist: true, runFirst: true}, "", 0},
		{"every behaviour of length 5 over incoming/write/cclose/accept with route AA registered and Run started: 1 connection, 2 Accept calls",
			c16Cfg{conns: 1, accs: 2, maxGen: 1, prefixes: `{"AA"}`, payloads: `{<<"A","A","x","y">>, <<"A","B","x">>, <<"A","A">>}`, lims: "{5}", gen: true, hist: true,
				runFirst: true, preRoutes: []string{"AA"}, kinds: routedKinds}, "", 0},
		{"seeded simulation over incoming/write/cclose/accept with routes AA,BB registered and Run started: 3 connections, 4 Accept calls",
			c16Cfg{conns: 3, accs: 4, maxGen: 1, prefixes: c16Pfx, payloads: c16PayRich, lims: "{8,11,14,17}", gen: true, hist: true,
				runFirst: true, preRoutes: []string{"AA", "BB"}, kinds: routedKinds}, fmt.Sprintf("num=%d", nsim), 400},
		{"seeded simulation, full alphabet with routes AA,BB registered and Run started: 3 connections, 4 Accept calls, re-registration",
			c16Cfg{conns: 3, accs: 4, maxGen: 2, prefixes: c16Pfx, payloads: c16PayRich, lims: "{6,9,12,15}", gen: true, hist: true,
				runFirst: true, preRoutes: []string{"AA", "BB"}}, fmt.Sprintf("num=%d", nsim), 400},
		{"seeded simulation, full alphabet after Run started: 3 connections, 4 Accept calls, routes AA/BB, re-registration",
			c16Cfg{conns: 3, accs: 4, maxGen: 2, prefixes: c16Pfx, payloads: c16PayRich, lims: "{6,9,12,15}", gen: true, hist: true, runFirst: true}, fmt.Sprintf("num=%d", nsim/2), 400},
		{"seeded simulation, full alphabet including Run: 2 connections, 3 Accept calls, route AA", c16Cfg{conns: 2, accs: 3, maxGen: 1, prefixes: `{"AA"}`,
			payloads: `{<<"A","A">>, <<"A","A","x","y">>, <<"A","B","x">>}`, lims: "{8,12}", gen: true, hist: true}, fmt.Sprintf("num=%d", nsim/2), 400},
	}
	// Close / Route back to back: the listener's monitor (woken by Close) races the second Route for the mux lock
	const reroute = `{s \in StimSet \cup BStimSet : s.k \in {"lclose","route","incoming","write","accept"} /\ (s.k = "lclose" => s.p # "def")}`
	const allBurst = `{"cancel","baseerr","route","incoming","write","cclose","accept","lclose"}`
	burstSim := nsim // (a simulation step evaluates every successor: with twice the alphabet this family is the slowest to generate)
	if !q {
		burstSim = nsim / 3
	}
	runs = append(runs,
		genRun{"every behaviour of length 5 over route/Close/incoming/write/accept with route AA registered and Run started, Close and Route also back to back (not waiting for the monitor): 1 connection, 1 Accept call, 3 listeners per prefix",
			c16Cfg{conns: 1, accs: 1, maxGen: 3, prefixes: `{"AA"}`, payloads: `{<<"A","A","x">>}`, lims: "{5}", gen: true, hist: true,
				runFirst: true, preRoutes: []string{"AA"}, kinds: reroute, burstFirst: `{"lclose","route"}`, burstNext: `{"route","lclose"}`}, "", 0},
		genRun{"seeded simulation, full alphabet, any stimulus may follow the previous one without waiting for quiescence, routes AA,BB registered and Run started: 3 connections, 4 Accept calls, 3 listeners per prefix",
			c16Cfg{conns: 3, accs: 4, maxGen: 3, prefixes: c16Pfx, payloads: c16PayRich, lims: "{6,9,12,15}", gen: true, hist: true,
				runFirst: true, preRoutes: []string{"AA", "BB"}, kinds: `StimSet \cup BStimSet`, burstFirst: allBurst, burstNext: allBurst}, fmt.Sprintf("num=%d", burstSim), 400},
		genRun{"seeded simulation over route/Close/incoming/write/accept, Close and Route also back to back, route AA registered and Run started: 2 connections, 3 Accept calls, 3 listeners per prefix",
			c16Cfg{conns: 2, accs: 3, maxGen: 3, prefixes: `{"AA"}`, payloads: `{<<"A","A">>, <<"A","A","x","y">>, <<"A","B","x">>}`, lims: "{7,10,13}", gen: true, hist: true,
				runFirst: true, preRoutes: []string{"AA"}, kinds: reroute, burstFirst: `{"lclose","route"}`, burstNext: `{"route","lclose"}`}, fmt.Sprintf("num=%d", nsim), 400},
	)
	if !q {
		runs = append(runs, genRun{"every behaviour of length 6 over route/Close/incoming/write/accept with route AA registered and Run started, Route also back to back after Close: 1 connection, 2 Accept calls, 3 listeners per prefix",
			c16Cfg{conns: 1, accs: 2, maxGen: 3, prefixes: `{"AA"}`, payloads: `{<<"A","A","x">>}`, lims: "{6}", gen: true, hist: true,
				runFirst: true, preRoutes: []string{"AA"}, kinds: reroute, burstFirst: `{"lclose"}`, burstNext: `{"route"}`}, "", 0})
		runs[0].k.lims = "{5}"
		runs[0].label = "every behaviour of length 5 after Run started: 1 connection, 1 Accept call, route AA"
		runs[1].k.lims = "{6}"
		runs[1].label = strings.Replace(runs[1].label, "length 5", "length 6", 1)
	}
	total, conform, altAccepted, rejected, monitorHits, conformanceOnly, truncated := 0, 0, 0, 0, 0, 0, 0
	tStart := time.Now()
	features := map[string]int{}
	baseline := runtime.NumGoroutine()
	// generate the behaviours of all configurations concurrently
	genBehs := make([][]*c16Beh, len(runs))
	genOK := make([]bool, len(runs))
	var gwg sync.WaitGroup
	for ri, gr := range runs {
		ri, gr := ri, gr
		gwg.Add(1)
		go func() {
			defer gwg.Done()
			defs, plain := gr.k.defs()
			name, mod, consts := vf.MCModule("ListenMux", defs, plain)
			cfg := "SPECIFICATION Spec\n" + consts + "INVARIANTS " + c16Invs + " EmitTerminal\nCHECK_DEADLOCK FALSE\n"
			seen := map[string]bool{}
			res, err := vf.TLC(vf.TLCOpts{Module: name, Cfg: cfg, Extra: map[string]string{name + ".tla": mod}, Timeout: 14 * time.Minute, HeapMB: 4000,
				Simulate: gr.sim, Depth: gr.depth, Seed: c.Seed + int64(ri), Workers: 4, OnLine: func(rec []byte) {
					var b c16Beh
					if err := json.Unmarshal(rec, &b); err != nil {
						c.Inconclusive("bad ListenMux record: %v", err)
						return
					}
					parts := make([]string, len(b.Steps))
					burst := false
					for i, s := range b.Steps {
						parts[i] = s.Stim.String()
						burst = burst || (s.Stim.B == 1 && i < len(b.Steps)-1)
					}
					key := strings.Join(parts, " ")
					if burst {
						// stimuli that do not wait for quiescence: the same stimulus sequence has one behaviour per order
						// of the internal steps with a different outcome; keep one of each (by the observations at the
						// quiescent points)
						for i := range b.Steps {
							if b.Steps[i].Stim.B == 0 || i == len(b.Steps)-1 {
								key += "|" + c16Canon(b.after(i))
							}
						}
					}
					if seen[key] || len(b.Steps) == 0 {
						return
					}
					seen[key] = true
					b.key = key
					genBehs[ri] = append(genBehs[ri], &b)
				}})
			genOK[ri] = c16Judge(c, res, err, "ListenMux behaviours: "+gr.label, note)
		}()
	}
	gwg.Wait()
	if os.Getenv("VERIF_DEBUG") != "" {
		fmt.Fprintf(os.Stderr, "listenmux generation done at %.1fs\n", time.Since(tStart).Seconds())
	}
	var vwg sync.WaitGroup
	var vmu sync.Mutex
	for ri, gr := range runs {
		ri, gr := ri, gr
		if !genOK[ri] {
			continue
		}
		behs := genBehs[ri]
		t0 := time.Now()
		// replay; collect the traces that need TLC's judgement
		type pending struct {
			beh *c16Beh
			r   c16Result
		}
		var pend []pending
		var sampleOK []pending
		for bi, b := range behs {
			if c.Violations() >= 5 {
				break
			}
			r := c16Replay(b, gr.k, 2, c.Seed*1000003+int64(bi))
			total++
			c.Eval(fmt.Sprintf("mux:%d:%s", ri, b.key))
			if r.stuck != "" {
				c.Inconclusive("ListenMux replay: %s", r.stuck)
				continue
			}
			if len(r.monitors) > 0 {
				monitorHits++
				c.Violation("ListenMux: "+r.monitors[0], map[string]any{"stimuli": r.trace.Stims[:r.monitorAt+1], "monitors": r.monitors,
					"observation": r.trace.Steps[r.monitorAt]["obs"], "config": gr.label})
				continue
			}
			for f := range r.features {
				features[f]++
			}
			if r.truncated {
				truncated++
				continue
			}
			if r.conform {
				conform++
				if len(sampleOK) < 40 && bi%7 == 0 {
					sampleOK = append(sampleOK, pending{b, r})
				}
				if len(b.Steps) >= 8 {
					c.Sample(map[string]any{"object": "ListenMux", "stimuli": r.trace.Stims, "final_observation": r.trace.Steps[len(r.trace.Steps)-1]["obs"]})
				}
				continue
			}
			pend = append(pend, pending{b, r})
		}
		if n := runtime.NumGoroutine(); n > baseline+8 {
			c.Warn("ListenMux replay: %d goroutines left over after %s", n-baseline, gr.label)
		}
		// trace validation: differing observations, a sample of the conforming ones, and one corrupted trace (must be rejected)
		var traces [][]map[string]any
		for _, p := range pend {
			traces = append(traces, p.r.trace.Steps)
		}
		nPend := len(traces)
		for _, p := range sampleOK {
			traces = append(traces, p.r.trace.Steps)
		}
		corrupt := -1
		if len(sampleOK) > 0 {
			if ct := c16Corrupt(sampleOK[0].r.trace.Steps); ct != nil {
				corrupt = len(traces)
				traces = append(traces, ct)
			}
		}
		if len(traces) == 0 {
			continue
		}
		if os.Getenv("VERIF_DEBUG") != "" {
			fmt.Fprintf(os.Stderr, "listenmux replay %q: %d behaviours in %.1fs, %d to validate\n", gr.label, len(behs), time.Since(t0).Seconds(), len(traces))
		}
		c.TraceValidated(int64(len(behs)))
		vwg.Add(1)
		go func() {
			defer vwg.Done()
			acc, ok := c16ValidateTraces(c, gr.k, traces, false, note, gr.label)
			if !ok {
				return
			}
			// what the full observation rejects is judged again on the property's observables only
			var rej [][]map[string]any
			var rejIdx []int
			for i := 0; i < nPend; i++ {
				if !acc[i] {
					rej = append(rej, traces[i])
					rejIdx = append(rejIdx, i)
				}
			}
			accP := map[int]bool{}
			if len(rej) > 0 {
				ap, ok := c16ValidateTraces(c, gr.k, rej, true, note, gr.label)
				if !ok {
					return
				}
				for j, i := range rejIdx {
					accP[i] = ap[j]
				}
			}
			vmu.Lock()
			defer vmu.Unlock()
			for i := range traces {
				switch {
				case i < nPend:
					p := pend[i]
					st := p.beh.Steps[p.r.divergedAt].Stim
					switch {
					case acc[i]:
						altAccepted++
					case accP[i]:
						conformanceOnly++
						c.Warn("ListenMux: observation after %s differs from the specification only in values the property does not constrain (%s): %s",
							st.K, p.r.diff, strings.Join(p.r.trace.Stims, " "))
					default:
						rejected++
						c.Violation(fmt.Sprintf("ListenMux: observation after %s is not among the outcomes the specification allows (%s)", st.K, p.r.diff),
							map[string]any{"stimuli": p.r.trace.Stims, "real_observation": p.r.trace.Steps[p.r.divergedAt]["obs"],
								"model_observation": p.beh.after(p.r.divergedAt), "config": gr.label})
					}
				case i == corrupt:
					if acc[i] {
						c.Inconclusive("trace validation accepted a deliberately corrupted trace (%s)", gr.label)
					}
				default:
					if !acc[i] {
						c.Inconclusive("trace validation rejected a trace that equals a TLC behaviour (%s)", gr.label)
					}
				}
			}
		}()
	}
	wait = func() {
		vwg.Wait()
		vmu.Lock()
		defer vmu.Unlock()
		c.Cov["listenmux_behaviours_replayed"] = total
		c.Cov["listenmux_conforming_exactly"] = conform
		c.Cov["listenmux_alternative_outcomes_accepted_by_trace_validation"] = altAccepted
		c.Cov["listenmux_rejected"] = rejected
		c.Cov["listenmux_behaviours_exhibiting"] = features
		c.Cov["listenmux_differences_outside_the_property"] = conformanceOnly
		c.Cov["listenmux_monitor_hits"] = monitorHits
		c.Cov["listenmux_conforming_but_cut_short_because_route_had_returned_another_listener"] = truncated
		if os.Getenv("VERIF_DEBUG") != "" {
			fmt.Fprintf(os.Stderr, "listenmux: total=%d conform=%d alt=%d rejected=%d monitors=%d\n", total, conform, altAccepted, rejected, monitorHits)
		}
	}
	return wait
}

// c16Corrupt returns a copy of a trace with one observation falsified (a delivered
// connection's bytes, or else the Run state), or nil.
func c16Corrupt(steps []map[string]any) []map[string]any {
	raw, _ := json.Marshal(steps)
	var cp []map[string]any
	if json.Unmarshal(raw, &cp) != nil || len(cp) == 0 {
		return nil
	}
	last := cp[len(cp)-1]["obs"].(map[string]any)
	run := last["run"].([]any)
	if run[0] == "idle" {
		run[0] = "ret"
	} else {
		run[0] = "idle"
	}
	return cp
}

// c16Project reduces recorded observations to what the property constrains (ObsP of ListenMuxTrace.tla).
func c16Project(traces [][]map[string]any) [][]map[string]any {
	raw, _ := json.Marshal(traces)
	var cp [][]map[string]any
	if err := json.Unmarshal(raw, &cp); err != nil {
		panic(err)
	}
	for _, t := range cp {
		for _, st := range t {
			o, ok := st["obs"].(map[string]any)
			if !ok {
				continue // inside a burst: no observation
			}
			run := o["run"].([]any)
			accs := o["accs"].([]any)
			for _, a := range accs {
				res := a.([]any)[2].([]any)
				if res[0] == "err" {
					res[2] = "err"
				} else {
					res[2] = ""
				}
			}
			st["obs"] = map[string]any{"run": []any{run[0]}, "conns": o["conns"], "accs": accs}
		}
	}
	return cp
}

// c16ValidateTraces asks TLC which of the recorded traces are behaviours of ListenMux.tla. Identical
// traces (behaviours that differ only after the point where the replay stopped) are judged once; TLC
// gets at most 2500 traces per run.
func c16ValidateTraces(c *vf.Ctx, k c16Cfg, traces [][]map[string]any, project bool, note func(string, ...any), label string) (map[int]bool, bool) {
	if project {
		traces = c16Project(traces)
		label += "; projected on the property's observables"
	}
	uniq := map[string]int{}
	var ut [][]map[string]any
	idx := make([]int, len(traces))
	for i, t := range traces {
		key := c16Canon(t)
		j, ok := uniq[key]
		if !ok {
			j = len(ut)
			uniq[key] = j
			ut = append(ut, t)
		}
		idx[i] = j
	}
	uacc := map[int]bool{}
	for lo := 0; lo < len(ut); lo += 2500 {
		hi := lo + 2500
		if hi > len(ut) {
			hi = len(ut)
		}
		a, ok := c16ValidateChunk(c, k, ut[lo:hi], project, note, fmt.Sprintf("%s; %d recorded, %d different", label, len(traces), len(ut)))
		if !ok {
			return nil, false
		}
		for j, v := range a {
			uacc[lo+j] = v
		}
	}
	acc := map[int]bool{}
	for i, j := range idx {
		acc[i] = uacc[j]
	}
	return acc, true
}

func c16ValidateChunk(c *vf.Ctx, k c16Cfg, traces [][]map[string]any, project bool, note func(string, ...any), label string) (map[int]bool, bool) {
	var sb strings.Builder
	sb.WriteString("{")
	for i, t := range traces {
		if i > 0 {
			sb.WriteString(",\n")
		}
		fmt.Fprintf(&sb, "[id |-> %d, steps |-> %s]", i+1, c16TLA(t))
	}
	sb.WriteString("}")
	k.lims, k.hist, k.gen = "{0}", false, true
	defs, plain := k.defs()
	defs["TraceLog"] = sb.String()
	plain["Project"] = tlaBool(project)
	name, mod, consts := vf.MCModule("ListenMuxTrace", defs, plain)
	cfg := "SPECIFICATION TSpec\n" + consts + "INVARIANTS TraceAccepted\nCHECK_DEADLOCK FALSE\n"
	if d := os.Getenv("VERIF_C16_DUMP"); d != "" {
		_ = os.MkdirAll(d, 0o755)
		_ = os.WriteFile(fmt.Sprintf("%s/%s-%d.tla", d, name, len(traces)), []byte(mod), 0o644)
		_ = os.WriteFile(fmt.Sprintf("%s/%s-%d.cfg", d, name, len(traces)), []byte(cfg), 0o644)
	}
	acc := map[int]bool{}
	res, err := vf.TLC(vf.TLCOpts{Module: name, Cfg: cfg, Extra: map[string]string{name + ".tla": mod}, Timeout: 10 * time.Minute, HeapMB: 4000, Workers: 4,
		OnLine: func(rec []byte) {
			var a struct {
				Acc int `json:"acc"`
			}
			if json.Unmarshal(rec, &a) == nil && a.Acc > 0 {
				acc[a.Acc-1] = true
			}
		}})
	if !c16Judge(c, res, err, fmt.Sprintf("ListenMuxTrace (%d traces; %s)", len(traces), label), note) {
		return nil, false
	}
	return acc, true
}

func init() {
	All["C16"] = C16
	SpecModules = append(SpecModules, "ListenMux", "ListenMuxTrace", "HeaderConn")
}
