package checks

import (
	"bytes"
	"encoding/json"
	"fmt"
	"go/ast"
	"go/parser"
	"go/token"
	"hash/fnv"
	"os"
	"os/exec"
	"path/filepath"
	"regexp"
	"sort"
	"strings"
	"sync"
	"time"

	"google.golang.org/protobuf/proto"
	"google.golang.org/protobuf/types/descriptorpb"
	"google.golang.org/protobuf/types/pluginpb"

	"verif/vf"
)

// ---------------------------------------------------------------------------------------
// scratch module, tools
// ---------------------------------------------------------------------------------------

type c17Env struct {
	c      *vf.Ctx
	repo   string // checkout of storj/drpc under test
	dir    string // scratch module (mktemp, removed afterwards)
	drpc   string // plugin under test, built from repo
	goPB   string // cached protoc-gen-go (message types, google)
	gogoPB string // cached protoc-gen-gogo (message types, gogo)

	mu       sync.Mutex
	reported map[string]int // violation signatures already reported
}

func c17Repo() string {
	if r := os.Getenv("VERIF_REPO"); r != "" {
		return r
	}
	return "/repo"
}

func (e *c17Env) goCmd(timeout time.Duration, args ...string) (string, error) {
	cmd := exec.Command("go1.26", args...)
	cmd.Dir = e.dir
	cmd.Env = append(os.Environ(), "GOFLAGS=-mod=mod", "GOPROXY=off", "GOSUMDB=off", "GOTOOLCHAIN=local", "GOWORK=off")
	var out bytes.Buffer
	cmd.Stdout, cmd.Stderr = &out, &out
	if err := cmd.Start(); err != nil {
		return "", err
	}
	done := make(chan error, 1)
	go func() { done <- cmd.Wait() }()
	select {
	case err := <-done:
		return out.String(), err
	case <-time.After(timeout):
		_ = cmd.Process.Kill()
		<-done
		return out.String(), fmt.Errorf("timeout after %v", timeout)
	}
}

func (e *c17Env) write(rel, text string) error {
	p := filepath.Join(e.dir, rel)
	if err := os.MkdirAll(filepath.Dir(p), 0o755); err != nil {
		return err
	}
	return os.WriteFile(p, []byte(text), 0o644)
}

// setup creates the scratch module and builds the three plugins.  ok=false: inconclusive.
func (e *c17Env) setup() bool {
	c := e.c
	dir, err := os.MkdirTemp("", "verif-c17-")
	if err != nil {
		c.Inconclusive("mktemp: %v", err)
		return false
	}
	e.dir = dir
	gomod := fmt.Sprintf("module %s\n\ngo 1.19\n\nrequire (\n\tgithub.com/gogo/protobuf v1.3.2\n\tgithub.com/zeebo/errs v1.2.2\n\tgoogle.golang.org/protobuf v1.27.1\n\tstorj.io/drpc v0.0.0\n)\n\nreplace storj.io/drpc => %s\n", c17Module, e.repo)
	if err := e.write("go.mod", gomod); err != nil {
		c.Inconclusive("scratch module: %v", err)
		return false
	}
	_ = e.write("rtlib/rtlib.go", c17RtlibSrc)
	_ = e.write("customlib/customlib.go", c17CustomLibSrc)
	_ = e.write(c17MsgsPkg("custom")+"/msgs.go", fmt.Sprintf(c17CustomMsgsSrc, c17MsgsPkg("custom")))
	e.drpc, e.goPB, e.gogoPB = filepath.Join(dir, "bin", "protoc-gen-go-drpc"), filepath.Join(dir, "bin", "protoc-gen-go"), filepath.Join(dir, "bin", "protoc-gen-gogo")
	if out, err := e.goCmd(5*time.Minute, "build", "-o", e.drpc, "storj.io/drpc/cmd/protoc-gen-go-drpc"); err != nil {
		c.Inconclusive("the generator of the checkout under test does not build: %v\n%s", err, out)
		return false
	}
	if out, err := e.goCmd(5*time.Minute, "build", "-o", e.goPB, "google.golang.org/protobuf/cmd/protoc-gen-go"); err != nil {
		c.Inconclusive("cached protoc-gen-go does not build: %v\n%s", err, out)
		return false
	}
	if out, err := e.goCmd(5*time.Minute, "build", "-o", e.gogoPB, "github.com/gogo/protobuf/protoc-gen-gogo"); err != nil {
		c.Inconclusive("cached protoc-gen-gogo does not build: %v\n%s", err, out)
		return false
	}
	// imported message packages (one per protobuf library)
	for _, lib := range []string{"google", "gogo"} {
		req := c17Request(&cgRec{File: cgFile{Pkg: "p", Lib: lib, Msgs: "imported"}}, "unused", true)
		files, perr, err := e.runPlugin(e.msgPlugin(lib), req)
		if err != nil || perr != "" || len(files) != 1 {
			c.Inconclusive("message generation (%s) failed: %v %s", lib, err, perr)
			return false
		}
		_ = e.write(c17MsgsPkg(lib)+"/msgs.pb.go", files[0].GetContent())
	}
	return true
}

func (e *c17Env) msgPlugin(lib string) string {
	if lib == "gogo" {
		return e.gogoPB
	}
	return e.goPB
}

// ---------------------------------------------------------------------------------------
// descriptor -> CodeGeneratorRequest (protoc is not installed; this is what protoc would send)
// ---------------------------------------------------------------------------------------

func c17Messages() []*descriptorpb.DescriptorProto {
	mk := func(name, field string) *descriptorpb.DescriptorProto {
		return &descriptorpb.DescriptorProto{Name: proto.String(name), Field: []*descriptorpb.FieldDescriptorProto{{
			Name: proto.String(field), JsonName: proto.String(field), Number: proto.Int32(1),
			Label: descriptorpb.FieldDescriptorProto_LABEL_OPTIONAL.Enum(), Type: descriptorpb.FieldDescriptorProto_TYPE_STRING.Enum()}}}
	}
	return []*descriptorpb.DescriptorProto{mk("In", "q"), mk("Out", "r")}
}

func c17LibPath(lib string) string {
	switch lib {
	case "google":
		return "google.golang.org/protobuf"
	case "gogo":
		return "github.com/gogo/protobuf"
	}
	return c17Module + "/customlib"
}

// c17Request builds the request for the descriptor of r (only the input fields of the record are
// used: package, names, streaming flags, options).  msgsOnly asks for the imported message file.
func c17Request(r *cgRec, pk string, msgsOnly bool) *pluginpb.CodeGeneratorRequest {
	msgs := &descriptorpb.FileDescriptorProto{
		Name: proto.String("msgs/msgs.proto"), Package: proto.String("msgs"), Syntax: proto.String("proto3"),
		Options:     &descriptorpb.FileOptions{GoPackage: proto.String(c17Module + "/" + c17MsgsPkg(r.File.Lib))},
		MessageType: c17Messages(),
	}
	if msgsOnly {
		return &pluginpb.CodeGeneratorRequest{FileToGenerate: []string{"msgs/msgs.proto"}, ProtoFile: []*descriptorpb.FileDescriptorProto{msgs},
			CompilerVersion: &pluginpb.Version{Major: proto.Int32(3), Minor: proto.Int32(17), Patch: proto.Int32(3)}}
	}
	fd := &descriptorpb.FileDescriptorProto{
		Name: proto.String("svc.proto"), Syntax: proto.String("proto3"),
		Options: &descriptorpb.FileOptions{GoPackage: proto.String(c17Module + "/" + pk)},
	}
	if r.File.Pkg != "" {
		fd.Package = proto.String(r.File.Pkg)
	}
	files := []*descriptorpb.FileDescriptorProto{}
	prefix := "."
	if r.File.Msgs == "imported" {
		fd.Dependency = []string{"msgs/msgs.proto"}
		files = append(files, msgs)
		prefix = ".msgs."
	} else {
		fd.MessageType = c17Messages()
		if r.File.Pkg != "" {
			prefix = "." + r.File.Pkg + "."
		}
	}
	for _, s := range r.Svcs {
		sd := &descriptorpb.ServiceDescriptorProto{Name: proto.String(s.Name)}
		for _, m := range s.Meths {
			md := &descriptorpb.MethodDescriptorProto{Name: proto.String(m.Name), InputType: proto.String(prefix + "In"), OutputType: proto.String(prefix + "Out")}
			if m.CS {
				md.ClientStreaming = proto.Bool(true)
			}
			if m.SS {
				md.ServerStreaming = proto.Bool(true)
			}
			sd.Method = append(sd.Method, md)
		}
		fd.Service = append(fd.Service, sd)
	}
	files = append(files, fd)
	return &pluginpb.CodeGeneratorRequest{
		FileToGenerate:  []string{"svc.proto"},
		Parameter:       proto.String(fmt.Sprintf("protolib=%s,json=%v", c17LibPath(r.File.Lib), r.File.JSON)),
		ProtoFile:       files,
		CompilerVersion: &pluginpb.Version{Major: proto.Int32(3), Minor: proto.Int32(17), Patch: proto.Int32(3)},
	}
}

// runPlugin speaks the protoc plugin protocol with one plugin process.
func (e *c17Env) runPlugin(bin string, req *pluginpb.CodeGeneratorRequest) (files []*pluginpb.CodeGeneratorResponse_File, pluginErr string, err error) {
	if bin != e.drpc {
		req = proto.Clone(req).(*pluginpb.CodeGeneratorRequest)
		req.Parameter = nil
	}
	in, err := proto.Marshal(req)
	if err != nil {
		return nil, "", err
	}
	cmd := exec.Command(bin)
	cmd.Stdin = bytes.NewReader(in)
	var out, serr bytes.Buffer
	cmd.Stdout, cmd.Stderr = &out, &serr
	if err := cmd.Run(); err != nil {
		return nil, "", fmt.Errorf("%v: %s", err, strings.TrimSpace(serr.String()))
	}
	var resp pluginpb.CodeGeneratorResponse
	if err := proto.Unmarshal(out.Bytes(), &resp); err != nil {
		return nil, "", fmt.Errorf("response: %v", err)
	}
	return resp.File, resp.GetError(), nil
}

// ---------------------------------------------------------------------------------------
// reporting
// ---------------------------------------------------------------------------------------

// report files one violation per signature (the first descriptor showing it is the replay).
func (e *c17Env) report(sig string, r *cgRec, extra map[string]any) {
	e.mu.Lock()
	e.reported[sig]++
	n := e.reported[sig]
	e.mu.Unlock()
	if n > 1 {
		return
	}
	rep := map[string]any{"descriptor": c17Proto(r), "key": r.key(), "options": r.File}
	for k, v := range extra {
		rep[k] = v
	}
	e.c.Violation(sig, rep)
}

// c17Proto renders the descriptor as .proto text (for the replay file and samples).
func c17Proto(r *cgRec) string {
	var b strings.Builder
	b.WriteString("syntax = \"proto3\";\n")
	if r.File.Pkg != "" {
		fmt.Fprintf(&b, "package %s;\n", r.File.Pkg)
	}
	t := ""
	if r.File.Msgs == "imported" {
		b.WriteString("import \"msgs/msgs.proto\";\n")
		t = "msgs."
	} else {
		b.WriteString("message In { string q = 1; }\nmessage Out { string r = 1; }\n")
	}
	for _, s := range r.Svcs {
		fmt.Fprintf(&b, "service %s {", s.Name)
		for _, m := range s.Meths {
			cs, ss := "", ""
			if m.CS {
				cs = "stream "
			}
			if m.SS {
				ss = "stream "
			}
			fmt.Fprintf(&b, " rpc %s(%s%sIn) returns (%s%sOut);", m.Name, cs, t, ss, t)
		}
		b.WriteString(" }\n")
	}
	return b.String()
}

// ---------------------------------------------------------------------------------------
// level 1: run the generator, compare the declared identifiers with the predicted ones
// ---------------------------------------------------------------------------------------

type c17Gen struct {
	rec      *cgRec
	pk       string   // Go package (directory) name the file was generated for
	content  string   // generated *_drpc.pb.go ("" if nothing was generated)
	dups     []string // duplicate (scope,id) pairs found in the generated file that the specification predicts
	bad      bool     // a violation was already reported for this descriptor at level 1
	rejected bool     // the generator refused the descriptor with an error response (and the specification predicts a clash)
}

type scopedID struct{ scope, id string }

// c17IfaceRef names the k-th service level interface declaration called name.
type c17IfaceRef struct {
	name string
	k    int
}

// declared lists what a generated file declares: package level types and functions, and the
// method names of the given interfaces (scope name -> interface type name, k-th declaration).
func c17Declared(src string, ifaces map[string]c17IfaceRef) (map[scopedID]int, error) {
	fset := token.NewFileSet()
	f, err := parser.ParseFile(fset, "svc_drpc.pb.go", src, parser.SkipObjectResolution)
	if err != nil {
		return nil, err
	}
	out := map[scopedID]int{}
	seen := map[string]int{} // interface declarations per name, client/server interfaces only
	for _, d := range f.Decls {
		switch d := d.(type) {
		case *ast.FuncDecl:
			if d.Recv == nil {
				out[scopedID{"package", d.Name.Name}]++
			}
		case *ast.GenDecl:
			for _, sp := range d.Specs {
				switch sp := sp.(type) {
				case *ast.TypeSpec:
					out[scopedID{"package", sp.Name.Name}]++
					it, ok := sp.Type.(*ast.InterfaceType)
					if !ok {
						continue
					}
					names, embedsStream := []string{}, false
					for _, m := range it.Methods.List {
						if len(m.Names) == 0 {
							embedsStream = true
						}
						for _, n := range m.Names {
							names = append(names, n.Name)
						}
					}
					if embedsStream {
						continue // a stream interface, not a service level one
					}
					k := seen[sp.Name.Name]
					seen[sp.Name.Name]++
					for scope, want := range ifaces {
						if want.name == sp.Name.Name && want.k == k {
							for _, n := range names {
								out[scopedID{scope, n}]++
							}
						}
					}
				case *ast.ValueSpec:
					for _, n := range sp.Names {
						out[scopedID{"package", n.Name}]++
					}
				}
			}
		}
	}
	return out, nil
}

func (e *c17Env) level1(r *cgRec, pk string) *c17Gen {
	c := e.c
	g := &c17Gen{rec: r, pk: pk}
	files, perr, err := e.runPlugin(e.drpc, c17Request(r, pk, false))
	if err != nil {
		e.report("generator crashes on a valid descriptor", r, map[string]any{"error": err.Error()})
		g.bad = true
		return g
	}
	if perr != "" {
		// a clean rejection takes the definition out of the property's quantifier ("every service
		// definition the generator accepts"); the specification only allows it where it predicts a clash
		if len(r.Collisions) > 0 {
			g.rejected = true
			return g
		}
		e.report("generator rejects a service definition that the specification accepts", r, map[string]any{"error": perr})
		g.bad = true
		return g
	}
	if !r.Generates {
		if len(files) != 0 {
			e.report("generator emits a file for a descriptor without services", r, nil)
			g.bad = true
		}
		return g
	}
	if len(files) != 1 || !strings.HasSuffix(files[0].GetName(), "svc_drpc.pb.go") {
		names := []string{}
		for _, f := range files {
			names = append(names, f.GetName())
		}
		e.report("generator does not emit exactly one _drpc.pb.go file", r, map[string]any{"files": names})
		g.bad = true
		return g
	}
	g.content = files[0].GetContent()

	// which declared interface is the client/server interface of which service
	ifaces := map[string]c17IfaceRef{}
	cnt := map[string]int{}
	for si, s := range r.Svcs {
		ifaces[fmt.Sprintf("client%d", si+1)] = c17IfaceRef{s.ClientIface, cnt[s.ClientIface]}
		cnt[s.ClientIface]++
		ifaces[fmt.Sprintf("server%d", si+1)] = c17IfaceRef{s.ServerIface, cnt[s.ServerIface]}
		cnt[s.ServerIface]++
	}
	got, err := c17Declared(g.content, ifaces)
	if err != nil {
		e.report("generated file does not parse", r, map[string]any{"error": err.Error()})
		g.bad = true
		return g
	}
	want := map[scopedID]int{}
	roles := map[scopedID][]string{}
	for _, id := range r.Idents {
		if id.Role == "messageIn" || id.Role == "messageOut" {
			continue // declared by the message generator, not by this file
		}
		k := scopedID{id.Scope, id.ID}
		want[k]++
		roles[k] = append(roles[k], id.Role)
	}
	missing, extra := []string{}, []string{}
	for k, n := range want {
		if got[k] < n {
			missing = append(missing, strings.Join(roles[k], "+"))
		}
		if got[k] > n {
			extra = append(extra, k.scope)
		}
	}
	for k := range got {
		if want[k] == 0 {
			extra = append(extra, k.scope)
		}
	}
	if len(missing)+len(extra) > 0 {
		sort.Strings(missing)
		sort.Strings(extra)
		gl := []string{}
		for k, n := range got {
			gl = append(gl, fmt.Sprintf("%s:%s x%d", k.scope, k.id, n))
		}
		sort.Strings(gl)
		e.report(fmt.Sprintf("generated identifiers differ from the specification's name functions: missing roles %v, unpredicted declarations in %v", uniq(missing), uniq(extra)),
			r, map[string]any{"declared": gl, "predicted": r.Idents})
		g.bad = true
		return g
	}
	// predicted clashes are really there (got == want as multisets, so this only names them)
	for _, col := range r.Collisions {
		k := scopedID{col.Scope, col.ID}
		if got[k] >= 2 {
			g.dups = append(g.dups, col.Class+": "+col.ID)
		} else {
			c.Warn("specification predicts a clash on %s that the generated file does not have (%s)", col.ID, r.key())
		}
	}
	return g
}

func uniq(s []string) []string {
	out := []string{}
	for i, x := range s {
		if i == 0 || s[i-1] != x {
			out = append(out, x)
		}
	}
	return out
}

// ---------------------------------------------------------------------------------------
// level 2: compile the generated package and run the round trip
// ---------------------------------------------------------------------------------------

type c17Pkg struct {
	name string
	gen  *c17Gen
}

var (
	reBuildHdr = regexp.MustCompile(`^# (\S+)`)
	reBuildErr = regexp.MustCompile(`^(\S+?\.go):\d+:\d+: (.*)$`)
)

// materialize writes the package of one descriptor into the scratch module.
func (e *c17Env) materialize(p *c17Pkg) bool {
	r := p.gen.rec
	_ = e.write(p.name+"/svc_drpc.pb.go", p.gen.content)
	if r.File.Msgs == "local" {
		if r.File.Lib == "custom" {
			_ = e.write(p.name+"/msgs.go", fmt.Sprintf(c17CustomMsgsSrc, p.name))
		} else {
			files, perr, err := e.runPlugin(e.msgPlugin(r.File.Lib), c17Request(r, p.name, false))
			if err != nil || perr != "" || len(files) != 1 {
				e.c.Inconclusive("message generation failed for %s: %v %s", r.key(), err, perr)
				return false
			}
			_ = e.write(p.name+"/svc.pb.go", files[0].GetContent())
		}
	}
	if len(r.Collisions) == 0 {
		sig, drv := c17Driver(r, p.name)
		_ = e.write(p.name+"/rt_sig.go", sig)
		_ = e.write(p.name+"/rt.go", drv)
	}
	return true
}

type c17BuildErrs struct {
	gen    []string // errors located in the generated file
	sig    []string // errors in the predicted-signature assertions
	drv    []string // errors in the driver
	others []string
}

func (e *c17Env) level2(pkgs []*c17Pkg) {
	c := e.c
	if len(pkgs) == 0 {
		return
	}
	okPkgs := []*c17Pkg{}
	for _, p := range pkgs {
		if e.materialize(p) {
			okPkgs = append(okPkgs, p)
		}
	}
	start := time.Now()
	out, err := e.goCmd(20*time.Minute, "build", "-gcflags=-e", "./...")
	c.Cov["go_build_wall_s"] = time.Since(start).Seconds()
	if err != nil && strings.Contains(err.Error(), "timeout") {
		c.Inconclusive("go build of the generated packages timed out")
		return
	}
	// sort the compiler output by package
	errs := map[string]*c17BuildErrs{}
	cur := ""
	for _, line := range strings.Split(out, "\n") {
		if m := reBuildHdr.FindStringSubmatch(line); m != nil {
			cur = strings.TrimPrefix(m[1], c17Module+"/")
			if errs[cur] == nil {
				errs[cur] = &c17BuildErrs{}
			}
			continue
		}
		if strings.HasPrefix(line, "\t") || strings.TrimSpace(line) == "" {
			continue // continuation ("other declaration of ...")
		}
		be := errs[cur]
		if be == nil {
			c.Inconclusive("unexpected go build output: %s", line)
			return
		}
		m := reBuildErr.FindStringSubmatch(line)
		if m == nil {
			be.others = append(be.others, line)
			continue
		}
		msg := strings.ReplaceAll(m[2], cur+".", "")
		switch filepath.Base(m[1]) {
		case "svc_drpc.pb.go":
			be.gen = append(be.gen, msg)
		case "rt_sig.go":
			be.sig = append(be.sig, msg)
		case "rt.go":
			be.drv = append(be.drv, msg)
		default:
			be.others = append(be.others, line)
		}
	}
	byName := map[string]*c17Pkg{}
	for _, p := range okPkgs {
		byName[p.name] = p
	}
	for name, be := range errs {
		if byName[name] == nil {
			c.Inconclusive("go build reports errors outside the generated packages (%s): %v %v", name, be.gen, be.others)
			return
		}
	}
	runnable := []string{}
	sort.SliceStable(okPkgs, func(i, j int) bool {
		a, b := okPkgs[i].gen.rec, okPkgs[j].gen.rec
		if len(a.Collisions) > 0 && len(b.Collisions) > 0 {
			return c17Smaller(a, b)
		}
		return false
	})
	for _, p := range okPkgs {
		r := p.gen.rec
		be := errs[p.name]
		c.Eval("build:" + r.key())
		if len(r.Collisions) > 0 {
			// the specification predicts duplicate declarations; the compiler must agree
			confirmed := 0
			for _, col := range r.Collisions {
				hit := false
				if be != nil {
					for _, m := range be.gen {
						if strings.Contains(m, "redeclared") && strings.Contains(m, col.ID) || strings.Contains(m, "duplicate method "+col.ID) {
							hit = true
						}
					}
				}
				if hit {
					confirmed++
					e.report("ident-collision "+col.Class+": "+col.ID, r, map[string]any{"collision": col, "compiler": be.gen})
				}
			}
			if confirmed == 0 {
				if be == nil {
					c.Warn("specification predicts a clash for %s but the package compiles", r.key())
				} else {
					e.report("generated file does not type-check: "+stripNames(r, be.first()), r, map[string]any{"compiler": be})
				}
			}
			continue
		}
		if be == nil {
			runnable = append(runnable, p.name)
			continue
		}
		switch {
		case len(be.gen) > 0:
			e.report("generated file does not type-check: "+stripNames(r, be.gen[0]), r, map[string]any{"compiler": be.gen})
		case len(be.sig) > 0:
			e.report("generated API differs from the predicted signatures: "+stripNames(r, be.sig[0]), r, map[string]any{"compiler": be.sig})
		case len(be.drv) > 0:
			e.report("generated API cannot be used as predicted: "+stripNames(r, be.drv[0]), r, map[string]any{"compiler": be.drv})
		default:
			c.Inconclusive("package %s (%s) fails to build for reasons outside the generated code: %v", p.name, r.key(), be.others)
		}
	}
	if len(runnable) == 0 {
		return
	}
	_ = e.write("runner/main.go", c17Runner(runnable))
	bin := filepath.Join(e.dir, "bin", "runner")
	start = time.Now()
	if out, err := e.goCmd(20*time.Minute, "build", "-o", bin, "./runner"); err != nil {
		c.Inconclusive("runner does not build: %v\n%s", err, tailStr(out, 2000))
		return
	}
	c.Cov["runner_build_wall_s"] = time.Since(start).Seconds()
	seen := map[string]bool{}
	from, crashes := 0, 0
	for from < len(runnable) {
		so, se, err := e.runRunner(bin, from)
		if err != nil && so == nil {
			c.Inconclusive("runner: %v", err)
			return
		}
		last := -1
		for _, line := range bytes.Split(so, []byte("\n")) {
			if len(bytes.TrimSpace(line)) == 0 {
				continue
			}
			var o c17FileObs
			if jerr := json.Unmarshal(line, &o); jerr != nil {
				if err != nil {
					break // output cut off by the crash
				}
				c.Inconclusive("runner output: %v", jerr)
				return
			}
			if o.Begin != nil {
				last = *o.Begin
				continue
			}
			p := byName[o.Pkg]
			if p == nil {
				c.Inconclusive("runner reports unknown package %q", o.Pkg)
				return
			}
			seen[o.Pkg] = true
			e.compare(p.gen.rec, &o)
		}
		if err == nil {
			break
		}
		// the process died: attribute it to the package that was running
		if last < 0 || last >= len(runnable) || seen[runnable[last]] {
			c.Inconclusive("runner failed outside a round trip: %v\n%s", err, tailStr(se, 3000))
			return
		}
		msg, where := c17Panic(se)
		if msg == "" {
			c.Inconclusive("runner died without a Go panic while running %s: %v\n%s", runnable[last], err, tailStr(se, 3000))
			return
		}
		r := byName[runnable[last]].gen.rec
		c.TraceValidated(1)
		e.report("round trip crashes the process: "+stripNames(r, msg)+" in "+where, r, map[string]any{"panic": msg, "stderr": tailStr(se, 4000)})
		seen[runnable[last]] = true
		from = last + 1
		crashes++
		if crashes >= 5 {
			c.Warn("runner crashed %d times; the remaining %d packages were not run", crashes, len(runnable)-from)
			break
		}
	}
	for _, n := range runnable {
		if !seen[n] {
			c.Warn("runner stopped before %s (after repeated time-outs or crashes)", n)
		}
	}
}

// runRunner runs the round-trip binary from package index from on; so==nil means it could not be run at all.
func (e *c17Env) runRunner(bin string, from int) (so []byte, se string, err error) {
	cmd := exec.Command(bin, fmt.Sprint(from))
	cmd.Env = append(os.Environ(), "GOLANG_PROTOBUF_REGISTRATION_CONFLICT=ignore", "GOTRACEBACK=all")
	var bo, be bytes.Buffer
	cmd.Stdout, cmd.Stderr = &bo, &be
	if err := cmd.Start(); err != nil {
		return nil, "", err
	}
	done := make(chan error, 1)
	go func() { done <- cmd.Wait() }()
	select {
	case err = <-done:
	case <-time.After(10 * time.Minute):
		_ = cmd.Process.Kill()
		<-done
		return nil, be.String(), fmt.Errorf("runner timed out")
	}
	return bo.Bytes(), be.String(), err
}

var rePanicLine = regexp.MustCompile(`(?m)^panic: (.*)$`)

// c17Panic extracts the panic message and whether the panicking goroutine was inside drpc / generated code.
func c17Panic(stderr string) (msg, where string) {
	m := rePanicLine.FindStringSubmatchIndex(stderr)
	if m == nil {
		return "", ""
	}
	msg = stderr[m[2]:m[3]]
	if i := strings.Index(msg, " [recovered]"); i > 0 {
		msg = msg[:i]
	}
	rest := stderr[m[1]:]
	if i := strings.Index(rest, "\n\ngoroutine "); i >= 0 {
		if j := strings.Index(rest[i+2:], "\n\n"); j >= 0 {
			rest = rest[:i+2+j]
		}
	}
	where = "harness code"
	for _, l := range strings.Split(rest, "\n") {
		if strings.Contains(l, "svc_drpc.pb.go") {
			return msg, "generated code"
		}
		if strings.HasPrefix(l, "storj.io/drpc/") && where == "harness code" {
			where = "drpc"
		}
	}
	return msg, where
}

// stripNames removes the descriptor's own names from an error text.
func stripNames(r *cgRec, s string) string {
	s = stripTypes(s)
	for _, sv := range r.Svcs {
		for _, m := range sv.Meths {
			s = strings.ReplaceAll(s, "."+m.Go+":", ".<method>:")
			s = strings.ReplaceAll(s, "."+m.Go+"(", ".<method>(")
			s = strings.ReplaceAll(s, "."+m.Go+" ", ".<method> ")
		}
	}
	return s
}

func (be *c17BuildErrs) first() string {
	for _, l := range [][]string{be.gen, be.sig, be.drv, be.others} {
		if len(l) > 0 {
			return l[0]
		}
	}
	return "?"
}

func tailStr(s string, n int) string {
	if len(s) > n {
		return s[len(s)-n:]
	}
	return s
}

// observation types (rtlib's JSON)
type c17Ran struct {
	Svc     int    `json:"svc"`
	Meth    int    `json:"meth"`
	Shape   string `json:"shape"`
	Payload string `json:"payload"`
}

type c17Call struct {
	Svc      int      `json:"svc"`
	Meth     int      `json:"meth"`
	Wire     []string `json:"wire"`
	Ran      []c17Ran `json:"ran"`
	Reply    string   `json:"reply"`
	Err      string   `json:"err"`
	TimedOut bool     `json:"timed_out"`
	Parked   []string `json:"parked"`
	Skipped  bool     `json:"skipped"`
	CliOps   []string `json:"cliops"`
	SrvOps   []string `json:"srvops"`
}

type c17DescMeth struct {
	RPC    string `json:"rpc"`
	OK     bool   `json:"ok"`
	NumIn  int    `json:"numin"`
	NumOut int    `json:"numout"`
	Type   string `json:"type"`
}

type c17Desc struct {
	Svc        int           `json:"svc"`
	NumMethods int           `json:"num_methods"`
	Methods    []c17DescMeth `json:"methods"`
	PastEndOK  bool          `json:"past_end_ok"`
	EncMethods []string      `json:"enc_methods"`
	EncTrip    string        `json:"enc_trip"`
	JSONTrip   string        `json:"json_trip"`
	Unimpl     []string      `json:"unimpl"`
}

type c17FileObs struct {
	Begin  *int      `json:"begin"`
	Pkg    string    `json:"pkg"`
	RegErr []string  `json:"reg_err"`
	Descs  []c17Desc `json:"descs"`
	Calls  []c17Call `json:"calls"`
	Panic  string    `json:"panic"`
}

func sameSet(a, b []string) bool {
	x, y := append([]string{}, a...), append([]string{}, b...)
	sort.Strings(x)
	sort.Strings(y)
	return strings.Join(x, ",") == strings.Join(y, ",") && len(x) == len(y)
}

// compare judges one executed descriptor against the record of the specification.
func (e *c17Env) compare(r *cgRec, o *c17FileObs) {
	c := e.c
	c.TraceValidated(1)
	if o.Panic != "" {
		e.report("round trip panics", r, map[string]any{"panic": o.Panic})
		return
	}
	for i, er := range o.RegErr {
		if er != "" {
			e.report("mux rejects a generated service: "+stripTypes(er), r, map[string]any{"service": i + 1, "error": er})
			return
		}
	}
	if len(o.Descs) != len(r.Svcs) {
		c.Inconclusive("driver reported %d descriptions for %d services", len(o.Descs), len(r.Svcs))
		return
	}
	for si, d := range o.Descs {
		s := r.Svcs[si]
		if d.NumMethods != len(s.Meths) || d.PastEndOK {
			e.report("description enumerates a wrong number of methods", r, map[string]any{"service": s.Name, "num_methods": d.NumMethods, "past_end_ok": d.PastEndOK})
			continue
		}
		for mi, dm := range d.Methods {
			m := s.Meths[mi]
			switch {
			case !dm.OK:
				e.report("description returns an incomplete method entry", r, map[string]any{"method": m.Name})
			case dm.RPC != m.RPC:
				e.report(fmt.Sprintf("server RPC name differs from \"/\"+service full name+\"/\"+method (%s)", m.Shape), r, map[string]any{"want": m.RPC, "got": dm.RPC})
			case dm.NumIn != m.NumIn || dm.NumOut != m.NumOut:
				e.report(fmt.Sprintf("method expression of a %s method has NumIn=%d NumOut=%d, specification %d/%d (class %s)", m.Shape, dm.NumIn, dm.NumOut, m.NumIn, m.NumOut, m.Class),
					r, map[string]any{"method": m.Name, "type": dm.Type})
			}
		}
		if len(s.Meths) > 0 {
			if !sameSet(d.EncMethods, r.EncMethods) {
				e.report(fmt.Sprintf("encoding type has methods %v, specification %v (lib %s json %v)", d.EncMethods, r.EncMethods, r.File.Lib, r.File.JSON), r, nil)
			}
			if d.EncTrip != "ok" {
				e.report("generated encoding does not round-trip a message ("+r.File.Lib+"): "+firstWord(d.EncTrip), r, map[string]any{"result": d.EncTrip})
			}
			if r.File.JSON && d.JSONTrip != "ok" {
				e.report("generated JSON encoding does not round-trip a message ("+r.File.Lib+"): "+firstWord(d.JSONTrip+"missing"), r, map[string]any{"result": d.JSONTrip})
			}
		}
		goNames := []string{}
		for _, m := range s.Meths {
			goNames = append(goNames, m.Go)
		}
		if !sameSet(d.Unimpl, goNames) {
			e.report("Unimplemented server has a different method set", r, map[string]any{"got": d.Unimpl, "want": goNames})
		}
	}
	// calls, in the order the driver made them
	k := 0
	for si, s := range r.Svcs {
		for mi, m := range s.Meths {
			if k >= len(o.Calls) {
				c.Inconclusive("driver made fewer calls than the descriptor has methods (%s)", r.key())
				return
			}
			co := o.Calls[k]
			k++
			c.Eval(fmt.Sprintf("call:%s:%d.%d", r.key(), si+1, mi+1))
			if co.Svc != si+1 || co.Meth != mi+1 {
				c.Inconclusive("driver call order mismatch")
				return
			}
			if co.Skipped {
				continue
			}
			tag := c17Tag(si+1, mi+1)
			wantPayload, wantReply := c17Expect(m.Shape, tag)
			ctx := map[string]any{"method": s.Name + "." + m.Name, "shape": m.Shape, "observed": co, "want_rpc": m.RPC, "want_reply": wantReply}
			if m.CStreamIface != "" && !sameSet(co.CliOps, m.CliOps) {
				e.report(fmt.Sprintf("client stream interface of a %s method has operations %v, specification %v", m.Shape, co.CliOps, m.CliOps), r, ctx)
			}
			if !sameSet(co.SrvOps, m.SrvOps) {
				e.report(fmt.Sprintf("server stream interface of a %s method has operations %v, specification %v", m.Shape, co.SrvOps, m.SrvOps), r, ctx)
			}
			switch {
			case co.TimedOut && len(co.Parked) > 0:
				e.report(fmt.Sprintf("round trip of a %s method does not complete (goroutines parked inside drpc)", m.Shape), r, ctx)
			case co.TimedOut:
				c.Inconclusive("round trip of %s.%s timed out without a goroutine parked inside drpc", s.Name, m.Name)
			case len(co.Wire) != 1 || co.Wire[0] != m.RPC:
				e.report(fmt.Sprintf("client RPC name differs from \"/\"+service full name+\"/\"+method (%s)", m.Shape), r, ctx)
			case len(co.Ran) != 1 || co.Ran[0].Svc != si+1 || co.Ran[0].Meth != mi+1:
				e.report(fmt.Sprintf("a %s call does not reach exactly its own method", m.Shape), r, ctx)
			case co.Ran[0].Shape != m.Shape || co.Ran[0].Payload != wantPayload:
				e.report(fmt.Sprintf("a %s method ran with the wrong shape or request payload", m.Shape), r, ctx)
			case co.Err != "":
				e.report(fmt.Sprintf("round trip of a %s method fails: %s", m.Shape, stripTypes(co.Err)), r, ctx)
			case co.Reply != wantReply:
				e.report(fmt.Sprintf("round trip of a %s method returns the wrong replies", m.Shape), r, ctx)
			}
		}
	}
}

var (
	rePkgName  = regexp.MustCompile(`\b(d\d{5}|msgs_\w+)\.`)
	reGenIdent = regexp.MustCompile(`\b((New)?DRPC\w+|drpc[A-Z]\w*)`)
	reNumber   = regexp.MustCompile(`\b\d+\b`)
)

// stripTypes makes an error text a failure class: no package qualifiers, generated identifiers or numbers.
func stripTypes(s string) string {
	s = rePkgName.ReplaceAllString(s, "")
	s = reGenIdent.ReplaceAllString(s, "<ident>")
	return reNumber.ReplaceAllString(s, "N")
}

func firstWord(s string) string {
	if i := strings.IndexAny(s, ":"); i > 0 {
		return s[:i]
	}
	return s
}

// ---------------------------------------------------------------------------------------
// TLC runs
// ---------------------------------------------------------------------------------------

func c17Chars(names []string) string {
	out := []string{}
	for _, n := range names {
		cs := []string{}
		for _, ch := range n {
			cs = append(cs, fmt.Sprintf("%q", string(ch)))
		}
		out = append(out, "<<"+strings.Join(cs, ",")+">>")
	}
	return "{" + strings.Join(out, ", ") + "}"
}

func c17Strs(v []string) string {
	out := []string{}
	for _, s := range v {
		out = append(out, fmt.Sprintf("%q", s))
	}
	return "{" + strings.Join(out, ", ") + "}"
}

type c17Run struct {
	label               string
	svcNames, methNames []string
	shapes, pkgs, libs  []string
	jsons               string // TLA+ set of booleans
	msgs                []string
	plans               string // TLA+ set of sequences
	emit                bool
	simulate            string
	depth               int
	sampleOneIn         uint32 // level 2 takes every record (1) or a seeded 1-in-n sample; collision witnesses are always taken
	maxLevel2           int
}

const c17Invs = "TypeOK ShapeClassified ReceiverConsistent WireCompatible RPCNamesDistinct InjectiveModuloKnown"

func (e *c17Env) tlc(run c17Run, onRec func(r *cgRec)) bool {
	c := e.c
	mode := `"none"`
	if run.emit {
		mode = `"done"`
	}
	name, mod, consts := vf.MCModule("Codegen", map[string]string{
		"SvcNames": c17Chars(run.svcNames), "MethNames": c17Chars(run.methNames), "Plans": run.plans,
		"Shapes": c17Strs(run.shapes), "Pkgs": c17Strs(run.pkgs), "Libs": c17Strs(run.libs), "Jsons": run.jsons, "MsgLocs": c17Strs(run.msgs),
	}, map[string]string{"EmitMode": mode})
	cfg := "SPECIFICATION Spec\n" + consts + "INVARIANTS " + c17Invs + " Emit\nCHECK_DEADLOCK FALSE\n"
	n := 0
	res, err := vf.TLC(vf.TLCOpts{Module: name, Cfg: cfg, Extra: map[string]string{name + ".tla": mod},
		Simulate: run.simulate, Depth: run.depth, Seed: c.Seed, Timeout: 30 * time.Minute, HeapMB: 6000,
		OnLine: func(b []byte) {
			var r cgRec
			if err := json.Unmarshal(b, &r); err != nil {
				c.Inconclusive("unparsable TLC record: %v", err)
				return
			}
			n++
			onRec(&r)
		}})
	if err != nil {
		c.Inconclusive("tlc: %v", err)
		return false
	}
	if !res.Finished {
		c.Inconclusive("TLC run %s did not finish cleanly: violated=%q err=%q timeout=%v\n%s", run.label, res.Violated, res.ErrorText, res.TimedOut, res.Tail)
		return false
	}
	c.AddTLC(res)
	parts, _ := c.Cov["tlc_runs"].([]string)
	c.Cov["tlc_runs"] = append(parts, fmt.Sprintf("%s sim=%q: generated=%d distinct=%d records=%d wall=%.1fs", run.label, run.simulate, res.Generated, res.Distinct, n, res.Wall.Seconds()))
	return true
}

// c17Smaller orders clash witnesses: fewest clashes, then fewest services/methods, then by key.
func c17Smaller(a, b *cgRec) bool {
	if len(a.Collisions) != len(b.Collisions) {
		return len(a.Collisions) < len(b.Collisions)
	}
	if a.size() != b.size() {
		return a.size() < b.size()
	}
	return a.key() < b.key()
}

func hash32(s string, seed int64) uint32 {
	h := fnv.New32a()
	fmt.Fprintf(h, "%d|%s", seed, s)
	return h.Sum32()
}

// C17 — generated code is well-typed and consistent with the runtime for any service.
func C17(c *vf.Ctx) {
	e := &c17Env{c: c, repo: c17Repo(), reported: map[string]int{}}
	c.Assume = append(c.Assume,
		"protoc is not installed: the CodeGeneratorRequest is built from descriptorpb/pluginpb exactly as protoc would send it (one file svc.proto, optionally importing msgs/msgs.proto); descriptors are valid proto (distinct service names, distinct method names per service)",
		"spec/Codegen.tla transcribes cmd/protoc-gen-go-drpc/main.go (name functions, signatures by streaming flags, RPC name), protogen's GoCamelCase, and drpcmux.registerOne/HandleRPC; message types come from the cached protoc-gen-go / protoc-gen-gogo or are hand written for the custom encoding",
		"request/response messages are fixed (In{q}, Out{r}); only their location (same package / imported package) varies")
	if !e.setup() {
		if e.dir != "" {
			_ = os.RemoveAll(e.dir)
		}
		return
	}
	defer os.RemoveAll(e.dir)
	q := c.Quick()

	allShapes := []string{"unary", "cstream", "sstream", "bidi"}
	allLibs := []string{"google", "gogo", "custom"}
	svcAll := []string{"Foo", "Bar", "foo_bar", "FooBar", "Foo_Bar", "Foo_", "x", "FooClient", "Stream", "RegisterFoo"}
	methAll := []string{"Foo", "Bar", "foo_bar", "FooBar", "Foo_Bar", "Foo_", "x", "FooClient", "Stream", "DRPCConn"}

	runs := []c17Run{}
	// (1) every shape x library x json x message location x package, one service with one method (and the empty prefixes)
	r1 := c17Run{label: "shapes", svcNames: []string{"Foo"}, methNames: []string{"Bar"}, shapes: allShapes, pkgs: []string{"", "a.b"},
		libs: allLibs, jsons: "BOOLEAN", msgs: []string{"local", "imported"}, plans: "{<<>>, <<0>>, <<1>>}", emit: true, sampleOneIn: 1}
	if !q {
		r1.pkgs = []string{"", "p", "a.b"}
	}
	runs = append(runs, r1)
	// (2) every pair of declarations: two services with one method each, one service with two methods
	r2 := c17Run{label: "names", svcNames: []string{"Foo", "Foo_Bar", "foo_bar", "FooBar", "Foo_", "FooClient", "RegisterFoo"},
		methNames: []string{"Bar", "foo_bar", "FooBar", "Foo_", "x", "DRPCConn"}, shapes: []string{"unary", "bidi"}, pkgs: []string{"p"},
		libs: []string{"google"}, jsons: "{TRUE}", msgs: []string{"local"}, plans: "{<<1>>, <<1, 0>>, <<1, 1>>, <<2>>}", emit: true, sampleOneIn: 40, maxLevel2: 100}
	if !q {
		r2.svcNames, r2.methNames, r2.shapes = svcAll, methAll, allShapes
		r2.sampleOneIn, r2.maxLevel2 = 400, 400
	}
	runs = append(runs, r2)
	// (3) seeded random descriptors of full size
	r3 := c17Run{label: "random", svcNames: svcAll, methNames: methAll, shapes: allShapes, pkgs: []string{"", "p", "a.b"},
		libs: allLibs, jsons: "BOOLEAN", msgs: []string{"local", "imported"},
		plans: "UNION { [1..n -> 0..3] : n \\in 1..3 }", emit: true, simulate: "num=8", depth: 20, sampleOneIn: 1}
	if !q {
		r3.simulate = "num=32"
	}
	runs = append(runs, r3)

	pkgN := 0
	var level2 []*c17Pkg
	seenKey := map[string]bool{}
	for _, run := range runs {
		run := run
		// level 1 in parallel while TLC streams records
		type job struct {
			r  *cgRec
			pk string
		}
		jobs := make(chan job, 256)
		results := make(chan *c17Gen, 256)
		var wg sync.WaitGroup
		for w := 0; w < 16; w++ {
			wg.Add(1)
			go func() {
				defer wg.Done()
				for j := range jobs {
					results <- e.level1(j.r, j.pk)
				}
			}()
		}
		witnesses := map[string]*c17Gen{} // smallest descriptor per clash signature
		sampled := []*c17Gen{}
		nrec, nrej := 0, 0
		collect := make(chan struct{})
		go func() {
			defer close(collect)
			for g := range results {
				nrec++
				c.Eval("gen:" + g.rec.key())
				if g.rejected {
					nrej++
				}
				if g.bad || g.rejected || !g.rec.Generates {
					continue
				}
				if len(g.rec.Collisions) > 0 {
					sigs := g.dups
					if len(sigs) == 0 {
						sigs = []string{"predicted only"}
					}
					for _, sig := range sigs {
						if w := witnesses[sig]; w == nil || c17Smaller(g.rec, w.rec) {
							witnesses[sig] = g
						}
					}
					continue
				}
				if run.sampleOneIn <= 1 || hash32(g.rec.key(), c.Seed)%run.sampleOneIn == 0 {
					sampled = append(sampled, g)
				}
			}
		}()
		ok := e.tlc(run, func(r *cgRec) {
			k := r.key()
			if seenKey[k] {
				return // simulation repeats terminal states; runs overlap
			}
			seenKey[k] = true
			pkgN++
			jobs <- job{r, fmt.Sprintf("d%05d", pkgN)}
		})
		close(jobs)
		wg.Wait()
		close(results)
		<-collect
		if !ok {
			return
		}
		sort.Slice(sampled, func(i, j int) bool { return sampled[i].rec.key() < sampled[j].rec.key() })
		if run.maxLevel2 > 0 && len(sampled) > run.maxLevel2 {
			sampled = sampled[:run.maxLevel2]
		}
		wk := []string{}
		for k := range witnesses {
			wk = append(wk, k)
		}
		sort.Strings(wk)
		nw := 0
		for _, k := range wk {
			dup := false
			for _, g := range sampled {
				dup = dup || g == witnesses[k]
			}
			if !dup {
				sampled = append(sampled, witnesses[k])
				nw++
			}
		}
		for _, g := range sampled {
			level2 = append(level2, &c17Pkg{name: g.pk, gen: g})
		}
		parts, _ := c.Cov["descriptors"].([]string)
		c.Cov["descriptors"] = append(parts, fmt.Sprintf("%s: enumerated=%d rejected-by-generator=%d predicted-clash-signatures=%d clash-witnesses-compiled=%d compiled=%d", run.label, nrec, nrej, len(witnesses), nw, len(sampled)))
	}
	for i, p := range level2 {
		if i%17 == 0 {
			c.Sample(map[string]any{"proto": c17Proto(p.gen.rec), "options": p.gen.rec.File, "predicted_collisions": p.gen.rec.Collisions})
		}
	}
	e.level2(level2)

	c.Cov["rule"] = "TLC enumerates spec/Codegen.tla: (shapes) every shape x protolib x json x message location for a one-method service plus the empty prefixes; (names) every file with two one-method services or one two-method service over the name sets, which contains every pair of declarations and hence every possible identifier clash; (random) seeded simulation of files with up to 3 services x 3 methods over all dimensions. Every enumerated descriptor is fed to the real plugin and its declared identifiers are compared with the predicted ones; the shapes and random descriptors, a seeded sample of the names descriptors and one smallest witness per predicted clash are compiled with go build and round-tripped over net.Pipe. A case is distinct by its descriptor (gen:), compiled package (build:) or executed method (call:)."
	c.Cov["exhaustive"] = false
	c.Cov["exhaustive_note"] = "exhaustive over the stated finite name/shape/option sets for identifier prediction; compile+round-trip exhaustive for the shapes product, sampled elsewhere"
	c.Cov["violation_signatures"] = e.reported
}

func init() {
	All["C17"] = C17
	SpecModules = append(SpecModules, "Codegen")
}
