package checks

import (
	"context"
	"fmt"
	"strings"

	"storj.io/drpc/drpcserver"

	"verif/dir"
	"verif/sys"
	"verif/vf"
)

// invokeOvertakesRegistration is a directed schedule of the hostile-teardown part of C12 (it was first seen by the
// timing-based enumeration of hostileManagerWith, under load): the peer sends the invoke of stream 1 and, without
// anything in between, the invoke of stream 2, then closes its side.  The server goroutine is held at the armed
// point manager.newstream.beforeset (stream 1 handed to manageStreams, not yet registered in the stream buffer)
// while the reader reads the second invoke.  Whatever the order, once the peer has closed and the handlers only
// wait for input, ServeOne must return.
func invokeOvertakesRegistration(c *vf.Ctx) {
	for _, second := range []string{"Invoke", "InvokeMetadata"} {
		d := dir.NewDirector()
		d.ArmPoints("manager.newstream.beforeset")
		sp := dir.NewGatedSink("srv")
		sp.AutoW, sp.AutoR = true, true
		srv := drpcserver.New(nopHandler{})
		ctx, cancel := context.WithCancel(context.Background())
		d.Go("sv", func() string { return sys.ErrClass(srv.ServeOne(ctx, sp)) })
		kind := 1
		if second == "InvokeMetadata" {
			kind = 7
		}
		frames := []hostileFrame{{Kind: 1, Done: true, Sid: 1, Mid: 1, Pay: "x"}, {Kind: kind, Done: true, Sid: 2, Mid: 1, Pay: "x"}}
		sp.Push(hostileBytes(frames))
		snap, ok := d.Quiesce()
		parkedAtPoint := ok && snap.Threads["sv"].State == "gate:gate"
		if parkedAtPoint {
			d.ReleasePoint("sv")
			d.Quiesce()
		}
		sp.PeerEOF()
		var where []string
		for i := 0; i < 4; i++ { // the second stream passes the point as well
			snap, ok = d.Quiesce()
			if !ok || !d.Thread("sv").Busy() {
				break
			}
			if snap.Threads["sv"].State == "gate:gate" {
				d.ReleasePoint("sv")
				continue
			}
			break
		}
		c.Eval("invoke-overtakes-registration:" + second)
		if ok && d.Thread("sv").Busy() {
			for _, g := range snap.All {
				if fr := g.Innermost("storj.io/drpc/"); fr != "" {
					where = append(where, fr[strings.LastIndex(fr, "/")+1:])
				}
			}
			sortStrings(where)
			c.Violation(fmt.Sprintf("ServeOne does not return after the peer closed: a second %s was read before the first stream was registered [%s]", second, strings.Join(where, " ")),
				map[string]any{"frames": frames, "server_was_parked_between_handing_over_and_registering_stream_1": parkedAtPoint})
		}
		// teardown of the scenario itself
		d.DisarmPoints()
		cancel()
		sp.Fail()
		for i := 0; i < 50 && d.Thread("sv").Busy(); i++ {
			d.Quiesce()
		}
	}
}

func init() { All["RACEDEV"] = invokeOvertakesRegistration }
