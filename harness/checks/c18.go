package checks

import (
	"bytes"
	"context"
	"encoding/json"
	"errors"
	"fmt"
	"hash/fnv"
	"io"
	"math/rand"
	"sort"
	"strings"
	"sync"
	"sync/atomic"
	"time"

	"storj.io/drpc"
	"storj.io/drpc/drpcconn"
	"storj.io/drpc/drpcerr"
	"storj.io/drpc/drpcmetadata"
	"storj.io/drpc/drpcstream"
	"storj.io/drpc/drpcwire"

	oldwire "verif/oldwire"
	oldmd "verif/oldwire/oldmetadata"
	"verif/vf"
)

// ---------------------------------------------------------------------------
// the released reader
// ---------------------------------------------------------------------------

func runOldReader(data []byte, chunks []int, maxPkts int) (out runOut) {
	sr := &scriptReader{data: data, chunks: chunks, fin: "eof"}
	defer func() {
		if p := recover(); p != nil {
			out.panicked = p
		}
	}()
	rd := oldwire.NewReader(sr)
	for len(out.pkts) <= maxPkts {
		pkt, err := rd.ReadPacket()
		if err != nil {
			out.err = err
			return out
		}
		out.pkts = append(out.pkts, gotPkt{ID: drpcwire.ID{Stream: pkt.ID.Stream, Message: pkt.ID.Message}, Kind: int(pkt.Kind),
			Data: append([]byte(nil), pkt.Data...)})
	}
	return out
}

// cross compares what the two real readers returned: equal after removing the control
// packets from the current reader's list.
func crossCompare(o, n *runOut) string {
	var np []gotPkt
	for _, p := range n.pkts {
		if !p.Control {
			np = append(np, p)
		}
	}
	if len(np) != len(o.pkts) {
		return "number of non-control packets differs"
	}
	for i := range np {
		if np[i].ID != o.pkts[i].ID || np[i].Kind != o.pkts[i].Kind || !bytes.Equal(np[i].Data, o.pkts[i].Data) {
			return "packet differs"
		}
	}
	oc, _ := errClass(o.err)
	nc, _ := errClass(n.err)
	if oc != nc {
		return "final error class differs"
	}
	return ""
}

type compatEngine struct {
	c       *vf.Ctx
	lim     sigLimiter
	runs    int64
	records int64
	bigSem  chan struct{}
}

// emitted replays one record of the emitnew / emitold modes.
func (e *compatEngine) emitted(raw []byte, r *wRec) {
	if r.New == nil || r.Old == nil {
		e.c.Inconclusive("emit record without demanded results")
		return
	}
	atomic.AddInt64(&e.records, 1)
	h := fnv.New64a()
	_, _ = h.Write(raw)
	hv := h.Sum64()
	rng := rand.New(rand.NewSource(e.c.Seed ^ int64(hv)))
	e.c.Eval(recHash(raw))
	total := 0
	for _, f := range r.Frames {
		total += f.Len
	}
	if total > 1<<20 {
		e.bigSem <- struct{}{}
		defer func() { <-e.bigSem }()
	}
	ids := []idMap{idIdentity, idMedium, idHuge}[hv%3]
	cc, err := concretise(r, ids)
	if err != nil {
		e.c.Inconclusive("cannot concretise: %v", err)
		return
	}
	// the bytes as the writer of the emitting version lays them out
	var wire bytes.Buffer
	wsize := []int{1, 0, 64, 100000}[hv%4]
	if r.Mode == "emitnew" {
		w := drpcwire.NewWriter(&wire, wsize)
		for i, f := range r.Frames {
			fr := drpcwire.Frame{Data: cc.payloads[i], ID: ids.id(f.Sid, f.Mid), Kind: drpcwire.Kind(f.Kind), Done: f.Done, Control: f.Control}
			var err error
			if f.Done && hv%2 == 0 && (i == 0 || r.Frames[i-1].Done || r.Frames[i-1].Sid != f.Sid || r.Frames[i-1].Mid != f.Mid) {
				err = w.WritePacket(drpcwire.Packet{Data: fr.Data, ID: fr.ID, Kind: fr.Kind, Control: fr.Control})
			} else {
				err = w.WriteFrame(fr)
			}
			if err != nil {
				e.c.Inconclusive("writer: %v", err)
				return
			}
		}
		_ = w.Flush()
	} else {
		ctx := context.Background()
		w := oldwire.NewWriter(&wire, wsize)
		for i, f := range r.Frames {
			id := ids.id(f.Sid, f.Mid)
			fr := oldwire.Frame{Data: cc.payloads[i], ID: oldwire.ID{Stream: id.Stream, Message: id.Message}, Kind: oldwire.Kind(f.Kind), Done: f.Done, Control: f.Control}
			var err error
			if f.Done && hv%2 == 0 && (i == 0 || r.Frames[i-1].Done || r.Frames[i-1].Sid != f.Sid || r.Frames[i-1].Mid != f.Mid) {
				err = w.WritePacket(ctx, oldwire.Packet{Data: fr.Data, ID: fr.ID, Kind: fr.Kind})
			} else {
				err = w.WriteFrame(ctx, fr)
			}
			if err != nil {
				e.c.Inconclusive("old writer: %v", err)
				return
			}
		}
		_ = w.Flush(ctx)
	}
	data := wire.Bytes()
	if !bytes.Equal(data, cc.bytes) {
		e.violate(fmt.Sprintf("writer (%s) lays frames out differently from the wire description", r.Mode), raw, map[string]any{"writer_buffer": wsize})
		return
	}
	n := len(data)
	parts := []partition{{[]int{n}, "all-at-once"}}
	if n > 0 && n <= 1<<16 {
		parts = append(parts, partition{fixedChunks(n, 1), "byte-at-a-time"})
	}
	if n > 1 {
		parts = append(parts, partition{randomChunks(n, rng), "random"})
		if n <= 1<<20 {
			parts = append(parts, partition{fixedChunks(n, 4096), "4096-byte reads"})
		}
		if n > 7 && n <= 1<<16 {
			parts = append(parts, partition{fixedChunks(n, 7), "7-byte reads"})
		}
	}
	maxPkts := len(r.Frames) + 2
	cc2 := &concrete{bytes: data, payloads: cc.payloads, ends: cc.ends, ids: ids}
	for _, p := range parts {
		rc := runCfg{chunks: p.chunks, fin: "eof", maxOpt: 0, desc: p.desc}
		no := runNewReader(cc2, &rc, maxPkts)
		oo := runOldReader(data, p.chunks, maxPkts)
		atomic.AddInt64(&e.runs, 2)
		if d := compareNew(r, cc2, r.New, &no); d != "" {
			e.violate(fmt.Sprintf("current reader on %s sequence differs from Wire.tla: demanded %s, got %s", r.Mode, wantClassShort(r.New), d), raw, map[string]any{"partition": p.desc, "got_error": fmt.Sprint(no.err)})
			return
		}
		if d := compareNew(r, cc2, r.Old, &oo); d != "" {
			e.violate(fmt.Sprintf("v0.0.17 reader on %s sequence differs from Wire.tla: demanded %s, got %s", r.Mode, wantClassShort(r.Old), d), raw, map[string]any{"partition": p.desc, "got_error": fmt.Sprint(oo.err)})
			return
		}
		if d := crossCompare(&oo, &no); d != "" {
			e.violate(fmt.Sprintf("v0.0.17 reader and current reader disagree on %s sequence: %s", r.Mode, d), raw, map[string]any{"partition": p.desc, "old_error": fmt.Sprint(oo.err), "new_error": fmt.Sprint(no.err)})
			return
		}
	}
	e.c.EvalN(int64(2 * len(parts)))
	e.c.TraceValidated(1)
	if hv%4999 == 0 {
		e.c.Sample(map[string]any{"record": jsonRaw(raw)})
	}
}

func (e *compatEngine) violate(sig string, raw []byte, extra map[string]any) {
	if !e.lim.ok(sig, 3) {
		return
	}
	extra["record"] = jsonRaw(raw)
	e.c.Violation(sig, extra)
}

// ---------------------------------------------------------------------------
// what the current stream layer actually emits (code -> spec)
// ---------------------------------------------------------------------------

// streamOp is one call on a real drpcstream.Stream.
type streamOp struct {
	op   string // write:<kind> | msg | closesend | close | error | softcancel | cancel | next
	size int
	// cancelAfter >= 0: the stream is hard-cancelled after that many frames of this write reached the writer
	cancelAfter int
}

type tapWriter struct {
	buf    bytes.Buffer
	writes int
	hook   func()
}

func (t *tapWriter) Write(p []byte) (int, error) {
	t.writes++
	t.buf.Write(p)
	if t.hook != nil {
		t.hook()
	}
	return len(p), nil
}

type rawEnc struct{}

func (rawEnc) Marshal(msg drpc.Message) ([]byte, error) { return *(msg.(*[]byte)), nil }
func (rawEnc) Unmarshal(b []byte, msg drpc.Message) error {
	*(msg.(*[]byte)) = append([]byte(nil), b...)
	return nil
}

// liveScripts are programs over the public stream API, per stream.
func liveScripts(rng *rand.Rand, quick bool) [][][]streamOp {
	w := func(kind, size int) streamOp {
		return streamOp{op: fmt.Sprintf("write:%d", kind), size: size, cancelAfter: -1}
	}
	wc := func(kind, size, after int) streamOp {
		return streamOp{op: fmt.Sprintf("write:%d", kind), size: size, cancelAfter: after}
	}
	o := func(op string) streamOp { return streamOp{op: op, cancelAfter: -1} }
	msg := func(size int) streamOp { return streamOp{op: "msg", size: size, cancelAfter: -1} }
	base := [][][]streamOp{
		{{w(1, 3), w(2, 5), o("closesend")}, {w(1, 3), w(2, 0), o("closesend"), o("close")}},
		{{w(7, 20), w(1, 3), msg(10), msg(0), o("close")}},
		{{w(1, 3), msg(25), o("error")}, {w(7, 1), w(1, 1), msg(1), o("softcancel")}},
		{{w(1, 3), msg(7), o("softcancel")}, {w(1, 3), msg(7), o("closesend"), o("softcancel")}, {w(1, 2), o("close")}},
		{{w(1, 3), wc(2, 40, 1)}, {w(1, 3), msg(12), o("close")}},
		{{w(1, 3), wc(2, 40, 2)}, {o("softcancel")}, {w(1, 3), msg(3), o("closesend")}},
		{{w(1, 3), o("closesend"), msg(5), o("close")}, {w(1, 9), o("error")}},
		{{o("softcancel")}, {o("softcancel")}, {w(1, 1), o("closesend")}},
		{{w(1, 3), msg(10), o("cancel")}, {w(1, 3), msg(10), o("close")}},
		{{o("next")}, {w(1, 4), msg(33), msg(0), msg(1), o("closesend"), o("close")}},
	}
	n := 20
	if !quick {
		n = 300
	}
	for i := 0; i < n; i++ {
		var conn [][]streamOp
		for s := 0; s < 1+rng.Intn(3); s++ {
			var prog []streamOp
			if rng.Intn(6) == 0 {
				prog = append(prog, o("softcancel"))
				conn = append(conn, prog)
				continue
			}
			if rng.Intn(2) == 0 {
				prog = append(prog, w(7, rng.Intn(30)+1))
			}
			prog = append(prog, w(1, 1+rng.Intn(8)))
			for k := 0; k < rng.Intn(3); k++ {
				if rng.Intn(5) == 0 {
					prog = append(prog, wc(2, 20+rng.Intn(40), rng.Intn(3)))
					break
				}
				prog = append(prog, msg(rng.Intn(40)))
			}
			prog = append(prog, o([]string{"closesend", "close", "error", "softcancel", "cancel", "closesend"}[rng.Intn(6)]))
			if rng.Intn(3) == 0 {
				prog = append(prog, o([]string{"close", "error", "softcancel", "msg"}[rng.Intn(4)]))
			}
			conn = append(conn, prog)
		}
		base = append(base, conn)
	}
	return base
}

// runLive executes a connection script on real streams sharing one writer and returns the frames on the wire.
func runLive(conn [][]streamOp, split, wbuf int) (frames []wFrame, data []byte, err error) {
	tw := &tapWriter{}
	wr := drpcwire.NewWriter(tw, wbuf)
	sid := uint64(0)
	for _, prog := range conn {
		sid++
		st := drpcstream.NewWithOptions(context.Background(), sid, wr, drpcstream.Options{SplitSize: split})
		for _, op := range prog {
			switch {
			case strings.HasPrefix(op.op, "write:"):
				var kind int
				fmt.Sscanf(op.op, "write:%d", &kind)
				payload := bytes.Repeat([]byte{byte(kind) + 0x40}, op.size)
				if op.cancelAfter >= 0 {
					// hard cancel between two frames of this message: the transport write hook fires
					// while the write lock is held, as a concurrent Cancel would
					seen := 0
					tw.hook = func() {
						seen++
						if seen == op.cancelAfter+1 {
							st.Cancel(context.Canceled)
						}
					}
					if op.cancelAfter == 0 {
						st.Cancel(context.Canceled)
					}
				}
				_ = st.RawWrite(drpcwire.Kind(kind), payload)
				tw.hook = nil
				_ = st.RawFlush()
			case op.op == "msg":
				b := bytes.Repeat([]byte{0x6d}, op.size)
				_ = st.MsgSend(&b, rawEnc{})
			case op.op == "closesend":
				_ = st.CloseSend()
			case op.op == "close":
				_ = st.Close()
			case op.op == "error":
				_ = st.SendError(errors.New("boom"))
			case op.op == "softcancel":
				_, _ = st.SendCancel(context.Canceled)
			case op.op == "cancel":
				st.Cancel(context.Canceled)
			case op.op == "next":
			}
		}
		if !st.IsTerminated() {
			st.Cancel(context.Canceled)
		}
	}
	_ = wr.Flush()
	data = tw.buf.Bytes()
	rem := data
	for len(rem) > 0 {
		var fr drpcwire.Frame
		var ok bool
		var perr error
		rem, fr, ok, perr = drpcwire.ParseFrame(rem)
		if perr != nil || !ok {
			return nil, data, fmt.Errorf("the stream layer put an unparsable frame on the wire (%v)", perr)
		}
		frames = append(frames, wFrame{Sid: int(fr.ID.Stream), Mid: int(fr.ID.Message), Kind: int(fr.Kind), Len: len(fr.Data), Done: fr.Done, Control: fr.Control})
	}
	return frames, data, nil
}

func tlaFrames(fs []wFrame) string {
	var b strings.Builder
	b.WriteString("<<")
	for i, f := range fs {
		if i > 0 {
			b.WriteString(", ")
		}
		fmt.Fprintf(&b, "[sid |-> %d, mid |-> %d, kind |-> %d, done |-> %s, control |-> %s, len |-> %d]", f.Sid, f.Mid, f.Kind,
			strings.ToUpper(fmt.Sprint(f.Done)), strings.ToUpper(fmt.Sprint(f.Control)), f.Len)
	}
	b.WriteString(">>")
	return b.String()
}

// live: real streams emit; TLC decides whether each observed frame sequence is a behaviour of
// the emitter of Wire.tla (mode emitnew restricted to prefixes of the observed sequences) and
// computes what both readers must return; both real readers are run on the real bytes.
func (e *compatEngine) live() {
	c := e.c
	rng := rand.New(rand.NewSource(c.Seed + 18))
	scripts := liveScripts(rng, c.Quick())
	type obs struct {
		frames []wFrame
		data   []byte
		script int
	}
	seen := map[string]*obs{}
	var order []string
	maxLen := 0
	lens, gaps := map[int]bool{0: true}, map[int]bool{1: true}
	for si, conn := range scripts {
		for _, split := range []int{8, 1 << 16} {
			for _, wbuf := range []int{1, 4096} {
				fs, data, err := runLive(conn, split, wbuf)
				if err != nil {
					e.violate("stream layer: "+err.Error(), []byte("{}"), map[string]any{"script": conn, "split": split})
					continue
				}
				key := tlaFrames(fs)
				if _, ok := seen[key]; ok || len(fs) == 0 {
					continue
				}
				seen[key] = &obs{fs, data, si}
				order = append(order, key)
				if len(fs) > maxLen {
					maxLen = len(fs)
				}
				ps, pm := 0, 0
				for _, f := range fs {
					lens[f.Len] = true
					if f.Sid != ps {
						gaps[f.Sid-ps] = true
						ps, pm = f.Sid, 0
					}
					if f.Mid != pm {
						gaps[f.Mid-pm] = true
						pm = f.Mid
					}
				}
			}
		}
	}
	if len(order) == 0 {
		c.Inconclusive("no live emission recorded")
		return
	}
	setOf := func(m map[int]bool) string {
		var ks []int
		for k := range m {
			if k >= 0 {
				ks = append(ks, k)
			}
		}
		sort.Ints(ks)
		var ss []string
		for _, k := range ks {
			ss = append(ss, fmt.Sprint(k))
		}
		return "{" + strings.Join(ss, ",") + "}"
	}
	for g := range gaps {
		if g <= 0 {
			e.violate("stream layer emitted ids that do not increase", []byte("{}"), map[string]any{"gaps": setOf(gaps)})
			return
		}
	}
	wc := wireBase("emitnew")
	wc.defs["EmitKinds"] = "{1,2,3,5,6,7}"
	wc.defs["EmitPays"] = setOf(lens)
	wc.defs["EmitGaps"] = setOf(gaps)
	wc.defs["EmitObserved"] = "{" + strings.Join(order, ",\n ") + "}"
	wc.plain["EmitDepth"] = fmt.Sprint(maxLen)
	reached := map[string]*wRec{}
	prefixes := map[string]bool{}
	var mu sync.Mutex
	ok := wireRunObserved(c, "live emission (code -> spec)", wc, func(raw []byte, r *wRec) {
		k := tlaFrames(r.Frames)
		mu.Lock()
		prefixes[k] = true
		if _, want := seen[k]; want {
			cp := *r
			reached[k] = &cp
		}
		mu.Unlock()
	})
	if !ok {
		return
	}
	notEmittable := 0
	for _, k := range order {
		ob := seen[k]
		r, ok := reached[k]
		if !ok {
			notEmittable++
			// code -> spec: the recorded emission is not a behaviour of the emitter of Wire.tla, whose
			// language is what a v0.0.17 peer is known to understand (minus control packets)
			l := 0
			for l < len(ob.frames) && prefixes[tlaFrames(ob.frames[:l+1])] {
				l++
			}
			f := ob.frames[l]
			rel := "first frame"
			if l > 0 {
				p := ob.frames[l-1]
				switch {
				case f.Sid == p.Sid && f.Mid == p.Mid:
					rel = "same id as the previous frame"
				case f.Sid == p.Sid && f.Mid > p.Mid:
					rel = "later message of the same stream"
				case f.Sid > p.Sid:
					rel = "later stream"
				default:
					rel = "id going backwards"
				}
				if !p.Done {
					rel += ", previous frame not done"
				}
			}
			e.violate(fmt.Sprintf("stream layer puts a frame on the wire that EmitNew of Wire.tla does not allow: kind=%d control=%v done=%v empty=%v (%s)", f.Kind, f.Control, f.Done, f.Len == 0, rel),
				[]byte(fmt.Sprintf(`{"live_frames":%q}`, k)), map[string]any{"script": scripts[ob.script], "accepted_prefix": l})
			continue
		}
		cc := &concrete{bytes: ob.data, ids: idIdentity}
		for i, f := range ob.frames {
			_ = i
			cc.payloads = append(cc.payloads, nil)
			_ = f
		}
		// payloads as they are on the wire
		rem := ob.data
		for i := range ob.frames {
			var fr drpcwire.Frame
			rem, fr, _, _ = drpcwire.ParseFrame(rem)
			cc.payloads[i] = fr.Data
			cc.ends = append(cc.ends, len(ob.data)-len(rem))
		}
		raw := []byte(fmt.Sprintf(`{"live_frames":%q}`, k))
		for _, p := range []partition{{[]int{len(ob.data)}, "all-at-once"}, {fixedChunks(len(ob.data), 1), "byte-at-a-time"}, {fixedChunks(len(ob.data), 5), "5-byte reads"}} {
			rc := runCfg{chunks: p.chunks, fin: "eof", desc: p.desc}
			no := runNewReader(cc, &rc, len(ob.frames)+2)
			oo := runOldReader(ob.data, p.chunks, len(ob.frames)+2)
			atomic.AddInt64(&e.runs, 2)
			if d := compareNew(r, cc, r.New, &no); d != "" {
				e.violate("current reader on live emission differs from Wire.tla: got "+d, raw, map[string]any{"script": scripts[ob.script]})
				break
			}
			if d := compareNew(r, cc, r.Old, &oo); d != "" {
				e.violate("v0.0.17 reader on live emission differs from Wire.tla: demanded "+wantClassShort(r.Old)+", got "+d, raw, map[string]any{"script": scripts[ob.script], "got_error": fmt.Sprint(oo.err)})
				break
			}
			if d := crossCompare(&oo, &no); d != "" {
				e.violate("v0.0.17 reader and current reader disagree on live emission: "+d, raw, map[string]any{"script": scripts[ob.script]})
				break
			}
		}
		c.Eval("live:" + k)
		c.TraceValidated(1)
	}
	c.Cov["live_emissions_distinct"] = len(order)
	c.Cov["live_emissions_accepted_by_EmitNew"] = len(order) - notEmittable
}

// wireRunObserved runs the emitter restricted to prefixes of observed sequences (constant EmitObserved).
func wireRunObserved(c *vf.Ctx, label string, wc wireConsts, fn func(raw []byte, r *wRec)) bool {
	name, mod, consts := vf.MCModule("Wire", wc.defs, wc.plain)
	cfg := "SPECIFICATION Spec\n" + consts + "INVARIANTS " + wireInvs + "\nCHECK_DEADLOCK FALSE\n"
	var mu sync.Mutex
	res, err := vf.TLC(vf.TLCOpts{Module: name, Cfg: cfg, Extra: map[string]string{name + ".tla": mod}, Timeout: 20 * time.Minute, HeapMB: 6000,
		OnLine: func(b []byte) {
			var r wRec
			if err := json.Unmarshal(b, &r); err != nil {
				c.Inconclusive("unparsable TLC record: %v", err)
				return
			}
			mu.Lock()
			fn(b, &r)
			mu.Unlock()
		}})
	if err != nil {
		c.Inconclusive("tlc: %v", err)
		return false
	}
	if !res.Finished {
		c.Inconclusive("TLC run of Wire.tla (%s) did not finish cleanly: violated=%q err=%q timeout=%v\n%s", label, res.Violated, res.ErrorText, res.TimedOut, res.Tail)
		return false
	}
	c.AddTLC(res)
	parts, _ := c.Cov["tlc_runs"].([]string)
	c.Cov["tlc_runs"] = append(parts, fmt.Sprintf("%s: generated=%d distinct=%d wall=%.1fs", label, res.Generated, res.Distinct, res.Wall.Seconds()))
	return true
}

// ---------------------------------------------------------------------------
// metadata
// ---------------------------------------------------------------------------

func metaString(class string, salt int) string {
	switch class {
	case "empty":
		return ""
	case "a":
		return "a"
	case "s127":
		return strings.Repeat("k", 126) + string(rune('a'+salt%26))
	case "s128":
		return strings.Repeat("K", 127) + string(rune('a'+salt%26))
	case "s16384":
		return strings.Repeat("x", 16383) + string(rune('a'+salt%26))
	case "utf8":
		return "ключ-é世界-\U0001F600" + string(rune('a'+salt%26))
	case "bin":
		return string([]byte{0xff, 0xfe, 0x00, 0x80, byte(salt)})
	}
	return class
}

func sameMapW(a, b map[string]string) bool {
	if len(a) != len(b) {
		return false
	}
	for k, v := range a {
		if w, ok := b[k]; !ok || w != v {
			return false
		}
	}
	return true
}

func (e *compatEngine) meta(raw []byte, r *wRec) {
	m := r.Meta
	if m == nil {
		e.c.Inconclusive("meta record without body")
		return
	}
	e.c.Eval(recHash(raw))
	md := map[string]string{}
	for _, kv := range m.Md {
		md[metaString(kv[0], 1)] = metaString(kv[1], 2)
	}
	for i := 0; i < m.Many; i++ {
		md[fmt.Sprintf("key-%04d", i)] = fmt.Sprintf("value-%d", i*i)
	}
	classes := fmt.Sprint(m.Md)
	hasBin := strings.Contains(classes, "bin")
	binNote := ""
	if hasBin {
		binNote = " (map with a string that is not UTF-8)"
	}
	var ob, nb []byte
	var oerr, nerr error
	if p := guard(func() { ob, oerr = oldmd.Encode(nil, md) }); p != nil {
		e.violate("metadata: v0.0.17 Encode panics", raw, map[string]any{"panic": fmt.Sprint(p)})
		return
	}
	if p := guard(func() { nb, nerr = drpcmetadata.Encode(nil, md) }); p != nil {
		e.violate("metadata: current Encode panics", raw, map[string]any{"panic": fmt.Sprint(p)})
		return
	}
	// old -> new
	if (oerr == nil) != m.OldEncodes {
		e.c.Warn("v0.0.17 Encode: model says encodes=%v, got err=%v for classes %s", m.OldEncodes, oerr, classes)
	}
	if oerr == nil {
		var got map[string]string
		var derr error
		if p := guard(func() { got, derr = drpcmetadata.Decode(ob) }); p != nil {
			e.violate("metadata old->new: current Decode panics", raw, map[string]any{"panic": fmt.Sprint(p)})
		} else if derr != nil || !sameMapW(got, md) {
			e.violate("metadata old->new: current Decode of v0.0.17 Encode output is not the same map"+binNote, raw, map[string]any{"error": fmt.Sprint(derr), "entries": len(got)})
		}
	}
	// new -> old
	if nerr == nil {
		var got map[string]string
		var derr error
		if p := guard(func() { got, derr = oldmd.Decode(nb) }); p != nil {
			e.violate("metadata new->old: v0.0.17 Decode panics", raw, map[string]any{"panic": fmt.Sprint(p)})
		} else if derr != nil {
			e.violate("metadata new->old: v0.0.17 Decode rejects the output of the current Encode"+binNote, raw, map[string]any{"error": fmt.Sprint(derr), "classes": classes})
		} else if !sameMapW(got, md) {
			e.violate("metadata new->old: v0.0.17 Decode of current Encode output is not the same map"+binNote, raw, map[string]any{"entries": len(got)})
		}
	} else if m.OldEncodes {
		// the current encoder refuses a map the released one encodes
		e.violate("metadata: current Encode refuses a map that v0.0.17 encodes", raw, map[string]any{"error": fmt.Sprint(nerr)})
	}
	atomic.AddInt64(&e.runs, 4)
	e.c.EvalN(4)
	e.c.TraceValidated(1)
}

// ---------------------------------------------------------------------------
// unknown kinds at the stream (HandlePacket)
// ---------------------------------------------------------------------------

func (e *compatEngine) kinds(raw []byte, r *wRec) {
	hk := r.HK
	if hk == nil {
		e.c.Inconclusive("kinds record without body")
		return
	}
	e.c.Eval(recHash(raw))
	for _, dataClass := range []string{"empty", "short", "long"} {
		got, note := observeHandle(hk, dataClass)
		atomic.AddInt64(&e.runs, 1)
		if note != "" {
			e.c.Inconclusive("HandlePacket probe (kind %d control %v pre %s): %s", hk.Kind, hk.Control, hk.Pre, note)
			return
		}
		if got == nil { // panic
			e.violate(fmt.Sprintf("HandlePacket panics (kind class %s)", kindClass(hk)), raw, map[string]any{"data": dataClass})
			return
		}
		if *got != hk.Outcome {
			what := "stream state after HandlePacket differs from Wire.tla"
			if hk.Kind > 6 || hk.Kind == 0 {
				if hk.Control {
					what = "unknown kind with the control bit is not ignored by HandlePacket"
				} else {
					what = "unknown kind without the control bit: outcome differs from Wire.tla"
				}
			}
			e.violate(fmt.Sprintf("%s (pre=%s, kind class %s): demanded %+v, got %+v", what, hk.Pre, kindClass(hk), hk.Outcome, *got), raw, map[string]any{"data": dataClass})
			return
		}
	}
	e.c.EvalN(3)
	e.c.TraceValidated(1)
}

// censusText lists the goroutines parked inside drpc.
func censusText() string {
	var b strings.Builder
	for _, g := range vf.Census() {
		if g.Has("storj.io/drpc") {
			fmt.Fprintf(&b, "goroutine [%s] %s\n", g.State, g.Innermost("storj.io/drpc"))
		}
	}
	return b.String()
}

func kindClass(hk *wHK) string {
	c := "known"
	if hk.Kind == 0 || hk.Kind > 6 {
		c = "unknown"
	}
	if hk.Control {
		c += "+control"
	}
	return c
}

func observeHandle(hk *wHK, dataClass string) (*wOutcome, string) {
	const sid = 5
	var out bytes.Buffer
	wr := drpcwire.NewWriter(&out, 0)
	st := drpcstream.New(context.Background(), sid, wr)
	localErr := errors.New("verif: local cancel")
	pktSid := uint64(sid)
	switch hk.Pre {
	case "terminated":
		st.Cancel(localErr)
	case "foreign":
		pktSid = sid + 1
	}
	var data []byte
	switch dataClass {
	case "short":
		data = []byte("payload")
	case "long":
		data = bytes.Repeat([]byte("payload-"), 200)
	}
	remote := errors.New("remote failure text")
	if hk.Kind == int(drpcwire.KindError) {
		data = drpcwire.MarshalError(remote)
	}
	pkt := drpcwire.Packet{ID: drpcwire.ID{Stream: pktSid, Message: 1}, Kind: drpcwire.Kind(hk.Kind), Control: hk.Control, Data: data}

	type rr struct {
		b   []byte
		err error
	}
	recv := func() chan rr {
		ch := make(chan rr, 1)
		go func() {
			b, err := st.RawRecv()
			ch <- rr{b, err}
		}()
		return ch
	}
	wait := func(ch chan rr) (rr, bool) {
		select {
		case v := <-ch:
			return v, true
		case <-time.After(60 * time.Second):
			return rr{}, false
		}
	}
	res := &wOutcome{}
	r1 := recv()
	var herr error
	hdone := make(chan any, 1)
	go func() {
		defer func() { hdone <- recover() }()
		herr = st.HandlePacket(pkt)
	}()
	select {
	case p := <-hdone:
		if p != nil {
			return nil, ""
		}
	case <-time.After(60 * time.Second):
		return nil, "HandlePacket did not return within 60s\n" + censusText()
	}
	switch {
	case herr == nil:
		res.Ret = "nil"
	case drpc.ProtocolError.Has(herr):
		res.Ret = "proto"
	case drpc.InternalError.Has(herr):
		res.Ret = "internal"
	default:
		res.Ret = "other:" + herr.Error()
	}
	res.Term = st.IsTerminated()
	// the probe message: delivered after the packet under test; the application reads until it
	// sees the probe or an error
	probe := drpcwire.Packet{ID: drpcwire.ID{Stream: sid, Message: 2}, Kind: drpcwire.KindMessage, Data: []byte("probe")}
	pdone := make(chan struct{})
	go func() { defer close(pdone); _ = st.HandlePacket(probe) }()
	classify := func(v rr) string {
		switch {
		case v.err == nil && string(v.b) == "probe":
			return "probe"
		case v.err == nil && bytes.Equal(v.b, data):
			return "payload"
		case v.err == nil:
			return "other-data"
		case v.err == io.EOF:
			return "eof"
		case errors.Is(v.err, context.Canceled):
			return "canceled"
		case strings.Contains(v.err.Error(), remote.Error()):
			return "remote-error"
		default:
			return "term-err"
		}
	}
	ch := r1
	for i := 0; ; i++ {
		v, ok := wait(ch)
		if !ok {
			return nil, "receiver still blocked 60s after the probe message was handed to the stream\n" + censusText()
		}
		cl := classify(v)
		if res.Recv != "" {
			res.Recv += "-then-"
		}
		res.Recv += cl
		if v.err != nil || cl == "probe" || i >= 3 {
			break
		}
		ch = recv()
	}
	select {
	case <-pdone:
	case <-time.After(60 * time.Second):
		return nil, "probe HandlePacket did not return\n" + censusText()
	}
	// send probe
	out.Reset()
	werr := st.RawWrite(drpcwire.KindMessage, []byte("x"))
	if werr == nil {
		werr = st.RawFlush()
	}
	switch {
	case werr == nil && out.Len() > 0:
		res.Send = "ok"
	case werr == nil:
		res.Send = "nothing-written"
	case werr == io.EOF:
		res.Send = "eof"
	default:
		res.Send = "err"
	}
	if !st.IsTerminated() {
		st.Cancel(localErr)
	}
	return res, ""
}

// ---------------------------------------------------------------------------
// the wire vocabulary: which packet each operation sends
// ---------------------------------------------------------------------------

// capTransport records writes; reads block until it is closed.
type capTransport struct {
	mu     sync.Mutex
	buf    bytes.Buffer
	closed chan struct{}
	once   sync.Once
}

func (t *capTransport) Write(p []byte) (int, error) {
	t.mu.Lock()
	defer t.mu.Unlock()
	t.buf.Write(p)
	return len(p), nil
}
func (t *capTransport) Read(p []byte) (int, error) { <-t.closed; return 0, io.EOF }
func (t *capTransport) Close() error               { t.once.Do(func() { close(t.closed) }); return nil }
func (t *capTransport) frames() []drpcwire.Frame {
	t.mu.Lock()
	b := append([]byte(nil), t.buf.Bytes()...)
	t.mu.Unlock()
	var out []drpcwire.Frame
	for len(b) > 0 {
		rem, fr, ok, err := drpcwire.ParseFrame(b)
		if !ok || err != nil {
			break
		}
		out = append(out, fr)
		b = rem
	}
	return out
}

// invokeFrames runs a real drpcconn.Conn.Invoke with metadata against a silent peer and
// returns the frames it wrote (metadata, invoke, message, closesend).
func invokeFrames(md map[string]string, rpc string) ([]drpcwire.Frame, string) {
	tr := &capTransport{closed: make(chan struct{})}
	conn := drpcconn.New(tr)
	ctx, cancel := context.WithCancel(drpcmetadata.AddPairs(context.Background(), md))
	done := make(chan struct{})
	go func() {
		defer close(done)
		in, out := []byte("request"), []byte(nil)
		_ = conn.Invoke(ctx, rpc, rawEnc{}, &in, &out)
	}()
	deadline := time.Now().Add(60 * time.Second)
	for len(tr.frames()) < 4 && time.Now().Before(deadline) {
		time.Sleep(time.Millisecond)
	}
	fs := tr.frames()
	cancel()
	_ = conn.Close()
	select {
	case <-done:
	case <-time.After(60 * time.Second):
		return fs, "Invoke did not return after cancel and Close\n" + censusText()
	}
	if len(fs) < 4 {
		return fs, fmt.Sprintf("only %d frames written by Invoke within 60s", len(fs))
	}
	return fs, ""
}

func (e *compatEngine) ops(raw []byte, r *wRec) {
	o := r.OpW
	if o == nil {
		e.c.Inconclusive("ops record without body")
		return
	}
	e.c.Eval(recHash(raw))
	// the vocabulary of the specification must be the released one
	oldKinds := map[string]oldwire.Kind{"invoke": oldwire.KindInvoke, "message": oldwire.KindMessage, "error": oldwire.KindError,
		"close": oldwire.KindClose, "closesend": oldwire.KindCloseSend, "metadata": oldwire.KindInvokeMetadata}
	if k, ok := oldKinds[o.Op]; ok && int(k) != o.Wire.Kind {
		e.c.Inconclusive("Wire.tla OpWire[%s].kind = %d but v0.0.17 uses %d", o.Op, o.Wire.Kind, k)
		return
	}
	var fr drpcwire.Frame
	md := map[string]string{"trace-id": "abc", "ключ": "значение"}
	const rpc = "/service/Method"
	switch o.Op {
	case "metadata", "invoke", "message":
		fs, note := invokeFrames(md, rpc)
		if note != "" {
			e.c.Inconclusive("ops %s: %s", o.Op, note)
			return
		}
		fr = fs[map[string]int{"metadata": 0, "invoke": 1, "message": 2}[o.Op]]
		switch o.Op {
		case "metadata":
			got, err := oldmd.Decode(fr.Data)
			if err != nil || !sameMapW(got, md) {
				e.violate("Invoke: the metadata packet is not decoded to the same map by v0.0.17", raw, map[string]any{"error": fmt.Sprint(err)})
				return
			}
		case "invoke":
			if string(fr.Data) != rpc {
				e.violate("Invoke: the invoke packet does not carry the rpc name", raw, map[string]any{"body": string(fr.Data)})
				return
			}
		case "message":
			if string(fr.Data) != "request" {
				e.violate("Invoke: the message packet does not carry the request", raw, map[string]any{"body": string(fr.Data)})
				return
			}
		}
		if o.Op == "message" { // the unary call half-closes after its request
			if last := fs[3]; int(last.Kind) != int(oldwire.KindCloseSend) || last.Control || len(last.Data) != 0 || !last.Done {
				e.violate(fmt.Sprintf("Invoke: fourth packet is not CloseSend as v0.0.17 knows it: kind=%d control=%v", last.Kind, last.Control), raw, map[string]any{})
				return
			}
		}
	default:
		var out bytes.Buffer
		st := drpcstream.New(context.Background(), 3, drpcwire.NewWriter(&out, 0))
		_ = st.RawWrite(drpcwire.KindInvoke, []byte(rpc))
		_ = st.RawFlush()
		out.Reset()
		sent := drpcerr.WithCode(errors.New("handler failed"), 77)
		switch o.Op {
		case "error":
			_ = st.SendError(sent)
		case "close":
			_ = st.Close()
		case "closesend":
			_ = st.CloseSend()
		case "softcancel":
			_, _ = st.SendCancel(context.Canceled)
		default:
			e.c.Inconclusive("unknown op %q", o.Op)
			return
		}
		rem, f, ok, err := drpcwire.ParseFrame(out.Bytes())
		if !ok || err != nil || len(rem) != 0 {
			e.violate(fmt.Sprintf("stream op %s does not put exactly one frame on the wire", o.Op), raw, map[string]any{"bytes": out.Len()})
			return
		}
		fr = f
		if o.Op == "error" {
			got := oldwire.UnmarshalError(fr.Data)
			if got == nil || !strings.Contains(got.Error(), "handler failed") || drpcerr.Code(got) != 77 {
				e.violate("SendError: the error packet is not decoded to the same message and code by v0.0.17", raw, map[string]any{"decoded": fmt.Sprint(got)})
				return
			}
		}
		if !st.IsTerminated() {
			st.Cancel(context.Canceled)
		}
	}
	if int(fr.Kind) != o.Wire.Kind || fr.Control != o.Wire.Control || !fr.Done || (o.Wire.Body == "empty" && len(fr.Data) != 0) {
		e.violate(fmt.Sprintf("operation %s sends kind=%d control=%v; the vocabulary shared with released peers (Wire.tla OpWire) demands kind=%d control=%v", o.Op, fr.Kind, fr.Control, o.Wire.Kind, o.Wire.Control), raw, map[string]any{"body_len": len(fr.Data)})
		return
	}
	atomic.AddInt64(&e.runs, 1)
	e.c.EvalN(1)
	e.c.TraceValidated(1)
}

// ---------------------------------------------------------------------------
// C18
// ---------------------------------------------------------------------------

type emitCfg struct {
	label   string
	mode    string
	depth   int
	kinds   string
	pays    string
	gaps    string
	multi   bool
	streams bool
}

func emitPlan(quick bool) []emitCfg {
	const all = "{1,2,3,5,6,7}"
	if quick {
		return []emitCfg{
			{"emitnew depth 4, kinds {2,6}", "emitnew", 4, "{2,6}", "{0,1}", "{1}", true, true},
			{"emitnew depth 3, all kinds", "emitnew", 3, all, "{0,1}", "{1}", true, true},
			{"emitnew id gaps depth 3", "emitnew", 3, "{2,5}", "{1}", "{1,2}", true, true},
			{"emitnew one stream, sizes around 4 MiB, depth 5", "emitnew", 5, "{2}", "{129,1048544}", "{1}", true, false},
			{"emitold depth 4, kinds {2,5}", "emitold", 4, "{2,5}", "{0,1}", "{1}", true, true},
			{"emitold depth 3, all kinds", "emitold", 3, all, "{0,1}", "{1}", true, true},
			{"emitold one stream, sizes around 4 MiB, depth 5", "emitold", 5, "{2}", "{128,1048544}", "{1}", true, false},
		}
	}
	return []emitCfg{
		{"emitnew depth 5, kinds {2,6}", "emitnew", 5, "{2,6}", "{0,1}", "{1}", true, true},
		{"emitnew depth 4, all kinds", "emitnew", 4, all, "{0,1}", "{1}", true, true},
		{"emitnew id gaps depth 4", "emitnew", 4, "{2,5}", "{1,65536}", "{1,2}", true, true},
		{"emitnew single-frame packets depth 5", "emitnew", 5, all, "{0,5}", "{1}", false, true},
		{"emitnew one stream, sizes around 4 MiB, depth 5", "emitnew", 5, "{2}", "{128,129,1048544}", "{1}", true, false},
		{"emitnew one stream, sizes around 4 MiB, depth 6", "emitnew", 6, "{2}", "{129,1048544}", "{1}", true, false},
		{"emitold depth 5, kinds {2,5}", "emitold", 5, "{2,5}", "{0,1}", "{1}", true, true},
		{"emitold depth 4, all kinds", "emitold", 4, all, "{0,1}", "{1}", true, true},
		{"emitold id gaps depth 4", "emitold", 4, "{2,5}", "{1,65536}", "{1,2}", true, true},
		{"emitold one stream, sizes around 4 MiB, depth 5", "emitold", 5, "{2}", "{128,129,1048544}", "{1}", true, false},
		{"emitold one stream, sizes around 4 MiB, depth 6", "emitold", 6, "{2}", "{128,1048544}", "{1}", true, false},
	}
}

// C18 — the wire format stays compatible with released peers.
func C18(c *vf.Ctx) {
	defer relaxGC()()
	c.Assume = append(c.Assume,
		"the released peer is storj.io/drpc v0.0.17: its drpcwire and drpcmetadata packages are vendored path-renamed under harness/oldwire (monkit instrumentation removed, otherwise verbatim)",
		"frames within the old size limits: payloads up to 1 MiB-32 per frame (so that a frame with 10-byte id varints stays below the 1 MiB scanner token of v0.0.17), packets up to and just above 4 MiB; the current reader runs with its default MaximumBufferSize (4 MiB)",
		"EmitNew/EmitOld in spec/Wire.tla over-approximate what the stream layers can put on the wire (ids increase with gaps, every kind may be multi-frame, a message may be abandoned after any frame and is then followed only by a later stream or by the soft-cancel packet); the real stream layer's emissions are checked to be behaviours of EmitNew by TLC (code -> spec)",
		"metadata strings: classes {empty, 1 byte, 127/128/16384 bytes, multi-byte UTF-8, not UTF-8}; v0.0.17 refuses to encode strings that are not UTF-8, so only new->old is demanded for those",
		"stream-level clause: HandlePacket on a drpcstream.Stream in the states open / locally cancelled / other stream id; observables: return class, IsTerminated, what the next RawRecv yields when one more message follows, whether a send still works")
	q := c.Quick()
	e := &compatEngine{c: c, bigSem: make(chan struct{}, 3)}
	for _, ec := range emitPlan(q) {
		wc := wireBase(ec.mode)
		wc.defs["EmitKinds"], wc.defs["EmitPays"], wc.defs["EmitGaps"] = ec.kinds, ec.pays, ec.gaps
		wc.plain["EmitDepth"] = fmt.Sprint(ec.depth)
		wc.plain["EmitMulti"] = strings.ToUpper(fmt.Sprint(ec.multi))
		wc.plain["EmitStreams"] = strings.ToUpper(fmt.Sprint(ec.streams))
		wireRun(c, ec.label, wc, 16, e.emitted)
		if fastFail(c) {
			return
		}
	}
	e.live()
	if fastFail(c) {
		return
	}
	wc := wireBase("meta")
	wc.defs["MetaClasses"] = `{"empty","a","s127","s128","s16384","utf8","bin"}`
	wc.defs["MetaMany"] = "{0,100}"
	if !q {
		wc.defs["MetaMany"] = "{0,1,1000}"
	}
	wireRun(c, "metadata maps", wc, 8, e.meta)
	wc = wireBase("kinds")
	wireRun(c, "HandlePacket kinds", wc, 8, e.kinds)
	wc = wireBase("ops")
	wireRun(c, "wire vocabulary of the stream operations", wc, 2, e.ops)
	e.errorPayloads()
	c.Cov["records_replayed"] = atomic.LoadInt64(&e.records)
	c.Cov["reader_and_codec_runs"] = atomic.LoadInt64(&e.runs)
	if n := e.lim.counts(); len(n) > 0 {
		c.Cov["failure_signatures"] = n
	}
	c.Cov["rule"] = "TLC enumerates Wire.tla modes emitnew/emitold (every frame sequence the stream layer of either version can emit up to the stated depth over kinds x payload lengths x id gaps x single/multi-frame x abandoned messages x soft-cancel control packets) and checks ReassembleOld(EmitNew) = StripControl(ReassembleNew(EmitNew)) and ReassembleNew(EmitOld) = ReassembleOld(EmitOld) on every state; every sequence is written by the real writer of the emitting version and read by both real readers (vendored v0.0.17 and the working tree) under several read partitions and compared with TLC's results and with each other. Real drpcstream programs are run and their wire output is checked by TLC to be a behaviour of EmitNew, then decoded by both readers. Mode meta enumerates metadata maps over string classes, mode kinds every kind 0..63 x control bit x stream state for HandlePacket. A case is distinct by its record."
	c.Cov["exhaustive"] = false
	c.Cov["exhaustive_note"] = "exhaustive over the emitter alphabets up to the stated depths; payload bytes, id values and read partitions are representatives plus seeded draws"
}

// errorPayloads: the KindError payload (8-byte big-endian code ++ text, spec/ErrCodec.tla) means the same to both
// versions.  Raw payloads come from the ErrCodec enumeration (every length around the 8-byte boundary over bytes
// that matter to a decoder: NUL, '%', a letter, 0xFF); texts and codes come from a fixed list.  Both directions:
// what the current MarshalError emits is decoded by v0.0.17 to the same text and code, and what v0.0.17 emits is
// decoded by the current UnmarshalError to the same text and code as v0.0.17 itself decodes it.
func (e *compatEngine) errorPayloads() {
	c := e.c
	n := 0
	same := func(what string, data []byte) {
		n++
		var en, eo error
		if p := guard(func() { en = drpcwire.UnmarshalError(append([]byte(nil), data...)) }); p != nil {
			c.Violation("error payload: the current UnmarshalError panics", map[string]any{"payload": data, "panic": fmt.Sprint(p)})
			return
		}
		eo = oldwire.UnmarshalError(append([]byte(nil), data...))
		if (en == nil) != (eo == nil) || (en != nil && (en.Error() != eo.Error() || drpcerr.Code(en) != drpcerr.Code(eo))) {
			c.Violation("error payload: the current UnmarshalError and v0.0.17 decode the same bytes differently ("+what+")",
				map[string]any{"payload": data, "current": fmt.Sprint(en), "current_code": drpcerr.Code(en), "v0.0.17": fmt.Sprint(eo), "v0.0.17_code": drpcerr.Code(eo)})
		}
	}
	var jobs tlcJobs
	jobs.err(c, "errcodec_tlc_runs", "short", "{}", "{0, 37, 115, 255}", 10, func(r *errRec) {
		data := make([]byte, len(r.Payload))
		for i, b := range r.Payload {
			data[i] = byte(b)
		}
		same("raw bytes", data)
	})
	jobs.wait()
	for _, txt := range []string{"", "x", "disk 100% full", "%s %d %v %%", "%!", "a\x00b", "\xff\xfe", strings.Repeat("%d", 300), strings.Repeat("y", 70000)} {
		for _, code := range []uint64{0, 1, 77, 1 << 32, 1 << 63, ^uint64(0)} {
			var er error = errors.New(txt)
			if code != 0 {
				er = drpcerr.WithCode(er, code)
			}
			dn, do := drpcwire.MarshalError(er), oldwire.MarshalError(er)
			if !bytes.Equal(dn, do) {
				c.Violation("error payload: MarshalError emits different bytes than v0.0.17", map[string]any{"text_len": len(txt), "code": code})
			}
			same("emitted by the current MarshalError", dn)
			same("emitted by v0.0.17's MarshalError", do)
			if got := oldwire.UnmarshalError(dn); got == nil || got.Error() != txt || drpcerr.Code(got) != code {
				c.Violation("error payload new->old: v0.0.17 does not decode the text and code the current side sent", map[string]any{"text_len": len(txt), "code": code, "decoded": trunc(fmt.Sprint(got), 80)})
			}
			if got := drpcwire.UnmarshalError(do); got == nil || got.Error() != txt || drpcerr.Code(got) != code {
				c.Violation("error payload old->new: the current side does not decode the text and code v0.0.17 sent", map[string]any{"text_len": len(txt), "code": code, "decoded": trunc(fmt.Sprint(got), 80)})
			}
		}
	}
	c.Cov["error_payload_cases"] = n
	c.EvalN(int64(n))
}

func init() {
	All["C18"] = C18
}
