package checks

import (
	"bytes"
	"context"
	"encoding/json"
	"errors"
	"fmt"
	"io"
	"math/rand"
	"os"
	"strconv"
	"strings"
	"sync"
	"time"

	"storj.io/drpc"
	"storj.io/drpc/drpcstream"
	"storj.io/drpc/drpcwire"

	"verif/dir"
	"verif/vf"
)

func init() {
	All["C03"] = C03
	SpecModules = append(SpecModules, "Stream", "StreamTrace")
}

// ---- classification of results ----------------------------------------------------------

func streamErrClass(err error) string {
	switch {
	case err == nil:
		return "nil"
	case errors.Is(err, io.EOF):
		return "EOF"
	case errors.Is(err, dir.ErrTransport), errors.Is(err, io.ErrClosedPipe):
		return "terr"
	case errors.Is(err, context.Canceled):
		return "Canceled"
	case errors.Is(err, context.DeadlineExceeded):
		return "Deadline"
	}
	m := err.Error()
	switch {
	case strings.Contains(m, "send closed"):
		return "sendClosed"
	case strings.Contains(m, "stream terminated by sending error"):
		return "termError"
	case strings.Contains(m, "stream terminated by sending close"):
		return "termClosed"
	case strings.Contains(m, "stream terminated by both issuing close send"):
		return "termBoth"
	case strings.Contains(m, "remote closed the stream"):
		if drpc.ClosedError.Has(err) {
			return "remoteClosed"
		}
		return "remoteClosed(not ClosedError)"
	case strings.Contains(m, "invoke on existing stream"):
		if drpc.ProtocolError.Has(err) {
			return "protoInvoke"
		}
		return "protoInvoke(not ProtocolError)"
	case strings.Contains(m, "unknown packet kind"):
		if drpc.InternalError.Has(err) {
			return "internalKind"
		}
		return "internalKind(not InternalError)"
	case strings.Contains(m, "invalid error data"):
		return "remote:short"
	case strings.HasPrefix(m, "E"):
		return "remote:" + m[1:]
	}
	return "other:" + m
}

func frameTag(f dir.WFrame) string {
	switch f.Kind {
	case 1, 2, 7:
		if len(f.Data) > 0 {
			return strconv.Itoa(int(f.Data[0]))
		}
	case 3:
		if len(f.Data) > 9 {
			return string(f.Data[9:])
		}
	}
	return "none"
}

func frameStr(f dir.WFrame) string {
	d, c := "-", "-"
	if f.Done {
		d = "d"
	}
	if f.Control {
		c = "c"
	}
	return fmt.Sprintf("%s/%d%s%s/%s", dir.KindName(f.Kind), f.Mid, d, c, frameTag(f))
}

// ---- one real single-stream world ----------------------------------------------------------

type stim struct {
	K   string `json:"k"`
	T   string `json:"t,omitempty"`
	Op  string `json:"op,omitempty"`
	How string `json:"how,omitempty"`
}

type streamObs struct {
	Thr  map[string]string `json:"thr"`
	Term bool              `json:"term"`
	Fin  bool              `json:"fin"`
	NewW [][]string        `json:"neww"`
}

type traceLine struct {
	Stim stim      `json:"stim"`
	Obs  streamObs `json:"obs"`
}

var streamThreads = []string{"t1", "t2", "t3"}

type streamWorld struct {
	d       *dir.Director
	pipe    *dir.GatedPipe
	enc     *dir.GateEnc
	s       *drpcstream.Stream
	nstart  int
	wseen   int
	direct  []string // failures of direct monitors
	wr      *drpcwire.Writer
	opts    drpcstream.Options
	finSeen bool // Finished was observed at an earlier quiescent point
}

// successor: once the stream is finished, the manager creates the next stream on the same writer.  Nothing of the
// finished stream may be emitted from then on ("nothing is emitted after termination"): whatever the old stream left
// unflushed in the shared writer must not ride on the next stream's first flush.
func (w *streamWorld) successor() {
	select {
	case <-w.s.Finished():
	default:
		return
	}
	for _, n := range streamThreads {
		if w.d.Thread(n).Busy() {
			return
		}
	}
	before := len(w.pipe.Writes())
	s2 := drpcstream.NewWithOptions(context.Background(), 2, w.wr, w.opts)
	done := make(chan struct{})
	go func() {
		defer close(done)
		_ = s2.RawWrite(drpcwire.KindInvoke, []byte("next"))
		_ = s2.RawFlush()
		_ = s2.Close()
	}()
	for i := 0; i < 200; i++ {
		select {
		case <-done:
			i = 1000
		default:
			w.pipe.ReleaseWrite(true)
			time.Sleep(50 * time.Microsecond)
		}
	}
	select {
	case <-done:
	case <-time.After(5 * time.Second):
		w.direct = append(w.direct, "the successor stream on the same writer does not complete its first writes")
		return
	}
	for _, wrc := range w.pipe.Writes()[before:] {
		for _, f := range wrc.Frames {
			if f.Sid == 1 {
				w.direct = append(w.direct, fmt.Sprintf("a frame of the finished stream (%s/%d/%d) was emitted later, with the next stream's writes", dir.KindName(f.Kind), f.Sid, f.Mid))
				return
			}
		}
	}
}

func newStreamWorld(small, manual bool) *streamWorld {
	w := &streamWorld{d: dir.NewDirector(), pipe: dir.NewGatedSink("tr"), enc: &dir.GateEnc{}}
	w.enc.ArmU.Store(true)
	size := 4096
	if small {
		size = 1
	}
	w.wr = drpcwire.NewWriter(w.pipe, size)
	w.opts = drpcstream.Options{SplitSize: 8, ManualFlush: manual}
	w.s = drpcstream.NewWithOptions(context.Background(), 1, w.wr, w.opts)
	for _, t := range streamThreads {
		w.d.Thread(t)
	}
	return w
}

func isPacketOp(op string) bool { return strings.HasPrefix(op, "P") }

func (w *streamWorld) opFunc(op string, n int) func() string {
	s, enc := w.s, w.enc
	pay := func(k int) []byte { return bytes.Repeat([]byte{byte(n)}, k) }
	pkt := func(kind drpcwire.Kind, ctl bool, data []byte, sid uint64) func() string {
		return func() string {
			return streamErrClass(s.HandlePacket(drpcwire.Packet{Data: data, ID: drpcwire.ID{Stream: sid, Message: uint64(n)}, Kind: kind, Control: ctl}))
		}
	}
	errPayload := append(make([]byte, 8), []byte("E"+strconv.Itoa(n))...)
	errPayload[7] = 7
	switch op {
	case "MsgSend1":
		return func() string { return streamErrClass(s.MsgSend(&dir.Msg{Data: pay(4)}, enc)) }
	case "MsgSend2":
		return func() string { return streamErrClass(s.MsgSend(&dir.Msg{Data: pay(12)}, enc)) }
	case "RawWrite1":
		return func() string { return streamErrClass(s.RawWrite(drpcwire.KindInvoke, pay(4))) }
	case "RawFlush":
		return func() string { return streamErrClass(s.RawFlush()) }
	case "MsgRecv":
		return func() string {
			var m dir.Msg
			if err := s.MsgRecv(&m, enc); err != nil {
				return streamErrClass(err)
			}
			if len(m.Data) == 0 {
				return "msg:empty"
			}
			return "msg:" + strconv.Itoa(int(m.Data[0]))
		}
	case "RawRecv":
		return func() string {
			data, err := s.RawRecv()
			if err != nil {
				return streamErrClass(err)
			}
			if len(data) == 0 {
				return "msg:empty"
			}
			return "msg:" + strconv.Itoa(int(data[0]))
		}
	case "CloseSend":
		return func() string { return streamErrClass(s.CloseSend()) }
	case "Close":
		return func() string { return streamErrClass(s.Close()) }
	case "SendError":
		return func() string { return streamErrClass(s.SendError(errors.New("E" + strconv.Itoa(n)))) }
	case "CancelC":
		return func() string { return strconv.FormatBool(s.Cancel(context.Canceled)) }
	case "CancelD":
		return func() string { return strconv.FormatBool(s.Cancel(context.DeadlineExceeded)) }
	case "SendCancel":
		return func() string {
			busy, err := s.SendCancel(context.Canceled)
			if busy {
				return "busy"
			}
			return streamErrClass(err)
		}
	case "PMsg":
		return pkt(drpcwire.KindMessage, false, pay(4), 1)
	case "PCloseSend":
		return pkt(drpcwire.KindCloseSend, false, nil, 1)
	case "PClose":
		return pkt(drpcwire.KindClose, false, nil, 1)
	case "PError":
		return pkt(drpcwire.KindError, false, errPayload, 1)
	case "PErrorShort":
		return pkt(drpcwire.KindError, false, []byte("abc"), 1)
	case "PCancel":
		return pkt(drpcwire.KindCancel, true, nil, 1)
	case "PInvoke":
		return pkt(drpcwire.KindInvoke, false, pay(4), 1)
	case "PMeta":
		return pkt(drpcwire.KindInvokeMetadata, false, pay(4), 1)
	case "PUnk":
		return pkt(drpcwire.Kind(9), false, pay(4), 1)
	case "PUnkCtl":
		return pkt(drpcwire.Kind(9), true, pay(4), 1)
	case "PForeign":
		return pkt(drpcwire.KindClose, false, nil, 2)
	}
	return nil
}

// apply performs one stimulus if it is applicable in the real state.
func (w *streamWorld) apply(st stim) bool {
	switch st.K {
	case "start":
		t := w.d.Thread(st.T)
		if t.Busy() {
			return false
		}
		if isPacketOp(st.Op) {
			for _, u := range streamThreads {
				if ut := w.d.Thread(u); ut.Busy() && ut.Tag() == "packet" {
					return false
				}
			}
		}
		fn := w.opFunc(st.Op, w.nstart+1)
		if fn == nil {
			return false
		}
		w.nstart++
		w.wseen = len(w.pipe.Writes())
		if isPacketOp(st.Op) {
			t.SetTag("packet")
		} else {
			t.SetTag("")
		}
		w.d.Go(st.T, fn)
		return true
	case "relw":
		if !w.pipe.WritePending() {
			return false
		}
		w.wseen = len(w.pipe.Writes())
		return w.pipe.ReleaseWrite(st.How == "ok")
	case "relu":
		if w.enc.U.Waiting() == 0 {
			return false
		}
		w.wseen = len(w.pipe.Writes())
		return w.enc.U.Release()
	}
	return false
}

func (w *streamWorld) observe() (streamObs, bool) {
	snap, ok := w.d.Quiesce()
	o := streamObs{Thr: map[string]string{}, NewW: [][]string{}}
	for _, name := range streamThreads {
		t := w.d.Thread(name)
		if wh, busy := snap.Threads[name]; busy {
			switch wh.State {
			case "gate:tw":
				o.Thr[name] = "tw"
			case "gate:um":
				o.Thr[name] = "um"
			default:
				o.Thr[name] = "blk"
			}
			continue
		}
		if r, has := t.Result(); has {
			o.Thr[name] = "ret:" + r
		} else {
			o.Thr[name] = "idle"
		}
	}
	o.Term, o.Fin = w.s.IsTerminated(), w.s.IsFinished()
	ws := w.pipe.Writes()
	for _, wr := range ws[w.wseen:] {
		fs := []string{}
		for _, f := range wr.Frames {
			fs = append(fs, frameStr(f))
		}
		if wr.PErr != nil {
			fs = append(fs, "garbage:"+wr.PErr.Error())
		}
		o.NewW = append(o.NewW, fs)
	}
	// direct monitors of the property statement (independent of the model)
	if w.finSeen && len(o.NewW) > 0 {
		// the manager admits the next stream once this one reports finished: a frame handed to the transport after that
		// follows frames of the later stream
		w.direct = append(w.direct, "a frame was handed to the transport after the stream had reported finished")
	}
	if o.Fin {
		w.finSeen = true
		for _, st := range o.Thr {
			if st == "tw" {
				w.direct = append(w.direct, "the stream reports finished while one of its frames is still being handed to the transport")
			}
		}
	}
	ctx := w.s.Context()
	select {
	case <-ctx.Done():
		if !o.Fin {
			w.direct = append(w.direct, "context done although the stream is not finished")
		}
		if ctx.Err() != context.Canceled {
			w.direct = append(w.direct, "context error of a finished stream is not context.Canceled")
		}
	default:
		if o.Fin {
			w.direct = append(w.direct, "stream finished but its context is not done")
		}
		if ctx.Err() != nil {
			w.direct = append(w.direct, "context error set although the context is not done")
		}
	}
	if o.Fin && !o.Term {
		w.direct = append(w.direct, "finished but not terminated")
	}
	select {
	case <-w.s.Terminated():
		if !o.Term {
			w.direct = append(w.direct, "Terminated() closed but IsTerminated false")
		}
	default:
		if o.Term {
			w.direct = append(w.direct, "IsTerminated but Terminated() open")
		}
	}
	if _, mw, _, _, _ := w.pipe.Stats(); mw > 1 {
		w.direct = append(w.direct, "two transport writes in flight")
	}
	return o, ok
}

// cleanup lets every goroutine of the run finish.
func (w *streamWorld) cleanup() bool {
	w.enc.ArmU.Store(false)
	cancelled := false
	for i := 0; i < 50; i++ {
		busy := false
		for _, n := range streamThreads {
			if w.d.Thread(n).Busy() {
				busy = true
			}
		}
		if !busy {
			return true
		}
		w.pipe.ReleaseWrite(false)
		w.enc.U.ReleaseAll()
		if !cancelled && i > 0 {
			cancelled = true
			go w.s.Cancel(context.Canceled)
		}
		w.d.Quiesce()
	}
	return false
}

// run executes a stimulus list and returns the recorded lines.
func (w *streamWorld) run(stims []stim) (lines []traceLine, quiet bool) {
	quiet = true
	o, ok := w.observe()
	quiet = quiet && ok
	lines = append(lines, traceLine{Stim: stim{K: "reset"}, Obs: o})
	for _, st := range stims {
		if !w.apply(st) {
			continue
		}
		o, ok := w.observe()
		quiet = quiet && ok
		lines = append(lines, traceLine{Stim: st, Obs: o})
		if !ok {
			break
		}
	}
	return lines, quiet
}

// ---- the check -----------------------------------------------------------------------------

const streamInvs = "TypeOK Inv OneWrite LateSilent LateIdempotent FinIffTermIdle RemoteEndsSend WireOrdered"

func streamCfg(spec string, starts int, small, manual, gen bool, ops string, nthreads int) (string, string, string) {
	b := func(v bool) string { return strings.ToUpper(strconv.FormatBool(v)) }
	base := "Stream"
	if spec == "trace" {
		base = "StreamTrace"
	}
	name, mod, consts := vf.MCModule(base, map[string]string{"Threads": threadSet(nthreads), "OpNames": ops},
		map[string]string{"MaxStarts": strconv.Itoa(starts), "Small": b(small), "Manual": b(manual), "Gen": b(gen)})
	var cfg string
	switch spec {
	case "design":
		cfg = "SPECIFICATION Spec\n" + consts + "INVARIANTS " + streamInvs + "\nPROPERTIES UnknownCtlIgnored SetOnce FinSilent\nVIEW view\nCHECK_DEADLOCK FALSE\n"
	case "live":
		cfg = "SPECIFICATION LiveSpec\n" + consts + "PROPERTIES CallsReturn\nCHECK_DEADLOCK FALSE\n"
	case "gen":
		cfg = "SPECIFICATION Spec\n" + consts + "INVARIANTS EmitStims\nCHECK_DEADLOCK FALSE\n"
	case "trace":
		cfg = "SPECIFICATION TSpec\n" + consts + "CONSTRAINT HighWater\nINVARIANT TraceInv Accepted\nPOSTCONDITION Report\nCHECK_DEADLOCK FALSE\n"
	}
	return name, mod, cfg
}

type streamRunRec struct {
	Cfg   string
	Stims []stim
	Lines []traceLine
}

// validateStreamTraces has TLC decide whether the recorded runs are behaviours of Stream.tla.
// It returns the runs that were rejected (with the index of the first line that could not be matched).
func validateStreamTraces(c *vf.Ctx, small, manual bool, runs []*streamRunRec) (rejected map[*streamRunRec]int, validated int) {
	rejected = map[*streamRunRec]int{}
	const shards = 4
	var mu sync.Mutex
	var wg sync.WaitGroup
	parts := make([][]*streamRunRec, shards)
	for i, r := range runs {
		parts[i%shards] = append(parts[i%shards], r)
	}
	for _, part := range parts {
		part := part
		if len(part) == 0 {
			continue
		}
		wg.Add(1)
		go func() {
			defer wg.Done()
			rest := part
			for attempt := 0; attempt < 6 && len(rest) > 0; attempt++ {
				var buf bytes.Buffer
				starts := []int{}
				n := 0
				for _, r := range rest {
					starts = append(starts, n)
					for _, l := range r.Lines {
						b, _ := json.Marshal(l)
						buf.Write(b)
						buf.WriteByte('\n')
						n++
					}
				}
				name, mod, cfg := streamCfg("trace", 1000000, small, manual, false, "AllOps", 3)
				hw, total := -1, -1
				res, err := vf.TLC(vf.TLCOpts{Module: name, Cfg: cfg, Extra: map[string]string{name + ".tla": mod, "trace.ndjson": buf.String()},
					Workers: 1, DFS: true, Timeout: 20 * time.Minute, HeapMB: 3000,
					OnLine: func(b []byte) {
						var r struct{ Hw, Len int }
						if json.Unmarshal(b, &r) == nil {
							hw, total = r.Hw, r.Len
						}
					}})
				if err != nil || hw < 0 || res.Violated != "" && res.Violated != "postcondition" {
					msg := ""
					if res != nil {
						msg = res.Violated + " " + res.ErrorText + "\n" + res.Tail
					}
					if res != nil && res.Violated != "" {
						// a design invariant failed on a state reached through a real execution
						mu.Lock()
						c.Inconclusive("trace validation: invariant %s violated while following real traces (model problem or real defect):\n%s", res.Violated, res.TraceText)
						mu.Unlock()
						return
					}
					mu.Lock()
					c.Inconclusive("trace validation run failed: %v %s", err, msg)
					mu.Unlock()
					return
				}
				mu.Lock()
				c.AddTLC(res)
				mu.Unlock()
				if hw == total+1 {
					mu.Lock()
					validated += len(rest)
					mu.Unlock()
					return
				}
				// line hw (1-based) could not be matched: find its run
				idx := 0
				for i := range rest {
					if starts[i] <= hw-1 {
						idx = i
					}
				}
				mu.Lock()
				rejected[rest[idx]] = hw - 1 - starts[idx]
				validated += idx
				mu.Unlock()
				rest = rest[idx+1:]
			}
		}()
	}
	wg.Wait()
	return rejected, validated
}

// C03 — stream lifecycle follows the documented state machine.
func C03(c *vf.Ctx) {
	q := c.Quick()
	c.Assume = append(c.Assume,
		"HandlePacket is called by one goroutine at a time (as the manager's reader does)",
		"observation at quiescence: internal interleavings with the same quiescent outcome are not distinguished",
		"interleavings inside a region without a blocking call are explored by TLC on the model but realised on the real code only where a goroutine blocks or parks at a harness gate (transport Write, user Unmarshal)")

	// A. design check: every interleaving at label grain for a bounded number of calls
	type cfgT struct{ small, manual bool }
	cfgs := []cfgT{{true, false}, {false, false}, {true, true}, {false, true}}
	starts := 2
	nthr := 3
	var awg sync.WaitGroup
	var amu sync.Mutex
	for i, cf := range cfgs {
		i, cf := i, cf
		awg.Add(1)
		go func() {
			defer awg.Done()
			k := starts
			ops := "AllOps"
			if !q && i == 0 {
				k = 3
				ops = `AllOps \ {"PMeta", "PErrorShort", "CancelD", "RawRecv", "PUnk"}`
			}
			name, mod, cfg := streamCfg("design", k, cf.small, cf.manual, false, ops, nthr)
			wk, heap := 4, 6000
			if k > 2 {
				wk, heap = 10, 28000
			}
			res, err := vf.TLC(vf.TLCOpts{Module: name, Cfg: cfg, Extra: map[string]string{name + ".tla": mod}, Timeout: 60 * time.Minute, HeapMB: heap, Workers: wk})
			amu.Lock()
			defer amu.Unlock()
			if err != nil {
				c.Inconclusive("tlc: %v", err)
				return
			}
			if res.Violated != "" {
				c.Inconclusive("design check of Stream.tla (small=%v manual=%v) violates %s:\n%s", cf.small, cf.manual, res.Violated, res.TraceText)
				return
			}
			if !res.Finished {
				c.Inconclusive("design check did not finish: %s %s", res.ErrorText, res.Tail)
				return
			}
			c.AddTLC(res)
			parts, _ := c.Cov["tlc_runs"].([]string)
			c.Cov["tlc_runs"] = append(parts, fmt.Sprintf("Stream design small=%v manual=%v starts=%d threads=%d: generated=%d distinct=%d depth=%d wall=%.1fs", cf.small, cf.manual, k, nthr, res.Generated, res.Distinct, res.Depth, res.Wall.Seconds()))
		}()
	}
	awg.Add(1)
	go func() { defer awg.Done(); streamLiveMu(c, &amu) }()
	defer awg.Wait()

	// B. behaviours: stimulus sequences from the model (realisable ones) and seeded random ones, run on the real
	// stream, recorded, and validated against the trace specification
	nsim := 40
	nrand := 400
	simStarts := 6
	if !q {
		nsim, nrand = 600, 6000
	}
	rng := rand.New(rand.NewSource(c.Seed))
	totalRuns, totalLines, rejectedN := 0, 0, 0
	notQuiet := 0
	allRuns := map[cfgT][]*streamRunRec{}
	for _, cf := range cfgs {
		cf := cf
		var runs []*streamRunRec
		tcfg := time.Now()
		seen := map[string]bool{}
		exec := func(stims []stim, origin string) {
			w := newStreamWorld(cf.small, cf.manual)
			lines, quiet := w.run(stims)
			if quiet {
				w.successor()
			}
			if !w.cleanup() {
				c.Warn("run left goroutines behind (origin %s)", origin)
			}
			if !quiet {
				notQuiet++
				return
			}
			for _, dm := range w.direct {
				c.Violation("stream monitor: "+dm, map[string]any{"small": cf.small, "manual": cf.manual, "stimuli": stims, "trace": lines})
			}
			for _, l := range lines {
				for t, v := range l.Obs.Thr {
					if strings.HasPrefix(v, "ret:panic:") {
						c.Violation("panic in stream call", map[string]any{"thread": t, "result": v, "stimuli": stims})
					}
				}
			}
			runs = append(runs, &streamRunRec{Cfg: fmt.Sprintf("small=%v manual=%v", cf.small, cf.manual), Stims: stims, Lines: lines})
			k, _ := json.Marshal(lines)
			c.Eval(origin[:1] + string(k))
			totalLines += len(lines)
		}
		// B1: TLC-generated stimulus sequences
		name, mod, cfg := streamCfg("gen", simStarts, cf.small, cf.manual, true, "AllOps", 3)
		res, err := vf.TLC(vf.TLCOpts{Module: name, Cfg: cfg, Extra: map[string]string{name + ".tla": mod}, Simulate: fmt.Sprintf("num=%d", nsim),
			Depth: 400, Seed: c.Seed, Workers: 8, Timeout: 20 * time.Minute, HeapMB: 6000,
			OnLine: func(b []byte) {
				if seen[string(b)] {
					return
				}
				seen[string(b)] = true
				var r struct {
					Stims []stim `json:"stims"`
				}
				if json.Unmarshal(b, &r) != nil {
					return
				}
				exec(r.Stims, "tlc")
			}})
		if err != nil || !res.Finished {
			msg := ""
			if res != nil {
				msg = res.Violated + res.ErrorText + res.Tail
			}
			c.Inconclusive("behaviour generation failed: %v %s", err, msg)
		} else {
			c.AddTLC(res)
		}
		// B2: seeded random stimulus sequences over the full alphabet (code -> spec direction)
		allOps := []string{"MsgSend1", "MsgSend2", "RawWrite1", "RawFlush", "MsgRecv", "RawRecv", "CloseSend", "Close", "SendError",
			"CancelC", "CancelD", "SendCancel", "PMsg", "PCloseSend", "PClose", "PError", "PErrorShort", "PCancel", "PInvoke", "PMeta", "PUnk", "PUnkCtl", "PForeign"}
		for i := 0; i < nrand; i++ {
			n := 4 + rng.Intn(14)
			var stims []stim
			for j := 0; j < n; j++ {
				switch r := rng.Intn(10); {
				case r < 6:
					stims = append(stims, stim{K: "start", T: streamThreads[rng.Intn(3)], Op: allOps[rng.Intn(len(allOps))]})
				case r < 8:
					stims = append(stims, stim{K: "relw", How: []string{"ok", "ok", "err"}[rng.Intn(3)]})
				default:
					stims = append(stims, stim{K: "relu"})
				}
			}
			exec(stims, "rnd")
		}
		totalRuns += len(runs)
		allRuns[cf] = runs
		parts, _ := c.Cov["phases"].([]string)
		c.Cov["phases"] = append(parts, fmt.Sprintf("small=%v manual=%v: runs=%d exec=%.1fs", cf.small, cf.manual, len(runs), time.Since(tcfg).Seconds()))
	}
	type vres struct {
		rej map[*streamRunRec]int
		val int
	}
	vout := map[cfgT]*vres{}
	var vwg sync.WaitGroup
	var vmu sync.Mutex
	tv := time.Now()
	for _, cf := range cfgs {
		cf := cf
		vwg.Add(1)
		go func() {
			defer vwg.Done()
			rej, val := validateStreamTraces(c, cf.small, cf.manual, allRuns[cf])
			vmu.Lock()
			vout[cf] = &vres{rej, val}
			vmu.Unlock()
		}()
	}
	vwg.Wait()
	c.Cov["validate_wall_s"] = time.Since(tv).Seconds()
	for _, cf := range cfgs {
		runs := allRuns[cf]
		rej, val := vout[cf].rej, vout[cf].val
		c.TraceValidated(int64(val))
		for r, line := range rej {
			rejectedN++
			var at any
			if line >= 0 && line < len(r.Lines) {
				at = r.Lines[line]
			}
			sig := "stream behaviour not allowed by Stream.tla"
			if tl, ok := at.(traceLine); ok {
				sig += fmt.Sprintf(": after %s %s", tl.Stim.K, tl.Stim.Op)
			}
			c.Violation(sig, map[string]any{"config": r.Cfg, "stimuli": r.Stims, "trace": r.Lines, "first_unmatched_line": line, "line": at})
		}
		if len(runs) > 0 {
			c.Sample(map[string]any{"config": runs[len(runs)/2].Cfg, "trace": runs[len(runs)/2].Lines})
		}
	}
	c.Cov["runs_recorded"] = totalRuns
	c.Cov["trace_lines"] = totalLines
	c.Cov["runs_rejected"] = rejectedN
	c.Cov["runs_not_quiescent_dropped"] = notQuiet
	c.Cov["rule"] = "TLC checks Stream.tla (StreamCore semantics) exhaustively at label grain for bounded call counts over the 23-symbol alphabet (12 local calls, 11 packet kinds) in 4 writer/flush configurations; realisable stimulus sequences generated by TLC simulation plus seeded random ones are executed on a real drpcstream.Stream over a gated transport, the observation (per-call result class, parked/blocked threads, terminated/finished/context, frames handed to the transport) is recorded at every quiescence and TLC validates each run against StreamTrace.tla. A run is distinct by its recorded lines."
	c.Cov["exhaustive"] = false
	if notQuiet > 0 {
		c.Warn("%d runs dropped because quiescence was not reached in time", notQuiet)
	}
}

// LIVEDEV: the progress property of Stream.tla alone (development entry).
func streamLive(c *vf.Ctx) { streamLiveMu(c, &sync.Mutex{}) }

func streamLiveMu(c *vf.Ctx, mu *sync.Mutex) {
	for _, cf := range []struct{ small, manual bool }{{true, false}, {false, false}} {
		name, mod, cfg := streamCfg("live", 2, cf.small, cf.manual, false, "AllOps", 3)
		res, err := vf.TLC(vf.TLCOpts{Module: name, Cfg: cfg, Extra: map[string]string{name + ".tla": mod}, Timeout: 30 * time.Minute, HeapMB: 8000, Workers: 8})
		if err != nil || res == nil || !res.Finished {
			msg := ""
			if res != nil {
				msg = res.Violated + " " + res.ErrorText + "\n" + res.TraceText
			}
			c.Inconclusive("progress check of Stream.tla (small=%v manual=%v): %v %s", cf.small, cf.manual, err, msg)
			return
		}
		mu.Lock()
		c.AddTLC(res)
		parts, _ := c.Cov["tlc_runs"].([]string)
		c.Cov["tlc_runs"] = append(parts, fmt.Sprintf("Stream progress (WF of goroutine steps, write releases, user code) small=%v manual=%v starts=2 threads=3: distinct=%d wall=%.1fs", cf.small, cf.manual, res.Distinct, res.Wall.Seconds()))
		mu.Unlock()
	}
}

func init() { All["LIVEDEV"] = streamLive }

// streamWire is the single-stream part of C07: seeded stimulus sequences over every stream call and packet kind from
// three goroutines (the handler side of a connection may use a stream from several goroutines, which the
// connection world's scripted handler does not), judged by the wire clauses of the property alone: whole frames,
// ids in order, one kind per id, nothing after the final frame of an id, and nothing after the stream reported
// finished (from then on the manager lets the next stream write).
func streamWire(c *vf.Ctx) {
	rng := rand.New(rand.NewSource(c.Seed ^ 0x57a3))
	n := 600
	if !c.Quick() {
		n = 6000
	}
	allOps := []string{"MsgSend1", "MsgSend2", "RawWrite1", "RawFlush", "MsgRecv", "CloseSend", "Close", "SendError",
		"CancelC", "CancelD", "SendCancel", "PMsg", "PCloseSend", "PClose", "PError", "PCancel"}
	runs, bad := 0, 0
	// directed: a writer parked in the transport, a terminal call queued behind it, termination from a third party,
	// then the transport moves
	var directed [][]stim
	for _, snd := range []string{"MsgSend1", "MsgSend2", "RawWrite1"} {
		for _, term := range []string{"Close", "SendError", "CloseSend"} {
			for _, third := range []string{"CancelC", "CancelD", "PClose", "PError", "PCancel", "SendCancel"} {
				directed = append(directed, []stim{{K: "start", T: "t1", Op: snd}, {K: "start", T: "t2", Op: term}, {K: "start", T: "t3", Op: third},
					{K: "relw", How: "ok"}, {K: "relw", How: "ok"}, {K: "relw", How: "ok"}})
			}
		}
	}
	for _, cf := range []struct{ small, manual bool }{{true, false}, {false, false}, {true, true}} {
		for i := 0; i < n/3+len(directed); i++ {
			var stims []stim
			if i < len(directed) {
				stims = directed[i]
			}
			for j, m := 0, 4+rng.Intn(12); i >= len(directed) && j < m; j++ {
				switch r := rng.Intn(10); {
				case r < 6:
					stims = append(stims, stim{K: "start", T: streamThreads[rng.Intn(3)], Op: allOps[rng.Intn(len(allOps))]})
				case r < 9:
					stims = append(stims, stim{K: "relw", How: []string{"ok", "ok", "err"}[rng.Intn(3)]})
				default:
					stims = append(stims, stim{K: "relu"})
				}
			}
			w := newStreamWorld(cf.small, cf.manual)
			lines, quiet := w.run(stims)
			w.cleanup()
			if !quiet {
				continue
			}
			runs++
			var fl []dir.WFrame
			for _, wr := range w.pipe.Writes() {
				if wr.PErr != nil {
					w.direct = append(w.direct, "a transport write is not a sequence of whole frames")
				}
				fl = append(fl, wr.Frames...)
			}
			for k := 1; k < len(fl); k++ {
				a, b := fl[k-1], fl[k]
				if b.Sid < a.Sid || (b.Sid == a.Sid && b.Mid < a.Mid) {
					w.direct = append(w.direct, "frame ids go backwards on the wire (single stream)")
				}
				if a.Sid == b.Sid && a.Mid == b.Mid && (a.Kind != b.Kind || a.Done) {
					w.direct = append(w.direct, "two kinds under one id, or a frame after the final frame of an id (single stream)")
				}
			}
			seen := map[string]bool{}
			for _, dm := range w.direct {
				if seen[dm] || !(strings.Contains(dm, "frame") || strings.Contains(dm, "transport")) {
					continue
				}
				seen[dm] = true
				bad++
				c.Violation("stream wire: "+dm, map[string]any{"small": cf.small, "manual": cf.manual, "stimuli": stims, "trace": lines})
			}
			k, _ := json.Marshal(lines)
			c.Eval("sw" + string(k))
		}
	}
	c.Cov["stream_level_wire_runs"] = runs
}

// STREAMDEV: one stimulus list (VERIF_STIMS, JSON) on the single-stream world, every line printed (development aid).
func streamDev(c *vf.Ctx) {
	var stims []stim
	if err := json.Unmarshal([]byte(os.Getenv("VERIF_STIMS")), &stims); err != nil {
		fmt.Println("bad VERIF_STIMS:", err)
		return
	}
	w := newStreamWorld(os.Getenv("VERIF_SMALL") != "0", os.Getenv("VERIF_MANUAL") == "1")
	lines, quiet := w.run(stims)
	w.cleanup()
	for i, l := range lines {
		b, _ := json.Marshal(l)
		fmt.Printf("%2d %s\n", i, b)
	}
	fmt.Println("quiet:", quiet, "direct:", w.direct)
	c.EvalN(1)
}

func init() { All["STREAMDEV"] = streamDev }
