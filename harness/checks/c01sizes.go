package checks

import (
	"bytes"
	"context"
	"fmt"
	"sync"
	"time"

	"storj.io/drpc"
	"storj.io/drpc/drpcconn"
	"storj.io/drpc/drpcmanager"
	"storj.io/drpc/drpcserver"
	"storj.io/drpc/drpcstream"

	"verif/dir"
	"verif/vf"
)

// sizeSweep is the concretiser of the size classes of C01: real message sizes around every threshold of the
// split size and of the writer buffer, each as the *first* message of a fresh stream (the invoke is still corked in
// the writer then) and as a later message, in both directions.  Monitors from the property statement: the
// receiver obtains exactly the submitted bytes, in order; when MsgSend returns nil (automatic flushing) every byte
// of the message has been handed to Transport.Write, without any further call by the sender.
func sizeSweep(c *vf.Ctx) {
	// maxbuf = drpcstream.Options.MaximumBufferSize: messages of that size or more are not kept in the stream's scratch buffer
	type cfgT struct{ wb, split, maxbuf int }
	cfgs := []cfgT{{0, 0, 0}, {64, 16, 0}, {4096, 1000, 0}, {1, 0, 0}, {300, 4096, 0}, {64, 16, 40}, {0, 0, 5000}}
	if !c.Quick() {
		cfgs = append(cfgs, cfgT{128, 64, 0}, cfgT{8192, 0, 0}, cfgT{0, 16, 0}, cfgT{4096, 4096, 0}, cfgT{4096, 1000, 1000}, cfgT{1, 0, 3})
	}
	n := 0
	for _, cf := range cfgs {
		wb, sp, mb := cf.wb, cf.split, cf.maxbuf
		effWB, effSP := wb, sp
		if effWB == 0 {
			effWB = 4096
		}
		if effSP == 0 {
			effSP = 64 * 1024
		}
		sizes := map[int]bool{0: true, 1: true, 2: true}
		around := func(x, d int) {
			for i := x - d; i <= x+d; i++ {
				if i >= 0 {
					sizes[i] = true
				}
			}
		}
		step := 3
		if !c.Quick() {
			step = 60
		}
		around(effSP, 2)
		around(2*effSP, 2)
		around(3*effSP+1, 1)
		around(effWB, step+45) // the frame header and the corked invoke shift the threshold by a few dozen bytes
		around(2*effWB, 8)
		around(effWB/2, 2)
		if mb > 0 {
			around(mb, 3)
		}
		for s := range sizes {
			if s > 300000 {
				delete(sizes, s)
			}
		}
		for size := range sizes {
			for _, first := range []bool{true, false} {
				if !sizeCase(c, wb, sp, mb, size, first) {
					return
				}
				n++
			}
		}
	}
	c.Cov["size_sweep_cases"] = n
}

type sizeHandler struct {
	mu   sync.Mutex
	got  [][]byte
	send [][]byte
	done chan struct{}
}

func (h *sizeHandler) HandleRPC(stream drpc.Stream, rpc string) error {
	enc := &dir.GateEnc{}
	for _, m := range h.send {
		if err := stream.MsgSend(&dir.Msg{Data: m}, enc); err != nil {
			return err
		}
	}
	for {
		var m dir.Msg
		if err := stream.MsgRecv(&m, enc); err != nil {
			break
		}
		h.mu.Lock()
		h.got = append(h.got, m.Data)
		h.mu.Unlock()
	}
	close(h.done)
	return nil
}

func pattern(size, seq int) []byte {
	b := make([]byte, size)
	for i := range b {
		b[i] = byte(i*7 + seq*13 + size)
	}
	return b
}

func sizeCase(c *vf.Ctx, wb, sp, mb, size int, first bool) bool {
	cp, spipe := dir.NewGatedPair("cli", "srv")
	cp.AutoW, cp.AutoR, spipe.AutoW, spipe.AutoR = true, true, true, true
	mopts := drpcmanager.Options{WriterBufferSize: wb, Stream: drpcstream.Options{SplitSize: sp, MaximumBufferSize: mb}}
	var msgs [][]byte
	if !first {
		msgs = append(msgs, pattern(10, 1))
	}
	msgs = append(msgs, pattern(size, 2), pattern(3, 3))
	h := &sizeHandler{done: make(chan struct{}), send: msgs}
	srv := drpcserver.NewWithOptions(h, drpcserver.Options{Manager: mopts})
	ctx, cancel := context.WithCancel(context.Background())
	sdone := make(chan struct{})
	go func() { _ = srv.ServeOne(ctx, spipe); close(sdone) }()
	conn := drpcconn.NewWithOptions(cp, drpcconn.Options{Manager: mopts})
	defer func() {
		_ = conn.Close()
		cancel()
		select {
		case <-sdone:
		case <-time.After(5 * time.Second):
		}
	}()
	enc := &dir.GateEnc{}
	key := fmt.Sprintf("size:%d:%d:%d:%d:%v", wb, sp, mb, size, first)
	c.Eval(key)
	bad := func(what string, extra map[string]any) bool {
		m := map[string]any{"writer_buffer": wb, "split": sp, "maximum_buffer_size": mb, "size": size, "first_message_of_stream": first}
		for k, v := range extra {
			m[k] = v
		}
		c.Violation("size sweep: "+what, m)
		return c.Violations() < 5
	}
	st, err := conn.NewStream(context.Background(), "/size", enc)
	if err != nil {
		return bad("NewStream failed: "+err.Error(), nil)
	}
	for i, m := range msgs {
		before := 0
		for _, w := range cp.Writes() {
			before += len(w.Bytes)
		}
		res := make(chan error, 1)
		go func() { res <- st.MsgSend(&dir.Msg{Data: m}, enc) }()
		select {
		case err := <-res:
			if err != nil {
				return bad("MsgSend failed: "+err.Error(), map[string]any{"message": i})
			}
		case <-time.After(10 * time.Second):
			return bad("MsgSend does not return", map[string]any{"message": i})
		}
		// every byte of the message is in Transport.Write calls made before MsgSend returned
		payload := 0
		for _, w := range cp.Writes() {
			for _, f := range w.Frames {
				if f.Kind == 2 && int(f.Mid) == msgID(first, i) {
					payload += len(f.Data)
				}
			}
			if w.PErr != nil {
				return bad("a transport write is not a sequence of whole frames", nil)
			}
		}
		if payload != len(m) {
			return bad("MsgSend returned nil but the message was not completely handed to the transport", map[string]any{"message": i, "bytes_on_transport": payload, "message_bytes": len(m)})
		}
	}
	if err := st.CloseSend(); err != nil {
		return bad("CloseSend failed: "+err.Error(), nil)
	}
	// the client receives what the handler sent, in order, then end of stream
	for i, m := range msgs {
		var got dir.Msg
		res := make(chan error, 1)
		go func() { res <- st.MsgRecv(&got, enc) }()
		select {
		case err := <-res:
			if err != nil {
				return bad("client receive failed: "+err.Error(), map[string]any{"message": i})
			}
		case <-time.After(10 * time.Second):
			return bad("client receive does not return", map[string]any{"message": i})
		}
		if !bytes.Equal(got.Data, m) {
			return bad("server->client message altered", map[string]any{"message": i, "got_len": len(got.Data)})
		}
	}
	select {
	case <-h.done:
	case <-time.After(10 * time.Second):
		return bad("handler never saw end of stream after a graceful half-close", nil)
	}
	h.mu.Lock()
	defer h.mu.Unlock()
	if len(h.got) != len(msgs) {
		return bad("client->server: number of messages differs", map[string]any{"received": len(h.got), "sent": len(msgs)})
	}
	for i := range msgs {
		if !bytes.Equal(h.got[i], msgs[i]) {
			return bad("client->server message altered", map[string]any{"message": i, "got_len": len(h.got[i])})
		}
	}
	return true
}

// msgID: the invoke is message 1 of the stream, the i-th MsgSend is message i+2
func msgID(first bool, i int) int { return i + 2 }
