package checks

import (
	"encoding/json"
	"errors"
	"fmt"
	"math/rand"
	"os"
	"sort"
	"strings"
	"time"

	"storj.io/drpc/drpcsignal"

	"verif/vf"
)

// behaviour record printed by Signal.tla / Chan.tla at terminal states
type sigBehaviour struct {
	Ops    map[string]string          `json:"ops"`
	Sched  [][]string                 `json:"sched"`
	Res    map[string]json.RawMessage `json:"res"`
	Pcs    map[string]string          `json:"pcs"`
	Closed bool                       `json:"closed"`
	Status int                        `json:"status"`
	Ch     string                     `json:"ch"`
	Buf    int                        `json:"buf"`
}

var (
	errSigA = errors.New("A")
	errSigB = errors.New("B")
)

func errName(e error) string {
	switch e {
	case errSigA:
		return "A"
	case errSigB:
		return "B"
	case nil:
		return "nilerr"
	}
	return "other:" + e.Error()
}

func isClosedNow(ch <-chan struct{}) bool {
	select {
	case <-ch:
		return true
	default:
		return false
	}
}

const sigInvs = "TypeOK NoPanic OneWinner ObserversAgree ClosedAfterVisible ChannelAssigned NotifyAll"
const chanInvs = "TypeOK NoPanic InstalledOnce GetConsistent ClosedIffClose BufBound NoLostWakeup"

func threadSet(n int) string {
	t := []string{}
	for i := 1; i <= n; i++ {
		t = append(t, fmt.Sprintf(`"t%d"`, i))
	}
	return "{" + strings.Join(t, ",") + "}"
}

func sigCfg(n int, ops string, hist bool, emit bool) (string, string, string) {
	name, mod, consts := vf.MCModule("Signal", map[string]string{"Threads": threadSet(n), "OpSet": ops},
		map[string]string{"Hist": strings.ToUpper(fmt.Sprint(hist))})
	cfg := "SPECIFICATION Spec\n" + consts + "INVARIANTS " + sigInvs
	if emit {
		cfg += " EmitTerminal"
	}
	cfg += "\n"
	if !hist {
		cfg += "VIEW view\n"
	}
	return name, mod, cfg
}

func chanCfg(n int, hist bool, emit bool) (string, string, string) {
	T := threadSet(n)
	ops := fmt.Sprintf(`{f \in [%s -> {"Close","Get","Make"}] : Cardinality({t \in %s : f[t] = "Close"}) <= 1} \cup [%s -> {"Make","Send","Recv","Full","Get"}]`, T, T, T)
	name, mod, consts := vf.MCModule("Chan", map[string]string{"Threads": T, "OpSets": ops},
		map[string]string{"Hist": strings.ToUpper(fmt.Sprint(hist)), "Cap": "1"})
	cfg := "SPECIFICATION Spec\n" + consts + "INVARIANTS " + chanInvs
	if emit {
		cfg += " EmitTerminal"
	}
	cfg += "\n"
	if !hist {
		cfg += "VIEW view\n"
	}
	return name, mod, cfg
}

const sigAllOps = `{"SetA","SetB","SetC","Get","Err","IsSet","Signal","Wait"}`

// C19 — one-shot signals are set once and seen consistently by all observers.
func C19(c *vf.Ctx) {
	c.Assume = append(c.Assume,
		"sequentially consistent interleavings at the grain of the drpcdebug.Point labels (one shared access per step); Go memory-model data races on the plain fields are outside the model",
		"Chan: Go channel discipline - Close is called at most once per Chan and is not mixed with Send/Full (a second Close or a Send after Close panics like a raw Go channel would)")
	q := c.Quick()

	// A. exhaustive design checks
	nA := 3
	if !q {
		nA = 4
	}
	runA := func(name, mod, cfg string) {
		res, err := vf.TLC(vf.TLCOpts{Module: name, Cfg: cfg, Extra: map[string]string{name + ".tla": mod}, Timeout: 20 * time.Minute, HeapMB: 8000})
		if err != nil {
			c.Inconclusive("tlc: %v", err)
			return
		}
		if res.Violated != "" {
			// a design-level violation is not a verdict about the code by itself; it is reported as inconclusive
			c.Inconclusive("model %s violates %s (design-level; no real-code reproduction)\n%s", name, res.Violated, res.TraceText)
			return
		}
		if !res.Finished {
			c.Inconclusive("TLC %s did not finish: %s %s", name, res.ErrorText, res.Tail)
			return
		}
		c.AddTLC(res)
		parts, _ := c.Cov["tlc_runs"].([]string)
		c.Cov["tlc_runs"] = append(parts, fmt.Sprintf("%s exhaustive threads=%d: generated=%d distinct=%d depth=%d wall=%.1fs", name, nA, res.Generated, res.Distinct, res.Depth, res.Wall.Seconds()))
	}
	{
		name, mod, cfg := sigCfg(nA, sigAllOps, false, false)
		runA(name, mod, cfg)
		name, mod, cfg = chanCfg(nA, false, false)
		runA(name, mod, cfg)
	}

	// B. behaviours replayed on the real types
	st := vf.NewStepper()
	defer st.Abandon()
	replayed, diverged := 0, 0
	seen := map[string]bool{}
	dup := func(b []byte) bool {
		k := string(b)
		if seen[k] {
			return true
		}
		seen[k] = true
		return false
	}
	handleSig := func(b []byte) {
		if dup(b) {
			return
		}
		var r sigBehaviour
		if err := json.Unmarshal(b, &r); err != nil {
			c.Inconclusive("bad record: %v", err)
			return
		}
		t0 := time.Now()
		ok := c.Violations() >= 5 || replaySignal(c, st, &r, nil)
		if d := time.Since(t0); d > 200*time.Millisecond && os.Getenv("VERIF_DEBUG") != "" {
			fmt.Fprintf(os.Stderr, "slow signal replay %v ok=%v: %s\n", d, ok, b)
		}
		replayed++
		if !ok {
			diverged++
		}
	}
	handleChan := func(b []byte) {
		if dup(b) {
			return
		}
		var r sigBehaviour
		if err := json.Unmarshal(b, &r); err != nil {
			c.Inconclusive("bad record: %v", err)
			return
		}
		t0 := time.Now()
		ok := c.Violations() >= 5 || replayChan(c, st, &r, nil)
		if d := time.Since(t0); d > 200*time.Millisecond && os.Getenv("VERIF_DEBUG") != "" {
			fmt.Fprintf(os.Stderr, "slow chan replay %v ok=%v: %s\n", d, ok, b)
		}
		replayed++
		if !ok {
			diverged++
		}
	}
	runB := func(name, mod, cfg, sim string, depth int, h func([]byte), workers int) {
		res, err := vf.TLC(vf.TLCOpts{Module: name, Cfg: cfg, Extra: map[string]string{name + ".tla": mod}, Timeout: 20 * time.Minute,
			HeapMB: 8000, Simulate: sim, Depth: depth, Seed: c.Seed, OnLine: h, Workers: workers})
		if err != nil {
			c.Inconclusive("tlc: %v", err)
			return
		}
		if !res.Finished {
			c.Inconclusive("TLC %s (behaviours) did not finish: %s %s %s", name, res.Violated, res.ErrorText, res.Tail)
			return
		}
		c.AddTLC(res)
		parts, _ := c.Cov["tlc_runs"].([]string)
		c.Cov["tlc_runs"] = append(parts, fmt.Sprintf("%s behaviours sim=%q: generated=%d distinct=%d records=%d wall=%.1fs", name, sim, res.Generated, res.Distinct, res.NRecords, res.Wall.Seconds()))
	}
	// every behaviour of the 2-thread configurations
	{
		name, mod, cfg := sigCfg(2, sigAllOps, true, true)
		runB(name, mod, cfg, "", 0, handleSig, 4)
		name, mod, cfg = chanCfg(2, true, true)
		runB(name, mod, cfg, "", 0, handleChan, 4)
	}
	// seeded sample of the 3- and 4-thread ones
	nsim := 400 // per TLC worker (4 workers)
	if !q {
		nsim = 3000
	}
	for _, n := range []int{3, 4} {
		name, mod, cfg := sigCfg(n, sigAllOps, true, true)
		runB(name, mod, cfg, fmt.Sprintf("num=%d", nsim), 60, handleSig, 4)
		name, mod, cfg = chanCfg(n, true, true)
		runB(name, mod, cfg, fmt.Sprintf("num=%d", nsim), 60, handleChan, 4)
	}
	// C. schedule exploration on the real step structure (no model labels): monitors only.  This is
	// what still decides the property when a change to the code alters the step structure so that
	// the model's schedules can no longer be imposed exactly.
	rng := rand.New(rand.NewSource(c.Seed))
	perCombo := 12
	if !q {
		perCombo = 300
	}
	sigOps := []string{"SetA", "SetB", "SetC", "Get", "Err", "IsSet", "Signal", "Wait"}
	chanA := []string{"Close", "Get", "Make"}
	chanB := []string{"Make", "Send", "Recv", "Full", "Get"}
	freeRuns := 0
	combos := func(ops []string, n int, maxClose int, fn func(map[string]string)) {
		idx := make([]int, n)
		for {
			m := map[string]string{}
			nc := 0
			for i := 0; i < n; i++ {
				m[fmt.Sprintf("t%d", i+1)] = ops[idx[i]]
				if ops[idx[i]] == "Close" {
					nc++
				}
			}
			if nc <= maxClose {
				fn(m)
			}
			k := 0
			for k < n {
				idx[k]++
				if idx[k] < len(ops) {
					break
				}
				idx[k] = 0
				k++
			}
			if k == n {
				return
			}
		}
	}
	for _, n := range []int{2, 3} {
		per := perCombo
		if n == 3 {
			per = perCombo / 4
		}
		combos(sigOps, n, 0, func(m map[string]string) {
			for k := 0; k < per && c.Violations() < 5; k++ {
				replaySignal(c, st, &sigBehaviour{Ops: m}, rng)
				freeRuns++
			}
		})
		combos(chanA, n, 1, func(m map[string]string) {
			for k := 0; k < per && c.Violations() < 5; k++ {
				replayChan(c, st, &sigBehaviour{Ops: m}, rng)
				freeRuns++
			}
		})
		combos(chanB, n, 0, func(m map[string]string) {
			for k := 0; k < per && c.Violations() < 5; k++ {
				replayChan(c, st, &sigBehaviour{Ops: m}, rng)
				freeRuns++
			}
		})
	}
	c.EvalN(int64(freeRuns))
	c.Cov["free_schedule_runs"] = freeRuns
	c.TraceValidated(int64(replayed))
	c.Cov["behaviours_replayed"] = replayed
	c.Cov["behaviours_with_label_divergence"] = diverged
	c.Cov["rule"] = "TLC enumerates every interleaving of Signal.tla / Chan.tla at single-access grain (exhaustive invariants for 3 (quick) / 4 (thorough) threads over all operation assignments); every behaviour of the 2-thread configurations and a seeded simulation sample of the 3- and 4-thread ones is emitted with its schedule and results and is replayed step by step on the real drpcsignal types through the drpcdebug.Point hooks, comparing the label reached after every step, every return value, channel closedness, panics and blocked goroutines. A behaviour is distinct by (operation assignment, schedule); all are non-trivial."
	c.Cov["exhaustive"] = false
	if diverged > 0 {
		c.Warn("%d behaviours could not be followed label by label (the code no longer has the step structure of the model); they were judged by the property monitors only", diverged)
	}
}

// replaySignal imposes one TLC behaviour on a real Signal. It returns false when the labels
// reached by the real code differ from the model's (conformance divergence).
func replaySignal(c *vf.Ctx, st *vf.Stepper, r *sigBehaviour, free *rand.Rand) bool {
	var s drpcsignal.Signal
	names := make([]string, 0, len(r.Ops))
	for t := range r.Ops {
		names = append(names, t)
	}
	sort.Strings(names)
	if free == nil {
		c.Eval(fmt.Sprintf("sig:%v:%v", r.Ops, r.Sched))
	}

	type tstate struct {
		ev   vf.Event
		done bool
	}
	state := map[string]*tstate{}
	chans := map[string]chan struct{}{}
	armed := func(l string) bool { return strings.HasPrefix(l, "signal.") }
	viol := func(sig string, extra map[string]any) {
		m := map[string]any{"object": "Signal", "ops": r.Ops, "schedule": r.Sched, "model_results": r.Res}
		for k, v := range extra {
			m[k] = v
		}
		c.Violation("Signal: "+sig, m)
	}
	for _, t := range names {
		t := t
		op := r.Ops[t]
		ev := st.Start(t, armed, func() any {
			switch op {
			case "SetA":
				return s.Set(errSigA)
			case "SetB":
				return s.Set(errSigB)
			case "SetC":
				return s.Set(nil)
			case "Get":
				e, ok := s.Get()
				return []any{errName(e), ok}
			case "Err":
				return errName(s.Err())
			case "IsSet":
				return s.IsSet()
			case "Signal":
				ch := s.Signal()
				return ch
			case "Wait":
				s.Wait()
				e, ok := s.Get()
				return []any{errName(e), ok}
			}
			return nil
		})
		state[t] = &tstate{ev: ev}
	}
	match := true
	// expected label of the next step of each thread
	nextLabel := func(from int, t string) (string, bool) {
		for i := from; i < len(r.Sched); i++ {
			if r.Sched[i][0] == t {
				return r.Sched[i][1], true
			}
		}
		return "", false
	}
	results := map[string]any{}
	record := func(t string, ev vf.Event) {
		state[t].ev = ev
		switch ev.Kind {
		case "ret":
			state[t].done = true
			results[t] = ev.Res
			if ch, ok := ev.Res.(chan struct{}); ok {
				chans[t] = ch
			}
		case "panic":
			state[t].done = true
			viol("panic", map[string]any{"thread": t, "panic": ev.Res})
		}
	}
	// the first label of every thread
	for _, t := range names {
		if l, ok := nextLabel(0, t); ok && state[t].ev.Kind == "point" && state[t].ev.Label != l {
			match = false
		}
	}
	probe := func(step int) {
		// closed only after the value is visible: if any handed-out channel is closed, Get must report set
		for _, ch := range chans {
			if ch != nil && isClosedNow(ch) {
				if _, ok := s.Get(); !ok {
					viol("channel closed before the value is visible", map[string]any{"step": step})
				}
			}
		}
	}
	for i := 0; ; i++ {
		if free != nil {
			// free exploration: the schedule is drawn here, over whatever points the real code has
			for _, u := range names {
				if !state[u].done && state[u].ev.Kind == "blocked" {
					record(u, st.Poll(u))
				}
			}
			parked := []string{}
			for _, u := range names {
				if !state[u].done && state[u].ev.Kind == "point" {
					parked = append(parked, u)
				}
			}
			if len(parked) == 0 || i > 400 {
				break
			}
			u := parked[free.Intn(len(parked))]
			r.Sched = append(r.Sched, []string{u, state[u].ev.Label})
			record(u, st.Step(u))
			probe(i)
			continue
		}
		if i >= len(r.Sched) {
			break
		}
		e := r.Sched[i]
		t, label := e[0], e[1]
		ts := state[t]
		if ts == nil || ts.done {
			match = false
			continue
		}
		var ev vf.Event
		if label == "recv" {
			// natural block inside Wait: the model says the channel is closed now, so the thread gets on by itself
			if ts.ev.Kind == "point" && ts.ev.Label == "signal.get.load" {
				continue // it never blocked: the channel was already closed when it got there
			}
			ev = st.Poll(t)
		} else {
			if ts.ev.Kind != "point" {
				match = false
				if ts.ev.Kind == "blocked" {
					ev = st.Poll(t)
					record(t, ev)
				}
				continue
			}
			if ts.ev.Label != label {
				match = false
			}
			ev = st.Step(t)
		}
		record(t, ev)
		// where must the thread be now?
		if nl, more := nextLabel(i+1, t); more {
			switch {
			case nl == "recv":
				if ev.Kind != "blocked" && !(ev.Kind == "point" && ev.Label == "signal.get.load") {
					match = false
				}
			case ev.Kind != "point" || ev.Label != nl:
				if match && ev.Kind == "blocked" {
					viol("goroutine blocked where the model proceeds", map[string]any{"thread": t, "step": i, "expected": nl, "where": ev.Where})
				}
				match = false
			}
		} else {
			// no further step: returned, or legitimately blocked in recv
			if r.Pcs[t] == "ret" && ev.Kind != "ret" {
				if match && (ev.Kind == "blocked" || ev.Kind == "timeout") {
					viol("operation does not return", map[string]any{"thread": t, "step": i, "state": ev.String()})
				}
				match = false
			}
			if r.Pcs[t] == "recv" && ev.Kind != "blocked" {
				match = false
			}
		}
		probe(i)
	}
	// finish whatever is still going (only when diverged, or waiters with no setter)
	anySet := false
	for _, op := range r.Ops {
		if strings.HasPrefix(op, "Set") {
			anySet = true
		}
	}
	waitersBlocked := 0
	for _, t := range names {
		if !state[t].done && state[t].ev.Kind == "blocked" {
			waitersBlocked++
		}
	}
	if free != nil {
		match = false // nothing to compare with; monitors only
	}
	if match && anySet && waitersBlocked > 0 {
		viol("lost wake-up: waiter still blocked after a Set completed", nil)
	}
	if match {
		// compare results with the model's
		for _, t := range names {
			if r.Pcs[t] != "ret" {
				continue
			}
			want := string(r.Res[t])
			got := results[t]
			var gs string
			switch v := got.(type) {
			case chan struct{}:
				if v == nil {
					gs = `"nil"`
				} else {
					gs = "chan"
				}
				if want == `"fresh"` || want == `"closed"` {
					want = "chan"
				}
			default:
				b, _ := json.Marshal(v)
				gs = string(b)
			}
			if want == `["none",false]` {
				want = `["nilerr",false]` // Get on an unset signal returns (nil,false)
			}
			if want == `"none"` && r.Ops[t] == "Err" {
				want = `"nilerr"`
			}
			if gs != want {
				viol(fmt.Sprintf("%s returned %s, the model demands %s", r.Ops[t], gs, want), map[string]any{"thread": t})
			}
		}
	}
	// property monitors on the real results, whatever the labels did
	winners, setters := []string{}, 0
	for _, t := range names {
		if strings.HasPrefix(r.Ops[t], "Set") && state[t].done {
			setters++
			if b, ok := results[t].(bool); ok && b {
				winners = append(winners, t)
			}
		}
	}
	// let everything finish before judging the final state
	for guard := 0; guard < 200; guard++ {
		busy := false
		for _, t := range names {
			ts := state[t]
			if ts.done {
				continue
			}
			busy = true
			switch ts.ev.Kind {
			case "point":
				record(t, st.Step(t))
			case "blocked":
				if !anySet {
					s.Set(errSigA) // release waiters of a signal nobody sets (director's own call)
					anySet = true
				}
				record(t, st.Poll(t))
			default:
				ts.done = true
			}
		}
		if !busy {
			break
		}
	}
	winners = winners[:0]
	for _, t := range names {
		if strings.HasPrefix(r.Ops[t], "Set") {
			if b, ok := results[t].(bool); ok && b {
				winners = append(winners, t)
			}
		}
	}
	if setters > 0 && len(winners) != 1 {
		viol(fmt.Sprintf("%d Set calls returned true", len(winners)), map[string]any{"results": fmt.Sprint(results)})
	}
	if len(winners) == 1 {
		we := map[string]string{"SetA": "A", "SetB": "B", "SetC": "nilerr"}[r.Ops[winners[0]]]
		if e, ok := s.Get(); !ok || errName(e) != we {
			viol("final Get does not report the winner's error", map[string]any{"winner": winners[0], "got": errName(e)})
		}
		for _, t := range names {
			if v, ok := results[t].([]any); ok && len(v) == 2 {
				if set, _ := v[1].(bool); set && v[0] != we {
					viol("observer saw an error that is not the winner's", map[string]any{"thread": t, "saw": v[0], "winner": we})
				}
				if r.Ops[t] == "Wait" {
					if set, _ := v[1].(bool); !set {
						viol("woken waiter does not see the value", map[string]any{"thread": t})
					}
				}
			}
		}
	}
	var first chan struct{}
	for t, ch := range chans {
		if ch == nil {
			viol("Signal() returned a nil channel", map[string]any{"thread": t})
			continue
		}
		if first == nil {
			first = ch
		} else if first != ch {
			viol("Signal() returned different channels", nil)
		}
		if isClosedNow(ch) != (setters > 0 || anySet) {
			viol("handed-out channel closedness wrong at the end", map[string]any{"thread": t, "closed": isClosedNow(ch)})
		}
	}
	if len(r.Sched) > 10 && free == nil {
		c.Sample(map[string]any{"object": "Signal", "ops": r.Ops, "schedule": r.Sched, "results": r.Res})
	}
	return match || free != nil
}

// replayChan imposes one TLC behaviour on a real Chan.
func replayChan(c *vf.Ctx, st *vf.Stepper, r *sigBehaviour, free *rand.Rand) bool {
	var ch drpcsignal.Chan
	names := make([]string, 0, len(r.Ops))
	for t := range r.Ops {
		names = append(names, t)
	}
	sort.Strings(names)
	if free == nil {
		c.Eval(fmt.Sprintf("chan:%v:%v", r.Ops, r.Sched))
	}
	type tstate struct {
		ev   vf.Event
		done bool
	}
	state := map[string]*tstate{}
	results := map[string]any{}
	got := map[string]chan struct{}{}
	armed := func(l string) bool { return strings.HasPrefix(l, "chan.") }
	viol := func(sig string, extra map[string]any) {
		m := map[string]any{"object": "Chan", "ops": r.Ops, "schedule": r.Sched, "model_results": r.Res}
		for k, v := range extra {
			m[k] = v
		}
		c.Violation("Chan: "+sig, m)
	}
	for _, t := range names {
		op := r.Ops[t]
		ev := st.Start(t, armed, func() any {
			switch op {
			case "Close":
				ch.Close()
				return "ok"
			case "Make":
				ch.Make(1)
				return "ok"
			case "Get":
				return ch.Get()
			case "Send":
				ch.Send()
				return "ok"
			case "Recv":
				ch.Recv()
				return "ok"
			case "Full":
				return ch.Full()
			}
			return nil
		})
		state[t] = &tstate{ev: ev}
	}
	record := func(t string, ev vf.Event) {
		state[t].ev = ev
		switch ev.Kind {
		case "ret":
			state[t].done = true
			results[t] = ev.Res
			if c2, ok := ev.Res.(chan struct{}); ok {
				got[t] = c2
			}
		case "panic":
			state[t].done = true
			viol("panic", map[string]any{"thread": t, "panic": ev.Res})
		}
	}
	match := true
	nextLabel := func(from int, t string) (string, bool) {
		for i := from; i < len(r.Sched); i++ {
			e := r.Sched[i]
			if e[0] == t {
				return e[1], true
			}
			if len(e) == 3 && e[1] == "rendezvous" && e[2] == t {
				return "chan.recv.op", true
			}
		}
		return "", false
	}
	expect := func(i int, t string, ev vf.Event) {
		if nl, more := nextLabel(i+1, t); more {
			if nl == "rendezvous" {
				nl = "chan.send.op"
			}
			if ev.Kind != "point" || ev.Label != nl {
				if match && ev.Kind == "blocked" {
					viol("goroutine blocked where the model proceeds", map[string]any{"thread": t, "step": i, "expected": nl, "where": ev.Where})
				}
				match = false
			}
		} else if r.Pcs[t] == "ret" && ev.Kind != "ret" {
			if match && (ev.Kind == "blocked" || ev.Kind == "timeout") {
				viol("operation does not return", map[string]any{"thread": t, "step": i, "state": ev.String()})
			}
			match = false
		}
	}
	closedAfterClose := func() {
		// once Close has returned, the channel Get hands out must be closed (director's own call)
		for u, op := range r.Ops {
			if op == "Close" && state[u].done {
				if !isClosedNow(ch.Get()) {
					viol("Get() channel not closed after Close returned", nil)
				}
			}
		}
	}
	for i := 0; ; i++ {
		if free != nil {
			for _, u := range names {
				if !state[u].done && state[u].ev.Kind == "blocked" {
					record(u, st.Poll(u))
				}
			}
			parked := []string{}
			for _, u := range names {
				if !state[u].done && state[u].ev.Kind == "point" {
					parked = append(parked, u)
				}
			}
			if len(parked) == 0 || i > 400 {
				break
			}
			u := parked[free.Intn(len(parked))]
			r.Sched = append(r.Sched, []string{u, state[u].ev.Label})
			record(u, st.Step(u))
			closedAfterClose()
			continue
		}
		if i >= len(r.Sched) {
			break
		}
		e := r.Sched[i]
		if len(e) == 3 && e[1] == "rendezvous" {
			s, rc := e[0], e[2]
			if state[s].done || state[rc].done || state[s].ev.Kind != "point" || state[rc].ev.Kind != "point" {
				match = false
				continue
			}
			ev := st.Step(s) // the sender parks in the channel send
			if ev.Kind != "blocked" {
				match = false
			}
			record(s, ev)
			ev = st.Step(rc)
			record(rc, ev)
			expect(i, rc, ev)
			if state[s].ev.Kind == "blocked" {
				ev = st.Poll(s)
				record(s, ev)
				expect(i, s, ev)
			}
			continue
		}
		t, label := e[0], e[1]
		ts := state[t]
		if ts.done || ts.ev.Kind != "point" {
			match = false
			continue
		}
		if ts.ev.Label != label {
			match = false
		}
		ev := st.Step(t)
		record(t, ev)
		expect(i, t, ev)
		closedAfterClose()
	}
	if free != nil {
		match = false
	}
	if match {
		for _, t := range names {
			if r.Pcs[t] != "ret" {
				if state[t].done {
					viol("operation returned although the model says it blocks", map[string]any{"thread": t})
				}
				continue
			}
			want := string(r.Res[t])
			var gs string
			switch v := results[t].(type) {
			case chan struct{}:
				switch {
				case v == nil:
					gs = `"nil"`
				case cap(v) == 1:
					gs = `"made"`
				default:
					gs = `"unbuffered"`
				}
				if want == `"fresh"` || want == `"closed"` {
					want = `"unbuffered"`
				}
			default:
				b, _ := json.Marshal(v)
				gs = string(b)
			}
			if gs != want {
				viol(fmt.Sprintf("%s returned %s, the model demands %s", r.Ops[t], gs, want), map[string]any{"thread": t})
			}
		}
	}
	// monitors
	closeOps := 0
	for _, t := range names {
		if r.Ops[t] == "Close" {
			closeOps++
		}
	}
	// let everything finish: release parked threads and feed/drain the channel (director's own calls)
	for guard := 0; guard < 400; guard++ {
		busy := false
		for _, t := range names {
			ts := state[t]
			if ts.done {
				continue
			}
			busy = true
			switch ts.ev.Kind {
			case "point":
				record(t, st.Step(t))
			case "blocked":
				cc := ch.Get()
				if r.Ops[t] == "Send" {
					select {
					case <-cc:
					default:
					}
				} else if r.Ops[t] == "Recv" && closeOps == 0 {
					select {
					case cc <- struct{}{}:
					default:
					}
				}
				time.Sleep(50 * time.Microsecond)
				record(t, st.Poll(t))
			default:
				ts.done = true
			}
		}
		if !busy {
			break
		}
	}
	var first chan struct{}
	for t, g := range got {
		if g == nil {
			viol("Get() returned a nil channel", map[string]any{"thread": t})
			continue
		}
		if first == nil {
			first = g
		} else if first != g {
			viol("Get() returned different channels", nil)
		}
		if isClosedNow(g) != (closeOps > 0) && (closeOps > 0 || cap(g) == 0 || true) {
			if closeOps > 0 {
				viol("Get() channel never closes although Close ran", map[string]any{"thread": t})
			} else if cap(g) == 0 {
				// an open unbuffered channel can never be "received from" by isClosedNow; closed => Close must have run
				viol("Get() channel closed although Close never ran", map[string]any{"thread": t})
			}
		}
	}
	if len(r.Sched) > 8 && free == nil {
		c.Sample(map[string]any{"object": "Chan", "ops": r.Ops, "schedule": r.Sched, "results": r.Res})
	}
	return match || free != nil
}

func init() {
	All["C19"] = C19
	SpecModules = append(SpecModules, "Signal", "Chan")
}
