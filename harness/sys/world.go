// Package sys builds the connection world of System.tla out of the real packages: a drpcconn.Conn
// and a drpcserver.Server (ServeOne) with a scripted handler, joined by a gated transport pair, and
// records (stimulus, observation-at-quiescence) traces.
package sys

import (
	"bytes"
	"context"
	"errors"
	"fmt"
	"io"
	"strconv"
	"strings"
	"sync"
	"sync/atomic"

	"github.com/zeebo/errs"
	"storj.io/drpc"
	"storj.io/drpc/drpcconn"
	"storj.io/drpc/drpcerr"
	"storj.io/drpc/drpcmanager"
	"storj.io/drpc/drpcmetadata"
	"storj.io/drpc/drpcserver"
	"storj.io/drpc/drpcstream"

	"verif/dir"
	"verif/vf"
)

type heldBytes struct {
	got, want []byte
	r         int
}

// MaxRPC is the bound on client RPCs per run (constant MaxRPC of the trace cfg).
const MaxRPC = 6

// Stim is one stimulus (same JSON shape as the history records of System.tla).
type Stim struct {
	K   string `json:"k"`
	T   string `json:"t,omitempty"`
	Op  string `json:"op,omitempty"`
	Md  string `json:"md,omitempty"`
	R   int    `json:"r,omitempty"`
	A   string `json:"a,omitempty"`
	E   string `json:"e,omitempty"`
	How string `json:"how,omitempty"`
}

// Obs is the projection of the real state onto the observables of System.tla.
type Obs struct {
	App    map[string]string     `json:"app"`
	Lib    map[string]string     `json:"lib"`
	Closed bool                  `json:"closed"`
	TClose map[string]int        `json:"tclose"`
	NewW   map[string][][]string `json:"neww"`
	HMeta  []string              `json:"hmeta"`
	HCtx   bool                  `json:"hctx"`
	Unb    bool                  `json:"unb"`
}

// Line is one trace line. Where (innermost drpc frame of every parked goroutine) is diagnostic only:
// it is not part of the observation the specification is compared with.
type Line struct {
	Stim  Stim              `json:"stim"`
	Obs   Obs               `json:"obs"`
	Where map[string]string `json:"-"`
}

// Config selects the variant of the world.
type Config struct {
	Small, Manual, Soft bool
	GateU               bool
	Points              []string // armed model points: "conn.created", "manager.newstream.beforeset"
	Threads             []string // client threads
}

type rpcState struct {
	kind   string
	ctx    context.Context
	cancel context.CancelFunc
	stream drpc.Stream
}

// World is one run.
type World struct {
	Cfg    Config
	D      *dir.Director
	CP, SP *dir.GatedPipe
	Enc    *dir.GateEnc
	Conn   *drpcconn.Conn
	H      *Handler

	rpcs   []*rpcState
	scan   context.CancelFunc
	nst    int
	wseen  map[string]int
	units  map[string][]int // per receiving endpoint: sizes of completed writes awaiting delivery; -1 = EOF
	eofQ   map[string]bool
	Direct []string // direct monitor failures
	mu     sync.Mutex

	Codes      map[string]uint64 // thread -> drpcerr.Code of the last error a call returned
	EGate      dir.Gate
	svGoidSeen int64
	svSeenA    atomic.Int64
	held       []heldBytes // byte slices RawRecv returned to the application, with their content at that time
	LastWhere  map[string]string
	Lines      []Line
	Quiet      bool
	scancelled bool
}

// Pad makes a payload that carries tag in every 16-byte frame.
func Pad(tag string, frames int) []byte {
	b := []byte(tag)
	for len(b) < 16 {
		b = append(b, '_')
	}
	out := []byte{}
	for i := 0; i < frames; i++ {
		out = append(out, b...)
	}
	return out
}

// TagOf recovers the tag from a payload.
func TagOf(b []byte) string {
	if len(b) > 16 {
		b = b[:16]
	}
	return strings.TrimRight(string(b), "_")
}

// ErrClass maps an error of the connection level to the result classes of System.tla.
func ErrClass(err error) string {
	if err == nil {
		return "nil"
	}
	// errs.Combine(first, later...): the caller sees the first error
	var grp interface{ Ungroup() []error }
	if errors.As(err, &grp) && len(grp.Ungroup()) > 0 && grp.Ungroup()[0] != err {
		return ErrClass(grp.Ungroup()[0])
	}
	m := err.Error()
	if i := strings.Index(m, "manager closed: "); i >= 0 {
		inner := m[i+len("manager closed: "):]
		switch {
		case strings.Contains(inner, "Close called"):
			return "mgr:close"
		case errors.Is(err, dir.ErrTransport) || strings.Contains(inner, "injected transport error"):
			return "mgr:terr"
		case errors.Is(err, io.ErrClosedPipe) || strings.Contains(inner, "closed pipe"):
			return "mgr:closed"
		case errors.Is(err, io.EOF) || strings.HasSuffix(inner, "EOF"):
			return "mgr:EOF"
		case strings.Contains(inner, "invoke on existing stream"):
			return "mgr:protoInvoke"
		case strings.Contains(inner, "unknown packet kind"):
			return "mgr:internalKind"
		}
		return "mgr:other:" + inner
	}
	switch {
	case errors.Is(err, dir.ErrDecode):
		return "decodeErr"
	case errors.Is(err, dir.ErrMarshal):
		return "marshalErr"
	case errors.Is(err, io.EOF):
		return "EOF"
	case errors.Is(err, dir.ErrTransport), errors.Is(err, io.ErrClosedPipe):
		return "terr"
	case errors.Is(err, context.Canceled):
		return "Canceled"
	case errors.Is(err, context.DeadlineExceeded):
		return "Deadline"
	}
	switch {
	case strings.Contains(m, "send closed"):
		return "sendClosed"
	case strings.Contains(m, "stream terminated by sending error"):
		return "termError"
	case strings.Contains(m, "stream terminated by sending close"):
		return "termClosed"
	case strings.Contains(m, "stream terminated by both issuing close send"):
		return "termBoth"
	case strings.Contains(m, "remote closed the stream"):
		return "remoteClosed"
	case strings.Contains(m, "invoke on existing stream"):
		return "protoInvoke"
	case strings.Contains(m, "unknown packet kind"):
		return "internalKind"
	}
	return "remote:" + m
}

// Handler is the scripted drpc.Handler: every action is commanded by the director.
type Handler struct {
	w    *World
	cmd  chan string
	mu   sync.Mutex
	last string
	meta map[uint64]string
	cur  drpc.Stream
}

func (h *Handler) next() string { return <-h.cmd }

// HandleRPC runs the commands the director sends.
func (h *Handler) HandleRPC(stream drpc.Stream, rpc string) error {
	sid := stream.(interface{ ID() uint64 }).ID()
	h.mu.Lock()
	h.last = "none"
	h.cur = stream
	if md, ok := drpcmetadata.Get(stream.Context()); ok {
		h.meta[sid] = md["k"]
	} else {
		h.meta[sid] = "nometa"
	}
	h.mu.Unlock()
	set := func(r string) { h.mu.Lock(); h.last = r; h.mu.Unlock() }
	for {
		a := h.next()
		switch {
		case a == "recv":
			var m dir.Msg
			if err := stream.MsgRecv(&m, h.w.Enc); err != nil {
				set(ErrClass(err))
			} else {
				set("msg:" + TagOf(m.Data))
			}
		case strings.HasPrefix(a, "send1:"):
			set(ErrClass(stream.MsgSend(&dir.Msg{Data: Pad(a[6:], 1)}, h.w.Enc)))
		case strings.HasPrefix(a, "send2:"):
			set(ErrClass(stream.MsgSend(&dir.Msg{Data: Pad(a[6:], 2)}, h.w.Enc)))
		case a == "sendbad":
			set(ErrClass(stream.MsgSend(&dir.Msg{Data: Pad("bad"+strconv.FormatUint(sid, 10), 1)}, h.w.Enc)))
		case a == "closesend":
			set(ErrClass(stream.CloseSend()))
		case a == "retnil":
			return nil
		case a == "reterr":
			// code attached under two layers of wrapping
			return fmt.Errorf("%w", errs.Wrap(drpcerr.WithCode(errors.New("e"+strconv.FormatUint(sid, 10)), 4000+sid)))
		case a == "quit":
			return errors.New("quit")
		}
	}
}

func init() {
	dir.Gates = append([][2]string{{"sys.(*Handler).next", "h"}, {"sys.(*gatedErr).Error", "ma"}}, dir.Gates...)
}

// gatedErr is an application error whose Error() method (user code, called by drpcwire.MarshalError inside
// SendError) parks at a gate the first time it is called.
type gatedErr struct {
	msg  string
	g    *dir.Gate
	once sync.Once
}

func (e *gatedErr) Error() string {
	if e.g != nil {
		e.once.Do(e.g.Wait)
	}
	return e.msg
}

// New builds the world and lets it settle.
func New(cfg Config) *World {
	w := &World{Cfg: cfg, D: dir.NewDirector(), Enc: &dir.GateEnc{}, wseen: map[string]int{}, units: map[string][]int{}, eofQ: map[string]bool{}, Codes: map[string]uint64{}}
	w.Enc.ArmU.Store(cfg.GateU)
	w.CP, w.SP = dir.NewGatedPair("cli", "srv")
	size := 4096
	if cfg.Small {
		size = 1
	}
	mopts := drpcmanager.Options{WriterBufferSize: size, SoftCancel: cfg.Soft,
		Stream: drpcstream.Options{SplitSize: 16, ManualFlush: cfg.Manual}}
	w.H = &Handler{w: w, cmd: make(chan string), meta: map[uint64]string{}, last: "none"}
	srv := drpcserver.NewWithOptions(w.H, drpcserver.Options{Manager: mopts})
	sctx, scan := context.WithCancel(context.Background())
	w.scan = scan
	for _, t := range cfg.Threads {
		w.D.Thread(t)
	}
	real := []string{}
	for _, p := range cfg.Points {
		if p == "conn.created" {
			real = append(real, "conn.invoke.created", "conn.newstream.created")
		} else {
			real = append(real, p)
		}
	}
	w.D.LibWho = func(point string) string {
		role := ""
		switch {
		case strings.HasPrefix(point, "manager.stream."):
			role = "ms_"
		case point == "manager.reader.dispatch":
			role = "rd_"
		default:
			return ""
		}
		// the server's manager goroutines are created by the ServeOne goroutine
		sv := w.D.Thread("sv").GoID()
		if sv == 0 {
			sv = w.svSeenA.Load()
		}
		if c := vf.SelfCreator(); c != 0 && c == sv {
			return role + "srv"
		}
		return role + "cli"
	}
	w.D.ArmPoints(real...)
	w.D.Go("sv", func() string { return ErrClass(srv.ServeOne(sctx, w.SP)) })
	w.Conn = drpcconn.NewWithOptions(w.CP, drpcconn.Options{Manager: mopts})
	return w
}

func (w *World) setCode(t string, err error) {
	w.mu.Lock()
	w.Codes[t] = drpcerr.Code(err)
	w.mu.Unlock()
}

// Code returns the drpcerr code of the last error thread t's call returned.
func (w *World) Code(t string) uint64 { w.mu.Lock(); defer w.mu.Unlock(); return w.Codes[t] }

func (w *World) pipe(e string) *dir.GatedPipe {
	if e == "cli" {
		return w.CP
	}
	return w.SP
}
func peer(e string) string {
	if e == "cli" {
		return "srv"
	}
	return "cli"
}

func (w *World) mark() {
	w.nst++
	w.wseen["cli"], w.wseen["srv"] = len(w.CP.Writes()), len(w.SP.Writes())
}

// Apply performs one stimulus if it is applicable in the real state; it returns false otherwise.
func (w *World) Apply(st Stim) bool {
	switch st.K {
	case "start":
		t := w.D.Thread(st.T)
		if t.Busy() || len(w.rpcs) >= MaxRPC {
			return false
		}
		r := len(w.rpcs) + 1
		ctx, cancel := context.WithCancel(context.Background())
		if st.Md != "" && st.Md != "none" {
			ctx = drpcmetadata.Add(ctx, "k", st.Md)
		}
		rs := &rpcState{kind: st.Op, ctx: ctx, cancel: cancel}
		w.rpcs = append(w.rpcs, rs)
		w.mark()
		name := fmt.Sprintf("%d.0", r)
		switch st.Op {
		case "Invoke", "InvokeBad":
			bad := st.Op == "InvokeBad" // the request does not marshal
			w.D.Go(st.T, func() string {
				var out dir.Msg
				err := w.Conn.Invoke(ctx, name, w.Enc, &dir.Msg{Data: Pad(fmt.Sprintf("%d.1", r), 1), Fail: bad}, &out)
				if err != nil {
					w.setCode(st.T, err)
					return ErrClass(err)
				}
				return "msg:" + TagOf(out.Data)
			})
		case "NewStream":
			w.D.Go(st.T, func() string {
				s, err := w.Conn.NewStream(ctx, name, w.Enc)
				if err != nil {
					return ErrClass(err)
				}
				w.mu.Lock()
				rs.stream = s
				w.mu.Unlock()
				return "stream"
			})
		default:
			return false
		}
		return true
	case "op":
		t := w.D.Thread(st.T)
		if t.Busy() || st.R < 1 || st.R > len(w.rpcs) {
			return false
		}
		rs := w.rpcs[st.R-1]
		w.mu.Lock()
		s := rs.stream
		w.mu.Unlock()
		if rs.kind != "NewStream" || s == nil {
			return false
		}
		w.mark()
		tag := fmt.Sprintf("%d.%d", st.R, w.nst)
		switch st.Op {
		case "Send1":
			w.D.Go(st.T, func() string { return ErrClass(s.MsgSend(&dir.Msg{Data: Pad(tag, 1)}, w.Enc)) })
		case "Send2":
			w.D.Go(st.T, func() string { return ErrClass(s.MsgSend(&dir.Msg{Data: Pad(tag, 2)}, w.Enc)) })
		case "SendG":
			if !w.Cfg.GateU {
				w.nst--
				return false
			}
			w.D.Go(st.T, func() string { return ErrClass(s.MsgSend(&dir.Msg{Data: Pad(tag, 1), Park: true}, w.Enc)) })
		case "SendBad":
			bad := fmt.Sprintf("bad%d", st.R)
			w.D.Go(st.T, func() string { return ErrClass(s.MsgSend(&dir.Msg{Data: Pad(bad, 1)}, w.Enc)) })
		case "Recv":
			w.D.Go(st.T, func() string {
				var m dir.Msg
				if err := s.MsgRecv(&m, w.Enc); err != nil {
					w.setCode(st.T, err)
					return ErrClass(err)
				}
				return "msg:" + TagOf(m.Data)
			})
		case "RecvRaw":
			rr, ok := s.(interface{ RawRecv() ([]byte, error) })
			if !ok {
				w.nst--
				return false
			}
			w.D.Go(st.T, func() string {
				b, err := rr.RawRecv()
				if err != nil {
					w.setCode(st.T, err)
					return ErrClass(err)
				}
				// the caller keeps what it was given: the bytes must stay what they were
				w.mu.Lock()
				w.held = append(w.held, heldBytes{got: b, want: append([]byte(nil), b...), r: st.R})
				w.mu.Unlock()
				return "msg:" + TagOf(b)
			})
		case "CloseSend":
			w.D.Go(st.T, func() string { return ErrClass(s.CloseSend()) })
		case "Close":
			w.D.Go(st.T, func() string { return ErrClass(s.Close()) })
		case "SendErr":
			se, ok := s.(interface{ SendError(error) error })
			if !ok {
				w.nst--
				return false
			}
			ge := &gatedErr{msg: fmt.Sprintf("ce%d", st.R)}
			if w.Cfg.GateU {
				ge.g = &w.EGate
			}
			w.D.Go(st.T, func() string { return ErrClass(se.SendError(ge)) })
		default:
			w.nst--
			return false
		}
		return true
	case "connclose":
		t := w.D.Thread(st.T)
		if t.Busy() {
			return false
		}
		w.mark()
		w.D.Go(st.T, func() string { return ErrClass(w.Conn.Close()) })
		return true
	case "hstep":
		snap, _ := w.D.Quiesce()
		if wh, ok := snap.Threads["sv"]; !ok || wh.State != "gate:h" {
			return false
		}
		w.mark()
		a := st.A
		if a == "send1" || a == "send2" {
			sid := w.H.cur.(interface{ ID() uint64 }).ID()
			a = fmt.Sprintf("%s:s%d.%d", a, sid, w.nst)
		}
		w.H.cmd <- a
		return true
	case "relw":
		p := w.pipe(st.E)
		if !p.WritePending() {
			return false
		}
		w.mark()
		ws := p.Writes()
		n := len(ws[len(ws)-1].Bytes)
		if st.How == "ok" {
			w.units[peer(st.E)] = append(w.units[peer(st.E)], n)
		}
		return p.ReleaseWrite(st.How == "ok")
	case "deliver":
		p := w.pipe(st.E)
		if !p.ReadPending() || len(w.units[st.E]) == 0 {
			return false
		}
		w.mark()
		n := w.units[st.E][0]
		w.units[st.E] = w.units[st.E][1:]
		if n < 0 {
			return p.ReleaseRead(0, io.EOF)
		}
		return p.ReleaseRead(n, nil)
	case "cancel":
		if st.R < 1 || st.R > len(w.rpcs) || w.rpcs[st.R-1].ctx.Err() != nil {
			return false
		}
		w.mark()
		w.rpcs[st.R-1].cancel()
		return true
	case "cancelsrv":
		if w.scancelled {
			return false
		}
		w.scancelled = true
		w.mark()
		w.scan()
		return true
	case "fault":
		p := w.pipe(st.E)
		if c, _, _, _, _ := p.Stats(); c > 0 || p.Failed() {
			return false
		}
		w.mark()
		p.Fail()
		return true
	case "point":
		if strings.HasPrefix(st.T, "ms_") || strings.HasPrefix(st.T, "rd_") { // a library goroutine parked at an armed point
			if w.Last().Lib[st.T] != "pt" {
				return false
			}
			w.mark()
			return w.D.ReleasePoint(st.T)
		}
		snap, _ := w.D.Quiesce()
		if wh, ok := snap.Threads[st.T]; !ok || wh.State != "gate:gate" {
			return false
		}
		w.mark()
		return w.D.ReleasePoint(st.T)
	case "relm":
		id := w.D.Thread(st.T).GoID()
		if id == 0 || !(w.EGate.Parked(id) || w.Enc.M.Parked(id)) {
			return false
		}
		w.mark() // before the release: what the released goroutine writes belongs to this step
		return w.EGate.ReleaseWho(id) || w.Enc.M.ReleaseWho(id)
	case "relu":
		id := w.D.Thread(st.T).GoID()
		if id == 0 || !w.Enc.U.Parked(id) {
			return false
		}
		w.mark()
		return w.Enc.U.ReleaseWho(id)
	}
	return false
}

func frameStr(f dir.WFrame) string {
	d, c := "-", "-"
	if f.Done {
		d = "d"
	}
	if f.Control {
		c = "c"
	}
	tag := "none"
	switch f.Kind {
	case 1:
		tag = string(f.Data)
	case 2:
		tag = TagOf(f.Data)
	case 3:
		if len(f.Data) >= 8 {
			tag = string(f.Data[8:])
		}
	case 7:
		if md, err := drpcmetadata.Decode(f.Data); err == nil {
			tag = md["k"]
		}
	}
	return fmt.Sprintf("%s/%d/%d%s%s/%s", dir.KindName(f.Kind), f.Sid, f.Mid, d, c, tag)
}

// Observe brings the process to quiescence and projects its state.
func (w *World) Observe() (Obs, bool) {
	snap, ok := w.D.Quiesce()
	w.LastWhere = map[string]string{}
	short := func(f string) string {
		if i := strings.LastIndex(f, "/"); i >= 0 {
			f = f[i+1:]
		}
		return f
	}
	for n, wh := range snap.Threads {
		if wh.State == "blk" {
			w.LastWhere[n] = short(wh.Frame)
		}
	}
	// a transport closed by its endpoint makes the peer's reader see EOF after what was already written
	for _, e := range []string{"cli", "srv"} {
		if c, _, _, _, _ := w.pipe(e).Stats(); c > 0 && !w.eofQ[e] {
			w.eofQ[e] = true
			w.units[peer(e)] = append(w.units[peer(e)], -1)
		}
	}
	o := Obs{App: map[string]string{}, Lib: map[string]string{}, TClose: map[string]int{}, NewW: map[string][][]string{}}
	names := append(append([]string{}, w.Cfg.Threads...), "sv")
	for _, name := range names {
		t := w.D.Thread(name)
		if wh, busy := snap.Threads[name]; busy {
			switch wh.State {
			case "gate:tw":
				o.App[name] = "tw"
			case "gate:um":
				o.App[name] = "um"
			case "gate:ma":
				o.App[name] = "ma"
			case "gate:h":
				w.H.mu.Lock()
				o.App[name] = "h:" + w.H.last
				w.H.mu.Unlock()
			case "gate:gate":
				o.App[name] = "pt"
			default:
				o.App[name] = "blk"
			}
			continue
		}
		if r, has := t.Result(); has {
			if name == "sv" {
				o.App[name] = "done:" + r
			} else {
				o.App[name] = "ret:" + r
			}
		} else {
			o.App[name] = "idle"
		}
	}
	// library goroutines: the server's are created by the ServeOne goroutine
	svGoid := w.D.Thread("sv").GoID()
	o.Lib = map[string]string{"rd_cli": "done", "ms_cli": "done", "rd_srv": "done", "ms_srv": "done"}
	for i := range snap.Lib {
		g := &snap.Lib[i]
		role := ""
		switch {
		case g.Has("drpcmanager.(*Manager).manageReader"):
			role = "rd_"
		case g.Has("drpcmanager.(*Manager).manageStreams"):
			role = "ms_"
		default:
			continue
		}
		ep := "cli"
		if svGoid != 0 && g.Creator == svGoid || g.Creator == w.svGoidSeen {
			ep = "srv"
		}
		st := "blk"
		switch {
		case g.Has("dir.(*GatedPipe).Write"):
			st = "tw"
		case g.Has("dir.(*GatedPipe).Read"):
			st = "tr"
		case g.Has("dir.(*Gate).Wait"):
			st = "pt"
		default:
			w.LastWhere[role+ep] = short(g.Innermost("storj.io/drpc/"))
		}
		o.Lib[role+ep] = st
	}
	if svGoid != 0 {
		w.svSeenA.Store(svGoid)
		w.svGoidSeen = svGoid
	}
	select {
	case <-w.Conn.Closed():
		o.Closed = true
	default:
	}
	for _, e := range []string{"cli", "srv"} {
		c, mw, mr, _, _ := w.pipe(e).Stats()
		o.TClose[e] = c
		if mw > 1 {
			w.Direct = append(w.Direct, "two transport writes in flight on "+e)
		}
		if e == "cli" {
			w.mu.Lock()
			for i := range w.held {
				if h := &w.held[i]; h.want != nil && !bytes.Equal(h.got, h.want) {
					w.Direct = append(w.Direct, fmt.Sprintf("bytes returned by RawRecv to rpc %d changed afterwards (now %q, were %q)", h.r, TagOf(h.got), TagOf(h.want)))
					h.want = nil
				}
			}
			w.mu.Unlock()
		}
		if mr > 1 {
			w.Direct = append(w.Direct, "two transport reads in flight on "+e)
		}
		o.NewW[e] = [][]string{}
		ws := w.pipe(e).Writes()
		for _, wr := range ws[w.wseen[e]:] {
			fs := []string{}
			for _, f := range wr.Frames {
				fs = append(fs, frameStr(f))
			}
			if wr.PErr != nil {
				fs = append(fs, "garbage:"+wr.PErr.Error())
				w.Direct = append(w.Direct, "a transport write is not a sequence of whole frames on "+e)
			}
			o.NewW[e] = append(o.NewW[e], fs)
		}
	}
	o.HMeta = make([]string, MaxRPC)
	w.H.mu.Lock()
	for i := range o.HMeta {
		o.HMeta[i] = "none"
		if v, ok := w.H.meta[uint64(i+1)]; ok {
			o.HMeta[i] = v
		}
	}
	if w.H.cur != nil {
		select {
		case <-w.H.cur.Context().Done():
			o.HCtx = true
		default:
		}
	}
	w.H.mu.Unlock()
	select {
	case <-w.Conn.Unblocked():
		o.Unb = true
	default:
	}
	return o, ok
}

// Begin records the reset line.
func (w *World) Begin() {
	o, ok := w.Observe()
	w.Quiet = ok
	w.Lines = append(w.Lines, Line{Stim: Stim{K: "reset"}, Obs: o, Where: w.LastWhere})
}

// Step applies one stimulus (if applicable) and records the observation; it reports whether it was applied.
func (w *World) Step(st Stim) bool {
	if !w.Quiet || !w.Apply(st) {
		return false
	}
	o, ok := w.Observe()
	w.Quiet = w.Quiet && ok
	w.Lines = append(w.Lines, Line{Stim: st, Obs: o, Where: w.LastWhere})
	return true
}

// Last returns the latest observation.
func (w *World) Last() Obs { return w.Lines[len(w.Lines)-1].Obs }

// FreeThread returns a client thread that is not inside a call ("" if none).
func (w *World) FreeThread() string {
	for _, t := range w.Cfg.Threads {
		if !w.D.Thread(t).Busy() {
			return t
		}
	}
	return ""
}

// NRPC is the number of client RPCs begun.
func (w *World) NRPC() int { return len(w.rpcs) }

// HasStream reports whether RPC r returned a stream handle.
func (w *World) HasStream(r int) bool {
	if r < 1 || r > len(w.rpcs) {
		return false
	}
	w.mu.Lock()
	defer w.mu.Unlock()
	return w.rpcs[r-1].stream != nil
}

// Flow lets the transport move: it completes parked writes and delivers queued units until nothing is
// pending; when the handler is parked at its gate it performs hpolicy's next action ("" = leave it).
// It returns the number of stimuli applied.
func (w *World) Flow(max int, hpolicy func(w *World) string) int {
	n := 0
	for n < max && w.Quiet {
		switch {
		case w.CP.WritePending():
			w.Step(Stim{K: "relw", E: "cli", How: "ok"})
		case w.SP.WritePending():
			w.Step(Stim{K: "relw", E: "srv", How: "ok"})
		case w.SP.ReadPending() && len(w.units["srv"]) > 0:
			w.Step(Stim{K: "deliver", E: "srv"})
		case w.CP.ReadPending() && len(w.units["cli"]) > 0:
			w.Step(Stim{K: "deliver", E: "cli"})
		case w.Last().Lib["rd_srv"] == "pt":
			w.Step(Stim{K: "point", T: "rd_srv"})
		case w.Last().Lib["rd_cli"] == "pt":
			w.Step(Stim{K: "point", T: "rd_cli"})
		default:
			a := ""
			if hpolicy != nil && strings.HasPrefix(w.Last().App["sv"], "h:") {
				a = hpolicy(w)
			}
			if a == "" || !w.Step(Stim{K: "hstep", A: a}) {
				return n
			}
		}
		n++
	}
	return n
}

// Run executes a stimulus list and returns the recorded lines.
func (w *World) Run(stims []Stim) (lines []Line, quiet bool) {
	w.Begin()
	for _, st := range stims {
		w.Step(st)
	}
	return w.Lines, w.Quiet
}

// Cleanup tears the world down so that no goroutine of the run survives. It reports whether it succeeded.
func (w *World) Cleanup() bool {
	w.Enc.ArmU.Store(false)
	w.D.DisarmPoints()
	w.CP.AutoW, w.SP.AutoW = true, true
	for i := 0; i < 100; i++ {
		snap, _ := w.D.Quiesce()
		busy := false
		for _, n := range append(append([]string{}, w.Cfg.Threads...), "sv") {
			if w.D.Thread(n).Busy() {
				busy = true
			}
		}
		if !busy && len(snap.Lib) == 0 {
			return true
		}
		w.Enc.U.ReleaseAll()
		w.Enc.M.ReleaseAll()
		w.EGate.ReleaseAll()
		for _, rs := range w.rpcs {
			rs.cancel()
		}
		w.scan()
		w.CP.Fail()
		w.SP.Fail()
		if wh, ok := snap.Threads["sv"]; ok && wh.State == "gate:h" {
			select {
			case w.H.cmd <- "quit":
			default:
			}
		}
		if i == 3 {
			go w.Conn.Close()
		}
	}
	return false
}

var _ = vf.GoID
