// Command verif runs the checks of /verif against the drpc tree it was built from.
package main

import (
	"flag"
	"fmt"
	"os"

	"verif/checks"
	"verif/vf"
)

func main() {
	if len(os.Args) < 2 {
		usage()
	}
	switch os.Args[1] {
	case "check":
		fs := flag.NewFlagSet("check", flag.ExitOnError)
		tier := fs.String("tier", "", "quick|thorough")
		_ = fs.Parse(os.Args[3:])
		id := os.Args[2]
		fn, ok := checks.All[id]
		if !ok {
			fmt.Fprintf(os.Stderr, "unknown property %s\n", id)
			os.Exit(2)
		}
		c := vf.NewCtx(id, *tier)
		fn(c)
		os.Exit(c.Finish())
	case "sub":
		// internal: sub-process entry points used by some checks
		if len(os.Args) < 3 {
			usage()
		}
		fn, ok := checks.Sub[os.Args[2]]
		if !ok {
			fmt.Fprintf(os.Stderr, "unknown sub command %s\n", os.Args[2])
			os.Exit(2)
		}
		os.Exit(fn(os.Args[3:]))
	case "selftest":
		os.Exit(checks.SelfTest())
	default:
		usage()
	}
}

func usage() {
	fmt.Fprintln(os.Stderr, "usage: verif check <id> [--tier quick|thorough] | verif selftest")
	os.Exit(2)
}
