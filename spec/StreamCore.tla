----------------------------- MODULE StreamCore -----------------------------
(***************************************************************************)
(* The semantics of one drpcstream.Stream (drpcstream/stream.go, pktbuf.go, *)
(* inspectmu.go) and of the drpcwire.Writer it writes through, as pure      *)
(* operators on records, so that the single-stream world (Stream.tla) and   *)
(* the connection world (System.tla) share one text.                        *)
(*                                                                         *)
(* A thread executes one method call; its program counter `pc` names the    *)
(* critical section it is about to execute.  One label = one region of the  *)
(* Go code between two points where the goroutine can block (mutex, cond    *)
(* wait, transport write, the user's Unmarshal).  En(s,th,w) says whether    *)
(* the thread can take its next step, Do(s,th,w,self) returns the new        *)
(* stream, thread and writer records.                                       *)
(*                                                                         *)
(* Parks that the *world* resolves:                                         *)
(*   pc = "tw"  a transport Write is in flight (w.out holds the frames);    *)
(*              the world completes it with TWDone(th, w, "ok"|"err")       *)
(*   pc = "um"  the receiver is inside the user's Unmarshal holding the     *)
(*              packet buffer; the world releases it with UMDone(th)        *)
(***************************************************************************)
EXTENDS Integers, Sequences, FiniteSets, TLC

NONE == "none"
U == "unset"

(* ---- error classes (result values) ------------------------------------ *)
\* "nil" "EOF" "Canceled" "Deadline" "sendClosed" "termError" "termClosed" "termBoth"
\* "remoteClosed" "remote:<tag>" "protoInvoke" "internalKind" "terr" "busy" "true" "false" "msg:<tag>"   (tags are strings)

NewStream(id) ==
    [id   |-> id,
     sig  |-> [send |-> U, recv |-> U, term |-> U, fin |-> U, cancel |-> U],
     pb   |-> [set |-> FALSE, held |-> FALSE, err |-> U, tag |-> NONE],
     lk   |-> [mu |-> NONE, write |-> NONE, read |-> NONE],
     once |-> "fresh", msgid |-> 0, finsent |-> 0]

\* small: the writer buffer is smaller than any frame, so every WriteFrame hits the transport
NewWriter(small) == [buf |-> <<>>, mu |-> NONE, out |-> <<>>, small |-> small]

Idle == [pc |-> "idle", op |-> NONE, arg |-> NONE, res |-> NONE, k |-> 0, cont |-> NONE, fl |-> NONE, aux |-> NONE]

\* op arguments: sends  [kind, nfr, tag]; packets [kind, ctl, tag, foreign]; cancels [err]; SendError [tag]
StartThread(op, arg) == [Idle EXCEPT !.pc =
      CASE op = "MsgSend"  -> "ms.once"
        [] op = "RawWrite" -> "ms.wlock"
        [] op = "RawFlush" -> "fl.wlock"
        [] op \in {"MsgRecv", "RawRecv"} -> "mr.once"
        [] op \in {"CloseSend", "Close", "SendError"} -> "tc.mulock"
        [] op = "SendCancel" -> "sc.try"
        [] op = "Cancel" -> "cn.mulock"
        [] op = "HandlePacket" -> "hp.entry",
      !.op = op, !.arg = arg, !.fl = IF op = "RawFlush" THEN "ret" ELSE NONE]

SetSig(sig, x, e) == IF sig[x] = U THEN [sig EXCEPT ![x] = e] ELSE sig
TermSigs(sig, e) == SetSig(SetSig(SetSig(sig, "send", e), "recv", e), "term", e)
PbClose(pb, e) == IF pb.err = U THEN [set |-> FALSE, held |-> FALSE, err |-> e, tag |-> NONE] ELSE pb
CheckFin(s) == IF s.sig.term # U /\ s.lk.write = NONE /\ s.lk.read = NONE /\ s.sig.fin = U
                 THEN [s EXCEPT !.sig.fin = "nil", !.finsent = s.finsent + 1] ELSE s
\* Writer.Empty(): the atomic flag is raised when a frame enters an empty buffer and lowered only after
\* the transport Write has returned, so a write in flight counts as "not empty"
NonEmpty(w) == w.buf # <<>> \/ w.out # <<>>
\* payload tags the user's Unmarshal rejects
BadTags == {"bad1", "bad2", "bad3", "bad4", "bad5", "bad6"}
IsBad(tag) == tag \in BadTags
CCE(s, e) == IF s.sig.cancel # U THEN s.sig.cancel ELSE e     \* checkCancelError

Frame(s, kind, done, ctl, tag) == [sid |-> s.id, mid |-> s.msgid, kind |-> kind, done |-> done, ctl |-> ctl, tag |-> tag]

R(s, th, w) == [s |-> s, th |-> th, w |-> w]
Goto(th, l) == [th EXCEPT !.pc = l]
Fin(th, r, l) == [th EXCEPT !.pc = l, !.res = r]

\* hand the buffered frames to the transport: the thread parks at "tw" holding the writer mutex
R_tw(th, w, self, cont) == <<[th EXCEPT !.pc = "tw", !.cont = cont], [w EXCEPT !.mu = self, !.out = w.buf, !.buf = <<>>]>>

\* world: complete the transport write of thread th
TWDone(th, w, how) == <<[th EXCEPT !.pc = th.cont, !.cont = NONE, !.aux = how], [w EXCEPT !.mu = NONE, !.out = <<>>]>>
\* world: the user's Unmarshal returns
UMDone(th) == [th EXCEPT !.pc = "mr.done"]
\* world: the user's Error() method (called by MarshalError inside SendError) returns
MADone(th) == [th EXCEPT !.pc = IF th.op = "MsgSend" THEN "ms.chk" ELSE "tc.pkt"]
\* a send whose argument carries gate = TRUE parks inside the user's Marshal (under the stream's write lock)
ParkMarshal(arg) == "gate" \in DOMAIN arg /\ arg.gate
\* SendError evaluates the user's err.Error() after the state transition and before the packet is written
AfterMark(th) == IF th.op = "SendError" /\ th.arg.gate THEN "ma" ELSE "tc.pkt"

TermOps == {"CloseSend", "Close", "SendError"}

(* ---- enabling condition of the next step of a thread -------------------- *)
En(s, th, w) ==
    CASE th.pc = "ms.once"   -> s.once # "running"
      [] th.pc = "ms.wlock"  -> s.lk.write = NONE
      [] th.pc = "ms.wf"     -> w.mu = NONE
      [] th.pc = "fl.wlock"  -> s.lk.write = NONE
      [] th.pc = "fl.flush"  -> ~NonEmpty(w) \/ s.sig.cancel # U \/ s.sig.send # U \/ s.sig.term # U \/ w.mu = NONE
      [] th.pc = "mr.once"   -> s.once # "running"
      [] th.pc = "mr.rlock"  -> s.lk.read = NONE
      [] th.pc = "mr.get"    -> s.pb.set \/ s.pb.err # U
      [] th.pc = "tc.mulock" -> s.lk.mu = NONE
      [] th.pc = "tc.wlock"  -> s.lk.write = NONE
      [] th.pc = "tc.pbclose" -> ~s.pb.held
      [] th.pc = "tc.pkt"    -> w.mu = NONE
      [] th.pc = "tc.flush"  -> w.mu = NONE
      [] th.pc = "sc.pbclose" -> ~s.pb.held
      [] th.pc = "cn.mulock" -> s.lk.mu = NONE
      [] th.pc = "cn.pbclose" -> ~s.pb.held
      [] th.pc = "hp.put1"   -> ~(s.pb.set /\ s.pb.err = U)
      [] th.pc = "hp.put3"   -> ~(s.pb.set \/ s.pb.held)
      [] th.pc = "hp.mulock" -> s.lk.mu = NONE
      [] th.pc = "hp.pbclose" -> ~s.pb.held
      [] th.pc = "hp.pbclose0" -> ~s.pb.held
      [] th.pc \in {"idle", "ret", "tw", "um", "ma"} -> FALSE
      [] OTHER -> TRUE

(* ---- one step ------------------------------------------------------------ *)
Do(s, th, w, self, manual) ==
  CASE
  (* -------- MsgSend / RawWrite -------- *)
     th.pc = "ms.once" -> R([s EXCEPT !.once = "done"], Goto(th, "ms.wlock"), w)
  [] th.pc = "ms.wlock" ->      \* MsgSend calls the user's Marshal right after taking the write lock ("ma" when it parks there)
        R([s EXCEPT !.lk.write = self, !.msgid = s.msgid + 1], [th EXCEPT !.pc = IF th.op = "MsgSend" /\ ParkMarshal(th.arg) THEN "ma" ELSE "ms.chk", !.k = th.arg.nfr], w)
  [] th.pc = "ms.chk" ->
        IF s.sig.send # U THEN R(s, Fin(th, s.sig.send, "ms.wunlock"), w)
        ELSE IF s.sig.term # U THEN R(s, Fin(th, s.sig.term, "ms.wunlock"), w)
        ELSE R(s, Goto(th, "ms.wf"), w)
  [] th.pc = "ms.wf" ->
        LET fr == Frame(s, th.arg.kind, th.k = 1, FALSE, th.arg.tag)
            w2 == [w EXCEPT !.buf = Append(w.buf, fr)]
            th2 == [th EXCEPT !.k = th.k - 1]
        IN IF w.small THEN LET p == R_tw(th2, w2, self, "ms.wfdone") IN R(s, p[1], p[2])
           ELSE R(s, [th2 EXCEPT !.pc = "ms.wfdone", !.aux = "ok"], w2)
  [] th.pc = "ms.wfdone" ->
        IF th.aux = "err" THEN R(s, Fin(th, CCE(s, "terr"), "ms.wunlock"), w)
        ELSE IF th.k = 0
               THEN IF th.op = "MsgSend" /\ ~manual THEN R(s, [th EXCEPT !.pc = "fl.flush", !.fl = "ms.wunlock"], w)
                    ELSE R(s, Fin(th, "nil", "ms.wunlock"), w)
               ELSE R(s, Goto(th, "ms.chk"), w)
  [] th.pc = "ms.wunlock" -> R([s EXCEPT !.lk.write = NONE], Goto(th, "ms.cf"), w)
  [] th.pc = "ms.cf" -> R(CheckFin(s), Goto(th, "ret"), w)
  (* -------- RawFlush (also nested in MsgSend and the first receive) -------- *)
  [] th.pc = "fl.wlock" -> R([s EXCEPT !.lk.write = self], Goto(th, "fl.flush"), w)
  [] th.pc = "fl.flush" ->     \* rawFlushLocked
        LET after == IF th.fl = "ms.wunlock" THEN "ms.wunlock" ELSE "fl.wunlock" IN
        IF ~NonEmpty(w) THEN R(s, Fin(th, "nil", after), w)
        ELSE IF s.sig.cancel # U THEN R(s, Fin(th, s.sig.cancel, after), w)
        ELSE IF s.sig.send # U THEN R(s, Fin(th, s.sig.send, after), w)
        ELSE IF s.sig.term # U THEN R(s, Fin(th, s.sig.term, after), w)
        ELSE IF w.buf = <<>> THEN R(s, Fin(th, CCE(s, "nil"), after), w)   \* Writer.Flush found nothing left to write
        ELSE LET p == R_tw(th, w, self, "fl.fldone") IN R(s, p[1], p[2])
  [] th.pc = "fl.fldone" ->
        LET after == IF th.fl = "ms.wunlock" THEN "ms.wunlock" ELSE "fl.wunlock" IN
        R(s, Fin(th, CCE(s, IF th.aux = "ok" THEN "nil" ELSE "terr"), after), w)   \* checkCancelError also replaces nil
  [] th.pc = "fl.wunlock" -> R([s EXCEPT !.lk.write = NONE], Goto(th, "fl.cf"), w)
  [] th.pc = "fl.cf" -> R(CheckFin(s), Goto(th, th.fl), w)
  (* -------- MsgRecv / RawRecv -------- *)
  [] th.pc = "mr.once" ->
        IF s.once = "fresh" THEN R([s EXCEPT !.once = "running"], [th EXCEPT !.pc = "fl.wlock", !.fl = "mr.once2"], w)
        ELSE R(s, Goto(th, "mr.manual"), w)
  [] th.pc = "mr.once2" ->
        IF th.res # "nil" THEN R([s EXCEPT !.once = "done"], Goto(th, "ret"), w)
        ELSE R([s EXCEPT !.once = "done"], [th EXCEPT !.pc = "mr.manual", !.res = NONE], w)
  [] th.pc = "mr.manual" ->
        IF manual /\ NonEmpty(w) THEN R(s, [th EXCEPT !.pc = "fl.wlock", !.fl = "mr.manual2"], w)
        ELSE R(s, Goto(th, "mr.rlock"), w)
  [] th.pc = "mr.manual2" ->
        IF th.res # "nil" THEN R(s, Goto(th, "ret"), w) ELSE R(s, [th EXCEPT !.pc = "mr.rlock", !.res = NONE], w)
  [] th.pc = "mr.rlock" -> R([s EXCEPT !.lk.read = self], Goto(th, "mr.get"), w)
  [] th.pc = "mr.get" ->
        IF s.pb.err # U THEN R(s, Fin(th, s.pb.err, "mr.runlock"), w)
        ELSE R([s EXCEPT !.pb.held = TRUE], [th EXCEPT !.pc = IF th.op = "MsgRecv" THEN "um" ELSE "mr.done", !.aux = s.pb.tag], w)
  [] th.pc = "mr.done" ->      \* pbuf.Done(); a payload the user's encoding cannot decode (tag "bad...") is consumed all the same
        R([s EXCEPT !.pb = [set |-> FALSE, held |-> FALSE, err |-> s.pb.err, tag |-> NONE]],
          IF th.op = "MsgRecv" /\ IsBad(th.aux) THEN Fin(th, "decodeErr", "mr.runlock")
          ELSE [Fin(th, "msg:" \o th.aux, "mr.runlock") EXCEPT !.k = 1], w)
  [] th.pc = "mr.runlock" -> R([s EXCEPT !.lk.read = NONE], Goto(th, "mr.cf"), w)
  [] th.pc = "mr.cf" -> R(CheckFin(s), Goto(th, "ret"), w)
  (* -------- CloseSend / Close / SendError -------- *)
  [] th.pc = "tc.mulock" ->
        IF (th.op = "CloseSend" /\ s.sig.send # U) \/ s.sig.term # U THEN R(s, Fin(th, "nil", "ret"), w)
        ELSE R([s EXCEPT !.lk.mu = self], Goto(th, "tc.wlock"), w)
  [] th.pc = "tc.wlock" -> R([s EXCEPT !.lk.write = self], Goto(th, "tc.mark"), w)
  [] th.pc = "tc.mark" ->
        LET s1 == IF th.op = "CloseSend" THEN SetSig(s.sig, "send", "sendClosed")
                  ELSE IF th.op = "SendError" THEN SetSig(s.sig, "send", "EOF") ELSE s.sig
            doTerm == th.op # "CloseSend" \/ (s1.send # U /\ s1.recv # U)
            e == IF th.op = "CloseSend" THEN "termBoth" ELSE IF th.op = "Close" THEN "termClosed" ELSE "termError"
        IN IF doTerm THEN R([s EXCEPT !.sig = TermSigs(s1, e)], [th EXCEPT !.pc = "tc.pbclose", !.aux = e], w)
           ELSE R([s EXCEPT !.sig = s1, !.lk.mu = NONE], Goto(th, AfterMark(th)), w)
  [] th.pc = "tc.pbclose" ->
        R(CheckFin([s EXCEPT !.pb = PbClose(s.pb, th.aux), !.lk.mu = NONE]), Goto(th, AfterMark(th)), w)
  [] th.pc = "tc.pkt" ->       \* sendPacketLocked: WriteFrame
        LET kind == CASE th.op = "CloseSend" -> "CloseSend" [] th.op = "Close" -> "Close"
                      [] th.op = "SendError" -> "Error" [] th.op = "SendCancel" -> "Cancel"
            s2 == [s EXCEPT !.msgid = s.msgid + 1]
            fr == Frame(s2, kind, TRUE, th.op = "SendCancel", IF th.op = "SendError" THEN th.arg.tag ELSE NONE)
            w2 == [w EXCEPT !.buf = Append(w.buf, fr)]
        IN IF w.small THEN LET p == R_tw(th, w2, self, "tc.pktw") IN R(s2, p[1], p[2])
           ELSE R(s2, Goto(th, "tc.flush"), w2)
  [] th.pc = "tc.pktw" ->
        IF th.aux = "err" THEN R(s, Fin(th, CCE(s, "terr"), "tc.wunlock"), w) ELSE R(s, Goto(th, "tc.flush"), w)
  [] th.pc = "tc.flush" ->     \* sendPacketLocked: Flush
        IF w.buf = <<>> THEN R(s, Fin(th, CCE(s, "nil"), "tc.wunlock"), w)
        ELSE LET p == R_tw(th, w, self, "tc.fldone") IN R(s, p[1], p[2])
  [] th.pc = "tc.fldone" -> R(s, Fin(th, CCE(s, IF th.aux = "ok" THEN "nil" ELSE "terr"), "tc.wunlock"), w)
  [] th.pc = "tc.wunlock" -> R([s EXCEPT !.lk.write = NONE], Goto(th, "tc.cf"), w)
  [] th.pc = "tc.cf" -> R(CheckFin(s), Goto(th, "ret"), w)
  (* -------- SendCancel -------- *)
  [] th.pc = "sc.try" ->
        IF s.lk.mu # NONE \/ s.lk.write # NONE THEN R(s, Fin(th, "busy", "ret"), w)
        ELSE R([s EXCEPT !.lk.mu = self, !.lk.write = self], Goto(th, "sc.chk"), w)
  [] th.pc = "sc.chk" ->
        IF s.sig.term # U THEN R([s EXCEPT !.lk.mu = NONE], Fin(th, "nil", "tc.wunlock"), w)
        ELSE R([s EXCEPT !.sig = TermSigs(SetSig(s.sig, "send", "EOF"), th.arg.err)], Goto(th, "sc.pbclose"), w)
  [] th.pc = "sc.pbclose" ->
        R(CheckFin([s EXCEPT !.pb = PbClose(s.pb, th.arg.err), !.lk.mu = NONE]), Goto(th, "tc.pkt"), w)
  (* -------- Cancel -------- *)
  [] th.pc = "cn.mulock" ->
        IF s.sig.fin # U THEN R(s, Fin(th, "true", "ret"), w)
        ELSE R([s EXCEPT !.lk.mu = self,
                         !.sig = TermSigs(SetSig(SetSig(s.sig, "cancel", th.arg.err), "send", "EOF"), th.arg.err)],
               Goto(th, "cn.pbclose"), w)
  [] th.pc = "cn.pbclose" ->
        R(CheckFin([s EXCEPT !.pb = PbClose(s.pb, th.arg.err), !.lk.mu = NONE]), Fin(th, "false", "ret"), w)
  (* -------- HandlePacket -------- *)
  [] th.pc = "hp.entry" ->
        IF th.arg.foreign \/ s.sig.term # U THEN R(s, Fin(th, "nil", "ret"), w)
        ELSE IF th.arg.kind = "Message" THEN R(s, Goto(th, "hp.put1"), w)
        ELSE R(s, Goto(th, "hp.mulock"), w)
  [] th.pc = "hp.put1" ->
        IF s.pb.err # U THEN R(s, Fin(th, "nil", "ret"), w)
        ELSE R([s EXCEPT !.pb = [set |-> TRUE, held |-> FALSE, err |-> U, tag |-> th.arg.tag]], Goto(th, "hp.put3"), w)
  [] th.pc = "hp.put3" -> R(s, Fin(th, "nil", "ret"), w)
  [] th.pc = "hp.mulock" ->
        LET k == th.arg.kind
            lock(sig, e, r) == R([s EXCEPT !.lk.mu = self, !.sig = sig], [th EXCEPT !.pc = "hp.pbclose", !.aux = e, !.res = r], w)
        IN CASE k = "Invoke" -> lock(TermSigs(s.sig, "protoInvoke"), "protoInvoke", "protoInvoke")
             [] k = "Error"  -> lock(TermSigs(SetSig(s.sig, "send", "EOF"), ("remote:" \o th.arg.tag)), ("remote:" \o th.arg.tag), "nil")
             [] k = "Cancel" -> lock(TermSigs(SetSig(SetSig(s.sig, "cancel", "Canceled"), "send", "EOF"), "Canceled"), "Canceled", "nil")
             [] k \in {"Close", "CloseSend"} ->
                    R([s EXCEPT !.lk.mu = self, !.sig = SetSig(s.sig, "recv", "EOF")], [th EXCEPT !.pc = "hp.pbclose0", !.res = "nil"], w)
             [] OTHER -> \* unknown kinds (incl. InvokeMetadata on an existing stream)
                    IF th.arg.ctl THEN R(s, Fin(th, "nil", "ret"), w)   \* lock and unlock without effect
                    ELSE lock(TermSigs(s.sig, "internalKind"), "internalKind", "internalKind")
  [] th.pc = "hp.pbclose" ->
        R(CheckFin([s EXCEPT !.pb = PbClose(s.pb, th.aux), !.lk.mu = NONE]), Goto(th, "ret"), w)
  [] th.pc = "hp.pbclose0" ->
        LET pb1 == PbClose(s.pb, "EOF")
            sig1 == IF th.arg.kind = "Close" THEN TermSigs(s.sig, "remoteClosed")
                    ELSE IF s.sig.send # U /\ s.sig.recv # U THEN TermSigs(s.sig, "termBoth") ELSE s.sig
        IN R(CheckFin([s EXCEPT !.pb = pb1, !.sig = sig1, !.lk.mu = NONE]), Goto(th, "ret"), w)

(* ---- derived: the documented state machine ------------------------------ *)
DocState(s) ==
    IF s.sig.fin # U THEN "finished"
    ELSE IF s.sig.cancel # U THEN "cancelled"
    ELSE IF s.sig.term # U THEN "terminated"
    ELSE IF s.sig.send # U /\ s.sig.recv # U THEN "both-closed"
    ELSE IF s.sig.send # U THEN "send-closed"
    ELSE IF s.sig.recv # U THEN "recv-closed"
    ELSE "open"

StreamInv(s) ==
    /\ (s.sig.fin # U => s.sig.term # U)
    /\ (s.sig.term # U => s.sig.send # U /\ s.sig.recv # U)
    /\ (s.sig.cancel # U => s.sig.term # U)
    /\ s.finsent <= 1
    /\ (s.pb.held => s.pb.set)
    /\ (s.pb.err # U => ~s.pb.set)

=============================================================================
