-------------------------------- MODULE Wire --------------------------------
(***************************************************************************)
(* Packet reassembly of drpc (drpcwire/reader.go, README "wire format")    *)
(* and of the released v0.0.17 reader (drpcwire/transport.go of that tag), *)
(* as step functions over a reader state, plus the frame sequences the two *)
(* stream layers can put on the wire.                                      *)
(*                                                                         *)
(*   frame  = [sid, mid, kind, done, control, len]                         *)
(*   packet = [sid, mid, kind, control, len, parts]   parts = indices of   *)
(*            the frames whose payloads, concatenated, are the data        *)
(*                                                                         *)
(* Reference reassembly (current reader, maximum size Max):                *)
(*   - frames of one id are concatenated until a frame with done           *)
(*   - a frame with a higher id discards the unfinished packet             *)
(*   - the id watermark starts at (1,1), is the id of the packet being     *)
(*     assembled, and becomes (stream, message+1) after a done frame; a    *)
(*     frame below the watermark is a protocol error                       *)
(*   - a different kind within a packet is a protocol error                *)
(*   - the control bit of a packet is the OR over its frames               *)
(*   - accumulated data of more than Max bytes is a protocol error         *)
(*     ("data overflow"); an incomplete frame is held back until it is     *)
(*     complete, and once more than Max + overhead bytes of one            *)
(*     incomplete frame are pending it can never fit: "data overflow"      *)
(*   - whatever ends the byte stream (EOF, a transport error, a transport  *)
(*     that makes no progress) is the result after the last whole frame    *)
(*                                                                         *)
(* The result is a function of the frame sequence (i.e. of the bytes)      *)
(* only; how the transport cuts the bytes into reads is not an input of    *)
(* this description, which is exactly property C09.                        *)
(*                                                                         *)
(* v0.0.17 reader: frames with the control bit are skipped one by one      *)
(* before anything else is looked at; the watermark starts at (0,0), only  *)
(* moves when a frame has a higher id, and is not bumped after a done      *)
(* frame; a frame with the id of the watermark continues the packet of     *)
(* the current call (a fresh call has an empty packet of kind 0 and id     *)
(* (0,0)); packets are limited to 4 MiB.                                   *)
(*                                                                         *)
(* Modes (constant Mode):                                                  *)
(*   "reasm"   every frame sequence up to a depth over an alphabet that is *)
(*             relative to the watermark, optionally ended by a hostile    *)
(*             tail and a final transport condition (C09, C13)             *)
(*   "burst"   long regular sequences (buffer management) (C09)            *)
(*   "emitnew" sequences the current stream layer + writer can emit (C18)  *)
(*   "emitold" sequences the v0.0.17 stream layer can emit (C18)           *)
(*   "kinds"   one packet of every kind, with and without the control bit, *)
(*             delivered to a stream in a given state (C18, last clause)   *)
(*   "meta"    call metadata maps over string classes (C18)                *)
(*   "ops"     the packet each stream operation sends (C18)                *)
(* Every state prints one record with the demanded result.                 *)
(***************************************************************************)
EXTENDS Integers, Sequences, FiniteSets, TLC, Json

CONSTANTS
    Mode,
    Cfgs,        \* reasm: set of <<Max, depth, tail depth>>: sequences of <= depth frames, tails after <= tail depth frames
    IdRels,      \* reasm: subset of {"ls","lm","eq","hm","hm2","hs","hs0"}: id of the next frame relative to the watermark
    KindRels,    \* reasm: subset of {"same","diff"}
    Ctls,        \* reasm: subset of BOOLEAN, control bit of the next frame
    Pays,        \* reasm: set of <<a, b>>: payload length a*Max + b
    Fins,        \* reasm: subset of {"eof","ioerr","noprog"}
    BurstCases,  \* burst: set of <<Max, packets, frames per packet, payload length, every n-th packet is a control packet (0 = none)>>
    EmitDepth,   \* emit modes: maximum number of frames
    EmitKinds,   \* emit modes: kinds of ordinary packets
    EmitPays,    \* emit modes: payload lengths
    EmitGaps,    \* emit modes: id increments (stream and message)
    EmitMulti,   \* emit modes: TRUE = packets may have several frames
    EmitStreams, \* emit modes: TRUE = several streams and soft cancels; FALSE = packets of one stream only
    EmitObserved,\* emit modes: {} = enumerate; otherwise a set of frame sequences recorded from the real
                 \* stream layer: only their prefixes are explored (is each a behaviour of the emitter?)
    KindSpace,   \* kinds mode: kinds to enumerate
    MetaClasses, \* meta mode: string classes of keys and values
    MetaMany     \* meta mode: numbers of additional generated entries

VARIABLES frames, rs, cfg, tail, fin, stop, es

vars == <<frames, rs, cfg, tail, fin, stop, es>>

OverLo == 28     \* an incomplete frame of at most Max + OverLo pending bytes is never rejected for its size
OverHi == 31     \* one of more than Max + OverHi pending bytes always is (1 control byte + three 10-byte varints)
OldMax == 4194304
KindCancel == 4

IdLess(a, b) == a[1] < b[1] \/ (a[1] = b[1] /\ a[2] < b[2])
Fid(f) == <<f.sid, f.mid>>

(* ---------------------------------------------------------------------- *)
(* current reader                                                          *)
(* ---------------------------------------------------------------------- *)

InitNew == [inpkt |-> FALSE, pid |-> <<0, 0>>, pkind |-> 0, pctl |-> FALSE, plen |-> 0, parts |-> <<>>,
            wm |-> <<1, 1>>, out |-> <<>>, err |-> "none", why |-> "none"]

FailNew(s, why) == [s EXCEPT !.err = "proto", !.why = why, !.inpkt = FALSE]

\* append the payload of frame i to the packet being assembled
AccumNew(s, f, i, Max) ==
    LET n == s.plen + f.len IN
    IF n > Max THEN FailNew(s, "overflow")
    ELSE IF f.done
      THEN [s EXCEPT !.inpkt = FALSE, !.plen = 0, !.parts = <<>>,
                     !.wm = <<f.sid, f.mid + 1>>,
                     !.out = Append(s.out, [sid |-> s.pid[1], mid |-> s.pid[2], kind |-> s.pkind,
                                            control |-> s.pctl, len |-> n, parts |-> Append(s.parts, i)])]
      ELSE [s EXCEPT !.plen = n, !.parts = Append(s.parts, i)]

StepNew(s, f, i, Max) ==
    IF s.err # "none" THEN s
    ELSE IF IdLess(Fid(f), s.wm) THEN FailNew(s, "mono")
    ELSE IF ~s.inpkt \/ Fid(f) # s.wm
      THEN \* first frame of a packet; an unfinished packet is discarded
           AccumNew([s EXCEPT !.inpkt = TRUE, !.pid = Fid(f), !.pkind = f.kind, !.pctl = f.control,
                              !.plen = 0, !.parts = <<>>, !.wm = Fid(f)], f, i, Max)
    ELSE IF f.kind # s.pkind THEN FailNew(s, "kind")
    ELSE AccumNew([s EXCEPT !.pctl = s.pctl \/ f.control], f, i, Max)

RECURSIVE RunNewFrom(_, _, _, _)
RunNewFrom(s, fs, i, Max) == IF i > Len(fs) THEN s ELSE RunNewFrom(StepNew(s, fs[i], i, Max), fs, i + 1, Max)
ReassembleNew(fs, Max) == RunNewFrom(InitNew, fs, 1, Max)

(* ---------------------------------------------------------------------- *)
(* v0.0.17 reader                                                          *)
(* ---------------------------------------------------------------------- *)

InitOld == [pid |-> <<0, 0>>, pkind |-> 0, plen |-> 0, parts |-> <<>>,
            wm |-> <<0, 0>>, out |-> <<>>, err |-> "none", why |-> "none"]

FailOld(s, why) == [s EXCEPT !.err = "proto", !.why = why]

AccumOld(s, f, i) ==
    LET n == s.plen + f.len IN
    IF n > OldMax THEN FailOld(s, "overflow")
    ELSE IF f.done
      THEN \* the call returns; the next call starts with an empty packet of kind 0
           [s EXCEPT !.pid = <<0, 0>>, !.pkind = 0, !.plen = 0, !.parts = <<>>,
                     !.out = Append(s.out, [sid |-> s.pid[1], mid |-> s.pid[2], kind |-> s.pkind,
                                            control |-> FALSE, len |-> n, parts |-> Append(s.parts, i)])]
      ELSE [s EXCEPT !.plen = n, !.parts = Append(s.parts, i)]

StepOld(s, f, i) ==
    IF s.err # "none" THEN s
    ELSE IF f.control THEN s
    ELSE IF IdLess(Fid(f), s.wm) THEN FailOld(s, "mono")
    ELSE IF IdLess(s.wm, Fid(f))
      THEN AccumOld([s EXCEPT !.wm = Fid(f), !.pid = Fid(f), !.pkind = f.kind, !.plen = 0, !.parts = <<>>], f, i)
    ELSE IF f.kind # s.pkind THEN FailOld(s, "kind")
    ELSE AccumOld(s, f, i)

RECURSIVE RunOldFrom(_, _, _)
RunOldFrom(s, fs, i) == IF i > Len(fs) THEN s ELSE RunOldFrom(StepOld(s, fs[i], i), fs, i + 1)
ReassembleOld(fs) == RunOldFrom(InitOld, fs, 1)

(* ---------------------------------------------------------------------- *)
(* results                                                                 *)
(* ---------------------------------------------------------------------- *)

NoTail == [t |-> "none"]

FinErr(f) == CASE f = "eof" -> "eof" [] f = "ioerr" -> "ioerr" [] f = "noprog" -> "internal"

\* pending bytes of the incomplete frame a "trunc" tail leaves behind (have = -1: the peer never stops sending)
Pending(t) == IF t.have < 0 THEN -1 ELSE IF t.have = 0 THEN t.hpresent ELSE t.hdr + t.have

ResultNew(s, t, f, Max) ==
    IF s.err # "none" THEN [pkts |-> s.out, err |-> s.err, why |-> s.why]
    ELSE CASE t.t = "longvarint" -> [pkts |-> s.out, err |-> "proto", why |-> "varint"]
           [] t.t = "trunc" /\ (Pending(t) < 0 \/ Pending(t) > Max + OverHi)
                                 -> [pkts |-> s.out, err |-> "proto", why |-> "overflow"]
           [] OTHER              -> [pkts |-> s.out, err |-> FinErr(f), why |-> f]

ResultOld(s) == [pkts |-> s.out, err |-> IF s.err = "none" THEN "eof" ELSE s.err,
                 why |-> IF s.err = "none" THEN "eof" ELSE s.why]

\* what the old reader is meant to see of a result of the current one
StripControl(r) == [r EXCEPT !.pkts = SelectSeq(r.pkts, LAMBDA p : ~p.control)]

SameOutcome(a, b) == a.pkts = b.pkts /\ a.err = b.err

(* ---------------------------------------------------------------------- *)
(* reasm mode: the relative alphabet                                       *)
(* ---------------------------------------------------------------------- *)

RelId(wm, rel) ==
    CASE rel = "ls"  -> <<wm[1] - 1, wm[2] + 1>>
      [] rel = "lm"  -> <<wm[1], wm[2] - 1>>
      [] rel = "eq"  -> wm
      [] rel = "hm"  -> <<wm[1], wm[2] + 1>>
      [] rel = "hm2" -> <<wm[1], wm[2] + 2>>
      [] rel = "hs"  -> <<wm[1] + 1, 1>>
      [] rel = "hs0" -> <<wm[1] + 1, 0>>

RelKind(s, kr) == IF kr = "same" THEN (IF s.inpkt THEN s.pkind ELSE 2)
                  ELSE (IF s.inpkt THEN (IF s.pkind = 2 THEN 3 ELSE 2) ELSE 3)

VLen(n) == IF n < 0 THEN 10 ELSE IF n < 128 THEN 1 ELSE IF n < 16384 THEN 2 ELSE IF n < 2097152 THEN 3
           ELSE IF n < 268435456 THEN 4 ELSE 5

\* hostile tails after the last whole frame.  declared = -1 stands for 2^63.
\* A truncated frame has a header of hdr bytes (control byte, two ids, length)
\* of which hpresent are present, and have payload bytes (have < declared).
TruncTails(Max) ==
    LET hdrs(L) == { 3 + VLen(L) + x : x \in {0, 8, 16} } IN
    \* cut inside the header
    { [t |-> "trunc", hdr |-> h, hpresent |-> j, declared |-> 5, have |-> 0] :
          h \in hdrs(5), j \in {1, 2, 3} }
    \cup { [t |-> "trunc", hdr |-> h, hpresent |-> h - 1, declared |-> -1, have |-> 0] : h \in hdrs(-1) }
    \* cut inside the payload: pending = hdr + have
    \cup UNION { UNION { { [t |-> "trunc", hdr |-> h, hpresent |-> h, declared |-> L, have |-> p - h] :
                              p \in {h, h + 1, Max + OverLo, Max + OverHi + 1, Max + 100} } :
                          h \in hdrs(L) } :
                  L \in {1, Max, Max + 1, Max + 40, -1} }
    \* the peer keeps sending payload of a frame that can never fit
    \cup { [t |-> "trunc", hdr |-> 3 + VLen(L), hpresent |-> 3 + VLen(L), declared |-> L, have |-> -1] :
             L \in {-1, 2 * Max + 5000} }

TailOK(t, Max) ==
    t.t = "trunc" =>
       /\ t.have >= -1
       /\ (t.have > 0 => (t.declared < 0 \/ t.have < t.declared))
       /\ (t.have = 0 /\ t.hpresent = t.hdr => t.declared # 0)
       /\ (Pending(t) >= 0 => (Pending(t) <= Max + OverLo \/ Pending(t) > Max + OverHi))

Tails(Max) == { t \in TruncTails(Max) : TailOK(t, Max) }
              \cup { [t |-> "longvarint", field |-> k] : k \in {1, 2, 3} }

(* ---------------------------------------------------------------------- *)
(* burst mode                                                              *)
(* ---------------------------------------------------------------------- *)

BurstFrames(c) ==
    LET n == c[2] fpp == c[3] IN
    [i \in 1..(n * fpp) |->
        LET p == (i - 1) \div fpp + 1        \* packet number
            j == ((i - 1) % fpp) + 1 IN       \* frame within the packet
        [sid |-> 1 + (p \div 50), mid |-> p, kind |-> 2, done |-> j = fpp,
         control |-> (c[5] > 0 /\ p % c[5] = 0 /\ j = 1), len |-> c[4]]]

(* ---------------------------------------------------------------------- *)
(* emitters                                                                *)
(* ---------------------------------------------------------------------- *)

InitEs == [sid |-> 0, mid |-> 0, open |-> FALSE, okind |-> 0, dead |-> TRUE]

\* One more frame on the wire.  variant "new": the current stream layer (ordinary packets
\* never carry the control bit; the soft-cancel packet is KindCancel, control, one empty
\* done frame); variant "old": v0.0.17 (no control bit, no cancel kind).
\* A message that is being written can be abandoned (the stream was terminated between two
\* frames); nothing more is sent on that stream then, the next frame belongs to a later stream.
IsCancelFrame(f) == f.kind = KindCancel /\ f.control /\ f.done /\ f.len = 0

OrdinaryFrame(f) ==
    /\ f.kind \in EmitKinds /\ ~f.control /\ f.len \in EmitPays
    /\ (f.kind \in {5, 6} => f.len = 0 /\ f.done)     \* close and closesend have no body
    /\ (f.kind = 3 => f.done)                        \* errors are sent as one frame
    /\ (~EmitMulti => f.done)

\* f continues the packet that is open
Continues(e, f) ==
    /\ e.open /\ f.sid = e.sid /\ f.mid = e.mid /\ f.kind = e.okind /\ ~f.control /\ f.len \in EmitPays

\* f is the first frame of a packet on the current stream (nothing open, stream alive) or on a later one
Starts(e, f, variant) ==
    /\ IF f.sid = e.sid
         THEN ~e.dead /\ ~e.open /\ (f.mid - e.mid) \in EmitGaps
         ELSE (f.sid - e.sid) \in EmitGaps /\ f.mid \in EmitGaps /\ (EmitStreams \/ e.sid = 0)
    /\ OrdinaryFrame(f) \/ (variant = "new" /\ EmitStreams /\ IsCancelFrame(f))

\* soft cancel right after a message was abandoned (over-approximation, see C18 notes)
CancelsOpen(e, f, variant) ==
    variant = "new" /\ EmitStreams /\ e.open /\ f.sid = e.sid /\ f.mid = e.mid + 1 /\ IsCancelFrame(f)

LegalNext(e, f, variant) == Continues(e, f) \/ Starts(e, f, variant) \/ CancelsOpen(e, f, variant)

AfterFrame(e, f) ==
    IF Continues(e, f) THEN [e EXCEPT !.open = ~f.done, !.dead = e.dead \/ (f.done /\ e.okind \in {3, 5})]
    ELSE [sid |-> f.sid, mid |-> f.mid, open |-> ~f.done, okind |-> f.kind,
          dead |-> f.done /\ f.kind \in {3, 5, KindCancel}]

Candidates(e) ==
    [sid : {e.sid} \cup {e.sid + g : g \in EmitGaps},
     mid : {e.mid} \cup {e.mid + g : g \in EmitGaps} \cup EmitGaps,
     kind : EmitKinds \cup {KindCancel}, done : BOOLEAN, control : BOOLEAN, len : EmitPays \cup {0}]

EmitFrame(variant) ==
    /\ Len(frames) < EmitDepth
    /\ \E f \in (IF EmitObserved = {} THEN Candidates(es)
                  ELSE {o[Len(frames) + 1] : o \in {x \in EmitObserved : Len(x) > Len(frames) /\ SubSeq(x, 1, Len(frames)) = frames}}) :
         /\ LegalNext(es, f, variant)
         /\ frames' = Append(frames, f)
         /\ es' = AfterFrame(es, f)
    /\ UNCHANGED <<rs, cfg, tail, fin, stop>>

(* ---------------------------------------------------------------------- *)
(* kinds mode: one packet handed to a stream (drpcstream.HandlePacket)     *)
(* ---------------------------------------------------------------------- *)

KnownKinds == {1, 2, 3, 4, 5, 6}      \* invoke, message, error, cancel, close, closesend

\* What is observable of a stream after HandlePacket(packet of the given kind):
\*   ret   what HandlePacket returns: "nil" | "proto" | "internal"
\*   term  the stream is terminated afterwards
\*   recv  what the application reads next, given that a further message ("probe") is
\*         delivered afterwards: "probe" (nothing but the probe: the packet left no trace),
\*         "payload-then-probe", "eof", "remote-error", "canceled", "term-err"
\*   send  what a send attempted afterwards yields: "ok" | "eof" | "err"
\* pre: "open" | "terminated" (locally cancelled) | "foreign" (the packet carries another stream id)
Untouched(pre) == IF pre = "terminated" THEN [ret |-> "nil", term |-> TRUE, recv |-> "term-err", send |-> "eof"]
                  ELSE [ret |-> "nil", term |-> FALSE, recv |-> "probe", send |-> "ok"]

HandleOutcome(pre, kind, control) ==
    CASE pre \in {"foreign", "terminated"} -> Untouched(pre)
      [] kind = 2  -> [ret |-> "nil", term |-> FALSE, recv |-> "payload-then-probe", send |-> "ok"]
      [] kind = 1  -> [ret |-> "proto", term |-> TRUE, recv |-> "term-err", send |-> "err"]   \* invoke on an existing stream
      [] kind = 3  -> [ret |-> "nil", term |-> TRUE, recv |-> "remote-error", send |-> "eof"]
      [] kind = 4  -> [ret |-> "nil", term |-> TRUE, recv |-> "canceled", send |-> "eof"]
      [] kind = 5  -> [ret |-> "nil", term |-> TRUE, recv |-> "eof", send |-> "err"]
      [] kind = 6  -> [ret |-> "nil", term |-> FALSE, recv |-> "eof", send |-> "ok"]
      [] control   -> Untouched(pre)          \* unknown kind with the control bit: ignored
      [] OTHER     -> [ret |-> "internal", term |-> TRUE, recv |-> "term-err", send |-> "err"]

\* The wire vocabulary shared with released peers (packet.go, README): what each operation of
\* the stream layer puts on the wire as its (last) packet.
OpWire == [invoke     |-> [kind |-> 1, control |-> FALSE, body |-> "rpc name"],
           message    |-> [kind |-> 2, control |-> FALSE, body |-> "message"],
           error      |-> [kind |-> 3, control |-> FALSE, body |-> "code+text"],
           softcancel |-> [kind |-> KindCancel, control |-> TRUE, body |-> "empty"],
           close      |-> [kind |-> 5, control |-> FALSE, body |-> "empty"],
           closesend  |-> [kind |-> 6, control |-> FALSE, body |-> "empty"],
           metadata   |-> [kind |-> 7, control |-> FALSE, body |-> "metadata"]]

(* ---------------------------------------------------------------------- *)
(* behaviours                                                              *)
(* ---------------------------------------------------------------------- *)

Init ==
    \/ /\ Mode = "reasm"
       /\ \E c \in Cfgs : cfg = [max |-> c[1], depth |-> c[2], taild |-> c[3]]
       /\ frames = <<>> /\ rs = InitNew /\ tail = NoTail /\ fin = "eof" /\ stop = FALSE /\ es = InitEs
    \/ /\ Mode = "burst"
       /\ \E c \in BurstCases :
            /\ cfg = [max |-> c[1], depth |-> 0, taild |-> 0]
            /\ frames = BurstFrames(c)
            /\ rs = ReassembleNew(frames, c[1])
       /\ tail = NoTail /\ fin = "eof" /\ stop = TRUE /\ es = InitEs
    \/ /\ Mode \in {"emitnew", "emitold"}
       /\ cfg = [max |-> OldMax, depth |-> EmitDepth, taild |-> 0]
       /\ frames = <<>> /\ rs = InitNew /\ tail = NoTail /\ fin = "eof" /\ stop = FALSE /\ es = InitEs
    \/ /\ Mode = "kinds"
       /\ cfg = [max |-> 0, depth |-> 0, taild |-> 0]
       /\ \E k \in KindSpace, c \in BOOLEAN, pre \in {"open", "terminated", "foreign"} :
            es = [kind |-> k, control |-> c, pre |-> pre, outcome |-> HandleOutcome(pre, k, c)]
       /\ frames = <<>> /\ rs = InitNew /\ tail = NoTail /\ fin = "eof" /\ stop = TRUE
    \/ /\ Mode = "ops"
       /\ cfg = [max |-> 0, depth |-> 0, taild |-> 0]
       /\ \E o \in DOMAIN OpWire : es = [op |-> o, wire |-> OpWire[o]]
       /\ frames = <<>> /\ rs = InitNew /\ tail = NoTail /\ fin = "eof" /\ stop = TRUE
    \/ \* call metadata: maps with at most two entries over the string classes, plus generated entries.
       \* v0.0.17 encodes metadata as a protobuf map<string,string>, so it refuses strings that are
       \* not UTF-8 ("bin"); everything a version encodes must decode to the same map in the other.
       /\ Mode = "meta"
       /\ cfg = [max |-> 0, depth |-> 0, taild |-> 0]
       /\ \E ks \in SUBSET MetaClasses, many \in MetaMany :
            /\ Cardinality(ks) <= 2
            /\ \E f \in [ks -> MetaClasses] :
                 LET hasBin == \E k \in ks : k = "bin" \/ f[k] = "bin" IN
                 es = [md |-> {<<k, f[k]>> : k \in ks}, many |-> many,
                       oldEncodes |-> ~hasBin,
                       newToOld |-> "same-map",
                       oldToNew |-> IF hasBin THEN "not-emitted" ELSE "same-map"]
       /\ frames = <<>> /\ rs = InitNew /\ tail = NoTail /\ fin = "eof" /\ stop = TRUE

AddFrame ==
    /\ Mode = "reasm" /\ ~stop /\ rs.err = "none" /\ Len(frames) < cfg.depth
    /\ \E rel \in IdRels, kr \in KindRels, d \in BOOLEAN, c \in Ctls, p \in Pays :
         LET id == RelId(rs.wm, rel)
             f  == [sid |-> id[1], mid |-> id[2], kind |-> RelKind(rs, kr), done |-> d, control |-> c,
                    len |-> p[1] * cfg.max + p[2]] IN
         /\ id[1] >= 0 /\ id[2] >= 0 /\ f.len >= 0
         /\ frames' = Append(frames, f)
         /\ rs' = StepNew(rs, f, Len(frames) + 1, cfg.max)
    /\ UNCHANGED <<cfg, tail, fin, stop, es>>

AddTail ==
    /\ Mode = "reasm" /\ ~stop /\ rs.err = "none" /\ Len(frames) <= cfg.taild
    /\ \E t \in Tails(cfg.max) \cup {NoTail}, f \in Fins :
         /\ ~(t = NoTail /\ f = "eof")      \* that is the record of the state itself
         /\ tail' = t /\ fin' = f
    /\ stop' = TRUE
    /\ UNCHANGED <<frames, rs, cfg, es>>

EmitNew == EmitFrame("new")     \* the current stream layer + writer
EmitOld == EmitFrame("old")     \* the v0.0.17 stream layer + writer

Emit1 == (Mode = "emitnew" /\ EmitNew) \/ (Mode = "emitold" /\ EmitOld)

Next == AddFrame \/ AddTail \/ Emit1

Spec == Init /\ [][Next]_vars

(* ---------------------------------------------------------------------- *)
(* properties of the description                                           *)
(* ---------------------------------------------------------------------- *)

InReasm == Mode \in {"reasm", "burst"}

\* the incremental state is the fold over the whole sequence: the result depends on the frames only
Deterministic == InReasm => rs = ReassembleNew(frames, cfg.max)

\* every packet handed out is made of consecutive frames of one id and one kind, ends with
\* the only done frame among them, carries the OR of their control bits, the sum of their
\* lengths, and fits the maximum
PacketsWellFormed == InReasm =>
    \A k \in 1..Len(rs.out) :
        LET p == rs.out[k] n == Len(p.parts) IN
        /\ n >= 1
        /\ \A j \in 1..n : /\ (j > 1 => p.parts[j] = p.parts[j - 1] + 1)
                           /\ Fid(frames[p.parts[j]]) = <<p.sid, p.mid>>
                           /\ frames[p.parts[j]].kind = p.kind
                           /\ frames[p.parts[j]].done = (j = n)
        /\ p.control = (\E j \in 1..n : frames[p.parts[j]].control)
        /\ p.len <= cfg.max

\* ids of the packets handed out strictly increase; the watermark is above all of them
IdsIncrease == InReasm =>
    /\ \A k \in 1..(Len(rs.out) - 1) : IdLess(<<rs.out[k].sid, rs.out[k].mid>>, <<rs.out[k + 1].sid, rs.out[k + 1].mid>>)
    /\ \A k \in 1..Len(rs.out) : IdLess(<<rs.out[k].sid, rs.out[k].mid>>, rs.wm)

\* an error is final and nothing is handed out after it; the watermark never decreases
MonotoneReasm == [][Mode = "reasm" /\ frames' # frames =>
                     /\ ~IdLess(rs'.wm, rs.wm)
                     /\ Len(rs'.out) >= Len(rs.out) /\ SubSeq(rs'.out, 1, Len(rs.out)) = rs.out]_vars

\* C18: the released reader sees what the current stream layer emits, minus control packets ...
CompatNewToOld == Mode = "emitnew" =>
    SameOutcome(ResultOld(ReassembleOld(frames)),
                StripControl(ResultNew(ReassembleNew(frames, OldMax), NoTail, "eof", OldMax)))
\* ... and the current reader sees what the released stream layer emits exactly as the released one does
CompatOldToNew == Mode = "emitold" =>
    SameOutcome(ResultNew(ReassembleNew(frames, OldMax), NoTail, "eof", OldMax), ResultOld(ReassembleOld(frames)))

\* an unknown kind with the control bit never changes the stream
UnknownControlIgnored == Mode = "kinds" =>
    ((es.kind \notin KnownKinds /\ es.control) => es.outcome = Untouched(es.pre))

\* one oracle record per state
EmitRec ==
    CASE Mode \in {"reasm", "burst"} ->
           PrintT("@@" \o ToJson([mode |-> Mode, max |-> cfg.max, frames |-> frames, tail |-> tail, fin |-> fin,
                                  new |-> ResultNew(rs, tail, fin, cfg.max)]))
      [] Mode \in {"emitnew", "emitold"} ->
           PrintT("@@" \o ToJson([mode |-> Mode, max |-> OldMax, frames |-> frames, tail |-> tail, fin |-> fin,
                                  new |-> ResultNew(ReassembleNew(frames, OldMax), NoTail, "eof", OldMax),
                                  old |-> ResultOld(ReassembleOld(frames))]))
      [] Mode = "kinds" -> PrintT("@@" \o ToJson([mode |-> Mode, hk |-> es]))
      [] Mode = "meta"  -> PrintT("@@" \o ToJson([mode |-> Mode, meta |-> es]))
      [] Mode = "ops"   -> PrintT("@@" \o ToJson([mode |-> Mode, opw |-> es]))

=============================================================================
