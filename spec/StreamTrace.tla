----------------------------- MODULE StreamTrace -----------------------------
(***************************************************************************)
(* Trace validation for the single-stream world: decides whether recorded   *)
(* executions of a real drpcstream.Stream are behaviours of Stream.tla.     *)
(*                                                                         *)
(* A log line is (stimulus, observation at the next quiescence).  The trace *)
(* specification applies the logged stimulus, lets the internal steps of    *)
(* the goroutines run in any order (they are not logged), and when nothing   *)
(* internal is enabled demands that the projection Obs of the model state    *)
(* equals the logged one.  Many runs are concatenated; a "reset" stimulus    *)
(* starts a fresh stream.  Acceptance = the high-water mark of the line      *)
(* index (TLC register 1) reaches the end of the log.                        *)
(***************************************************************************)
EXTENDS Stream, TLCExt

TraceLog == ndJsonDeserialize("trace.ndjson")

VARIABLES l, ph
tvars == <<vars, l, ph>>

TInit == Init /\ l = 1 /\ ph = "stim"

Reset == /\ str' = NewStream(1)
         /\ thr' = [t \in Threads |-> Idle @@ [name |-> NONE, late |-> FALSE]]
         /\ wr' = NewWriter(Small)
         /\ wire' = <<>> /\ wmark' = 0 /\ nstart' = 0 /\ lateEmit' = FALSE /\ stims' = <<>>

ApplyStim ==
    /\ ph = "stim" /\ l <= Len(TraceLog)
    /\ LET e == TraceLog[l].stim IN
         CASE e.k = "start" -> Start(e.t, e.op)
           [] e.k = "relw"  -> RelW(e.how)
           [] e.k = "relu"  -> RelU
           [] e.k = "reset" -> Reset
    /\ ph' = "run" /\ l' = l

RunStep == ph = "run" /\ Internal /\ UNCHANGED <<l, ph>>

Match == /\ ph = "run" /\ Quiescent
         /\ Obs = TraceLog[l].obs
         /\ l' = l + 1 /\ ph' = "stim" /\ UNCHANGED vars

TNext == ApplyStim \/ RunStep \/ Match
TSpec == TInit /\ [][TNext]_tvars

HighWater == TLCSet(1, IF TLCGetOrDefault(1, 0) < l THEN l ELSE TLCGetOrDefault(1, 0))
Report == TLCGet("stats").diameter >= 0 /\ PrintT("@@" \o ToJson([hw |-> TLCGetOrDefault(1, 0), len |-> Len(TraceLog)]))

\* every line has been matched: report and stop (one accepting path is enough)
Accepted == (l > Len(TraceLog)) => /\ PrintT("@@" \o ToJson([hw |-> l, len |-> Len(TraceLog)]))
                                   /\ TLCSet("exit", TRUE)

\* the invariants of the design hold in every state of every real execution
TraceInv == Inv /\ OneWrite /\ WireOrdered /\ LateSilent
=============================================================================
