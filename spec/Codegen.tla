------------------------------ MODULE Codegen ------------------------------
(***************************************************************************)
(* What cmd/protoc-gen-go-drpc emits for a service descriptor, and how the *)
(* runtime (drpcmux) reads it back.                                        *)
(*                                                                         *)
(* A state is a proto file under construction:                             *)
(*   file  = [pkg, lib, json, msgs]   proto package, -protolib, -json,     *)
(*                                    message types local or imported      *)
(*   svcs  = << [name, go, meths : << [name, go, cs, ss] >>] >>            *)
(* Names are sequences of one-character strings so that the name rules can *)
(* be stated character by character:                                       *)
(*   GoName     protogen's GoCamelCase (Service.GoName, Method.GoName)     *)
(*   Dbl        strings.ReplaceAll(s, "_", "__")                           *)
(*   service-level identifiers  "DRPC" GoName "Client" ...   (not doubled) *)
(*   stream-level identifiers   "DRPC" Dbl(svc) "_" Dbl(meth) "Client" ... *)
(*   RPC name   "/" full service name "/" method name  (both sides)        *)
(* The signature of a server method is built exactly as                    *)
(* generateServerSignature builds it; Classify is drpcmux.registerOne      *)
(* applied to the method expression (receiver first); MuxArgs is what      *)
(* Mux.HandleRPC hands to the generated receiver closure, ReceiverArgs is  *)
(* what that closure type-asserts.                                         *)
(*                                                                         *)
(* The plan (number of methods per service) is fixed in the initial state  *)
(* so that one behaviour builds one descriptor and Finish is the only      *)
(* action enabled at its end (one oracle record per behaviour under        *)
(* -simulate); every prefix is a descriptor too and is checked.            *)
(***************************************************************************)
EXTENDS Integers, Sequences, FiniteSets, TLC, Json

CONSTANTS
    SvcNames,    \* candidate service names (sequences of characters)
    MethNames,   \* candidate method names
    Shapes,      \* subset of {"unary", "cstream", "sstream", "bidi"}
    Pkgs,        \* proto package names (strings), "" = no package
    Libs,        \* subset of {"google", "gogo", "custom"}
    Jsons,       \* subset of BOOLEAN
    MsgLocs,     \* subset of {"local", "imported"}
    Plans,       \* set of sequences: number of methods of the 1st, 2nd, ... service
    EmitMode     \* "done": one record per finished descriptor; "none": model check only

VARIABLES file, plan, svcs, done

vars == <<file, plan, svcs, done>>

(* ---------------------------------------------------------------------- *)
(* characters and the name functions                                       *)
(* ---------------------------------------------------------------------- *)

LowerCs == <<"a","b","c","d","e","f","g","h","i","j","k","l","m","n","o","p","q","r","s","t","u","v","w","x","y","z">>
UpperCs == <<"A","B","C","D","E","F","G","H","I","J","K","L","M","N","O","P","Q","R","S","T","U","V","W","X","Y","Z">>
IsLower(c) == \E i \in 1..26 : LowerCs[i] = c
IsDigit(c) == c \in {"0","1","2","3","4","5","6","7","8","9"}
ToUpper(c) == IF IsLower(c) THEN UpperCs[CHOOSE i \in 1..26 : LowerCs[i] = c] ELSE c

RECURSIVE Str(_)
Str(s) == IF s = <<>> THEN "" ELSE Head(s) \o Str(Tail(s))

\* index of the last character of the lower-case run that follows position i
RECURSIVE LowerRunEnd(_, _)
LowerRunEnd(s, i) == IF i + 1 <= Len(s) /\ IsLower(s[i + 1]) THEN LowerRunEnd(s, i + 1) ELSE i

\* google.golang.org/protobuf/internal/strs.GoCamelCase, one case per switch arm
RECURSIVE Camel(_, _)
Camel(s, i) ==
    IF i > Len(s) THEN <<>> ELSE
    LET c == s[i]
        nextLower == i + 1 <= Len(s) /\ IsLower(s[i + 1]) IN
    IF c = "." /\ nextLower THEN Camel(s, i + 1)
    ELSE IF c = "." THEN <<"_">> \o Camel(s, i + 1)
    ELSE IF c = "_" /\ (i = 1 \/ s[i - 1] = ".") THEN <<"X">> \o Camel(s, i + 1)
    ELSE IF c = "_" /\ nextLower THEN Camel(s, i + 1)
    ELSE IF IsDigit(c) THEN <<c>> \o Camel(s, i + 1)
    ELSE LET e == LowerRunEnd(s, i) IN <<ToUpper(c)>> \o SubSeq(s, i + 1, e) \o Camel(s, e + 1)

GoName(n) == Camel(n, 1)

\* strings.ReplaceAll(s, "_", "__")
RECURSIVE Dbl(_)
Dbl(s) == IF s = <<>> THEN <<>>
          ELSE (IF Head(s) = "_" THEN <<"_", "_">> ELSE <<Head(s)>>) \o Dbl(Tail(s))

\* main.go: ClientIface, ClientImpl, ServerIface, ServerUnimpl, ServerDesc, constructor, registration helper
ClientIface(g)  == "DRPC" \o Str(g) \o "Client"
ClientImpl(g)   == "drpc" \o Str(g) \o "Client"
NewClient(g)    == "New" \o ClientIface(g)
ServerIface(g)  == "DRPC" \o Str(g) \o "Server"
ServerUnimpl(g) == "DRPC" \o Str(g) \o "UnimplementedServer"
ServerDesc(g)   == "DRPC" \o Str(g) \o "Description"
RegisterFn(g)   == "DRPCRegister" \o Str(g)

\* main.go: ClientStreamIface, ClientStreamImpl, ServerStreamIface, ServerStreamImpl
StreamBase(g, m)        == Str(Dbl(g)) \o "_" \o Str(Dbl(m))
ClientStreamIface(g, m) == "DRPC" \o StreamBase(g, m) \o "Client"
ClientStreamImpl(g, m)  == "drpc" \o StreamBase(g, m) \o "Client"
ServerStreamIface(g, m) == "DRPC" \o StreamBase(g, m) \o "Stream"
ServerStreamImpl(g, m)  == "drpc" \o StreamBase(g, m) \o "Stream"

\* protogen: GoDescriptorIdent of the file "svc.proto"; main.go: EncodingName
EncodingName == "drpcEncoding_" \o "File_svc_proto"

\* main.go RPCGoString: "/" + service full name + "/" + method name
FullName(pkg, n) == IF pkg = "" THEN Str(n) ELSE pkg \o "." \o Str(n)
RPCName(pkg, s, m) == "/" \o FullName(pkg, s.name) \o "/" \o Str(m.name)

(* ---------------------------------------------------------------------- *)
(* method shapes, generated signatures, the mux's view of them             *)
(* ---------------------------------------------------------------------- *)

ShapeOf(m) == IF m.cs THEN (IF m.ss THEN "bidi" ELSE "cstream") ELSE (IF m.ss THEN "sstream" ELSE "unary")
Flags(sh) == [cs |-> sh \in {"cstream", "bidi"}, ss |-> sh \in {"sstream", "bidi"}]
Streaming(m) == m.cs \/ m.ss

\* generateServerSignature: three independent appends
ServerSig(m) ==
    LET a1 == IF ~m.ss /\ ~m.cs THEN <<"ctx">> ELSE <<>>
        a2 == IF ~m.cs THEN <<"*In">> ELSE <<>>
        a3 == IF m.ss \/ m.cs THEN <<"stream">> ELSE <<>>
    IN [in  |-> a1 \o a2 \o a3,
        out |-> IF ~m.ss /\ ~m.cs THEN <<"*Out", "error">> ELSE <<"error">>]

\* the method expression DRPCxServer.M has the receiver as its first parameter
MethodExpr(m) == [in |-> <<"recv">> \o ServerSig(m).in, out |-> ServerSig(m).out]

IsMsg(t) == t \in {"*In", "*Out"}

\* drpcmux.registerOne (In(k) is zero based there, sequences are one based here)
Classify(mt) ==
    IF Len(mt.out) = 2
      THEN IF Len(mt.in) >= 3 /\ IsMsg(mt.in[3]) THEN [class |-> "unary", in1 |-> mt.in[3], in2 |-> "none", ok |-> TRUE]
           ELSE [class |-> "unary", in1 |-> "?", in2 |-> "none", ok |-> FALSE]
    ELSE IF Len(mt.in) = 3
      THEN IF IsMsg(mt.in[2]) THEN [class |-> "unary-in/stream-out", in1 |-> mt.in[2], in2 |-> "stream", ok |-> TRUE]
           ELSE [class |-> "unary-in/stream-out", in1 |-> "?", in2 |-> "stream", ok |-> FALSE]
    ELSE IF Len(mt.in) = 2
      THEN [class |-> "stream-in", in1 |-> "stream", in2 |-> "none", ok |-> TRUE]
    ELSE [class |-> "unknown", in1 |-> "?", in2 |-> "none", ok |-> FALSE]

\* the class a method of that shape must fall into
WantClass(m) == IF m.cs THEN "stream-in" ELSE IF m.ss THEN "unary-in/stream-out" ELSE "unary"

\* Mux.HandleRPC: reads one message first unless in1 is the stream; calls receiver(srv, ctx, in, stream)
MuxReadsFirst(cl) == cl.in1 # "stream"
MuxArgs(cl) == [in1 |-> cl.in1, in2 |-> "stream"]

\* generateServerReceiver: the argument list the closure builds, as <<source, asserted type>>;
\* the stream comes from in1 when there is no request message in front of it, else from in2
ReceiverArgs(m) ==
    (IF ~m.ss /\ ~m.cs THEN << <<"ctx", "ctx">> >> ELSE <<>>)
    \o (IF ~m.cs THEN << <<"in1", "*In">> >> ELSE <<>>)
    \o (IF m.ss \/ m.cs THEN << <<(IF m.cs THEN "in1" ELSE "in2"), "stream">> >> ELSE <<>>)
Provided(cl, src) == IF src = "ctx" THEN "ctx" ELSE IF src = "in1" THEN MuxArgs(cl).in1 ELSE MuxArgs(cl).in2

\* generateClientSignature / generateClientMethod
ClientSig(g, m) ==
    [in  |-> <<"ctx">> \o (IF m.cs THEN <<>> ELSE <<"*In">>),
     out |-> <<(IF Streaming(m) THEN ClientStreamIface(g, m.go) ELSE "*Out"), "error">>]
ClientSendsFirst(m) == ~m.cs      \* Invoke(in, out) resp. MsgSend(in) + CloseSend before returning the stream

\* methods added to the stream interfaces besides drpc.Stream (only exist for streaming methods on the client)
ClientStreamOps(m) == (IF m.cs THEN {"Send"} ELSE {}) \cup (IF m.ss THEN {"Recv"} ELSE {"CloseAndRecv"})
ServerStreamOps(m) == (IF m.ss THEN {"Send"} ELSE {"SendAndClose"}) \cup (IF m.cs THEN {"Recv"} ELSE {})

\* methods of the generated encoding type
EncMethods(lib, json) ==
    {"Marshal", "Unmarshal"}
    \cup (IF lib \in {"google", "gogo"} THEN {"MarshalAppend"} ELSE {})
    \cup (IF json THEN {"JSONMarshal", "JSONUnmarshal"} ELSE {})

(* ---------------------------------------------------------------------- *)
(* the identifiers a file declares                                         *)
(* ---------------------------------------------------------------------- *)

\* rank: 1..7 service level, 8..11 stream level, 12 encoding, 13/14 messages,
\*       15 DRPCConn accessor, 16 client interface method, 17 server interface method
RoleName == <<"clientIface", "clientImpl", "newClient", "serverIface", "serverUnimpl", "serverDesc", "register",
              "clientStreamIface", "clientStreamImpl", "serverStreamIface", "serverStreamImpl",
              "encoding", "messageIn", "messageOut", "connAccessor", "clientMethod", "serverMethod">>

Ent(rank, si, mi, scope, id) == [role |-> RoleName[rank], rank |-> rank, svc |-> si, meth |-> mi, scope |-> scope, id |-> id]

SvcIdents(S, si) ==
    LET g == S[si].go IN
    { Ent(1, si, 0, "package", ClientIface(g)), Ent(2, si, 0, "package", ClientImpl(g)),
      Ent(3, si, 0, "package", NewClient(g)),   Ent(4, si, 0, "package", ServerIface(g)),
      Ent(5, si, 0, "package", ServerUnimpl(g)), Ent(6, si, 0, "package", ServerDesc(g)),
      Ent(7, si, 0, "package", RegisterFn(g)),
      Ent(15, si, 0, "client" \o ToString(si), "DRPCConn") }

MethIdents(S, si, mi) ==
    LET g == S[si].go
        m == S[si].meths[mi] IN
    (IF Streaming(m) THEN { Ent(8, si, mi, "package", ClientStreamIface(g, m.go)),
                            Ent(9, si, mi, "package", ClientStreamImpl(g, m.go)) } ELSE {})
    \cup { Ent(10, si, mi, "package", ServerStreamIface(g, m.go)),
           Ent(11, si, mi, "package", ServerStreamImpl(g, m.go)),
           Ent(16, si, mi, "client" \o ToString(si), Str(m.go)),
           Ent(17, si, mi, "server" \o ToString(si), Str(m.go)) }

FileIdents(f, S) ==
    IF S = <<>> THEN {}      \* a file without services is skipped by the generator
    ELSE {Ent(12, 0, 0, "package", EncodingName)}
         \cup (IF f.msgs = "local" THEN {Ent(13, 0, 0, "package", "In"), Ent(14, 0, 0, "package", "Out")} ELSE {})

Idents(f, S) ==
    FileIdents(f, S)
    \cup UNION { SvcIdents(S, si) : si \in 1..Len(S) }
    \cup UNION { UNION { MethIdents(S, si, mi) : mi \in 1..Len(S[si].meths) } : si \in 1..Len(S) }

Before(a, b) == \/ a.svc < b.svc
                \/ a.svc = b.svc /\ a.meth < b.meth
                \/ a.svc = b.svc /\ a.meth = b.meth /\ a.rank < b.rank

SvcLevel(e) == e.rank \in 1..7
StrLevel(e) == e.rank \in 8..11

\* the structural classes of a clash between two declared identifiers
ClassOf(a, b) ==
    IF a.scope # "package"
      THEN IF a.rank = 15 \/ b.rank = 15 THEN "method vs DRPCConn accessor"
           ELSE "two methods of a service with one Go name"
    ELSE IF (SvcLevel(a) /\ StrLevel(b)) \/ (StrLevel(a) /\ SvcLevel(b)) THEN "service-level vs stream-level name"
    ELSE IF SvcLevel(a) /\ SvcLevel(b) /\ a.rank = b.rank THEN "two services with one Go name"
    ELSE IF SvcLevel(a) /\ SvcLevel(b) /\ {a.rank, b.rank} = {1, 7} THEN "register helper vs client interface"
    ELSE IF StrLevel(a) /\ StrLevel(b) /\ a.rank = b.rank /\ a.svc = b.svc THEN "two methods of a service with one Go name"
    ELSE IF StrLevel(a) /\ StrLevel(b) /\ a.rank = b.rank THEN "two services with one Go name"
    ELSE "other"

HasClash(ids) == Cardinality({ <<e.scope, e.id>> : e \in ids }) < Cardinality(ids)

CollisionsOf(ids) ==
    IF ~HasClash(ids) THEN {} ELSE
    { [id |-> a.id, class |-> ClassOf(a, b), scope |-> a.scope,
       a |-> [role |-> a.role, svc |-> a.svc, meth |-> a.meth],
       b |-> [role |-> b.role, svc |-> b.svc, meth |-> b.meth]] :
      <<a, b>> \in { p \in ids \X ids : p[1].scope = p[2].scope /\ p[1].id = p[2].id /\ Before(p[1], p[2]) } }

(* ---------------------------------------------------------------------- *)
(* behaviours                                                              *)
(* ---------------------------------------------------------------------- *)

FileSpace == [pkg : Pkgs, lib : Libs, json : Jsons, msgs : MsgLocs]

Init == /\ file \in FileSpace
        /\ plan \in Plans
        /\ svcs = <<>>
        /\ done = FALSE

LastFull == IF svcs = <<>> THEN TRUE ELSE Len(svcs[Len(svcs)].meths) = plan[Len(svcs)]
Complete == Len(svcs) = Len(plan) /\ LastFull

AddService ==
    /\ ~done /\ LastFull /\ Len(svcs) < Len(plan)
    /\ \E n \in SvcNames \ { svcs[i].name : i \in 1..Len(svcs) } :
         svcs' = Append(svcs, [name |-> n, go |-> GoName(n), meths |-> <<>>])
    /\ UNCHANGED <<file, plan, done>>

AddMethod ==
    /\ ~done /\ ~LastFull
    /\ LET k == Len(svcs) IN
       \E n \in MethNames \ { svcs[k].meths[i].name : i \in 1..Len(svcs[k].meths) }, sh \in Shapes :
         svcs' = [svcs EXCEPT ![k].meths = Append(@, [name |-> n, go |-> GoName(n), cs |-> Flags(sh).cs, ss |-> Flags(sh).ss])]
    /\ UNCHANGED <<file, plan, done>>

Finish == /\ ~done /\ Complete /\ done' = TRUE /\ UNCHANGED <<file, plan, svcs>>

Next == AddService \/ AddMethod \/ Finish

Spec == Init /\ [][Next]_vars

(* ---------------------------------------------------------------------- *)
(* properties of the generator/runtime pair, on the model                   *)
(* ---------------------------------------------------------------------- *)

AllMeths == UNION { { <<si, mi>> : mi \in 1..Len(svcs[si].meths) } : si \in 1..Len(svcs) }
M(p) == svcs[p[1]].meths[p[2]]

TypeOK == /\ Len(svcs) <= Len(plan)
          /\ \A i \in 1..Len(svcs) : Len(svcs[i].meths) <= plan[i]
          /\ \A p \in AllMeths : ShapeOf(M(p)) \in Shapes

\* registerOne accepts every generated method and puts it into the class of its shape
ShapeClassified ==
    \A p \in AllMeths : LET cl == Classify(MethodExpr(M(p))) IN cl.ok /\ cl.class = WantClass(M(p))

\* what HandleRPC passes is what the receiver closure asserts, and the argument list it
\* builds is the parameter list of the interface method
ReceiverConsistent ==
    \A p \in AllMeths :
      LET m == M(p)
          cl == Classify(MethodExpr(m))
          args == ReceiverArgs(m)
      IN /\ \A i \in 1..Len(args) : Provided(cl, args[i][1]) = args[i][2]
         /\ [i \in 1..Len(args) |-> args[i][2]] = ServerSig(m).in

\* the client speaks first exactly when the mux reads first; the stream interfaces are dual
WireCompatible ==
    \A p \in AllMeths :
      LET m == M(p) IN
      /\ ClientSendsFirst(m) = MuxReadsFirst(Classify(MethodExpr(m)))
      /\ Streaming(m) =>
           /\ ("Send" \in ClientStreamOps(m)) = ("Recv" \in ServerStreamOps(m))
           /\ ("Recv" \in ClientStreamOps(m)) = ("Send" \in ServerStreamOps(m))
           /\ ("CloseAndRecv" \in ClientStreamOps(m)) = ("SendAndClose" \in ServerStreamOps(m))

\* the mux keys its table by the RPC name: two methods of a file never share one, and it has
\* the documented form (the client stub and the description use the same helper)
RPCNamesDistinct ==
    \A p, q \in AllMeths :
      p # q => RPCName(file.pkg, svcs[p[1]], M(p)) # RPCName(file.pkg, svcs[q[1]], M(q))

\* identifiers are pairwise distinct, except for the structural clash classes that the
\* generator really has (these are reported as findings on the code side); anything else is new
Collisions == CollisionsOf(Idents(file, svcs))
InjectiveModuloKnown == \A c \in Collisions : c.class # "other"

(* ---------------------------------------------------------------------- *)
(* oracle records                                                          *)
(* ---------------------------------------------------------------------- *)

MethRec(si, mi) ==
    LET s == svcs[si]
        m == s.meths[mi]
        cl == Classify(MethodExpr(m)) IN
    [name |-> Str(m.name), go |-> Str(m.go), cs |-> m.cs, ss |-> m.ss, shape |-> ShapeOf(m),
     rpc |-> RPCName(file.pkg, s, m),
     srvin |-> ServerSig(m).in, srvout |-> ServerSig(m).out,
     numin |-> Len(MethodExpr(m).in), numout |-> Len(MethodExpr(m).out),
     class |-> cl.class,
     cliin |-> ClientSig(s.go, m).in, cliout |-> ClientSig(s.go, m).out,
     cliops |-> IF Streaming(m) THEN ClientStreamOps(m) ELSE {},
     srvops |-> ServerStreamOps(m),
     cstreamIface |-> IF Streaming(m) THEN ClientStreamIface(s.go, m.go) ELSE "",
     sstreamIface |-> ServerStreamIface(s.go, m.go)]

SvcRec(si) ==
    LET s == svcs[si] IN
    [name |-> Str(s.name), go |-> Str(s.go), full |-> FullName(file.pkg, s.name),
     clientIface |-> ClientIface(s.go), newClient |-> NewClient(s.go), serverIface |-> ServerIface(s.go),
     unimpl |-> ServerUnimpl(s.go), desc |-> ServerDesc(s.go), register |-> RegisterFn(s.go),
     meths |-> [mi \in 1..Len(s.meths) |-> MethRec(si, mi)]]

Record ==
    [file |-> file,
     generates |-> svcs # <<>>,
     svcs |-> [si \in 1..Len(svcs) |-> SvcRec(si)],
     encMethods |-> EncMethods(file.lib, file.json),
     idents |-> { [role |-> e.role, svc |-> e.svc, meth |-> e.meth, scope |-> e.scope, id |-> e.id] : e \in Idents(file, svcs) },
     collisions |-> Collisions]

Emit == (EmitMode = "done" /\ done) => PrintT("@@" \o ToJson(Record))

=============================================================================
