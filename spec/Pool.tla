-------------------------------- MODULE Pool --------------------------------
(***************************************************************************)
(* drpcpool.Pool (pool.go, entry.go): Put, Take, Close (each entirely      *)
(* under p.mu) and the expiry call-back of time.AfterFunc as three steps   *)
(*     TimerFire(e)    the timer fires, the call-back is about to Close    *)
(*     ExpiryClose(e)  the call-back's val.Close()                         *)
(*     ExpiryRemove(e) the call-back's p.removeEntry(ent) under p.mu       *)
(* plus the environment: ConnClose(c), Block(c), Unblock(c).               *)
(*                                                                         *)
(* Two grains, selected by the constant Fine.  The pool calls user code    *)
(* while it holds p.mu: Take calls ent.val.Unblocked() and, after unlink   *)
(* and exp.Stop(), ent.val.Closed() for every entry it looks at; Put's     *)
(* eviction loops and Pool.Close call ent.val.Close() (closeEntry, after   *)
(* exp.Stop() succeeded or without a timer).  Each such call is a park     *)
(* (op.pc = "unblocked" | "closed" | "evict" | "closing"): the code of an  *)
(* operation is written once, as functions that run from one park to the   *)
(* next (TakeScan/TakeUnblocked/TakeClosed, PutLoops/PutClose/PutAfter,    *)
(* CloseScan/CloseAfter).  With Fine = FALSE an operation is one action    *)
(* (Run iterates the parks to the end: one action per critical section);   *)
(* with Fine = TRUE the operation stops at every park with the lock held   *)
(* (variable op holds its local variables) and Return is the action        *)
(* "the user code returns, the operation runs to its next park or to its   *)
(* end".  While the lock is held a timer may fire and the call-back may    *)
(* close its connection (neither needs the lock); ExpiryRemove - the first *)
(* point at which the unchanged call-back needs p.mu - waits until the     *)
(* lock is free, as do Put, Take, Close and (by assumption) the            *)
(* environment.  What a user-code call returns is the state of the         *)
(* connection when it returns.                                             *)
(*                                                                         *)
(* The two intrusive lists are modelled as the code has them: per entry    *)
(* the four pointers global.next/prev (gn, gp) and local.next/prev (ln,    *)
(* lp), per list head/tail/count.  removeEntry is transcribed statement    *)
(* by statement, so removing an entry that is no longer linked does what   *)
(* it does in Go: the count is decremented and the stale next/prev         *)
(* pointers of the entry are written into whatever they still point at.    *)
(* p.entries is lst[k].in (key present in the map); a list object that     *)
(* Put still holds in its variable `local` after delete(p.entries, key)    *)
(* is the "detached" list of the Put action.  A nil dereference is the     *)
(* terminal state pn # "".                                                 *)
(*                                                                         *)
(* Ownership of a connection: "fresh" (never put), "pool" (given to Put    *)
(* and not handed back), "out" (returned by Take, owned by a caller),      *)
(* "gone" (Put dropped or closed it at once).  A caller only puts          *)
(* connections it owns (fresh or out).                                     *)
(*                                                                         *)
(* The constants FixUnlink / FixOwnList select variants of the algorithm in  *)
(* which the two defects below are repaired (an entry is unlinked at most  *)
(* once; Put never deletes the list of its own key); the check sets them   *)
(* to what the tree under test implements.                                 *)
(*                                                                         *)
(* route : how the state left the part of the state space in which the     *)
(*         lists are consistent (the known defect shapes); anom : which    *)
(*         statement of the property is false in this state or was         *)
(*         falsified by the step leading to it.  The design invariant is   *)
(*         Safe == anom # {} => route # {}: the property holds unless one  *)
(*         of the recorded routes was taken, and exploration continues     *)
(*         past them.                                                      *)
(***************************************************************************)
EXTENDS Integers, Sequences, FiniteSets, TLC, Json

CONSTANTS Keys,        \* set of keys (integers)
          NConns,      \* connections 1..NConns
          MaxPuts,     \* bound on the number of Put calls (= entry ids)
          Caps, KeyCaps, \* sets of values for Options.Capacity / Options.KeyCapacity (chosen in the initial state)
          Exps,        \* subset of BOOLEAN: Options.Expiration > 0
          AfterClose,  \* BOOLEAN: the pool may be used after Pool.Close
          MaxEnv,      \* bound on environment steps
          MaxTakes,    \* bound on Take calls
          Hist,        \* BOOLEAN: keep the history and emit it at terminal states
          FixUnlink,   \* BOOLEAN: variant of the code in which an entry is unlinked at most once (entry flag set by
                       \*          whoever unlinks it and by Pool.Close; the call-back's removeEntry returns if set)
          FixOwnList,  \* BOOLEAN: variant in which Put's global eviction does not delete the per-key list of the key being put
          Fine         \* BOOLEAN: the user code called under p.mu is a park of its own (see above)

Conns == 1..NConns
Ents  == 1..MaxPuts

VARIABLES cf,                \* the Options of this pool: [cap, kcap, exp]
          n,                 \* entries created so far: ids 1..n in put order
          ekey, econn, egen, \* per entry: key, connection, number of Pool.Close calls before it was put
          gn, gp, ln, lp,    \* per entry: global.next, global.prev, local.next, local.prev (0 = nil)
          ul,                \* per entry: the "unlinked" flag of the FixUnlink variant (FALSE otherwise)
          ub,                \* per entry: "" | "Take" | "Evict": who unlinked it after its timer had fired
          tm,                \* per entry: "none" (no expiration) | "armed" | "firedClosing" | "firedRemoving" | "stopped" | "done"
          ord,               \* p.order: [head, tail, count]
          lst,               \* p.entries: [Keys -> [in, head, tail, count]]
          cs,                \* per connection: [closed, blocked, calls, own]
          op,                \* the operation that holds p.mu (Fine only; NoOp when the lock is free): its local variables
          gen,               \* number of Pool.Close calls
          puts, takes, envn, \* budgets used
          pn,                \* "" or the panic
          route, anom,
          last,              \* label and result of the last action
          hist

vars == <<cf, n, ekey, econn, egen, gn, gp, ln, lp, ul, ub, tm, ord, lst, cs, op, gen, puts, takes, envn, pn, route, anom, last, hist>>
view == <<cf, n, ekey, econn, egen, gn, gp, ln, lp, ul, ub, tm, ord, lst, cs, op, gen, puts, takes, envn, pn, route, anom, last>>

Capacity == cf.cap
KeyCapacity == cf.kcap
Expire == cf.exp

EmptyList  == [in |-> TRUE,  head |-> 0, tail |-> 0, count |-> 0]
AbsentList == [in |-> FALSE, head |-> 0, tail |-> 0, count |-> 0]
Fired(t) == t \in {"firedClosing", "firedRemoving"}

\* the local variables of Put / Take / Close:
\*   a    "Put" | "Take" | "PoolClose" ("" = nobody holds the lock)
\*   k, c the arguments; e the id of the entry Put creates
\*   cur  the loop variable ent: the entry whose user code runs at a park
\*   pc   "" | "unblocked" (in ent.val.Unblocked()) | "closed" (in ent.val.Closed()) | "evict" (Put in ent.val.Close())
\*        | "closing" (Pool.Close in ent.val.Close()) | "done"
\*   ph   which eviction loop of Put: "key" | "cap"
\*   fuel bound on the list walks (a cycle is reported as a panic of the model)
\*   det, ol  Put's variable `local` points to a list that is no longer in p.entries (variant without FixOwnList)
\*   ret  the result
NoOp == [a |-> "", k |-> 0, c |-> 0, e |-> 0, cur |-> 0, pc |-> "", ph |-> "", fuel |-> 0, det |-> FALSE, ol |-> AbsentList, ret |-> 0]
Free == op.a = ""

(***************************************************************************)
(* entry.go                                                                *)
(***************************************************************************)
\* list.removeEntry, statement by statement (n := node(ent) is a pointer: reads are live)
RemoveL(L, nx, pv, e) ==
  LET h1  == IF L.head = e THEN nx[e] ELSE L.head
      pv1 == IF nx[e] # 0 THEN [pv EXCEPT ![nx[e]] = pv[e]] ELSE pv
      t1  == IF L.tail = e THEN pv1[e] ELSE L.tail
      nx1 == IF pv1[e] # 0 THEN [nx EXCEPT ![pv1[e]] = nx[e]] ELSE nx
  IN [L |-> [L EXCEPT !.head = h1, !.tail = t1, !.count = @ - 1], nx |-> nx1, pv |-> pv1]

\* list.appendEntry
AppendL(L, nx, pv, e) ==
  LET h1  == IF L.head = 0 THEN e ELSE L.head
      nx1 == IF L.tail # 0 THEN [nx EXCEPT ![L.tail] = e] ELSE nx
      pv1 == IF L.tail # 0 THEN [pv EXCEPT ![e] = L.tail] ELSE pv
  IN [L |-> [L EXCEPT !.head = h1, !.tail = e, !.count = @ + 1], nx |-> nx1, pv |-> pv1]

\* forward walk from a head (what Take, Close and VerifCounts see); -1 marks a cycle
RECURSIVE WalkFrom(_, _, _)
WalkFrom(e, nx, fuel) == IF e = 0 THEN <<>>
                         ELSE IF fuel = 0 THEN << -1 >>
                         ELSE <<e>> \o WalkFrom(nx[e], nx, fuel - 1)
Walk(L, nx) == WalkFrom(L.head, nx, MaxPuts)
WLen(L, nx) == LET w == Walk(L, nx) IN IF Len(w) > 0 /\ w[Len(w)] = -1 THEN -1 ELSE Len(w)
Linked(L, nx, e) == \E i \in 1..Len(Walk(L, nx)) : Walk(L, nx)[i] = e

(***************************************************************************)
(* the machine state threaded through the sequential code of one action    *)
(***************************************************************************)
Mk == [ord |-> ord, lk |-> lst, gn |-> gn, gp |-> gp, ln |-> ln, lp |-> lp, ul |-> ul, ub |-> ub, tm |-> tm, cs |-> cs,
       op |-> op, pn |-> "", rt |-> route, an |-> anom]

UnlinkGlobal(M, e) == LET r == RemoveL(M.ord, M.gn, M.gp, e)
                      IN [M EXCEPT !.ord = r.L, !.gn = r.nx, !.gp = r.pv]
UnlinkLocal(M, k, e) == LET r == RemoveL(M.lk[k], M.ln, M.lp, e)
                        IN [M EXCEPT !.lk[k] = r.L, !.ln = r.nx, !.lp = r.pv]

\* the two removeEntry calls that always come together
Unlink(M, k, e) == LET M1 == UnlinkGlobal(UnlinkLocal(M, k, e), e)
                   IN IF FixUnlink THEN [M1 EXCEPT !.ul[e] = TRUE] ELSE M1

\* the pool calls val.Close()
PoolCloses(M, c) == [M EXCEPT !.cs[c].closed = TRUE, !.cs[c].calls = @ + 1,
                              !.an = IF M.cs[c].own = "out" THEN @ \cup {"closedWhileOut"} ELSE @]

\* Pool.closeEntry up to the user code: `ent.exp == nil || ent.exp.Stop()` decides whether ent.val.Close() is called
Stoppable(M, e) == M.tm[e] \in {"none", "armed"}
StopTimer(M, e) == IF M.tm[e] = "armed" THEN [M EXCEPT !.tm[e] = "stopped"] ELSE M

Mark(M, r) == [M EXCEPT !.rt = @ \cup {r}]
Panic(M, s) == [M EXCEPT !.pn = s, !.an = @ \cup {"panic"}, !.op.pc = "done", !.op.ret = "panic"]

(***************************************************************************)
(* Put, from the first eviction loop on (p.mu held)                        *)
(***************************************************************************)
PutPanic(M, s) == [Panic(M, s) EXCEPT !.cs[M.op.c].own = "gone"]

\* both loops are through: the entry is created and appended, its timer started
PutAppend(M) ==
  LET k == M.op.k
      e == M.op.e
      g == AppendL(M.ord, M.gn, M.gp, e)
      M1 == IF M.op.det
            THEN LET r == AppendL(M.op.ol, M.ln, M.lp, e)
                 IN Mark([M EXCEPT !.ln = r.nx, !.lp = r.pv, !.ord = g.L, !.gn = g.nx, !.gp = g.pv], "Orphan")
            ELSE LET r == AppendL(M.lk[k], M.ln, M.lp, e)
                 IN [M EXCEPT !.lk[k] = r.L, !.ln = r.nx, !.lp = r.pv, !.ord = g.L, !.gn = g.nx, !.gp = g.pv]
  IN [M1 EXCEPT !.cs[M.op.c].own = "pool", !.tm[e] = IF Expire THEN "armed" ELSE "none", !.op.pc = "done", !.op.ret = "cached"]

RECURSIVE PutLoops(_), PutClose(_, _), PutAfter(_)
\* the head of the eviction loop op.ph
PutLoops(M) ==
  LET k == M.op.k IN
  IF M.op.ph = "key"
  THEN IF KeyCapacity = 0 \/ M.lk[k].count < KeyCapacity THEN PutLoops([M EXCEPT !.op.ph = "cap"])
       ELSE IF M.lk[k].head = 0 THEN PutPanic(M, "Put: nil entry in the per-key eviction")
       ELSE PutClose(M, M.lk[k].head)
  ELSE IF Capacity = 0 \/ M.ord.count < Capacity THEN PutAppend(M)
       ELSE IF M.ord.head = 0 THEN PutPanic(M, "Put: nil entry in the global eviction")
       ELSE PutClose(M, M.ord.head)

\* p.closeEntry(ent): park in ent.val.Close() unless the timer can no longer be stopped
PutClose(M, e) ==
  LET M0 == [M EXCEPT !.op.cur = e, !.ub[e] = IF Fired(M.tm[e]) THEN "Evict" ELSE @]
  IN IF Stoppable(M0, e) THEN [StopTimer(M0, e) EXCEPT !.op.pc = "evict"]
     ELSE PutAfter(M0)

\* closeEntry has returned: unlink (and, in the global loop, drop an empty per-key list)
PutAfter(M) ==
  LET k == M.op.k
      e == M.op.cur
  IN IF M.op.ph = "key" THEN PutLoops(Unlink(M, k, e))
     ELSE LET k2 == ekey[e]
              isnil == IF k2 = k THEN M.op.det ELSE ~M.lk[k2].in    \* local := p.entries[ent.key]
          IN IF isnil THEN PutPanic(M, "Put: nil per-key list in the global eviction")
             ELSE LET M3 == Unlink(M, k2, e)
                      M4 == IF M3.lk[k2].count # 0 THEN M3
                            ELSE IF k2 = k     \* delete(p.entries, key) of the list Put itself still uses
                                 THEN IF FixOwnList THEN M3 ELSE
                                      [M3 EXCEPT !.op.det = TRUE, !.op.ol = M3.lk[k], !.lk[k] = AbsentList]
                                 ELSE [M3 EXCEPT !.lk[k2] = AbsentList]
                  IN PutLoops(M4)

(***************************************************************************)
(* Take, from the loop over the per-key list on (p.mu held)                *)
(***************************************************************************)
\* loop head: ent # nil, then park in ent.val.Unblocked()
TakeScan(M) ==
  IF M.op.cur = 0 THEN [M EXCEPT !.op.pc = "done", !.op.ret = 0]
  ELSE IF M.op.fuel = 0 THEN Panic(M, "Take: endless loop")
  ELSE [M EXCEPT !.op.pc = "unblocked", !.op.fuel = @ - 1]

\* continue: ent = ent.local.next (the pointer of the possibly unlinked entry, read now)
TakeNext(M) == TakeScan([M EXCEPT !.op.cur = M.ln[M.op.cur]])

\* ent.val.Unblocked() has returned: skip a blocked one, else unlink, stop the timer, park in ent.val.Closed()
TakeUnblocked(M) ==
  LET k == M.op.k
      e == M.op.cur
  IN IF M.cs[econn[e]].blocked THEN TakeNext(M)
     ELSE LET M0 == IF Fired(M.tm[e]) THEN [M EXCEPT !.ub[e] = "Take"] ELSE M
              M2 == Unlink(M0, k, e)
              stop == M2.tm[e] = "armed"
              M3 == IF stop THEN [M2 EXCEPT !.tm[e] = "stopped"] ELSE M2
          IN IF M.tm[e] # "none" /\ ~stop THEN TakeNext(M3)
             ELSE [M3 EXCEPT !.op.pc = "closed"]

\* ent.val.Closed() has returned
TakeClosed(M) ==
  LET c == econn[M.op.cur]
  IN IF M.cs[c].closed THEN TakeNext(M)
     ELSE [M EXCEPT !.op.pc = "done", !.op.ret = c, !.cs[c].own = "out",
                    !.an = IF M.cs[c].own # "pool" THEN @ \cup {"handedOutTwice"} ELSE @]

(***************************************************************************)
(* Close, from the loop over p.order on (p.mu held)                        *)
(***************************************************************************)
RECURSIVE CloseScan(_), CloseAfter(_)
CloseScan(M) ==
  LET e == M.op.cur
      reset == [M EXCEPT !.lk = [k \in Keys |-> AbsentList], !.ord = [head |-> 0, tail |-> 0, count |-> 0]]
  IN IF e = 0 THEN [reset EXCEPT !.op.pc = "done", !.op.ret = 0]
     ELSE IF M.op.fuel = 0 THEN Panic(reset, "Close: endless loop")
     ELSE IF Stoppable(M, e) THEN [StopTimer(M, e) EXCEPT !.op.pc = "closing", !.op.fuel = @ - 1]
     ELSE CloseAfter([M EXCEPT !.op.fuel = @ - 1])

\* closeEntry has returned: ent.gone = true; ent = ent.global.next
CloseAfter(M) ==
  LET e == M.op.cur
      M1 == IF FixUnlink THEN [M EXCEPT !.ul[e] = TRUE] ELSE M
  IN CloseScan([M1 EXCEPT !.op.cur = M.gn[e]])

(***************************************************************************)
(* the two grains                                                          *)
(***************************************************************************)
\* the user code at which the operation is parked returns; the operation runs to its next park or to its end
Resume(M) ==
  LET c == econn[M.op.cur] IN
  CASE M.op.pc = "unblocked" -> TakeUnblocked(M)
    [] M.op.pc = "closed"    -> TakeClosed(M)
    [] M.op.pc = "evict"     -> PutAfter(PoolCloses(M, c))
    [] M.op.pc = "closing"   -> CloseAfter(PoolCloses(M, c))

RECURSIVE Run(_)
Run(M) == IF M.op.pc = "done" THEN M ELSE Run(Resume(M))

\* Fine: stop at the first park; otherwise the critical section is one action
Go(M) == IF Fine THEN M ELSE Run(M)

(***************************************************************************)
(* the property, evaluated on a machine state                              *)
(***************************************************************************)
Bounds(M) ==
  LET ol == WLen(M.ord, M.gn)
      kl == [k \in Keys |-> IF M.lk[k].in THEN WLen(M.lk[k], M.ln) ELSE 0]
  IN (IF Capacity < 0 \/ KeyCapacity < 0
        THEN (IF ol # 0 \/ \E k \in Keys : kl[k] # 0 THEN {"cachedWithNegativeCapacity"} ELSE {})
        ELSE {})
     \cup (IF Capacity > 0 /\ (ol > Capacity \/ ol = -1) THEN {"capacityExceeded"} ELSE {})
     \cup (IF KeyCapacity > 0 /\ \E k \in Keys : (kl[k] > KeyCapacity \/ kl[k] = -1) THEN {"keyCapacityExceeded"} ELSE {})

Pending == \E e \in 1..n : tm[e] \in {"armed", "firedClosing", "firedRemoving"}

PcName(pc) == CASE pc = "unblocked" -> "Unblocked" [] pc = "closed" -> "Closed" [] pc = "evict" -> "Close" [] pc = "closing" -> "Close" [] OTHER -> ""

\* M.op is what the operation holding the lock looks like after the step (NoOp if none)
Install(M, lbl) ==
  /\ ord' = M.ord /\ lst' = M.lk /\ gn' = M.gn /\ gp' = M.gp /\ ln' = M.ln /\ lp' = M.lp
  /\ ul' = M.ul /\ ub' = M.ub /\ tm' = M.tm /\ cs' = M.cs /\ pn' = M.pn /\ route' = M.rt
  /\ op' = M.op
  /\ anom' = M.an \cup Bounds(M)
  /\ last' = lbl
  /\ hist' = IF Hist
             THEN Append(hist, <<lbl.a, lbl.k, lbl.c, lbl.e, lbl.r,
                                 M.ord.count, WLen(M.ord, M.gn),
                                 [k \in Keys |-> M.lk[k].in],
                                 [k \in Keys |-> M.lk[k].count],
                                 [k \in Keys |-> IF M.lk[k].in THEN WLen(M.lk[k], M.ln) ELSE 0],
                                 [c \in Conns |-> M.cs[c].calls],
                                 M.tm, M.pn, M.rt, M.an \cup Bounds(M),
                                 \* the operation holding p.mu after the step, the user code it is in, and on which connection
                                 IF M.op.a = "" THEN <<"", "", 0>> ELSE <<M.op.a, PcName(M.op.pc), econn[M.op.cur]>> >>)
             ELSE hist

\* fin: the operation that this step completes ("" if none)
Lbl(a, k, c, e, r) == [a |-> a, k |-> k, c |-> c, e |-> e, r |-> r, fin |-> ""]

\* the step of an operation ends at a park (the lock stays held) or at the end of the operation
Complete(M, lbl) ==
  LET done == M.op.pc = "done"
  IN /\ gen' = IF done /\ M.op.a = "PoolClose" THEN gen + 1 ELSE gen
     /\ Install([M EXCEPT !.op = IF done THEN NoOp ELSE @],
                [lbl EXCEPT !.r = IF done THEN M.op.ret ELSE "parked", !.fin = IF done THEN M.op.a ELSE ""])

Live == pn = ""
MaxGen == IF AfterClose THEN 2 ELSE 1
Open == gen = 0 \/ (AfterClose /\ gen < MaxGen)

\* the caller owns c: a fresh connection (the lowest unused one: they are interchangeable) or one Take handed out
Puttable(c) == \/ cs[c].own = "out"
               \/ cs[c].own = "fresh" /\ \A d \in Conns : d < c => cs[d].own # "fresh"

\* keys are interchangeable until one is used: the first call uses the smallest
FirstKey(k) == (puts = 0 /\ takes = 0) => \A j \in Keys : k <= j

Put(k, c) ==
  /\ Live /\ Open /\ Free /\ puts < MaxPuts /\ Puttable(c) /\ FirstKey(k)
  /\ puts' = puts + 1
  /\ UNCHANGED <<takes, envn>>
  /\ IF Capacity < 0 \/ KeyCapacity < 0
       THEN /\ Install([PoolCloses(Mk, c) EXCEPT !.cs[c].own = "gone"], [Lbl("Put", k, c, 0, "closed") EXCEPT !.fin = "Put"])
            /\ UNCHANGED <<n, ekey, econn, egen, gen>>
     ELSE IF cs[c].closed
       THEN /\ Install([Mk EXCEPT !.cs[c].own = "gone"], [Lbl("Put", k, c, 0, "dropped") EXCEPT !.fin = "Put"])
            /\ UNCHANGED <<n, ekey, econn, egen, gen>>
     ELSE LET e == n + 1     \* p.mu.Lock(); local := p.entries[key], created and registered if nil
              M == [Mk EXCEPT !.lk[k] = IF lst[k].in THEN lst[k] ELSE EmptyList,
                              !.op = [NoOp EXCEPT !.a = "Put", !.k = k, !.c = c, !.e = e, !.ph = "key"]]
          IN /\ n' = e
             /\ ekey' = [ekey EXCEPT ![e] = k] /\ econn' = [econn EXCEPT ![e] = c] /\ egen' = [egen EXCEPT ![e] = gen]
             /\ Complete(Go(PutLoops(M)), Lbl("Put", k, c, e, 0))

Take(k) ==
  /\ Live /\ Open /\ Free /\ takes < MaxTakes /\ FirstKey(k)
  /\ takes' = takes + 1
  /\ UNCHANGED <<n, ekey, econn, egen, puts, envn>>
  /\ IF ~lst[k].in THEN UNCHANGED gen /\ Install(Mk, [Lbl("Take", k, 0, 0, 0) EXCEPT !.fin = "Take"])
     ELSE LET M == Go(TakeScan([Mk EXCEPT !.op = [NoOp EXCEPT !.a = "Take", !.k = k, !.cur = lst[k].head, !.fuel = MaxPuts + 1]]))
          IN Complete(M, Lbl("Take", k, IF M.op.pc = "done" /\ M.pn = "" THEN M.op.ret ELSE 0, 0, 0))

PoolClose ==
  /\ Live /\ Free /\ gen < MaxGen
  /\ UNCHANGED <<n, ekey, econn, egen, puts, takes, envn>>
  /\ LET M == Go(CloseScan([Mk EXCEPT !.op = [NoOp EXCEPT !.a = "PoolClose", !.cur = ord.head, !.fuel = MaxPuts + 1]]))
     IN Complete(M, Lbl("PoolClose", 0, 0, 0, 0))

\* Fine: the user code the operation is parked in returns
Return ==
  /\ Live /\ ~Free
  /\ UNCHANGED <<n, ekey, econn, egen, puts, takes, envn>>
  /\ Complete(Resume(Mk), Lbl("Return", op.k, econn[op.cur], op.cur, 0))

\* after the last Pool.Close nothing but the call-backs runs, and they no longer interact
\* (p.entries stays empty): only the oldest unfinished one steps
Turn(e) == gen = MaxGen => \A f \in 1..(e - 1) : tm[f] \notin {"armed", "firedClosing", "firedRemoving"}

\* all timers share one duration: they fire in put order.  A timer does not wait for p.mu.
TimerFire(e) ==
  /\ Live /\ e <= n /\ tm[e] = "armed" /\ \A f \in 1..(e - 1) : tm[f] # "armed" /\ Turn(e)
  /\ UNCHANGED <<n, ekey, econn, egen, gen, puts, takes, envn>>
  /\ Install([Mk EXCEPT !.tm[e] = "firedClosing"], Lbl("TimerFire", 0, econn[e], e, 0))

\* nor does the call-back's val.Close()
ExpiryClose(e) ==
  /\ Live /\ e <= n /\ tm[e] = "firedClosing" /\ Turn(e)
  /\ UNCHANGED <<n, ekey, econn, egen, gen, puts, takes, envn>>
  /\ Install([PoolCloses(Mk, econn[e]) EXCEPT !.tm[e] = "firedRemoving"], Lbl("ExpiryClose", 0, econn[e], e, 0))

\* removeEntry takes p.mu: it waits while an operation holds it
ExpiryRemove(e) ==
  /\ Live /\ Free /\ e <= n /\ tm[e] = "firedRemoving" /\ Turn(e)
  /\ UNCHANGED <<n, ekey, econn, egen, gen, puts, takes, envn>>
  /\ LET k == ekey[e]
         M0 == [Mk EXCEPT !.tm[e] = "done"]
     IN IF FixUnlink /\ ul[e] THEN Install(M0, Lbl("ExpiryRemove", k, econn[e], e, "gone"))
        ELSE IF ~lst[k].in THEN Install(M0, Lbl("ExpiryRemove", k, econn[e], e, "nolist"))
        ELSE LET M1 == IF egen[e] < gen THEN Mark(M0, "AfterClose")
                       ELSE IF ub[e] = "Take" THEN Mark(M0, "TakeFired")
                       ELSE IF ub[e] = "Evict" THEN Mark(M0, "EvictFired")
                       ELSE M0
                 M2 == Unlink(M1, k, e)
                 M3 == IF M2.lk[k].count = 0 THEN [M2 EXCEPT !.lk[k] = AbsentList] ELSE M2
             IN Install(M3, Lbl("ExpiryRemove", k, econn[e], e, "removed"))

\* environment (between the pool's critical sections)
EnvOK(c) == Live /\ Open /\ Free /\ envn < MaxEnv /\ (cs[c].own = "pool" \/ Puttable(c))
Env(c, a, f) ==
  /\ EnvOK(c)
  /\ envn' = envn + 1
  /\ UNCHANGED <<n, ekey, econn, egen, gen, puts, takes>>
  /\ Install([Mk EXCEPT !.cs[c] = f], Lbl(a, 0, c, 0, 0))
ConnClose(c) == ~cs[c].closed /\ Env(c, "ConnClose", [cs[c] EXCEPT !.closed = TRUE])
Block(c)     == ~cs[c].blocked /\ ~cs[c].closed /\ cs[c].own # "pool" /\ Env(c, "Block", [cs[c] EXCEPT !.blocked = TRUE])
Unblock(c)   == cs[c].blocked /\ Env(c, "Unblock", [cs[c] EXCEPT !.blocked = FALSE])

Init ==
  /\ cf \in [cap : Caps, kcap : KeyCaps, exp : Exps]
  /\ n = 0
  /\ ekey = [e \in Ents |-> 0] /\ econn = [e \in Ents |-> 0] /\ egen = [e \in Ents |-> 0]
  /\ gn = [e \in Ents |-> 0] /\ gp = [e \in Ents |-> 0] /\ ln = [e \in Ents |-> 0] /\ lp = [e \in Ents |-> 0]
  /\ tm = [e \in Ents |-> "none"] /\ ub = [e \in Ents |-> ""] /\ ul = [e \in Ents |-> FALSE]
  /\ ord = [head |-> 0, tail |-> 0, count |-> 0]
  /\ lst = [k \in Keys |-> AbsentList]
  /\ cs = [c \in Conns |-> [closed |-> FALSE, blocked |-> FALSE, calls |-> 0, own |-> "fresh"]]
  /\ op = NoOp
  /\ gen = 0 /\ puts = 0 /\ takes = 0 /\ envn = 0
  /\ pn = "" /\ route = {} /\ anom = {}
  /\ last = Lbl("Init", 0, 0, 0, 0)
  /\ hist = <<>>

Next ==
  \/ \E k \in Keys, c \in Conns : Put(k, c)
  \/ \E k \in Keys : Take(k)
  \/ PoolClose
  \/ Return
  \/ \E e \in Ents : TimerFire(e) \/ ExpiryClose(e) \/ ExpiryRemove(e)
  \/ \E c \in Conns : ConnClose(c) \/ Block(c) \/ Unblock(c)

Spec == Init /\ [][Next /\ UNCHANGED cf]_vars

(***************************************************************************)
(* invariants                                                              *)
(***************************************************************************)
TypeOK ==
  /\ n \in 0..MaxPuts /\ ord.count \in -(2 * MaxPuts)..MaxPuts
  /\ \A e \in Ents : gn[e] \in 0..MaxPuts /\ gp[e] \in 0..MaxPuts /\ ln[e] \in 0..MaxPuts /\ lp[e] \in 0..MaxPuts
  /\ \A e \in Ents : tm[e] \in {"none", "armed", "firedClosing", "firedRemoving", "stopped", "done"}
  /\ \A c \in Conns : cs[c].own \in {"fresh", "pool", "out", "gone"}
  /\ op.a \in {"", "Put", "Take", "PoolClose"}
  /\ (Free \/ ~Live) => op = NoOp
  /\ ~Fine => Free
  /\ ~Free => /\ op.cur \in 1..n
              /\ op.pc \in (CASE op.a = "Put" -> {"evict"} [] op.a = "Take" -> {"unblocked", "closed"} [] OTHER -> {"closing"})

Terminal == ~Live \/ (gen = MaxGen /\ ~Pending)

\* at quiescence after Pool.Close with every call-back done: what the pool still owns is closed
Leaked == {c \in Conns : cs[c].own = "pool" /\ ~cs[c].closed}
FinalAnom == IF Live /\ gen = MaxGen /\ ~Pending /\ Leaked # {} THEN {"neitherHandedOutNorClosed"} ELSE {}

\* the lists are consistent as long as none of the recorded routes was taken (between critical sections)
WSet(L, nx) == LET w == Walk(L, nx) IN {w[i] : i \in 1..Len(w)}
Consistent ==
  (route = {} /\ Free) =>
    LET go == WSet(ord, gn)
        lo == [k \in Keys |-> IF lst[k].in THEN WSet(lst[k], ln) ELSE {}]
    IN /\ ord.count = Cardinality(go) /\ -1 \notin go
       /\ \A k \in Keys : lst[k].count = Cardinality(lo[k]) /\ -1 \notin lo[k]
       /\ go = UNION {lo[k] : k \in Keys}
       /\ \A e \in go : /\ e \in lo[ekey[e]]
                         /\ tm[e] \in {"none", "armed", "firedClosing", "firedRemoving"}
                         /\ cs[econn[e]].own = "pool"
       \* what the pool owns and has not closed is cached or being expired
       /\ \A c \in Conns : (cs[c].own = "pool" /\ ~cs[c].closed /\ gen = 0) =>
              \E e \in 1..n : econn[e] = c /\ (e \in go \/ Fired(tm[e]))

\* inside a critical section (Fine): what the operation is about to hand to user code is what the code has there
Parked ==
  ~Free =>
    /\ op.pc = "unblocked" => (route = {} => Linked(lst[op.k], ln, op.cur))
    /\ op.pc \in {"closed", "evict", "closing"} => tm[op.cur] \in {"none", "stopped"}     \* nobody else will close it
    /\ op.pc \in {"evict", "closing"} => (route = {} => Linked(ord, gn, op.cur))

\* the property holds unless one of the recorded routes was taken
Safe == (anom \cup FinalAnom) # {} => route # {}

\* with both repairs no route exists, so Safe says the property holds outright
FixedClean == (FixUnlink /\ FixOwnList) => route = {}

\* what Take hands out is open, unblocked and not chosen for expiry (by construction of TakeClosed; kept as a check of the model)
TakeOK == (Live /\ last.fin = "Take" /\ last.r # 0) => /\ ~cs[last.r].closed /\ ~cs[last.r].blocked
                                               /\ \A e \in 1..n : econn[e] = last.r => ~Fired(tm[e])

\* the forward walks of Take and Close terminate (no cycle is ever built), so a replay cannot hang in them
NoEndlessLoop == pn \notin {"Take: endless loop", "Close: endless loop"}

EmitTerminal == (Hist /\ Terminal) =>
  PrintT("@@" \o ToJson([cap |-> Capacity, kcap |-> KeyCapacity, exp |-> Expire, fine |-> Fine, steps |-> hist,
                         term |-> TRUE, final |-> FinalAnom, leaked |-> Leaked]))

\* ACTION_CONSTRAINT: emit every transition TLC generates (also those into states already seen), as the
\* behaviour consisting of the history of its source state (with VIEW view: a shortest one) and the step
EmitEdge == Hist =>
  PrintT("@@" \o ToJson([cap |-> Capacity, kcap |-> KeyCapacity, exp |-> Expire, fine |-> Fine, steps |-> hist',
                         term |-> Terminal', final |-> FinalAnom', leaked |-> Leaked']))

\* scenario queries (TLC is asked to violate them)
NoAnomaly == anom = {}
=============================================================================
