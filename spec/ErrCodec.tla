------------------------------ MODULE ErrCodec ------------------------------
(***************************************************************************)
(* Reference description of how a handler error travels (drpcwire/error.go,*)
(* drpcerr/err.go) - codec part of C10 and of C13.                         *)
(*                                                                         *)
(*  error payload = code[8 bytes, big endian] ++ text                      *)
(*     code = drpcerr.Code(err), text = err.Error()          MarshalError  *)
(*     fewer than 8 bytes: code 0, text = bytes ++ Note    UnmarshalError  *)
(*     otherwise an error whose Error() is the text and whose code is the  *)
(*     8-byte number (WithCode: code 0 = no code attached)                 *)
(*                                                                         *)
(*  drpcerr.Code (doc: "the error code associated with the error or 0 if   *)
(*  none is"): look at the error; if it has Code() uint64, that is the     *)
(*  answer; otherwise follow Cause(), else Unwrap(), to the next error; an *)
(*  error with neither, a nil error, or an error that unwraps to itself    *)
(*  has code 0; at most Limit (= 100, the loop bound in err.go) errors are *)
(*  looked at, so the walk always terminates, also on cycles.              *)
(*  drpcerr.WithCode(err, c): err itself when err is nil or c = 0,         *)
(*  otherwise a wrapper with Code() = c, Error() = err.Error(), Unwrap()   *)
(*  and Cause() = err.                                                     *)
(*                                                                         *)
(* An error value is an abstract chain: nodes from the outermost to the    *)
(* innermost error, each [k, n, c]: kind, repeat count, code label.        *)
(*   P   plain error (errors.New): no Code/Cause/Unwrap; carries the text  *)
(*   WC  drpcerr.WithCode(inner, c)                                        *)
(*   HC  a type with Code() uint64 only, Error() of the inner error        *)
(*   F   fmt.Errorf("w: %w", inner): Unwrap(); text = "w: " ++ inner text  *)
(*   E   errs.Wrap(inner): Cause() and Unwrap(); same text                 *)
(*   C   a type with Cause() only; U a type with Unwrap() only; same text  *)
(*   UV  an Unwrap()-only error of a value type that cannot be compared   *)
(*       with == (it holds a slice); same text                             *)
(*   TN  a typed nil pointer whose Unwrap() returns nil                    *)
(* c = "X" is the enumerated code of the case, "7" the fixed code 7.       *)
(* tail says what the innermost wrapper leads to when the chain does not   *)
(* end in P / a code node: "nil" (Unwrap returns nil), "self" (returns     *)
(* itself), "cyc2" (returns the error before it).  Those are the hostile   *)
(* error values of C13: only the code lookup is demanded of them.          *)
(*                                                                         *)
(* 64-bit codes do not fit TLC integers: a code is four 16-bit limbs, most *)
(* significant first; BE gives its eight wire bytes.  A text is a sequence *)
(* of items: a byte, or -n standing for n bytes chosen by the harness.     *)
(*                                                                         *)
(* Mode "chain": for every Shape x Code x Msg the walk of Code is run one  *)
(* looked-at error per step, then Marshal, then Unmarshal; the terminal    *)
(* state prints the case with the (code, text) the peer must observe.      *)
(* Mode "short": every byte string over ShortBytes up to ShortMax handed   *)
(* to UnmarshalError, with the demanded (code, text).                      *)
(***************************************************************************)
EXTENDS Integers, Sequences, FiniteSets, TLC, Json

CONSTANTS
    Mode,        \* "chain" | "short"
    Shapes,      \* set of [name, nodes, tail]
    Codes,       \* set of [name, limbs]; limbs = <<>> for "no code attached"
    Msgs,        \* set of [cls, b]
    Limit,       \* errors looked at by Code (100)
    ShortBytes, ShortMax

VARIABLES cs, pc, cur, steps, found, payload, obs

vars == <<cs, pc, cur, steps, found, payload, obs>>

Zero == <<0, 0, 0, 0>>
Seven == <<0, 0, 0, 7>>

\* " (drpcwire note: invalid error data)"
Note == <<32, 40, 100, 114, 112, 99, 119, 105, 114, 101, 32, 110, 111, 116, 101, 58, 32, 105, 110, 118, 97, 108,
          105, 100, 32, 101, 114, 114, 111, 114, 32, 100, 97, 116, 97, 41>>
WPrefix == <<119, 58, 32>>     \* "w: "

ItemLen(x) == IF x < 0 THEN -x ELSE 1
RECURSIVE SeqLen(_)
SeqLen(s) == IF s = <<>> THEN 0 ELSE ItemLen(Head(s)) + SeqLen(Tail(s))

BE(l) == <<l[1] \div 256, l[1] % 256, l[2] \div 256, l[2] % 256, l[3] \div 256, l[3] % 256, l[4] \div 256, l[4] % 256>>
FromBE(b) == <<256 * b[1] + b[2], 256 * b[3] + b[4], 256 * b[5] + b[6], 256 * b[7] + b[8]>>

(* ---------------------------------------------------------------------- *)
(* the error value                                                         *)
(* ---------------------------------------------------------------------- *)

Resolve(c, x) == IF c = "X" THEN x.limbs ELSE IF c = "7" THEN Seven ELSE <<>>

\* nodes with their codes filled in; WithCode(e, none | 0) is e itself, HC without a code is not built
RECURSIVE RNodes(_, _)
RNodes(nodes, x) ==
    IF nodes = <<>> THEN <<>>
    ELSE LET h == Head(nodes) code == Resolve(h.c, x) rest == RNodes(Tail(nodes), x) IN
         IF h.k = "WC" /\ (code = <<>> \/ code = Zero) THEN rest
         ELSE IF h.k = "HC" /\ code = <<>> THEN rest
         ELSE <<[k |-> h.k, n |-> h.n, c |-> code]>> \o rest

RECURSIVE Flat(_)
Flat(rn) == IF rn = <<>> THEN <<>>
            ELSE [i \in 1..Head(rn).n |-> [k |-> Head(rn).k, c |-> Head(rn).c]] \o Flat(Tail(rn))

\* Error() of the outermost error
RECURSIVE Text(_, _)
Text(flat, base) == IF flat = <<>> THEN base
                    ELSE IF Head(flat).k = "F" THEN WPrefix \o Text(Tail(flat), base)
                    ELSE Text(Tail(flat), base)

HasCode(nd) == nd.k \in {"WC", "HC"}

\* where the error at position i leads (0 = nil)
NextOf(flat, tail, i) ==
    IF i < Len(flat) THEN i + 1
    ELSE CASE tail = "self" -> i
           [] tail = "cyc2" -> IF i > 1 THEN i - 1 ELSE i
           [] OTHER         -> 0

\* declarative meaning of Code: the outermost error that carries a code, if it is among the first Limit
FirstCode(flat) ==
    LET I == {i \in 1..Len(flat) : HasCode(flat[i])} IN
    IF I = {} THEN Zero
    ELSE LET i == CHOOSE j \in I : \A k \in I : j <= k IN IF i <= Limit THEN flat[i].c ELSE Zero

(* ---------------------------------------------------------------------- *)
(* the payload                                                             *)
(* ---------------------------------------------------------------------- *)

Mar(code, text) == BE(code) \o text

Unm(d) == IF SeqLen(d) < 8 THEN [code |-> Zero, msg |-> d \o Note]
          ELSE [code |-> FromBE(SubSeq(d, 1, 8)), msg |-> SubSeq(d, 9, Len(d))]

(* ---------------------------------------------------------------------- *)
(* behaviours                                                              *)
(* ---------------------------------------------------------------------- *)

HasX(sh) == \E i \in 1..Len(sh.nodes) : sh.nodes[i].c = "X"
NoObs == [code |-> Zero, msg |-> <<>>]

Init ==
    \/ /\ Mode = "chain"
       /\ \E sh \in Shapes, x \in Codes, m \in Msgs :
            /\ HasX(sh) \/ x.name = "none"                 \* shapes without a placeholder do not depend on the code
            /\ sh.tail = "end" \/ m.cls = "one"            \* the text of a hostile chain is never asked for
            /\ LET rn == RNodes(sh.nodes, x) fl == Flat(rn) IN
               cs = [shape |-> sh.name, tail |-> sh.tail, code |-> x.name, msgcls |-> m.cls,
                     nodes |-> rn, flat |-> fl, base |-> m.b, text |-> Text(fl, m.b)]
       /\ pc = "walk" /\ cur = 1 /\ steps = 0 /\ found = Zero /\ payload = <<>> /\ obs = NoObs
    \/ /\ Mode = "short"
       /\ cs = [shape |-> "short", tail |-> "end", code |-> "none", msgcls |-> "short",
                nodes |-> <<>>, flat |-> <<>>, base |-> <<>>, text |-> <<>>]
       /\ pc = "done" /\ cur = 0 /\ steps = 0 /\ found = Zero /\ payload = <<>> /\ obs = Unm(<<>>)

Finish(c) == /\ found' = c
             /\ IF cs.tail = "end" THEN pc' = "marshal" /\ obs' = obs
                ELSE pc' = "done" /\ obs' = [code |-> c, msg |-> <<>>]
             /\ UNCHANGED <<cs, cur, steps, payload>>

\* one iteration of the lookup: look at one error
Look == /\ pc = "walk"
        /\ IF steps = Limit THEN Finish(Zero)
           ELSE IF cur = 0 THEN Finish(Zero)
           ELSE IF HasCode(cs.flat[cur]) THEN Finish(cs.flat[cur].c)
           ELSE IF cs.flat[cur].k = "P" THEN Finish(Zero)
           ELSE LET nx == NextOf(cs.flat, cs.tail, cur) IN
                IF nx = cur THEN Finish(Zero)
                ELSE cur' = nx /\ steps' = steps + 1 /\ UNCHANGED <<cs, pc, found, payload, obs>>

Marshal == /\ pc = "marshal"
           /\ payload' = Mar(found, cs.text)
           /\ pc' = "unmarshal"
           /\ UNCHANGED <<cs, cur, steps, found, obs>>

Unmarshal == /\ pc = "unmarshal"
             /\ obs' = Unm(payload)
             /\ pc' = "done"
             /\ UNCHANGED <<cs, cur, steps, found, payload>>

AddByte == /\ Mode = "short" /\ Len(payload) < ShortMax
           /\ \E b \in ShortBytes : payload' = Append(payload, b) /\ obs' = Unm(payload')
           /\ UNCHANGED <<cs, pc, cur, steps, found>>

Next == Look \/ Marshal \/ Unmarshal \/ AddByte

Spec == Init /\ [][Next]_vars

(* ---------------------------------------------------------------------- *)
(* properties of the description itself                                    *)
(* ---------------------------------------------------------------------- *)

TypeOK == /\ pc \in {"walk", "marshal", "unmarshal", "done"}
          /\ cur \in 0..Len(cs.flat) /\ steps \in 0..Limit
          /\ Len(found) = 4 /\ \A i \in 1..4 : found[i] \in 0..65535

\* the lookup looks at no more than Limit errors, whatever the chain leads to
Terminates == steps <= Limit /\ (pc = "walk" => steps = cur - 1 \/ cs.tail = "cyc2" \/ cur = 0)

\* the iterative lookup finds the code of the outermost error carrying one
CodeIsFirst == pc # "walk" => found = FirstCode(cs.flat)

\* WithCode never attaches code 0
NoZeroWithCode == \A i \in 1..Len(cs.nodes) : cs.nodes[i].k = "WC" => cs.nodes[i].c # Zero

\* layout: eight code bytes, most significant first, then exactly the text
Layout == (Mode = "chain" /\ pc \in {"unmarshal", "done"} /\ cs.tail = "end") =>
    /\ SeqLen(payload) = 8 + SeqLen(cs.text)
    /\ SubSeq(payload, 1, 8) = BE(found)
    /\ SubSeq(payload, 9, Len(payload)) = cs.text
    /\ (found = <<0, 0, 0, 12>> => SubSeq(payload, 1, 8) = <<0, 0, 0, 0, 0, 0, 0, 12>>)

\* C10 (codec part): code and text reach the peer intact, never the note
Intact == (Mode = "chain" /\ pc = "done" /\ cs.tail = "end") =>
    /\ obs.code = FirstCode(cs.flat)
    /\ obs.msg = cs.text

\* hostile chains have code 0 unless a code is met before the tail
HostileZero == (Mode = "chain" /\ pc = "done" /\ cs.tail # "end") => obs.code = FirstCode(cs.flat)

\* short data: the rule itself, and it is total
ShortRule == Mode = "short" =>
    /\ Len(payload) < 8 => obs.code = Zero /\ Len(obs.msg) = Len(payload) + Len(Note)
    /\ Len(payload) >= 8 => Len(obs.msg) = Len(payload) - 8 /\ BE(obs.code) = SubSeq(payload, 1, 8)

\* one oracle record per terminal state (every state in short mode)
Emit == pc = "done" =>
    PrintT("@@" \o ToJson([mode |-> Mode, shape |-> cs.shape, tail |-> cs.tail, code |-> cs.code, msgcls |-> cs.msgcls,
                           nodes |-> cs.nodes, base |-> cs.base, text |-> cs.text,
                           found |-> found, payload |-> payload, obs |-> obs, steps |-> steps]))

(* ---------------------------------------------------------------------- *)
(* the enumerated spaces                                                   *)
(* ---------------------------------------------------------------------- *)

N(k, n, c) == [k |-> k, n |-> n, c |-> c]
P == N("P", 1, "")
Sh(name, nodes, tail) == [name |-> name, nodes |-> nodes, tail |-> tail]

StdCodes == {[name |-> "none", limbs |-> <<>>], [name |-> "0", limbs |-> Zero], [name |-> "1", limbs |-> <<0, 0, 0, 1>>],
             [name |-> "12", limbs |-> <<0, 0, 0, 12>>], [name |-> "2^32", limbs |-> <<0, 1, 0, 0>>],
             [name |-> "2^63", limbs |-> <<32768, 0, 0, 0>>], [name |-> "2^64-1", limbs |-> <<65535, 65535, 65535, 65535>>],
             [name |-> "0x0102030405060708", limbs |-> <<258, 772, 1286, 1800>>]}

StdMsgs == {[cls |-> "empty", b |-> <<>>], [cls |-> "one", b |-> <<120>>], [cls |-> "long", b |-> <<-70000>>],
            [cls |-> "badutf8", b |-> <<255, 254, 128, 97>>], [cls |-> "fmt-s", b |-> <<37, 115>>],
            [cls |-> "percent", b |-> <<49, 48, 48, 37>>], [cls |-> "nul", b |-> <<97, 0, 98>>],
            [cls |-> "crlf", b |-> <<97, 13, 10, 98>>], [cls |-> "seven", b |-> <<1, 2, 3, 4, 5, 6, 7>>],
            [cls |-> "note", b |-> Note]}

\* chains that end in a plain error: C10
EndShapes == {
    Sh("P", <<P>>, "end"),
    Sh("WC-P", <<N("WC", 1, "X"), P>>, "end"),
    Sh("HC-P", <<N("HC", 1, "X"), P>>, "end"),
    Sh("F-WC-P", <<N("F", 1, ""), N("WC", 1, "X"), P>>, "end"),
    Sh("E-WC-P", <<N("E", 1, ""), N("WC", 1, "X"), P>>, "end"),
    Sh("C-WC-P", <<N("C", 1, ""), N("WC", 1, "X"), P>>, "end"),
    Sh("U-WC-P", <<N("U", 1, ""), N("WC", 1, "X"), P>>, "end"),
    Sh("E-HC-P", <<N("E", 1, ""), N("HC", 1, "X"), P>>, "end"),
    Sh("F5-WC-P", <<N("F", 5, ""), N("WC", 1, "X"), P>>, "end"),
    Sh("F50-WC-P", <<N("F", 50, ""), N("WC", 1, "X"), P>>, "end"),
    Sh("U99-WC-P", <<N("U", 99, ""), N("WC", 1, "X"), P>>, "end"),
    Sh("U100-WC-P", <<N("U", 100, ""), N("WC", 1, "X"), P>>, "end"),
    Sh("C150-HC-P", <<N("C", 150, ""), N("HC", 1, "X"), P>>, "end"),
    Sh("WC-F-P", <<N("WC", 1, "X"), N("F", 1, ""), P>>, "end"),
    Sh("WC-E-P", <<N("WC", 1, "X"), N("E", 1, ""), P>>, "end"),
    Sh("UV-WC-P", <<N("UV", 1, ""), N("WC", 1, "X"), P>>, "end"),
    Sh("UV3-P", <<N("UV", 3, ""), P>>, "end"),
    Sh("F-E-C-U-HC-P", <<N("F", 1, ""), N("E", 1, ""), N("C", 1, ""), N("U", 1, ""), N("HC", 1, "X"), P>>, "end"),
    Sh("WC-F-WC7-P", <<N("WC", 1, "X"), N("F", 1, ""), N("WC", 1, "7"), P>>, "end"),
    Sh("F-HC-U-WC7-P", <<N("F", 1, ""), N("HC", 1, "X"), N("U", 1, ""), N("WC", 1, "7"), P>>, "end"),
    Sh("WC7-F-WC-P", <<N("WC", 1, "7"), N("F", 1, ""), N("WC", 1, "X"), P>>, "end"),
    Sh("WC-WC7-P", <<N("WC", 1, "X"), N("WC", 1, "7"), P>>, "end"),
    Sh("F-P", <<N("F", 1, ""), P>>, "end"),
    Sh("E-P", <<N("E", 1, ""), P>>, "end"),
    Sh("C5-P", <<N("C", 5, ""), P>>, "end"),
    Sh("U150-P", <<N("U", 150, ""), P>>, "end") }

\* chains that lead to nil, to themselves, round a 2-cycle, to a typed nil pointer: C13
HostileShapes == {
    Sh("U-nil", <<N("U", 1, "")>>, "nil"),
    Sh("C-nil", <<N("C", 1, "")>>, "nil"),
    Sh("U3-nil", <<N("U", 3, "")>>, "nil"),
    Sh("F-E-C-nil", <<N("F", 1, ""), N("E", 1, ""), N("C", 1, "")>>, "nil"),
    Sh("UV-nil", <<N("UV", 1, "")>>, "nil"),
    Sh("UV2-U-self", <<N("UV", 2, ""), N("U", 1, "")>>, "self"),
    Sh("U-self", <<N("U", 1, "")>>, "self"),
    Sh("C-self", <<N("C", 1, "")>>, "self"),
    Sh("F-U-self", <<N("F", 1, ""), N("U", 1, "")>>, "self"),
    Sh("U-U-cyc2", <<N("U", 2, "")>>, "cyc2"),
    Sh("C-U-cyc2", <<N("C", 1, ""), N("U", 1, "")>>, "cyc2"),
    Sh("F-C-C-cyc2", <<N("F", 1, ""), N("C", 2, "")>>, "cyc2"),
    Sh("TN", <<N("TN", 1, "")>>, "nil"),
    Sh("U-TN", <<N("U", 1, ""), N("TN", 1, "")>>, "nil"),
    Sh("F-C-TN", <<N("F", 1, ""), N("C", 1, ""), N("TN", 1, "")>>, "nil"),
    Sh("U150-nil", <<N("U", 150, "")>>, "nil"),
    Sh("U150-self", <<N("U", 150, "")>>, "self"),
    Sh("C120-cyc2", <<N("C", 120, "")>>, "cyc2"),
    Sh("WC-U-self", <<N("WC", 1, "X"), N("U", 1, "")>>, "self"),
    Sh("U-WC-C-cyc2", <<N("U", 1, ""), N("WC", 1, "X"), N("C", 2, "")>>, "cyc2"),
    Sh("U-HC-nil", <<N("U", 1, ""), N("HC", 1, "X"), N("U", 1, "")>>, "nil") }

=============================================================================
