------------------------------- MODULE Stream -------------------------------
(***************************************************************************)
(* The single-stream world: one drpcstream.Stream over a drpcwire.Writer on *)
(* a gated transport, driven by a few application threads and (at most one  *)
(* at a time) a packet-delivering thread, as the C03 harness builds it.     *)
(*                                                                         *)
(* Controllable actions (stimuli of the director):                          *)
(*   Start(t, name)   thread t begins the call `name`                       *)
(*   RelW(how)        the parked transport Write returns ok / an error      *)
(*   RelU             the user's Unmarshal returns                          *)
(* Everything else is an internal step of some goroutine (StreamCore!Do).   *)
(***************************************************************************)
EXTENDS StreamCore, Json

CONSTANTS Threads,      \* thread ids (strings)
          OpNames,      \* subset of the operation alphabet that may be started
          MaxStarts,    \* bound on the number of Start stimuli
          Small,        \* writer buffer smaller than a frame (every frame is a transport write)
          Manual,       \* Options.ManualFlush
          Gen           \* TRUE: only realisable behaviours (a stimulus is applied only at quiescence) + history

VARIABLES str, thr, wr, wire, wmark, nstart, lateEmit, stims

vars == <<str, thr, wr, wire, wmark, nstart, lateEmit, stims>>
view == <<str, thr, wr, wire, wmark, nstart, lateEmit>>

AllOps == {"MsgSend1", "MsgSend2", "RawWrite1", "RawFlush", "MsgRecv", "RawRecv", "CloseSend", "Close", "SendError",
           "CancelC", "CancelD", "SendCancel",
           "PMsg", "PCloseSend", "PClose", "PError", "PErrorShort", "PCancel", "PInvoke", "PMeta", "PUnk", "PUnkCtl", "PForeign"}

IsPacketOp(n) == n \in {"PMsg", "PCloseSend", "PClose", "PError", "PErrorShort", "PCancel", "PInvoke", "PMeta", "PUnk", "PUnkCtl", "PForeign"}

\* name -> <<method, argument>>
OpOf(n, tag) ==
  CASE n = "MsgSend1"   -> <<"MsgSend", [kind |-> "Message", nfr |-> 1, tag |-> tag]>>
    [] n = "MsgSend2"   -> <<"MsgSend", [kind |-> "Message", nfr |-> 2, tag |-> tag]>>
    [] n = "RawWrite1"  -> <<"RawWrite", [kind |-> "Invoke", nfr |-> 1, tag |-> tag]>>
    [] n = "RawFlush"   -> <<"RawFlush", NONE>>
    [] n = "MsgRecv"    -> <<"MsgRecv", NONE>>
    [] n = "RawRecv"    -> <<"RawRecv", NONE>>
    [] n = "CloseSend"  -> <<"CloseSend", NONE>>
    [] n = "Close"      -> <<"Close", NONE>>
    [] n = "SendError"  -> <<"SendError", [tag |-> tag, gate |-> FALSE]>>
    [] n = "CancelC"    -> <<"Cancel", [err |-> "Canceled"]>>
    [] n = "CancelD"    -> <<"Cancel", [err |-> "Deadline"]>>
    [] n = "SendCancel" -> <<"SendCancel", [err |-> "Canceled"]>>
    [] n = "PMsg"       -> <<"HandlePacket", [kind |-> "Message", ctl |-> FALSE, tag |-> tag, foreign |-> FALSE]>>
    [] n = "PCloseSend" -> <<"HandlePacket", [kind |-> "CloseSend", ctl |-> FALSE, tag |-> tag, foreign |-> FALSE]>>
    [] n = "PClose"     -> <<"HandlePacket", [kind |-> "Close", ctl |-> FALSE, tag |-> tag, foreign |-> FALSE]>>
    [] n = "PError"     -> <<"HandlePacket", [kind |-> "Error", ctl |-> FALSE, tag |-> tag, foreign |-> FALSE]>>
    [] n = "PErrorShort" -> <<"HandlePacket", [kind |-> "Error", ctl |-> FALSE, tag |-> "short", foreign |-> FALSE]>>
    [] n = "PCancel"    -> <<"HandlePacket", [kind |-> "Cancel", ctl |-> TRUE, tag |-> tag, foreign |-> FALSE]>>
    [] n = "PInvoke"    -> <<"HandlePacket", [kind |-> "Invoke", ctl |-> FALSE, tag |-> tag, foreign |-> FALSE]>>
    [] n = "PMeta"      -> <<"HandlePacket", [kind |-> "InvokeMetadata", ctl |-> FALSE, tag |-> tag, foreign |-> FALSE]>>
    [] n = "PUnk"       -> <<"HandlePacket", [kind |-> "Unknown", ctl |-> FALSE, tag |-> tag, foreign |-> FALSE]>>
    [] n = "PUnkCtl"    -> <<"HandlePacket", [kind |-> "Unknown", ctl |-> TRUE, tag |-> tag, foreign |-> FALSE]>>
    [] n = "PForeign"   -> <<"HandlePacket", [kind |-> "Close", ctl |-> FALSE, tag |-> tag, foreign |-> TRUE]>>

Init == /\ str = NewStream(1)
        /\ thr = [t \in Threads |-> Idle @@ [name |-> NONE, late |-> FALSE]]
        /\ wr = NewWriter(Small)
        /\ wire = <<>> /\ wmark = 0 /\ nstart = 0 /\ lateEmit = FALSE /\ stims = <<>>

Busy(t) == thr[t].pc \notin {"idle", "ret"}

(* ------------------------------ stimuli ---------------------------------- *)
Start(t, n) ==
    /\ ~Busy(t) /\ nstart < MaxStarts
    /\ IsPacketOp(n) => ~\E u \in Threads : Busy(u) /\ thr[u].op = "HandlePacket"   \* one reader goroutine
    /\ LET o == OpOf(n, ToString(nstart + 1)) IN
       thr' = [thr EXCEPT ![t] = StartThread(o[1], o[2]) @@ [name |-> n, late |-> str.sig.term # U]]
    /\ nstart' = nstart + 1 /\ wmark' = Len(wire)
    /\ stims' = IF Gen THEN Append(stims, [k |-> "start", t |-> t, op |-> n]) ELSE stims
    /\ UNCHANGED <<str, wr, wire, lateEmit>>

RelW(how) ==
    /\ \E t \in Threads : thr[t].pc = "tw" /\
         LET p == TWDone(thr[t], wr, how) IN thr' = [thr EXCEPT ![t] = p[1]] /\ wr' = p[2]
    /\ wmark' = Len(wire)
    /\ stims' = IF Gen THEN Append(stims, [k |-> "relw", how |-> how]) ELSE stims
    /\ UNCHANGED <<str, wire, nstart, lateEmit>>

RelU ==
    /\ \E t \in Threads : thr[t].pc = "um" /\ thr' = [thr EXCEPT ![t] = UMDone(thr[t])]
    /\ wmark' = Len(wire)
    /\ stims' = IF Gen THEN Append(stims, [k |-> "relu"]) ELSE stims
    /\ UNCHANGED <<str, wr, wire, nstart, lateEmit>>

Controllable == \/ \E t \in Threads, n \in OpNames : Start(t, n)
                \/ \E how \in {"ok", "err"} : RelW(how)
                \/ RelU

(* --------------------------- internal steps ------------------------------ *)
CanStep(t) == En(str, thr[t], wr)

Step(t) ==
    /\ CanStep(t)
    /\ LET r == Do(str, thr[t], wr, t, Manual) IN
       /\ str' = r.s /\ wr' = r.w
       /\ thr' = [thr EXCEPT ![t] = r.th]
       /\ IF r.th.pc = "tw"     \* a transport write has begun: log the frames handed over
            THEN /\ wire' = Append(wire, r.w.out)
                 /\ lateEmit' = (lateEmit \/ thr[t].late)
            ELSE UNCHANGED <<wire, lateEmit>>
    /\ UNCHANGED <<wmark, nstart, stims>>

Internal == \E t \in Threads : Step(t)
Quiescent == \A t \in Threads : ~CanStep(t)

Next == IF Gen THEN Internal \/ (Quiescent /\ Controllable) ELSE Internal \/ Controllable
Spec == Init /\ [][Next]_vars

\* Progress, as temporal properties: with goroutines that keep running (weak fairness of their steps), a transport
\* that completes every write and user code that returns, every call returns -- except a receive that waits for
\* a message on a stream that is still open, and the reader's delivery that waits for a receiver (flow control).
LiveSpec == Init /\ [][Next]_vars /\ WF_vars(Internal) /\ WF_vars(RelW("ok")) /\ WF_vars(RelU)
WaitsForPeer(t) == /\ str.sig.term = U
                   /\ \/ thr[t].pc \in {"mr.get", "hp.put1", "hp.put3"}
                      \/ thr[t].pc = "mr.rlock" /\ \E u \in Threads : thr[u].pc = "mr.get"    \* queued behind a receive that waits
CallsReturn == \A t \in Threads : [](Busy(t) => <>(~Busy(t) \/ WaitsForPeer(t)))

(* ----------------------------- observation ------------------------------- *)
FrameStr(f) == f.kind \o "/" \o ToString(f.mid) \o (IF f.done THEN "d" ELSE "-") \o (IF f.ctl THEN "c" ELSE "-") \o "/" \o f.tag
ThrObs(t) == CASE thr[t].pc = "idle" -> "idle"
               [] thr[t].pc = "ret"  -> "ret:" \o thr[t].res
               [] thr[t].pc = "tw"   -> "tw"
               [] thr[t].pc = "um"   -> "um"
               [] OTHER              -> "blk"
Obs == [thr  |-> [t \in Threads |-> ThrObs(t)],
        term |-> str.sig.term # U,
        fin  |-> str.sig.fin # U,
        neww |-> [i \in 1..(Len(wire) - wmark) |-> [j \in 1..Len(wire[wmark + i]) |-> FrameStr(wire[wmark + i][j])]]]

(* ------------------------------ properties ------------------------------- *)
TypeOK == /\ str.once \in {"fresh", "running", "done"}
          /\ \A t \in Threads : thr[t].pc # NONE

Inv == StreamInv(str)

\* at most one transport write in flight, and only the lock holder is in it
OneWrite == Cardinality({t \in Threads : thr[t].pc = "tw"}) <= 1

\* a call that begins after termination emits nothing ...
LateSilent == ~lateEmit
\* ... and terminal calls are idempotent: they return nil (Cancel: whether the stream was already finished)
LateIdempotent == \A t \in Threads : (thr[t].pc = "ret" /\ thr[t].late) =>
      /\ (thr[t].op \in TermOps => thr[t].res = "nil")
      /\ (thr[t].op = "SendCancel" => thr[t].res \in {"nil", "busy"})
      /\ (thr[t].op \in {"MsgSend", "RawWrite"} => thr[t].res \notin {"nil"})
      /\ (thr[t].op \in {"MsgRecv", "RawRecv"} => thr[t].res \notin {"nil"} )

\* finished when terminated and no operation holds the read or write side (judged at quiescence): the
\* finish is never lost, and a finished stream has no write in flight.
\* Deviation of the code, modelled as it is: checkFinished of a *third* goroutine may run between the
\* three signal stores of terminate() and its pbuf.Close, so "finished" can be signalled while a receive
\* that began before the termination still holds the read side (it only touches the packet buffer, never
\* the transport).  Hence only one direction is demanded for the read lock.
FinIffTermIdle == Quiescent =>
      /\ ((str.sig.term # U /\ str.lk.write = NONE /\ str.lk.read = NONE) => str.sig.fin # U)
      /\ (str.sig.fin # U => str.sig.term # U /\ str.lk.write = NONE)
\* after the stream is finished nothing more is handed to the transport
FinSilent == [][str.sig.fin # U => wire' = wire]_vars

\* sends after a remote error or cancel report end-of-stream (unless this side had already half-closed)
RemoteErrs == {"remote:" \o ToString(i) : i \in 1..MaxStarts} \cup {"remote:short"}
RemoteEndsSend == (str.sig.term \in RemoteErrs \cup {"Canceled"}) => str.sig.send \in {"EOF", "sendClosed"}

\* frames of this stream on the wire: ids increase, one kind per id, nothing after the done frame of an id
Flat == LET RECURSIVE F(_) F(q) == IF q = <<>> THEN <<>> ELSE Head(q) \o F(Tail(q)) IN F(wire)
WireOrdered == \A i, j \in 1..Len(Flat) : i < j =>
      /\ Flat[i].mid <= Flat[j].mid
      /\ (Flat[i].mid = Flat[j].mid => Flat[i].kind = Flat[j].kind /\ ~Flat[i].done)

\* an unknown packet with the control bit does not change the stream
UnknownCtlIgnored == [][\A t \in Threads :
      (thr[t].op = "HandlePacket" /\ thr[t].pc \in {"hp.entry", "hp.mulock"} /\ thr[t].arg.kind = "Unknown" /\ thr[t].arg.ctl
       /\ thr'[t] # thr[t] /\ \A u \in Threads \ {t} : thr'[u] = thr[u]) => str' = str]_vars

\* signals are set once
SetOnce == [][\A x \in {"send", "recv", "term", "fin", "cancel"} : str.sig[x] # U => str'.sig[x] = str.sig[x]]_vars

\* generation: emit the stimulus history of complete behaviours
Terminal == Quiescent /\ ~ENABLED Controllable
EmitStims == (Gen /\ Terminal) => PrintT("@@" \o ToJson([stims |-> stims]))

=============================================================================
