----------------------------- MODULE SystemTrace -----------------------------
(***************************************************************************)
(* Trace validation for the connection world (see StreamTrace.tla for the   *)
(* scheme): a log line is (stimulus, observation at the next quiescence);   *)
(* unlogged internal steps of all goroutines are inferred by TLC.           *)
(***************************************************************************)
EXTENDS System, TLCExt

CONSTANT PeekLine     \* 0, or the index of a line whose candidate observations are to be printed (rejection diagnosis)

TraceLog == ndJsonDeserialize("trace.ndjson")

VARIABLES l, ph
tvars == <<vars, l, ph>>

TInit == Init /\ l = 1 /\ ph = "run"     \* the first line is the reset line: closure of Init, then match

Reset ==
    /\ mgr' = [e \in Eps |-> NewMgr]
    /\ str' = [e \in Eps |-> [s \in Sids |-> NoStream]]
    /\ wr' = [e \in Eps |-> NewWriter(Small)]
    /\ thr' = [t \in AllThreads |-> IF t \in CliThreads THEN NewThr("app")
                                    ELSE IF t = SvT THEN [NewThr("sv") EXCEPT !.opc = "sv.acq"]
                                    ELSE IF t \in {Rd("cli"), Rd("srv")} THEN NewThr("rd") ELSE NewThr("ms")]
    /\ net' = [e \in Eps |-> <<>>] /\ rbuf' = [e \in Eps |-> <<>>]
    /\ tp' = [e \in Eps |-> [closed |-> 0, failed |-> FALSE, eof |-> FALSE]]
    /\ rpc' = [r \in Sids |-> [kind |-> NONE, ctx |-> "live", meta |-> NONE, sid |-> 0]]
    /\ nrpc' = 0 /\ sctx' = "live" /\ connmu' = NONE
    /\ wire' = [e \in Eps |-> <<>>] /\ wmark' = [e \in Eps |-> 0]
    /\ hmeta' = [s \in Sids |-> NONE]
    /\ nst' = 0 /\ stims' = <<>>

ApplyStim ==
    /\ ph = "stim" /\ l <= Len(TraceLog)
    /\ LET e == TraceLog[l].stim IN
         CASE e.k = "start"     -> StartRPC(e.t, e.op, e.md)
           [] e.k = "op"        -> StartOp(e.t, e.op, e.r)
           [] e.k = "connclose" -> StartClose(e.t)
           [] e.k = "hstep"     -> HStep(e.a)
           [] e.k = "relw"      -> RelW(e.e, e.how)
           [] e.k = "deliver"   -> Deliver(e.e)
           [] e.k = "cancel"    -> CancelCtx(e.r)
           [] e.k = "cancelsrv" -> CancelSrv
           [] e.k = "fault"     -> Fault(e.e)
           [] e.k = "point"     -> RelPoint(e.t)
           [] e.k = "relu"      -> RelU(e.t)
           [] e.k = "relm"      -> RelM(e.t)
           [] e.k = "reset"     -> Reset
    /\ ph' = "run" /\ l' = l

RunStep == ph = "run" /\ Internal /\ UNCHANGED <<l, ph>>

Match == /\ ph = "run" /\ Quiescent
         /\ Obs = TraceLog[l].obs
         /\ l' = l + 1 /\ ph' = "stim" /\ UNCHANGED vars

TNext == ApplyStim \/ RunStep \/ Match
TSpec == TInit /\ [][TNext]_tvars

HighWater == TLCSet(1, IF TLCGetOrDefault(1, 0) < l THEN l ELSE TLCGetOrDefault(1, 0))
Report == TLCGet("stats").diameter >= 0 /\ PrintT("@@" \o ToJson([hw |-> TLCGetOrDefault(1, 0), len |-> Len(TraceLog)]))

\* every line has been matched: report and stop (an accepting path is enough; the rest of the search would only
\* enumerate the other interleavings of the unlogged steps)
Accepted == (l > Len(TraceLog)) => /\ PrintT("@@" \o ToJson([hw |-> l, len |-> Len(TraceLog)]))
                                   /\ TLCSet("exit", TRUE)

\* diagnosis of a rejection: print every observation the model allows at line PeekLine
Peek == (PeekLine > 0 /\ ph = "run" /\ l = PeekLine /\ Quiescent) => PrintT("@@" \o ToJson([peek |-> Obs]))

TraceInv == TypeOK /\ CloseOnce /\ OneWrite /\ StreamInvs /\ WireOrdered
=============================================================================
