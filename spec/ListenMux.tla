------------------------------ MODULE ListenMux ------------------------------
(***************************************************************************)
(* drpcmigrate.ListenMux (mux.go, listener.go, prefixconn.go) together     *)
(* with its environment: a base net.Listener that hands out connections    *)
(* or an error, clients that write their payload in arbitrary pieces and   *)
(* may close, callers of Accept / Close on the routed listeners and a      *)
(* context that can be cancelled.                                          *)
(*                                                                         *)
(* One action = one goroutine running from one park to the next:           *)
(*   Run            run: idle -> wait(<-m.done) -> lock(m.mu) -> lis (wait *)
(*                  for every routed listener's done, holding m.mu) ->     *)
(*                  ret (def.Close, unlock, deferred cancel)               *)
(*   monitorContext mctx: wait(<-ctx.Done) -> exit (once: base.Close,      *)
(*                  close(m.done))                                         *)
(*   monitorBase    mbase: accept (loop) -> exit (once: m.err, close done) *)
(*   monitorListener(l)  mon[l]: wait(select m.done / l.done) -> del(lock  *)
(*                  m.mu, delete route) -> exit                            *)
(*   routeConn(c)   cst[c]: read (io.ReadFull of PrefixLen bytes) -> lock  *)
(*                  (m.mu, route lookup, prefixConn for the default) ->    *)
(*                  send (select l.done / l.conns<-) -> delivered | closed *)
(*   Accept caller a  apc[a]: chk (non-blocking look at l.done) -> wait    *)
(*                  (select l.done / <-l.conns) -> ret                     *)
(*   reader of an accepted connection (the application): reads whatever    *)
(*                  the connection yields.                                 *)
(*   Route caller   the critical section under m.mu (lookup, or creation,   *)
(*                  registration and start of the monitor) is one step; a  *)
(*                  caller that finds m.mu held (Run waiting for the       *)
(*                  listeners) is rpend: parked on m.mu -> RouteTake       *)
(* Stimuli (the environment / the director of the harness): run, route,    *)
(* incoming connection, base Accept error, client write of n bytes, client *)
(* close, Accept call, listener Close, ctx cancel.                         *)
(*                                                                         *)
(* Registration (what mux.go does, not what one might wish): a prefix p is *)
(* registered iff m.routes has an entry for it.  Route(p) returns the      *)
(* entry's listener if there is one - also when that listener has already  *)
(* been closed and its monitor has not yet deleted the entry: the caller   *)
(* then holds a closed listener and p becomes unregistered as soon as the  *)
(* monitor runs - and otherwise creates listener <<p, gen+1>>, registers   *)
(* it and starts its monitor.  The entry is removed only by the monitor of *)
(* the listener it refers to, after that listener was closed (by Close or  *)
(* by the mux stopping).  Connections whose first bytes are p are looked   *)
(* up under m.mu: entry => that listener (prefix consumed), no entry =>    *)
(* default listener with the prefix replayed.                              *)
(*                                                                         *)
(* Gen = FALSE: stimuli and internal steps interleave freely (design       *)
(* check).  Gen = TRUE: a stimulus happens only when no internal step is   *)
(* enabled (quiescence) - the behaviours a director can realise on the     *)
(* real code; with Hist the stimuli and the observation at each quiescent  *)
(* point are kept and emitted.  A stimulus flagged b = 1 (kinds            *)
(* BurstFirst) is followed by the next one (kinds BurstNext) WITHOUT       *)
(* waiting for quiescence: the director issues both back to back from one  *)
(* goroutine, and the specification lets the internal steps the first one  *)
(* enabled run before, between and after in every order.                   *)
(***************************************************************************)
EXTENDS Integers, Sequences, FiniteSets, TLC, Json

CONSTANTS PrefixLen,   \* number of bytes routeConn reads
          Prefixes,    \* set of route keys (strings of PrefixLen one-character bytes, e.g. "AA")
          Conns,       \* 1..N, connections in the order the base listener hands them out
          Payloads,    \* set of client byte strings (sequences of one-character strings), chosen when the client connects
          MaxGen,      \* how many listeners may be created per prefix (Route after the route was deleted)
          Accs,        \* 1..K, Accept calls
          Lims,        \* set of stimulus budgets (Gen mode)
          Allowed,     \* the stimuli the environment uses (StimSet, or a subset that focuses the generated behaviours)
          PreRoutes,   \* prefixes whose Route call has been made (listener created, monitor parked) in the initial state
          BurstFirst,  \* stimulus kinds that may be flagged b = 1: the next stimulus does not wait for quiescence (Gen mode)
          BurstNext,   \* stimulus kinds that may follow a flagged stimulus before quiescence
          RunFirst,    \* TRUE: Run has been started (and is parked on <-m.done) in the initial state
          Gen, Hist

VARIABLES pay, lim, nstim, hist, bnext,             \* configuration and history; bnext: the last stimulus was flagged b
          sent, ceof,                               \* client side: bytes written so far, closed
          cst, tgt, wrapped, cons, by, got, geof,   \* per connection, server side
          lkl,                                      \* per connection (history): the live listener handed out for its first bytes when it was looked up
          baseQ, baseClosed, mbase,                 \* base listener and monitorBase
          done, merr, once, mu, routes, gen, rret,  \* mux
          rpend,                                    \* prefix of the Route call in progress ("" = none)
          lex, ldone, lerr, mon,                    \* per listener
          run, rerr, mctx, cancelled,               \* Run, monitorContext
          apc, alis, ares, alate                    \* Accept callers

meta    == <<pay, lim, nstim, hist, bnext>>
cliV    == <<sent, ceof>>
connV   == <<cst, tgt, wrapped, cons, by, got, geof, lkl>>
baseV   == <<baseQ, baseClosed, mbase>>
muxV    == <<done, merr, once, mu, routes, gen, rret, rpend>>
lisV    == <<lex, ldone, lerr, mon>>
runV    == <<run, rerr, mctx, cancelled>>
accV    == <<apc, alis, ares, alate>>
vars    == <<meta, cliV, connV, baseV, muxV, lisV, runV, accV>>
view    == <<pay, bnext, cliV, connV, baseV, <<done, merr, once, mu, routes, gen, rpend>>, lisV, runV, <<apc, alis, ares>>>>   \* without history, last Route result and alate (derived)
viewn   == <<view, nstim>>

Def    == <<"def", 0>>
NoLis  == <<"", 0>>
Lis    == {Def} \cup (Prefixes \X (1..MaxGen))
MaxPay == CHOOSE n \in 0..64 : \A p \in Payloads : Len(p) <= n /\ \E q \in Payloads : Len(q) = n

RECURSIVE Cat(_)
Cat(s) == IF s = <<>> THEN "" ELSE Head(s) \o Cat(Tail(s))
Key(c) == Cat(SubSeq(pay[c], 1, PrefixLen))          \* the bytes ReadFull consumed, as a route key

\* what an accepted connection yields: the replayed prefix (default route) followed by
\* whatever the client has written beyond the bytes the mux consumed
Stream(c) == (IF wrapped[c] THEN SubSeq(pay[c], 1, cons[c]) ELSE <<>>) \o SubSeq(pay[c], cons[c] + 1, sent[c])

Init ==
  /\ pay = [c \in Conns |-> <<>>] /\ lim \in Lims /\ nstim = 0 /\ hist = <<>> /\ bnext = FALSE
  /\ sent = [c \in Conns |-> 0] /\ ceof = [c \in Conns |-> FALSE]
  /\ cst = [c \in Conns |-> "new"] /\ tgt = [c \in Conns |-> NoLis]
  /\ wrapped = [c \in Conns |-> FALSE] /\ cons = [c \in Conns |-> 0]
  /\ by = [c \in Conns |-> 0] /\ got = [c \in Conns |-> <<>>] /\ geof = [c \in Conns |-> FALSE]
  /\ lkl = [c \in Conns |-> NoLis]
  /\ baseQ = <<>> /\ baseClosed = FALSE /\ mbase = (IF RunFirst THEN "accept" ELSE "none")
  /\ done = FALSE /\ merr = "nil" /\ once = FALSE /\ mu = "free"
  /\ routes = [p \in Prefixes |-> IF p \in PreRoutes THEN 1 ELSE 0]
  /\ gen = [p \in Prefixes |-> IF p \in PreRoutes THEN 1 ELSE 0] /\ rret = NoLis /\ rpend = ""
  /\ lex = [l \in Lis |-> l = Def \/ (l[2] = 1 /\ l[1] \in PreRoutes)] /\ ldone = [l \in Lis |-> FALSE]
  /\ lerr = [l \in Lis |-> "none"]
  /\ mon = [l \in Lis |-> IF l[2] = 1 /\ l[1] \in PreRoutes THEN "wait" ELSE "none"]
  /\ run = (IF RunFirst THEN "wait" ELSE "idle") /\ rerr = "none"
  /\ mctx = (IF RunFirst THEN "wait" ELSE "none") /\ cancelled = FALSE
  /\ apc = [a \in Accs |-> "idle"] /\ alis = [a \in Accs |-> NoLis]
  /\ ares = [a \in Accs |-> <<"none", 0, "">>] /\ alate = [a \in Accs |-> FALSE]

(* ----------------------- internal (spontaneous) steps -------------------- *)

\* Run: <-m.done has fired
RunWake_G == run = "wait" /\ done
RunWake ==
  /\ RunWake_G
  /\ run' = "lock"
  /\ UNCHANGED <<rerr, mctx, cancelled, cliV, connV, baseV, muxV, lisV, accV>>

RunLock_G == run = "lock" /\ mu = "free"
RunLock ==
  /\ RunLock_G
  /\ run' = "lis"
  /\ mu' = "run"
  /\ UNCHANGED <<rerr, mctx, cancelled, cliV, connV, baseV, done, merr, once, routes, gen, rret, rpend, lisV, accV>>

\* for _, lis := range m.routes { <-lis.done } (m.mu held, so the map is stable)
RunLis_G == run = "lis" /\ \A p \in Prefixes : routes[p] # 0 => ldone[<<p, routes[p]>>]
\* m.def.Close(); <-m.def.done; return m.err (deferred: unlock, cancel)
RunLis ==
  /\ RunLis_G
  /\ run' = "ret"
  /\ rerr' = merr
  /\ mu' = "free"
  /\ cancelled' = TRUE
  /\ ldone' = [ldone EXCEPT ![Def] = TRUE]
  /\ lerr' = [lerr EXCEPT ![Def] = IF ldone[Def] THEN @ ELSE "Closed"]
  /\ UNCHANGED <<mctx, cliV, connV, baseV, done, merr, once, routes, gen, rret, rpend, lex, mon, accV>>

\* monitorContext: <-ctx.Done(); once.Do(base.Close; close(m.done))
MonCtx_G == mctx = "wait" /\ cancelled
MonCtx ==
  /\ MonCtx_G
  /\ mctx' = "exit"
  /\ once' = TRUE
  /\ done' = IF once THEN done ELSE TRUE
  /\ baseClosed' = IF once THEN baseClosed ELSE TRUE
  /\ UNCHANGED <<run, rerr, cancelled, cliV, connV, baseQ, mbase, merr, mu, routes, gen, rret, rpend, lisV, accV>>

\* monitorBase: one return of base.Accept (a closed listener fails first, else the queue in order)
MonBase_G == mbase = "accept" /\ (baseClosed \/ baseQ # <<>>)
MonBase ==
  /\ MonBase_G
  /\ IF ~baseClosed /\ Head(baseQ) \in Conns
       THEN /\ cst' = [cst EXCEPT ![Head(baseQ)] = "read"]       \* go m.routeConn(conn)
            /\ baseQ' = Tail(baseQ)
            /\ UNCHANGED <<mbase, once, done, merr>>
       ELSE /\ mbase' = "exit"
            /\ baseQ' = IF baseClosed THEN baseQ ELSE Tail(baseQ)
            /\ once' = TRUE
            /\ done' = IF once THEN done ELSE TRUE
            /\ merr' = IF once THEN merr ELSE IF baseClosed THEN "baseClosed" ELSE "baseErr"
            /\ UNCHANGED cst
  /\ UNCHANGED <<runV, cliV, tgt, wrapped, cons, by, got, geof, lkl, baseClosed, mu, routes, gen, rret, rpend, lisV, accV>>

\* monitorListener: select { <-m.done: close the listener with the mux's error; <-lis.done: }
MonLis_G(l) == mon[l] = "wait" /\ (done \/ ldone[l])
MonLis(l) ==
  /\ MonLis_G(l)
  /\ mon' = [mon EXCEPT ![l] = "del"]
  /\ ldone' = [ldone EXCEPT ![l] = TRUE]
  /\ lerr' = [lerr EXCEPT ![l] = IF ldone[l] THEN @ ELSE IF merr # "nil" THEN merr ELSE "Closed"]
  /\ UNCHANGED <<runV, cliV, connV, baseV, muxV, lex, accV>>

\* monitorListener: m.mu.Lock(); delete(m.routes, prefix); Unlock
MonDel_G(l) == mon[l] = "del" /\ mu = "free"
MonDel(l) ==
  /\ MonDel_G(l)
  /\ mon' = [mon EXCEPT ![l] = "exit"]
  /\ routes' = [routes EXCEPT ![l[1]] = 0]
  /\ UNCHANGED <<runV, cliV, connV, baseV, done, merr, once, mu, gen, rret, rpend, lex, ldone, lerr, accV>>

\* Route: m.mu.Lock(); lis, ok := m.routes[prefix]; if !ok { new listener, register, go monitorListener }; Unlock.
\* The entry is returned whatever the state of its listener: a closed listener whose monitor has not yet
\* deleted the entry is handed out again (and nothing is registered).
RouteCS(p) ==
  IF routes[p] # 0
    THEN rret' = <<p, routes[p]>> /\ UNCHANGED <<routes, gen, lex, mon>>
    ELSE /\ gen[p] < MaxGen
         /\ gen' = [gen EXCEPT ![p] = @ + 1]
         /\ routes' = [routes EXCEPT ![p] = gen[p] + 1]
         /\ rret' = <<p, gen[p] + 1>>
         /\ lex' = [lex EXCEPT ![<<p, gen[p] + 1>>] = TRUE]
         /\ mon' = [mon EXCEPT ![<<p, gen[p] + 1>>] = "wait"]
\* a Route call that found m.mu held (by Run, waiting for the listeners) gets it
RouteTake_G == rpend # "" /\ mu = "free"
RouteTake ==
  /\ RouteTake_G
  /\ rpend' = ""
  /\ RouteCS(rpend)
  /\ UNCHANGED <<runV, cliV, connV, baseV, done, merr, once, mu, ldone, lerr, accV>>

\* routeConn: io.ReadFull(conn, buf[:PrefixLen]) returns
Read_G(c) == cst[c] = "read" /\ (sent[c] >= PrefixLen \/ ceof[c])
RouteRead(c) ==
  /\ Read_G(c)
  /\ IF sent[c] >= PrefixLen
       THEN cst' = [cst EXCEPT ![c] = "lock"] /\ cons' = [cons EXCEPT ![c] = PrefixLen]
       ELSE cst' = [cst EXCEPT ![c] = "closed"] /\ UNCHANGED cons         \* EOF before the prefix: conn.Close()
  /\ UNCHANGED <<runV, cliV, tgt, wrapped, by, got, geof, lkl, baseV, muxV, lisV, accV>>

\* routeConn: route lookup under m.mu; no route => default listener and a prefixConn replaying buf
Lookup_G(c) == cst[c] = "lock" /\ mu = "free"
RouteLookup(c) ==
  /\ Lookup_G(c)
  /\ cst' = [cst EXCEPT ![c] = "send"]
  /\ LET live == {l \in Lis \ {Def} : l[1] = Key(c) /\ lex[l] /\ ~ldone[l]}
     IN  lkl' = [lkl EXCEPT ![c] = IF live = {} THEN NoLis ELSE CHOOSE l \in live : TRUE]
  /\ IF Key(c) \in Prefixes /\ routes[Key(c)] # 0
       THEN tgt' = [tgt EXCEPT ![c] = <<Key(c), routes[Key(c)]>>] /\ UNCHANGED wrapped
       ELSE tgt' = [tgt EXCEPT ![c] = Def] /\ wrapped' = [wrapped EXCEPT ![c] = TRUE]
  /\ UNCHANGED <<runV, cliV, cons, by, got, geof, baseV, muxV, lisV, accV>>

\* routeConn: select { <-lis.done: conn.Close() ... }
SendDone_G(c) == cst[c] = "send" /\ ldone[tgt[c]]
RouteSendDone(c) ==
  /\ SendDone_G(c)
  /\ cst' = [cst EXCEPT ![c] = "closed"]
  /\ UNCHANGED <<runV, cliV, tgt, wrapped, cons, by, got, geof, lkl, baseV, muxV, lisV, accV>>

\* ... case lis.Conns() <- conn: } meeting an Accept caller in its second select (Go picks any ready case)
Meet_G(c, a) == cst[c] = "send" /\ apc[a] = "wait" /\ alis[a] = tgt[c]
Meet(c, a) ==
  /\ Meet_G(c, a)
  /\ cst' = [cst EXCEPT ![c] = "delivered"]
  /\ by' = [by EXCEPT ![c] = a]
  /\ apc' = [apc EXCEPT ![a] = "ret"]
  /\ ares' = [ares EXCEPT ![a] = <<"conn", c, "">>]
  /\ UNCHANGED <<runV, cliV, tgt, wrapped, cons, got, geof, lkl, baseV, muxV, lisV, alis, alate>>

\* Accept: select { case <-l.done: return nil, l.err; default: }
AccChk_G(a) == apc[a] = "chk"
AccChk(a) ==
  /\ AccChk_G(a)
  /\ apc' = [apc EXCEPT ![a] = IF ldone[alis[a]] THEN "ret" ELSE "wait"]
  /\ ares' = [ares EXCEPT ![a] = IF ldone[alis[a]] THEN <<"err", 0, lerr[alis[a]]>> ELSE @]
  /\ UNCHANGED <<runV, cliV, connV, baseV, muxV, lisV, alis, alate>>

\* Accept: second select, l.done fired
AccDone_G(a) == apc[a] = "wait" /\ ldone[alis[a]]
AccDone(a) ==
  /\ AccDone_G(a)
  /\ apc' = [apc EXCEPT ![a] = "ret"]
  /\ ares' = [ares EXCEPT ![a] = <<"err", 0, lerr[alis[a]]>>]
  /\ UNCHANGED <<runV, cliV, connV, baseV, muxV, lisV, alis, alate>>

\* the application reads everything the accepted connection has to offer, then sees EOF
Rd_G(c) == cst[c] = "delivered" /\ (got[c] # Stream(c) \/ (ceof[c] /\ ~geof[c]))
Rd(c) ==
  /\ Rd_G(c)
  /\ got' = [got EXCEPT ![c] = Stream(c)]
  /\ geof' = [geof EXCEPT ![c] = (got[c] = Stream(c))]
  /\ UNCHANGED <<runV, cliV, cst, tgt, wrapped, cons, by, lkl, baseV, muxV, lisV, accV>>

Spont == \/ RunWake \/ RunLock \/ RunLis \/ MonCtx \/ MonBase \/ RouteTake
         \/ \E l \in Lis : MonLis(l) \/ MonDel(l)
         \/ \E c \in Conns : RouteRead(c) \/ RouteLookup(c) \/ RouteSendDone(c) \/ Rd(c)
         \/ \E c \in Conns, a \in Accs : Meet(c, a)
         \/ \E a \in Accs : AccChk(a) \/ AccDone(a)

Quiescent == ~( \/ RunWake_G \/ RunLock_G \/ RunLis_G \/ MonCtx_G \/ MonBase_G \/ RouteTake_G
                \/ \E l \in Lis : MonLis_G(l) \/ MonDel_G(l)
                \/ \E c \in Conns : Read_G(c) \/ Lookup_G(c) \/ SendDone_G(c) \/ Rd_G(c)
                \/ \E c \in Conns, a \in Accs : Meet_G(c, a)
                \/ \E a \in Accs : AccChk_G(a) \/ AccDone_G(a) )

(* -------------------------------- stimuli -------------------------------- *)

S(k, c, n, p, g, a) == [k |-> k, c |-> c, n |-> n, p |-> p, g |-> g, a |-> a, pl |-> <<>>, b |-> 0]

StimSet == {S("run", 0, 0, "", 0, 0), S("cancel", 0, 0, "", 0, 0), S("baseerr", 0, 0, "", 0, 0)}
      \cup {S("route", 0, 0, p, 0, 0) : p \in Prefixes}
      \cup {[S("incoming", c, 0, "", 0, 0) EXCEPT !.pl = q] : c \in Conns, q \in Payloads}
      \cup {S("write", c, n, "", 0, 0) : c \in Conns, n \in 1..MaxPay}
      \cup {S("cclose", c, 0, "", 0, 0) : c \in Conns}
      \cup {S("accept", 0, 0, l[1], l[2], a) : l \in Lis, a \in Accs}
      \cup {S("lclose", 0, 0, l[1], l[2], 0) : l \in Lis}

\* the same stimuli flagged "the next stimulus follows without waiting for quiescence"
BStimSet == {[s EXCEPT !.b = 1] : s \in {t \in StimSet : t.k \in BurstFirst}}

Do(s) ==
  CASE s.k = "run" ->          \* go mux.Run(ctx): starts monitorContext and monitorBase, waits for m.done
         /\ run = "idle" /\ run' = "wait" /\ mctx' = "wait" /\ mbase' = "accept"
         /\ UNCHANGED <<rerr, cancelled, cliV, connV, baseQ, baseClosed, muxV, lisV, accV>>
    [] s.k = "cancel" ->       \* the context given to Run is cancelled
         /\ run # "idle" /\ ~cancelled /\ cancelled' = TRUE
         /\ UNCHANGED <<run, rerr, mctx, cliV, connV, baseV, muxV, lisV, accV>>
    [] s.k = "baseerr" ->      \* the base listener's Accept will fail
         /\ ~\E i \in 1..Len(baseQ) : baseQ[i] = 0
         /\ mbase # "exit" /\ baseQ' = Append(baseQ, 0)
         /\ UNCHANGED <<runV, cliV, connV, baseClosed, mbase, muxV, lisV, accV>>
    [] s.k = "route" ->        \* mux.Route(p): the critical section at once if m.mu is free (a call made earlier that gets
                               \* the mutex now is the same behaviour), else the caller stays inside Route until RouteTake
         /\ rpend = ""
         \* model bound: the call is made only if a listener can still be created for p, or none will be
         \* needed (the registered listener is live and the mux running, so its monitor cannot delete the entry)
         /\ \/ gen[s.p] < MaxGen
            \/ routes[s.p] # 0 /\ ~done /\ ~ldone[<<s.p, routes[s.p]>>] /\ mon[<<s.p, routes[s.p]>>] = "wait"
         /\ IF mu = "free" THEN RouteCS(s.p) /\ UNCHANGED rpend
                           ELSE rpend' = s.p /\ UNCHANGED <<routes, gen, rret, lex, mon>>
         /\ UNCHANGED <<runV, cliV, connV, baseV, done, merr, once, mu, ldone, lerr, accV>>
    [] s.k = "incoming" ->     \* a client connects: the base listener has connection c to hand out
         /\ cst[s.c] = "new" /\ \A d \in Conns : d < s.c => cst[d] # "new"
         /\ cst' = [cst EXCEPT ![s.c] = "queued"] /\ baseQ' = Append(baseQ, s.c)
         /\ pay' = [pay EXCEPT ![s.c] = s.pl]
         /\ UNCHANGED <<runV, cliV, tgt, wrapped, cons, by, got, geof, lkl, baseClosed, mbase, muxV, lisV, accV>>
    [] s.k = "write" ->        \* the client writes its next n bytes
         /\ cst[s.c] # "new" /\ ~ceof[s.c] /\ sent[s.c] + s.n <= Len(pay[s.c])
         /\ sent' = [sent EXCEPT ![s.c] = @ + s.n]
         /\ UNCHANGED <<runV, ceof, connV, baseV, muxV, lisV, accV>>
    [] s.k = "cclose" ->       \* the client closes its end
         /\ cst[s.c] # "new" /\ ~ceof[s.c] /\ ceof' = [ceof EXCEPT ![s.c] = TRUE]
         /\ UNCHANGED <<runV, sent, connV, baseV, muxV, lisV, accV>>
    [] s.k = "accept" ->       \* a goroutine calls Accept on a listener the application holds
         /\ lex[<<s.p, s.g>>] /\ apc[s.a] = "idle" /\ \A b \in Accs : b < s.a => apc[b] # "idle"
         /\ apc' = [apc EXCEPT ![s.a] = "chk"] /\ alis' = [alis EXCEPT ![s.a] = <<s.p, s.g>>]
         /\ alate' = [alate EXCEPT ![s.a] = ldone[<<s.p, s.g>>]]
         /\ UNCHANGED <<runV, cliV, connV, baseV, muxV, lisV, ares>>
    [] s.k = "lclose" ->       \* listener.Close(): once { err = Closed; close(done) }
         /\ lex[<<s.p, s.g>>] /\ ~ldone[<<s.p, s.g>>]
         /\ ldone' = [ldone EXCEPT ![<<s.p, s.g>>] = TRUE] /\ lerr' = [lerr EXCEPT ![<<s.p, s.g>>] = "Closed"]
         /\ UNCHANGED <<runV, cliV, connV, baseV, muxV, lex, mon, accV>>

(* ------------------------------ observation ------------------------------ *)

ConnClass(c) == CASE cst[c] \in {"new", "queued", "delivered", "closed"} -> cst[c] [] OTHER -> "inflight"
RunClass == CASE run = "idle" -> "idle" [] run = "ret" -> "ret" [] OTHER -> "running"
AccClass(a) == CASE apc[a] = "idle" -> "idle" [] apc[a] = "ret" -> "ret" [] OTHER -> "blocked"

\* what the director can see at a quiescent point
Obs == [ run   |-> <<RunClass, rerr>>,
         rret  |-> rret,
         conns |-> [c \in Conns |-> <<ConnClass(c), IF cst[c] = "delivered" THEN tgt[c] ELSE NoLis, by[c], got[c], geof[c]>>],
         accs  |-> [a \in Accs |-> <<AccClass(a), alis[a], ares[a]>>] ]

\* Gen mode, not quiescent (only after a flagged stimulus): the director is one goroutine, so it is not
\* inside Route (rpend = ""), and it continues with a stimulus of a kind in BurstNext
Stim == /\ nstim < lim
        /\ \E s \in Allowed :
             /\ (Gen /\ ~Quiescent) => (s.k \in BurstNext /\ rpend = "")
             /\ Do(s)
             /\ (s.k # "incoming" => UNCHANGED pay)
             /\ hist' = IF Hist THEN Append(hist, [obs |-> Obs, stim |-> s]) ELSE hist
             /\ bnext' = (s.b = 1)
        /\ nstim' = nstim + 1 /\ UNCHANGED lim

Next == \/ (Spont /\ UNCHANGED meta)
        \/ ((Gen => (Quiescent \/ bnext)) /\ Stim)

Spec == Init /\ [][Next]_vars

(* -------------------------------- properties ----------------------------- *)

TypeOK ==
  /\ cst \in [Conns -> {"new", "queued", "read", "lock", "send", "delivered", "closed"}]
  /\ \A c \in Conns : sent[c] \in 0..Len(pay[c]) /\ cons[c] \in {0, PrefixLen} /\ tgt[c] \in Lis \cup {NoLis}
  /\ mu \in {"free", "run"} /\ run \in {"idle", "wait", "lock", "lis", "ret"}
  /\ \A p \in Prefixes : routes[p] \in 0..gen[p] /\ gen[p] \in 0..MaxGen
  /\ \A l \in Lis : (ldone[l] => lex[l]) /\ (mon[l] # "none" => lex[l])
  /\ rpend \in Prefixes \cup {""}

Accepted(c) == cst[c] \notin {"new", "queued"}        \* handed out by the base listener's Accept
Delivered(c) == cst[c] = "delivered"
ClosedByMux(c) == cst[c] = "closed"
InFlight(c) == cst[c] \in {"read", "lock", "send"}
Stopped == run = "ret"

\* every accepted connection is delivered to exactly one Accept call XOR closed XOR still in flight
ExactlyOnce ==
  \A c \in Conns :
    /\ Accepted(c) => (Delivered(c) /\ ~ClosedByMux(c) /\ ~InFlight(c))
                      \/ (~Delivered(c) /\ ClosedByMux(c) /\ ~InFlight(c))
                      \/ (~Delivered(c) /\ ~ClosedByMux(c) /\ InFlight(c))
    /\ Delivered(c) <=> (by[c] \in Accs /\ ares[by[c]] = <<"conn", c, "">>)
    /\ Cardinality({a \in Accs : ares[a][1] = "conn" /\ ares[a][2] = c}) <= 1
    /\ Delivered(c) => alis[by[c]] = tgt[c]

\* nothing stays in flight once Run has returned and the client has sent the prefix or closed
NoneLeftBehind ==
  (Quiescent /\ Stopped) =>
     \A c \in Conns : (Accepted(c) /\ (sent[c] >= PrefixLen \/ ceof[c])) => ~InFlight(c)

\* routed: the listener is the one registered for the first PrefixLen bytes, which are consumed;
\* default: the byte stream is the client's, from the first byte; in both cases nothing is altered
Transparent ==
  \A c \in Conns : Delivered(c) =>
    /\ sent[c] >= PrefixLen
    /\ IF tgt[c] = Def
         THEN /\ got[c] = SubSeq(pay[c], 1, Len(got[c]))
              /\ (Quiescent => got[c] = SubSeq(pay[c], 1, sent[c]))
         ELSE /\ tgt[c][1] = Key(c)
              /\ got[c] = SubSeq(pay[c], PrefixLen + 1, PrefixLen + Len(got[c]))
              /\ (Quiescent => got[c] = SubSeq(pay[c], PrefixLen + 1, sent[c]))
    /\ (geof[c] => ceof[c])
    /\ ((Quiescent /\ ceof[c]) => geof[c])

\* "the route registered for its first N bytes": a listener handed out by Route stays registered for its
\* prefix until it is closed (Close, or the mux stopping); only its own monitor removes the entry, so a
\* monitor never deletes another listener's registration and there is one monitor per entry
Registered(l) == routes[l[1]] = l[2]
RegistrationKept ==
  \A l \in Lis \ {Def} :
    /\ (lex[l] /\ ~ldone[l]) => (Registered(l) /\ mon[l] = "wait")
    /\ mon[l] \in {"wait", "del"} => Registered(l)
    /\ Registered(l) => (lex[l] /\ mon[l] \in {"wait", "del"})
\* the property's routing clause, independent of the routes map: when the connection was looked up and a
\* live (handed out by Route, not closed) listener existed for its first bytes, the connection went to that
\* listener and to no other, in particular not to the default listener; with no live listener it went to
\* the default listener or to a closed listener still in the map (then the mux closes it: RouteSendDone)
RoutedByRegistration ==
  /\ \A c \in Conns : tgt[c] # NoLis =>
        /\ lkl[c] # NoLis => tgt[c] = lkl[c]
        /\ lkl[c] = NoLis => (tgt[c] = Def \/ (tgt[c][1] = Key(c) /\ ldone[tgt[c]]))
  \* at most one live listener per prefix
  /\ \A l1, l2 \in Lis \ {Def} : (l1[1] = l2[1] /\ lex[l1] /\ ~ldone[l1] /\ lex[l2] /\ ~ldone[l2]) => l1 = l2

\* after the mux has stopped every listener is closed, nobody is left blocked in Accept,
\* and an Accept on a closed listener fails
AcceptFailsAfterStop ==
  /\ (Quiescent /\ Stopped) =>
        /\ \A l \in Lis : lex[l] => ldone[l] /\ lerr[l] # "none"
        /\ \A a \in Accs : apc[a] \in {"idle", "ret"}
  /\ \A a \in Accs : (alate[a] /\ apc[a] = "ret") => ares[a][1] = "err" /\ ares[a][3] # "none"
  /\ (Quiescent => \A a \in Accs : alate[a] => apc[a] = "ret")

\* Run returns only after every listener has been shut down, with the base listener's error if that stopped it
RunResult ==
  Stopped => /\ done /\ rerr = merr /\ ldone[Def]
             /\ \A l \in Lis : (lex[l] /\ mon[l] # "wait") => ldone[l]

Terminal == Quiescent /\ nstim = lim
EmitTerminal == (Hist /\ Terminal) =>
    PrintT("@@" \o ToJson([pay |-> pay, steps |-> hist, final |-> Obs]))

=============================================================================
