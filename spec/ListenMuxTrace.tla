--------------------------- MODULE ListenMuxTrace ---------------------------
(***************************************************************************)
(* Trace validation for ListenMux: decides whether recorded executions of  *)
(* the real drpcmigrate.ListenMux are behaviours of ListenMux.tla.         *)
(*                                                                         *)
(* TraceLog is a set of traces [id |-> i, steps |-> <<...>>]; a step is     *)
(* [stim |-> s, obs |-> o]: the director applied stimulus s while the      *)
(* process was quiescent and observed o at the next quiescence.  Between   *)
(* two stimuli the specification may take any internal steps; when none is *)
(* enabled its observation must equal the recorded one.  If several        *)
(* internal interleavings lead to different quiescent states, all of them  *)
(* are explored, so a trace is accepted iff the real outcome is among the  *)
(* outcomes the specification allows.  A step whose stimulus is flagged    *)
(* b = 1 was followed by the next stimulus without waiting for quiescence  *)
(* (same goroutine, back to back): it carries no observation, and the next *)
(* stimulus may be taken after any number of internal steps.               *)
(***************************************************************************)
EXTENDS ListenMux

CONSTANTS TraceLog,
          Project    \* TRUE: compare only what property C16 constrains (no Route result, no error values)

VARIABLES tr,   \* the trace being validated (chosen once; kept in the state so that the log is evaluated only in Init)
          k     \* number of steps matched so far

tvars == <<vars, tr, k>>

Steps == tr.steps
ti == tr.id
\* the observation reduced to what the property talks about: Run running/returned, per connection
\* class / listener / acceptor / bytes / EOF, per Accept call blocked / connection / "an error"
ObsP == [ run   |-> <<RunClass>>,
          conns |-> Obs.conns,
          accs  |-> [a \in Accs |-> <<AccClass(a), alis[a],
                                      <<ares[a][1], ares[a][2], IF ares[a][1] = "err" THEN "err" ELSE "">>>>] ]

Flagged == IF k = 0 THEN FALSE ELSE Steps[k].stim.b = 1
Matched == IF k = 0 \/ Flagged THEN TRUE ELSE (IF Project THEN ObsP ELSE Obs) = Steps[k].obs

TInit == Init /\ tr \in TraceLog /\ k = 0

TNext == \/ (Spont /\ UNCHANGED <<meta, tr, k>>)
         \/ /\ IF Flagged THEN rpend = "" ELSE (Quiescent /\ Matched)
            /\ k < Len(Steps)
            /\ Do(Steps[k + 1].stim)
            /\ (Steps[k + 1].stim.k # "incoming" => UNCHANGED pay)
            /\ k' = k + 1
            /\ UNCHANGED <<lim, nstim, hist, bnext, tr>>

TSpec == TInit /\ [][TNext]_tvars

\* the whole trace has been matched
TraceAccepted == (Quiescent /\ ~Flagged /\ Matched /\ k = Len(Steps)) => PrintT("@@" \o ToJson([acc |-> ti]))
\* longest matched prefix (diagnostics)
TraceProgress == (Quiescent /\ Matched /\ k > 0) => PrintT("@@" \o ToJson([ti |-> ti, k |-> k]))

=============================================================================
