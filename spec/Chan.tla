-------------------------------- MODULE Chan --------------------------------
(***************************************************************************)
(* drpcsignal.Chan (lazily allocated channel) at the grain of single       *)
(* shared accesses; labels are the drpcdebug.Point names.                  *)
(*                                                                         *)
(*   done : the atomic "initialised" word                                  *)
(*   mu   : mutex of the slow path                                         *)
(*   ch   : "nil" | "fresh" (cap 0) | "made" (cap Cap) | "closed" (the     *)
(*          package-level already-closed channel)                          *)
(*   open : FALSE once the allocated channel has been closed               *)
(*   buf  : number of buffered elements                                    *)
(*                                                                         *)
(* Operations: Close, Get, Make, Send, Recv, Full.                         *)
(* Assumption (Go channel discipline): Close is called at most once and    *)
(* is not mixed with Send.                                                 *)
(***************************************************************************)
EXTENDS Integers, Sequences, FiniteSets, TLC, Json

CONSTANTS Threads, OpSets,   \* OpSets: set of allowed multisets, given as a set of functions Threads -> op
          Cap, Hist

VARIABLES done, mu, ch, open, buf, closeCount, panicked, pc, op, loc, res, hist

vars == <<done, mu, ch, open, buf, closeCount, panicked, pc, op, loc, res, hist>>
view == <<done, mu, ch, open, buf, closeCount, panicked, pc, op, loc, res>>

Free == "free"
None == "none"

\* what do(f) installs for each operation
Installs(o) == CASE o = "Close" -> "closed"
                 [] o = "Make"  -> "made"
                 [] OTHER       -> "fresh"

Init == /\ done = 0 /\ mu = Free /\ ch = "nil" /\ open = TRUE /\ buf = 0
        /\ closeCount = 0 /\ panicked = FALSE
        /\ op \in OpSets
        /\ pc = [t \in Threads |-> "chan.do.load"]
        /\ loc = [t \in Threads |-> [did |-> FALSE]]
        /\ res = [t \in Threads |-> None]
        /\ hist = <<>>

Goto(t, l) == pc' = [pc EXCEPT ![t] = l]
Ret(t, r) == pc' = [pc EXCEPT ![t] = "ret"] /\ res' = [res EXCEPT ![t] = r]
Rec(t) == hist' = IF Hist THEN Append(hist, <<t, pc[t]>>) ELSE hist

CapOf(c) == IF c = "made" THEN Cap ELSE 0
IsClosed(c) == c = "closed" \/ (c \in {"fresh", "made"} /\ ~open)

\* after do() returned (did or not): continue with the operation proper
AfterDo(t, did) ==
    CASE op[t] = "Close" -> IF did THEN Ret(t, "ok") ELSE Goto(t, "chan.close.close") /\ UNCHANGED res
      [] op[t] = "Make"  -> Ret(t, "ok")
      [] op[t] = "Get"   -> Goto(t, "chan.get.ret") /\ UNCHANGED res
      [] op[t] = "Send"  -> Goto(t, "chan.send.op") /\ UNCHANGED res
      [] op[t] = "Recv"  -> Goto(t, "chan.recv.op") /\ UNCHANGED res
      [] op[t] = "Full"  -> Goto(t, "chan.full.op") /\ UNCHANGED res

\* a sender/receiver blocked on an unbuffered channel meets a partner
Partner(t, want) == {u \in Threads : u # t /\ pc[u] = want /\ ~IsClosed(ch)}

Step(t) ==
  /\ Rec(t) /\ UNCHANGED op
  /\ CASE pc[t] = "chan.do.load" ->
            /\ IF done # 0 THEN AfterDo(t, FALSE) ELSE Goto(t, "chan.doslow.lock") /\ UNCHANGED res
            /\ UNCHANGED <<done, mu, ch, open, buf, closeCount, panicked, loc>>
       [] pc[t] = "chan.doslow.lock" ->
            /\ mu = Free /\ mu' = t
            /\ loc' = [loc EXCEPT ![t].did = (done = 0)]
            /\ Goto(t, IF done = 0 THEN "chan.doslow.f" ELSE "chan.doslow.unlock")
            /\ UNCHANGED <<done, ch, open, buf, closeCount, panicked, res>>
       [] pc[t] = "chan.doslow.f" ->
            /\ ch' = Installs(op[t]) /\ Goto(t, "chan.doslow.store")
            /\ UNCHANGED <<done, mu, open, buf, closeCount, panicked, loc, res>>
       [] pc[t] = "chan.doslow.store" ->
            /\ done' = 1 /\ Goto(t, "chan.doslow.unlock")
            /\ UNCHANGED <<mu, ch, open, buf, closeCount, panicked, loc, res>>
       [] pc[t] = "chan.doslow.unlock" ->
            /\ mu' = Free /\ AfterDo(t, loc[t].did)
            /\ UNCHANGED <<done, ch, open, buf, closeCount, panicked, loc>>
       [] pc[t] = "chan.close.close" ->
            /\ IF ch \in {"fresh", "made"} /\ open
                 THEN open' = FALSE /\ closeCount' = closeCount + 1 /\ UNCHANGED panicked
                 ELSE panicked' = TRUE /\ UNCHANGED <<open, closeCount>>   \* close of nil or closed channel
            /\ Ret(t, "ok")
            /\ UNCHANGED <<done, mu, ch, buf, loc>>
       [] pc[t] = "chan.get.ret" ->
            /\ Ret(t, ch)
            /\ UNCHANGED <<done, mu, ch, open, buf, closeCount, panicked, loc>>
       [] pc[t] = "chan.send.op" ->      \* natural block unless there is room
            /\ IF IsClosed(ch) THEN panicked' = TRUE /\ UNCHANGED buf
               ELSE buf < CapOf(ch) /\ buf' = buf + 1 /\ UNCHANGED panicked
            /\ Ret(t, "ok")
            /\ UNCHANGED <<done, mu, ch, open, closeCount, loc>>
       [] pc[t] = "chan.recv.op" ->      \* natural block unless there is an element or the channel is closed
            /\ IF buf > 0 THEN buf' = buf - 1 ELSE IsClosed(ch) /\ UNCHANGED buf
            /\ Ret(t, "ok")
            /\ UNCHANGED <<done, mu, ch, open, closeCount, panicked, loc>>
       [] pc[t] = "chan.full.op" ->
            /\ Ret(t, IF IsClosed(ch) THEN "panic" ELSE buf >= CapOf(ch))
            /\ panicked' = (panicked \/ IsClosed(ch))
            /\ UNCHANGED <<done, mu, ch, open, buf, closeCount, loc>>

\* rendez-vous of a sender and a receiver on an unbuffered (or full/empty) channel
Rendezvous(s, r) ==
  /\ pc[s] = "chan.send.op" /\ pc[r] = "chan.recv.op" /\ ~IsClosed(ch) /\ buf = 0 /\ CapOf(ch) = 0
  /\ pc' = [pc EXCEPT ![s] = "ret", ![r] = "ret"]
  /\ res' = [res EXCEPT ![s] = "ok", ![r] = "ok"]
  /\ hist' = IF Hist THEN Append(hist, <<s, "rendezvous", r>>) ELSE hist
  /\ UNCHANGED <<done, mu, ch, open, buf, closeCount, panicked, op, loc>>

Running(t) == pc[t] # "ret"
\* operations that may legitimately stay blocked: a Send with no room / a Recv with nothing to receive
Blocked(t) == \/ pc[t] = "chan.send.op" /\ ~IsClosed(ch) /\ buf >= CapOf(ch)
              \/ pc[t] = "chan.recv.op" /\ ~IsClosed(ch) /\ buf = 0
Terminal == /\ \A t \in Threads : pc[t] = "ret" \/ Blocked(t)
            /\ ~\E s, r \in Threads : ENABLED Rendezvous(s, r)

Next == \/ \E t \in Threads : Running(t) /\ Step(t)
        \/ \E s, r \in Threads : Rendezvous(s, r)
        \/ (Terminal /\ UNCHANGED vars)

Spec == Init /\ [][Next]_vars

(* ------------------------------- properties ----------------------------- *)

TypeOK == done \in {0, 1} /\ ch \in {"nil", "fresh", "made", "closed"} /\ buf \in 0..(Cap + 1)

NoPanic == ~panicked

\* the channel is installed exactly once, before done is published
InstalledOnce == /\ (done = 1 => ch # "nil")
                 /\ Cardinality({t \in Threads : loc[t].did}) <= 1
                 /\ closeCount <= 1

\* every Get yields the same, assigned channel
GetConsistent == \A t, u \in Threads :
    (op[t] = "Get" /\ pc[t] = "ret") =>
        /\ res[t] # "nil"
        /\ (op[u] = "Get" /\ pc[u] = "ret" => res[u] = res[t])

\* once Close has returned the channel every Get hands out is closed; without a Close it never is
ClosedIffClose ==
    /\ (\A t \in Threads : op[t] = "Close" /\ pc[t] = "ret" => IsClosed(ch))
    /\ ((\A t \in Threads : op[t] # "Close") => ~IsClosed(ch))

\* capacity is honoured
BufBound == buf <= CapOf(ch)

\* no lost wake-up: in a terminal state nobody is blocked although it could proceed
NoLostWakeup == Terminal => \A t \in Threads : pc[t] = "ret" \/ Blocked(t)

EmitTerminal == (Hist /\ Terminal) =>
    PrintT("@@" \o ToJson([ops |-> op, sched |-> hist, res |-> res, pcs |-> pc,
                           closed |-> IsClosed(ch), ch |-> ch, buf |-> buf]))

=============================================================================
