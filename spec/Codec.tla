------------------------------- MODULE Codec -------------------------------
(***************************************************************************)
(* Reference description of the drpc frame codec (drpcwire/packet.go,      *)
(* varint.go, split.go, README) as a byte-at-a-time decoder state machine. *)
(*                                                                         *)
(*   frame   = control stream message length payload[length]              *)
(*   control = control-bit<<7 | kind<<1 | done                             *)
(*   varint  = 7-bit little-endian groups, high bit = continuation, at     *)
(*             most 10 bytes; the 10th group contributes only bit 63       *)
(*             (arithmetic is modulo 2^64), an 11th byte is an error       *)
(*                                                                         *)
(* 64-bit values do not fit TLC's integers, so a value is represented by   *)
(* its base-128 digit sequence (little endian, normalised by Norm).        *)
(*                                                                         *)
(* TLC enumerates every input string over an alphabet up to a bound        *)
(* (exhaustive cfg), every combination of structured chunks (structure     *)
(* cfg), or random strings over all 256 byte values (simulation); for each *)
(* the invariant Emit prints the input together with the answer this       *)
(* description demands.  The harness feeds the same bytes to the real      *)
(* ParseFrame / ReadVarint and compares (C08, C13).                        *)
(***************************************************************************)
EXTENDS Integers, Sequences, FiniteSets, TLC, Json

CONSTANTS
    Mode,        \* "frame" | "varint" | "struct"
    MaxLen,      \* bound on the input length (frame / varint mode)
    CtlBytes,    \* alphabet of the first byte in frame mode
    Bytes,       \* alphabet of all other bytes
    VarLens,     \* struct mode: encoded lengths of well-formed varints to generate
    TruncLens,   \* struct mode: lengths at which a varint is cut off (input ends there)
    EncKinds,    \* enc mode: kinds to encode
    EncIds,      \* enc mode: id values (normalised digit sequences)
    EncLens,     \* enc mode: payload lengths
    SplitCases   \* split mode: set of <<payload length, split size n>> (0 = default 64 KiB, negative = do not split)

VARIABLES input, st, stop, frm

vars == <<input, st, stop, frm>>

Huge == 1000000000

(* ---------------------------------------------------------------------- *)
(* values as digit sequences                                               *)
(* ---------------------------------------------------------------------- *)

RECURSIVE TrimZeros(_)
TrimZeros(d) == IF Len(d) > 1 /\ d[Len(d)] = 0 THEN TrimZeros(SubSeq(d, 1, Len(d) - 1)) ELSE d

\* the 10th group only contributes its lowest bit (value mod 2^64)
Norm(d) == TrimZeros(IF Len(d) = 10 THEN [d EXCEPT ![10] = d[10] % 2] ELSE d)

\* numeric value when it is small, Huge otherwise
Small(d) == LET n == Norm(d) IN
            IF Len(n) > 3 THEN Huge
            ELSE n[1] + (IF Len(n) >= 2 THEN 128 * n[2] ELSE 0) + (IF Len(n) >= 3 THEN 16384 * n[3] ELSE 0)

\* AppendVarint: canonical encoding of a normalised digit sequence
EncVarint(d) == [i \in 1..Len(d) |-> IF i < Len(d) THEN d[i] + 128 ELSE d[i]]

(* ---------------------------------------------------------------------- *)
(* decoder                                                                 *)
(* ---------------------------------------------------------------------- *)

InitSt == [ph   |-> IF Mode = "varint" THEN "v" ELSE "ctl",
           fi   |-> 1,            \* which varint is being read (1 stream, 2 message, 3 length)
           dig  |-> <<>>,         \* digits of the varint being read
           ctl  |-> 0,
           f    |-> <<>>,         \* completed varints (raw digits)
           need |-> 0,            \* payload bytes still missing
           plen |-> 0, poff |-> 0,
           rem  |-> 0]            \* bytes after the end of the frame

NVar == IF Mode = "varint" THEN 1 ELSE 3

Feed(s, b, pos) ==
    CASE s.ph = "ctl"  -> [s EXCEPT !.ph = "v", !.ctl = b]
      [] s.ph = "v"    ->
           LET d == Append(s.dig, b % 128) IN
           IF b >= 128
             THEN IF Len(d) = 10 THEN [s EXCEPT !.ph = "err", !.dig = d]
                  ELSE [s EXCEPT !.dig = d]
             ELSE \* this byte ends the varint
                  IF s.fi < NVar THEN [s EXCEPT !.fi = s.fi + 1, !.dig = <<>>, !.f = Append(s.f, d)]
                  ELSE IF Mode = "varint" THEN [s EXCEPT !.ph = "done", !.dig = <<>>, !.f = Append(s.f, d)]
                  ELSE LET n == Small(d) IN
                       [s EXCEPT !.ph = IF n = 0 THEN "done" ELSE "pay", !.dig = <<>>,
                                 !.f = Append(s.f, d), !.need = n, !.plen = n, !.poff = pos]
      [] s.ph = "pay"  -> [s EXCEPT !.need = s.need - 1, !.ph = IF s.need = 1 THEN "done" ELSE "pay"]
      [] s.ph = "done" -> [s EXCEPT !.rem = s.rem + 1]
      [] s.ph = "err"  -> s

RECURSIVE FeedAll(_, _, _)
FeedAll(s, bs, pos) == IF bs = <<>> THEN s ELSE FeedAll(Feed(s, Head(bs), pos + 1), Tail(bs), pos + 1)

\* the answer the description demands for the whole input
Result(s, n) ==
    CASE s.ph = "err"  -> [res |-> "err"]
      [] s.ph = "done" ->
           IF Mode = "varint"
             THEN [res |-> "ok", val |-> Norm(s.f[1]), rem |-> s.rem]
             ELSE [res |-> "ok", kind |-> (s.ctl \div 2) % 64, done |-> s.ctl % 2 = 1,
                   control |-> s.ctl >= 128, sid |-> Norm(s.f[1]), mid |-> Norm(s.f[2]),
                   plen |-> s.plen, poff |-> s.poff, rem |-> s.rem]
      [] OTHER         -> [res |-> "more"]

(* ---------------------------------------------------------------------- *)
(* behaviours: inputs grow one byte (or one structured chunk) at a time    *)
(* ---------------------------------------------------------------------- *)

\* ---- encode direction (AppendFrame) and SplitN/SplitData ----
Payload(n) == [i \in 1..n |-> (i * 37) % 256]
EncFrame(fr) == <<(IF fr.control THEN 128 ELSE 0) + 2 * fr.kind + (IF fr.done THEN 1 ELSE 0)>>
                \o EncVarint(fr.sid) \o EncVarint(fr.mid) \o EncVarint(fr.lend) \o Payload(fr.plen)
LenDigits(n) == IF n < 128 THEN <<n>> ELSE IF n < 16384 THEN <<n % 128, n \div 128>>
                ELSE <<n % 128, (n \div 128) % 128, n \div 16384>>
FrameSpace == [kind : EncKinds, done : BOOLEAN, control : BOOLEAN, sid : EncIds, mid : EncIds,
               plen : EncLens, tail : {<<>>, <<255, 0>>}]

EffSplit(n) == IF n = 0 THEN 65536 ELSE IF n < 0 THEN 0 ELSE n
RECURSIVE Chunks(_, _)
Chunks(len, n) == IF EffSplit(n) > 0 /\ len > EffSplit(n)
                    THEN <<EffSplit(n)>> \o Chunks(len - EffSplit(n), n) ELSE <<len>>
RECURSIVE Sum(_)
Sum(q) == IF q = <<>> THEN 0 ELSE Head(q) + Sum(Tail(q))

Init == \/ /\ Mode \in {"frame", "varint", "struct"}
           /\ input = <<>> /\ st = InitSt /\ stop = FALSE /\ frm = <<>>
        \/ /\ Mode = "enc"
           /\ \E fr \in FrameSpace :
                /\ frm = fr
                /\ input = EncFrame([fr EXCEPT !.plen = fr.plen] @@ [lend |-> LenDigits(fr.plen)]) \o fr.tail
                /\ st = FeedAll(InitSt, input, 0)
           /\ stop = TRUE
        \/ /\ Mode = "split"
           /\ \E c \in SplitCases : frm = [len |-> c[1], n |-> c[2], chunks |-> Chunks(c[1], c[2])]
           /\ input = <<>> /\ st = InitSt /\ stop = TRUE

AddByte == /\ Mode \in {"frame", "varint"}
           /\ Len(input) < MaxLen
           /\ \E b \in (IF Mode = "frame" /\ input = <<>> THEN CtlBytes ELSE Bytes) :
                /\ input' = Append(input, b)
                /\ st' = Feed(st, b, Len(input) + 1)
           /\ UNCHANGED <<stop, frm>>

\* structured chunks for one varint: well-formed of every length with extreme digits,
\* cut off after j bytes, and over-long
Cont(n, x) == [i \in 1..n |-> 128 + x]
GoodVarints == { Cont(n - 1, x) \o <<y>> : n \in VarLens, x \in {0, 127}, y \in {0, 1, 127} }
TruncVarints == { Cont(j, x) : j \in TruncLens, x \in {0, 127} }
LongVarints == { Cont(10, 0), Cont(10, 127), Cont(11, 1) }

AddChunk == /\ Mode = "struct" /\ ~stop
            /\ \/ /\ st.ph = "ctl"
                  /\ \E b \in CtlBytes : input' = Append(input, b) /\ st' = Feed(st, b, 1) /\ UNCHANGED stop
               \/ /\ st.ph = "v" /\ st.dig = <<>>
                  /\ \/ \E c \in (IF st.fi = 3 THEN {<<0>>, <<1>>, <<2>>, <<128, 1>>, Cont(9, 0) \o <<1>>, Cont(8, 127) \o <<127>>} ELSE GoodVarints) :
                          input' = input \o c /\ st' = FeedAll(st, c, Len(input)) /\ UNCHANGED stop
                     \/ \E c \in TruncVarints \cup LongVarints :
                          input' = input \o c /\ st' = FeedAll(st, c, Len(input)) /\ stop' = TRUE
               \/ /\ st.ph = "pay"   \* payload shorter than, equal to, longer than the length field
                  /\ \E k \in {st.need - 1, st.need, st.need + 1} :
                       /\ k >= 0 /\ k <= 300
                       /\ LET c == [i \in 1..k |-> (i * 37) % 256] IN
                          input' = input \o c /\ st' = FeedAll(st, c, Len(input))
                       /\ stop' = TRUE
               \/ /\ st.ph = "done" /\ st.rem = 0   \* trailing bytes after a complete frame
                  /\ input' = input \o <<255, 0>> /\ st' = FeedAll(st, <<255, 0>>, Len(input)) /\ stop' = TRUE

Next == AddByte \/ (AddChunk /\ UNCHANGED frm)

Spec == Init /\ [][Next]_vars

(* ---------------------------------------------------------------------- *)
(* properties of the description itself                                    *)
(* ---------------------------------------------------------------------- *)

TypeOK == /\ st.ph \in {"ctl", "v", "pay", "done", "err"}
          /\ st.fi \in 1..3 /\ Len(st.dig) <= 10 /\ st.need >= 0 /\ st.rem >= 0

\* the answer only depends on the bytes: replaying the whole input from scratch gives the same state
Deterministic == st = FeedAll(InitSt, input, 0)

\* errors are sticky and a frame, once complete, stays the same frame
Monotone == [][(st.ph = "err" => st'.ph = "err") /\
               (st.ph = "done" => st'.ph = "done" /\ st'.f = st.f /\ st'.plen = st.plen /\ st'.rem = st.rem + (Len(input') - Len(input)))]_vars

\* "need more" is only ever demanded for a proper prefix of some frame: the canonical
\* completion (terminate the varints with 00, supply the missing payload) parses
Completion(s) ==
    IF s.ph = "ctl" THEN <<0, 0, 0, 0>>
    ELSE IF s.ph = "v" THEN [i \in 1..(NVar - s.fi + 1) |-> 0]
    ELSE <<>>
NeedMoreIsPrefix ==
    (st.ph \in {"ctl", "v"}) =>
        LET s2 == FeedAll(st, Completion(st), Len(input)) IN s2.ph \in {"done", "pay"}

\* a frame needs at least four bytes (the parser's fast path relies on it)
MinFrame == (Mode # "varint" /\ st.ph \in {"done", "err"}) => Len(input) >= 4

\* encoding then decoding yields the same frame and consumes exactly the encoded bytes
RoundTrip == Mode = "enc" =>
    /\ st.ph = "done"
    /\ Norm(st.f[1]) = frm.sid /\ Norm(st.f[2]) = frm.mid
    /\ st.plen = frm.plen /\ st.rem = Len(frm.tail)
    /\ (st.ctl \div 2) % 64 = frm.kind /\ (st.ctl % 2 = 1) = frm.done /\ (st.ctl >= 128) = frm.control

\* splitting loses nothing, never exceeds the split size, and only the last chunk may be short
SplitOK == Mode = "split" =>
    LET c == frm.chunks e == EffSplit(frm.n) IN
    /\ Len(c) >= 1 /\ Sum(c) = frm.len
    /\ \A i \in 1..Len(c) : (e > 0 => c[i] <= e) /\ (i < Len(c) => c[i] = e) /\ (frm.len > 0 => c[i] > 0)

\* emission of one oracle record per state
Emit == PrintT("@@" \o ToJson([in |-> input, r |-> Result(st, Len(input)), frm |-> frm]))

=============================================================================
