------------------------------ MODULE MetaCtx ------------------------------
(***************************************************************************)
(* The context side of call metadata (drpcmetadata.Add / AddPairs / Get),   *)
(* part of C11: the key/value strings attached to a call's context are      *)
(* those the handler of that call sees -- and attaching metadata for one    *)
(* call does not change what another context carries.                       *)
(*                                                                         *)
(* Contexts are values: Add(ctx, k, v) and AddPairs(ctx, m) return a new    *)
(* context and leave ctx, every context derived from it earlier, and the    *)
(* caller's map m as they were; the caller changing m afterwards changes no *)
(* context.  A behaviour is a sequence of such calls on a growing family of *)
(* contexts (context 1 is context.Background()); the record printed at the  *)
(* end says what Get must return for every context and what the caller's    *)
(* map must contain.                                                        *)
(***************************************************************************)
EXTENDS Naturals, Sequences, TLC, Json

CONSTANTS Keys, Vals, MaxOps

NoVal == "-"
Empty == [k \in Keys |-> NoVal]

VARIABLES ctxs,   \* sequence of maps (Keys -> Vals \cup {NoVal}); NoVal = key absent
          um,     \* the caller's own map, handed to AddPairs
          ops     \* the calls made so far

vars == <<ctxs, um, ops>>

Init == ctxs = <<Empty>> /\ um = Empty /\ ops = <<>>

\* later entries win (AddPairs sets every pair of m on top of what ctx carries)
Merge(base, m) == [k \in Keys |-> IF m[k] # NoVal THEN m[k] ELSE base[k]]

DoAdd(i, k, v) == /\ ctxs' = Append(ctxs, [ctxs[i] EXCEPT ![k] = v])
                  /\ ops' = Append(ops, [op |-> "add", i |-> i, k |-> k, v |-> v])
                  /\ UNCHANGED um
DoAddPairs(i) == /\ ctxs' = Append(ctxs, Merge(ctxs[i], um))
                 /\ ops' = Append(ops, [op |-> "addpairs", i |-> i, k |-> "", v |-> ""])
                 /\ UNCHANGED um
UserSet(k, v) == /\ um[k] # v /\ um' = [um EXCEPT ![k] = v]
                 /\ ops' = Append(ops, [op |-> "userset", i |-> 0, k |-> k, v |-> v])
                 /\ UNCHANGED ctxs

Next == /\ Len(ops) < MaxOps
        /\ \/ \E i \in 1..Len(ctxs), k \in Keys, v \in Vals : DoAdd(i, k, v)
           \/ \E i \in 1..Len(ctxs) : DoAddPairs(i)
           \/ \E k \in Keys, v \in Vals : UserSet(k, v)
Spec == Init /\ [][Next]_vars

\* contexts never change once made (what the specification is about)
Immutable == [][\A i \in 1..Len(ctxs) : ctxs'[i] = ctxs[i]]_vars

Emit == (Len(ops) = MaxOps) => PrintT("@@" \o ToJson([ops |-> ops, ctxs |-> ctxs, um |-> um]))
=============================================================================
