-------------------------------- MODULE Http --------------------------------
(***************************************************************************)
(* Reference description of the drpchttp gateway (handler.go, options.go,  *)
(* context.go, encoding.go, protocol_twirp.go, protocol_grpc_web.go and    *)
(* the package documentation of NewWithOptions).                           *)
(*                                                                         *)
(* One behaviour = one HTTP request.  The initial state fixes the case     *)
(* (content type, handler script, handler outcome, request class,          *)
(* X-Drpc-Metadata entries); the protocol is chosen and the metadata is    *)
(* decoded there (ServeHTTP before HandleRPC).  Then the handler script    *)
(* runs against the abstract stream object, one action per stream call:    *)
(*                                                                         *)
(*     Recv  ->  Send*  ->  Return  ->  Finish                              *)
(*                                                                         *)
(* (a failing stream call makes the script return that error, which is     *)
(* what drpcmux and generated handlers do).  The terminal state carries    *)
(* the abstract response the description demands:                          *)
(*                                                                         *)
(*   <<status, content type, base64?, frames <<flag, message index, len>>, *)
(*     trailers <<key, value>>, json error <<code, msg>>, body>>           *)
(*                                                                         *)
(* plus what the handler must have observed (request message intact or     *)
(* rejected, metadata map, rpc name).  Emit prints one JSON record per     *)
(* terminal state; the harness concretises the case, drives the real       *)
(* drpchttp.New(handler) through an httptest.ResponseRecorder, lifts the   *)
(* real response to the same abstract form and compares (C14); the same    *)
(* enumeration under recover decides the HTTP part of C13.                 *)
(*                                                                         *)
(* Texts.  A text is [s |-> "..."] for strings from the clean vocabulary   *)
(* (no CR/LF, no blanks at the ends: sanitising is the identity on them),  *)
(* [b |-> <<byte values>>] for hostile texts, [opaque |-> TRUE] for the    *)
(* text of an error the library itself produced (any text is accepted, it  *)
(* must still be a single trailer line).                                   *)
(***************************************************************************)
EXTENDS Integers, Sequences, FiniteSets, TLC, Json

CONSTANTS
    Mode,          \* "resp" | "chain" | "size" | "meta"
    CTs,           \* request content types ("" = no Content-Type header)
    Progs,         \* handler scripts: "unary", "s0", "s1", "s3"
    Codes,         \* resp mode: code of a one-node handler error
    Msgs,          \* resp mode: error texts
    ChainLens,     \* chain mode: numbers of interesting nodes of the error chain
    Pads,          \* chain mode: numbers of plain wrappers in front of the last node
    ReqShapes,     \* size mode: request classes [m |-> size token, defect |-> ...]
    BigSizes,      \* size mode: sequences of response size tokens
    HdrAlphabet,   \* meta mode: symbols (one-character strings)
    MaxHdr,        \* meta mode: maximal length of a single entry
    PairEntries    \* meta mode: entries that are combined into two-entry header lists

VARIABLES cs, pc, nsent, frames, pending, herr, recvd, md, fin

vars == <<cs, pc, nsent, frames, pending, herr, recvd, md, fin>>

Limit == 4194304     \* 4 MiB: maxSize of encoding.go
Fuel  == 100         \* bound of the unwrap loops (drpcerr.Code, getCode)

T(s) == [s |-> s]
B(b) == [b |-> b]
Opaque == [opaque |-> TRUE]
IsB(t) == "b" \in DOMAIN t
IsS(t) == "s" \in DOMAIN t

(* ---------------------------------------------------------------------- *)
(* protocol choice: exact content type, "*" fallback                       *)
(* ---------------------------------------------------------------------- *)

Known == {"application/proto", "application/json",
          "application/grpc-web+proto", "application/grpc-web+json",
          "application/grpc-web-text+proto", "application/grpc-web-text+json"}

Entry(ct) ==
    CASE ct = "application/proto"               -> [fam |-> "twirp", ct |-> ct, json |-> FALSE, b64 |-> FALSE]
      [] ct = "application/json"                -> [fam |-> "twirp", ct |-> ct, json |-> TRUE,  b64 |-> FALSE]
      [] ct = "application/grpc-web+proto"      -> [fam |-> "grpc",  ct |-> ct, json |-> FALSE, b64 |-> FALSE]
      [] ct = "application/grpc-web+json"       -> [fam |-> "grpc",  ct |-> ct, json |-> TRUE,  b64 |-> FALSE]
      [] ct = "application/grpc-web-text+proto" -> [fam |-> "grpc",  ct |-> ct, json |-> FALSE, b64 |-> TRUE]
      [] ct = "application/grpc-web-text+json"  -> [fam |-> "grpc",  ct |-> ct, json |-> TRUE,  b64 |-> TRUE]
      [] ct = "*"                               -> [fam |-> "twirp", ct |-> "application/proto", json |-> FALSE, b64 |-> FALSE]

Proto(ct) == IF ct \in Known THEN Entry(ct) ELSE Entry("*")

(* ---------------------------------------------------------------------- *)
(* Twirp: error code -> HTTP status (18 entries, anything else 500)        *)
(* ---------------------------------------------------------------------- *)

TwirpTable ==
    "canceled" :> 408 @@ "unknown" :> 500 @@ "invalid_argument" :> 400 @@ "malformed" :> 400 @@
    "deadline_exceeded" :> 408 @@ "not_found" :> 404 @@ "bad_route" :> 404 @@ "already_exists" :> 409 @@
    "permission_denied" :> 403 @@ "unauthenticated" :> 401 @@ "resource_exhausted" :> 429 @@
    "failed_precondition" :> 412 @@ "aborted" :> 409 @@ "out_of_range" :> 400 @@ "unimplemented" :> 501 @@
    "internal" :> 500 @@ "unavailable" :> 503 @@ "dataloss" :> 500

TwirpStatus(code) == IF IsS(code) /\ code.s \in DOMAIN TwirpTable THEN TwirpTable[code.s] ELSE 500

(* ---------------------------------------------------------------------- *)
(* trailer values: CR and LF become blanks, then blanks/tabs at both ends  *)
(* are dropped, so a value is always exactly one line                      *)
(* ---------------------------------------------------------------------- *)

NoNL(b) == [i \in 1..Len(b) |-> IF b[i] \in {10, 13} THEN 32 ELSE b[i]]
Blank(x) == x \in {32, 9}
RECURSIVE TrimL(_)
TrimL(b) == IF b # <<>> /\ Blank(Head(b)) THEN TrimL(Tail(b)) ELSE b
RECURSIVE TrimR(_)
TrimR(b) == IF b # <<>> /\ Blank(b[Len(b)]) THEN TrimR(SubSeq(b, 1, Len(b) - 1)) ELSE b
Sanitize(t) == IF IsB(t) THEN B(TrimR(TrimL(NoNL(t.b)))) ELSE t

(* ---------------------------------------------------------------------- *)
(* error values: a chain of nodes.  A node may have Code() uint64 ("num"), *)
(* Code() string ("str"), Cause() and/or Unwrap(); a link leads to the     *)
(* next node, to nil, back to the node itself, or to the first node.       *)
(* ch.pad plain wrappers (Unwrap only, no code) sit in front of the last   *)
(* node.  Both extraction loops look at no more than Fuel errors; Cause is *)
(* preferred over Unwrap; a nil error ends the chain.                      *)
(* ---------------------------------------------------------------------- *)

Follow(nd) == IF nd.cause # "no" THEN nd.cause ELSE nd.unwrap
PadBefore(ch, j) == IF j = Len(ch.nodes) THEN ch.pad ELSE 0

\* drpcerr.Code: first Code() uint64 found, as a decimal string; "0" if none
RECURSIVE NumWalk(_, _, _)
NumWalk(ch, i, fuel) ==
    IF fuel <= 0 THEN "0"
    ELSE LET nd == ch.nodes[i]
             t  == Follow(nd) IN
         IF nd.code.k = "num" THEN nd.code.v.s
         ELSE CASE t \in {"no", "nil"} -> "0"
                [] t = "next"          -> NumWalk(ch, i + 1, fuel - 1 - PadBefore(ch, i + 1))
                [] t = "self"          -> NumWalk(ch, i, fuel - 1)
                [] t = "first"         -> NumWalk(ch, 1, fuel - 1)

\* first Code() string found
RECURSIVE StrWalk(_, _, _)
StrWalk(ch, i, fuel) ==
    IF fuel <= 0 THEN [found |-> FALSE]
    ELSE LET nd == ch.nodes[i]
             t  == Follow(nd) IN
         IF nd.code.k = "str" THEN [found |-> TRUE, v |-> nd.code.v]
         ELSE CASE t \in {"no", "nil"} -> [found |-> FALSE]
                [] t = "next"          -> StrWalk(ch, i + 1, fuel - 1 - PadBefore(ch, i + 1))
                [] t = "self"          -> StrWalk(ch, i, fuel - 1)
                [] t = "first"         -> StrWalk(ch, 1, fuel - 1)

\* e is [k |-> "none"], [k |-> "lib"] (error made by the gateway itself: no codes) or
\* [k |-> "handler", chain, msg]
NumCode(e) == IF e.k = "handler" THEN NumWalk(e.chain, 1, Fuel - PadBefore(e.chain, 1)) ELSE "0"
GetCode(e) ==
    LET n == NumCode(e)
        s == IF e.k = "handler" THEN StrWalk(e.chain, 1, Fuel - PadBefore(e.chain, 1)) ELSE [found |-> FALSE] IN
    IF s.found THEN s.v
    ELSE IF n # "0" THEN T("drpcerr(" \o n \o ")")
    ELSE T("unknown")
ErrText(e) == IF e.k = "handler" THEN e.msg ELSE Opaque

(* ---------------------------------------------------------------------- *)
(* X-Drpc-Metadata: percentEncode(key)=percentEncode(value)                *)
(* ---------------------------------------------------------------------- *)

Chars == <<
    " ", "!", "\"", "#", "$", "%", "&", "'", "(", ")", "*", "+", ",", "-", ".", "/",
    "0", "1", "2", "3", "4", "5", "6", "7", "8", "9", ":", ";", "<", "=", ">", "?",
    "@", "A", "B", "C", "D", "E", "F", "G", "H", "I", "J", "K", "L", "M", "N", "O",
    "P", "Q", "R", "S", "T", "U", "V", "W", "X", "Y", "Z", "[", "\\", "]", "^", "_",
    "`", "a", "b", "c", "d", "e", "f", "g", "h", "i", "j", "k", "l", "m", "n", "o",
    "p", "q", "r", "s", "t", "u", "v", "w", "x", "y", "z", "{", "|", "}", "~" >>

Ord(c) == 31 + CHOOSE i \in 1..Len(Chars) : Chars[i] = c
HexVal(c) == LET d == Ord(c) IN
             IF d >= 48 /\ d <= 57 THEN d - 48
             ELSE IF d >= 97 /\ d <= 102 THEN d - 87
             ELSE IF d >= 65 /\ d <= 70 THEN d - 55
             ELSE -1

\* percent-decoding of a symbol sequence: [ok, b]
RECURSIVE Unesc(_)
Unesc(s) ==
    IF s = <<>> THEN [ok |-> TRUE, b |-> <<>>]
    ELSE IF Head(s) = "%"
      THEN IF Len(s) < 3 \/ HexVal(s[2]) < 0 \/ HexVal(s[3]) < 0
             THEN [ok |-> FALSE, b |-> <<>>]
             ELSE LET r == Unesc(SubSeq(s, 4, Len(s))) IN
                  [ok |-> r.ok, b |-> IF r.ok THEN <<16 * HexVal(s[2]) + HexVal(s[3])>> \o r.b ELSE <<>>]
      ELSE LET r == Unesc(Tail(s)) IN
           [ok |-> r.ok, b |-> IF r.ok THEN <<Ord(Head(s))>> \o r.b ELSE <<>>]

FirstEq(e) == IF \E i \in 1..Len(e) : e[i] = "="
                THEN CHOOSE i \in 1..Len(e) : e[i] = "=" /\ \A j \in 1..(i - 1) : e[j] # "="
                ELSE 0

\* one entry: split at the first '=', both halves decoded; no '=' means an empty value
DecodeEntry(e) ==
    LET i == FirstEq(e)
        k == Unesc(IF i = 0 THEN e ELSE SubSeq(e, 1, i - 1))
        v == IF i = 0 THEN [ok |-> TRUE, b |-> <<>>] ELSE Unesc(SubSeq(e, i + 1, Len(e))) IN
    [ok |-> k.ok /\ v.ok, k |-> k.b, v |-> v.b]

\* all entries: a later entry overrides an earlier one with the same key; if any entry is
\* malformed the request is served without any metadata
MetaOf(hdrs) ==
    LET d == [i \in 1..Len(hdrs) |-> DecodeEntry(hdrs[i])] IN
    IF \E i \in 1..Len(d) : ~d[i].ok THEN [ok |-> FALSE, pairs |-> <<>>]
    ELSE LET keep == {i \in 1..Len(d) : \A j \in (i + 1)..Len(d) : d[j].k # d[i].k}
             F[i \in 0..Len(d)] == IF i = 0 THEN <<>>
                                   ELSE IF i \in keep THEN Append(F[i - 1], [k |-> d[i].k, v |-> d[i].v])
                                   ELSE F[i - 1] IN
         [ok |-> TRUE, pairs |-> F[Len(d)]]

\* canonical encoder (used by the round-trip invariant only)
HexDigits == <<"0", "1", "2", "3", "4", "5", "6", "7", "8", "9", "A", "B", "C", "D", "E", "F">>
RECURSIVE Esc(_)
Esc(b) == IF b = <<>> THEN <<>>
          ELSE LET x == Head(b) IN
               (IF x \in {37, 61} \/ x < 32 \/ x > 126
                  THEN <<"%", HexDigits[(x \div 16) + 1], HexDigits[(x % 16) + 1]>>
                  ELSE <<Chars[x - 31]>>) \o Esc(Tail(b))

(* ---------------------------------------------------------------------- *)
(* sizes                                                                   *)
(* ---------------------------------------------------------------------- *)

MinMsg(P) == IF P.json THEN 2 ELSE 0      \* the shortest marshalled message
\* i distinguishes the messages of one response
SizeOf(P, tok, i) ==
    CASE tok = "min"   -> MinMsg(P)
      [] tok = "small" -> 18 + 4 * i
      [] tok = "lim-1" -> Limit - 1
      [] tok = "lim"   -> Limit
      [] tok = "lim+1" -> Limit + 1
      [] tok = "lim+5" -> Limit + 5

\* does the request carry one complete message within the limit?
\* twirp: the body is the message.  grpc-web: 5-byte header (flag, big-endian length), then the payload;
\* defects: "nobody" (empty body), "shorthdr" (3 bytes), "hdronly" (header, no payload byte),
\* "trunc" (payload shorter than the length field), "len32max" (length field 2^32-1), "b64junk"
RecvResult(P, req) ==
    IF req.defect # "none" THEN "reject"
    ELSE IF SizeOf(P, req.m, 0) > Limit THEN "reject"
    ELSE "full"

\* for requests whose bytes on the wire are few, no length field may make the gateway allocate more
\* than one maximal message plus its header
SmallOnWire(req) == req.defect \in {"nobody", "shorthdr", "hdronly", "trunc", "len32max", "b64junk"}

(* ---------------------------------------------------------------------- *)
(* case space                                                              *)
(* ---------------------------------------------------------------------- *)

Ok == [k |-> "ok"]
SmallReq == [m |-> "small", defect |-> "none"]
NoCode == [k |-> "none", v |-> T("")]
PlainNode(code) == [code |-> code, cause |-> "no", unwrap |-> "no"]
Err1(code, msg) == [k |-> "err", chain |-> [nodes |-> <<PlainNode(code)>>, pad |-> 0, tnil |-> FALSE], msg |-> msg]

SizesOf(prog, out) ==
    CASE prog = "unary" -> IF out.k = "ok" THEN <<"small">> ELSE <<>>
      [] prog = "s0"    -> <<>>
      [] prog = "s1"    -> <<"small">>
      [] prog = "s3"    -> <<"small", "small", "small">>

Case(ct, p, z, o, r, h) == [ct |-> ct, prog |-> p, sizes |-> z, out |-> o, req |-> r, hdrs |-> h]

\* resp mode: content type x script x outcome
RespOutcomes == {Ok} \cup {Err1(c, m) : c \in Codes, m \in Msgs}

\* chain mode
\* "odd": a method named Code whose signature is neither Code() uint64 nor Code() string (it takes a parameter, is
\* variadic, or returns two values): both extraction loops ignore it
ChainCodes == {NoCode, [k |-> "num", v |-> T("0")], [k |-> "num", v |-> T("7")], [k |-> "str", v |-> T("not_found")],
               [k |-> "odd", v |-> T("odd")]}
InnerLinks == {[cause |-> "next", unwrap |-> "no"], [cause |-> "no", unwrap |-> "next"],
               [cause |-> "next", unwrap |-> "nil"], [cause |-> "nil", unwrap |-> "next"]}
LastLinks(n) == {[cause |-> "no", unwrap |-> "no"], [cause |-> "nil", unwrap |-> "no"], [cause |-> "no", unwrap |-> "nil"],
                 [cause |-> "no", unwrap |-> "self"], [cause |-> "self", unwrap |-> "no"]}
                \cup (IF n > 1 THEN {[cause |-> "no", unwrap |-> "first"]} ELSE {})
Node(c, l) == [code |-> c, cause |-> l.cause, unwrap |-> l.unwrap]
InnerNodes == {Node(c, l) : c \in ChainCodes, l \in InnerLinks}
LastNodes(n) == {Node(c, l) : c \in ChainCodes, l \in LastLinks(n)}
\* a typed nil pointer (methods that tolerate a nil receiver) as the last error of the chain
TnilOK(nd) == IF nd.cause = "no" /\ nd.unwrap \in {"no", "nil"} THEN BOOLEAN ELSE {FALSE}
Prefixes(n) == IF n = 1 THEN {<<>>} ELSE [1..(n - 1) -> InnerNodes]
ChainMsg(ch) == IF ch.tnil /\ Len(ch.nodes) = 1 /\ ch.pad = 0 THEN T("typed-nil") ELSE T("E")
ChainErr(ch) == [k |-> "err", chain |-> ch, msg |-> ChainMsg(ch)]

\* size mode: every request class with small responses, and a small request with big responses
ReqOK(pr, r) == CASE pr.fam = "twirp" -> r.defect = "none"
                  [] r.defect = "b64junk" -> pr.b64
                  [] OTHER -> TRUE
ProgOfLen(n) == IF n = 1 THEN "unary" ELSE "s" \o ToString(n)

\* meta mode: no header, every single entry up to MaxHdr symbols, every two-entry list over PairEntries
HdrStrings == UNION {[1..n -> HdrAlphabet] : n \in 1..MaxHdr}
HdrLists == {<<>>} \cup {<<e>> : e \in HdrStrings} \cup {<<a, b>> : a \in PairEntries, b \in PairEntries}

\* the case is chosen by nested quantifiers (nothing is materialised as one big set)
ChooseCase ==
    \/ /\ Mode = "resp"
       /\ \E ct \in CTs, p \in Progs, o \in RespOutcomes : cs = Case(ct, p, SizesOf(p, o), o, SmallReq, <<>>)
    \/ /\ Mode = "chain"
       /\ \E ct \in CTs, n \in ChainLens : \E pre \in Prefixes(n), last \in LastNodes(n), pd \in Pads : \E t \in TnilOK(last) :
             cs = Case(ct, "unary", <<>>, ChainErr([nodes |-> pre \o <<last>>, pad |-> pd, tnil |-> t]), SmallReq, <<>>)
    \/ /\ Mode = "size"
       /\ \E ct \in CTs :
             \/ \E p \in {"unary", "s3"}, r \in ReqShapes :
                   ReqOK(Proto(ct), r) /\ cs = Case(ct, p, SizesOf(p, Ok), Ok, r, <<>>)
             \/ \E z \in BigSizes : cs = Case(ct, ProgOfLen(Len(z)), z, Ok, SmallReq, <<>>)
    \/ /\ Mode = "meta"
       /\ \E ct \in CTs, h \in HdrLists : cs = Case(ct, "unary", <<"small">>, Ok, SmallReq, h)

(* ---------------------------------------------------------------------- *)
(* the gateway as a state machine                                          *)
(* ---------------------------------------------------------------------- *)

P == Proto(cs.ct)
NoErr == [k |-> "none"]
LibErr == [k |-> "lib"]
NoFin == [proto |-> "none"]

Init == /\ ChooseCase
        /\ pc = "recv" /\ nsent = 0 /\ frames = <<>> /\ pending = <<>>
        /\ herr = NoErr /\ recvd = "none" /\ fin = NoFin
        /\ md = MetaOf(cs.hdrs)          \* Context(req) runs before the stream exists

\* MsgRecv: the request message arrives intact or the call fails; never anything in between
Recv == /\ pc = "recv"
        /\ recvd' = RecvResult(P, cs.req)
        /\ IF recvd' = "reject" THEN herr' = LibErr /\ pc' = "ret"
                                ELSE herr' = herr /\ pc' = "send"
        /\ UNCHANGED <<cs, nsent, frames, pending, md, fin>>

\* MsgSend of message nsent+1
Send == /\ pc = "send" /\ nsent < Len(cs.sizes)
        /\ LET i  == nsent + 1
               sz == SizeOf(P, cs.sizes[i], i) IN
           IF P.fam = "twirp"
             THEN \* unary only: the first message is the response, any further send fails
                  IF i = 1 THEN /\ pending' = <<[msg |-> 1, len |-> sz]>> /\ nsent' = 1
                                /\ UNCHANGED <<frames, herr, pc>>
                           ELSE /\ herr' = LibErr /\ pc' = "ret" /\ UNCHANGED <<frames, pending, nsent>>
             ELSE \* grpc-web: one frame with flag 0 per message; a message of 4 MiB or more is refused whole
                  IF sz >= Limit THEN /\ herr' = LibErr /\ pc' = "ret" /\ UNCHANGED <<frames, pending, nsent>>
                                 ELSE /\ frames' = Append(frames, [flag |-> 0, msg |-> i, len |-> sz]) /\ nsent' = i
                                      /\ UNCHANGED <<pending, herr, pc>>
        /\ UNCHANGED <<cs, recvd, md, fin>>

\* the handler returns its outcome
Return == /\ pc = "send" /\ nsent = Len(cs.sizes)
          /\ herr' = IF cs.out.k = "ok" THEN NoErr ELSE [k |-> "handler", chain |-> cs.out.chain, msg |-> cs.out.msg]
          /\ pc' = "ret"
          /\ UNCHANGED <<cs, nsent, frames, pending, recvd, md, fin>>

TwirpFinish ==
    IF herr.k = "none"
      THEN [proto |-> "twirp", status |-> 200, ctype |-> P.ct, b64 |-> FALSE, frames |-> <<>>, trailers |-> <<>>,
            jerr |-> <<>>, body |-> pending]
      ELSE LET code == GetCode(herr) IN
           [proto |-> "twirp", status |-> TwirpStatus(code), ctype |-> "application/json", b64 |-> FALSE, frames |-> <<>>,
            trailers |-> <<>>, jerr |-> <<[code |-> code, msg |-> ErrText(herr)]>>, body |-> <<>>]

GrpcStatus == IF herr.k = "none" THEN "0" ELSE IF NumCode(herr) = "0" THEN "2" ELSE NumCode(herr)
GrpcTrailers ==
    <<[k |-> "grpc-status", v |-> T(GrpcStatus)]>> \o
    (IF herr.k = "none" THEN <<>>
     ELSE <<[k |-> "grpc-code", v |-> Sanitize(GetCode(herr))], [k |-> "grpc-message", v |-> Sanitize(ErrText(herr))]>>)
GrpcFinish ==
    [proto |-> "grpc", status |-> 200, ctype |-> P.ct, b64 |-> P.b64,
     frames |-> Append(frames, [flag |-> 128, msg |-> 0, len |-> -1]), trailers |-> GrpcTrailers,
     jerr |-> <<>>, body |-> <<>>]

Finish == /\ pc = "ret"
          /\ fin' = IF P.fam = "twirp" THEN TwirpFinish ELSE GrpcFinish
          /\ pc' = "done"
          /\ UNCHANGED <<cs, nsent, frames, pending, herr, recvd, md>>

Next == Recv \/ Send \/ Return \/ Finish

Spec == Init /\ [][Next]_vars

(* ---------------------------------------------------------------------- *)
(* properties of the description itself (C14 on the model)                 *)
(* ---------------------------------------------------------------------- *)

Done == pc = "done"
Failed == herr.k # "none"

TypeOK == /\ pc \in {"recv", "send", "ret", "done"}
          /\ nsent \in 0..Len(cs.sizes)
          /\ recvd \in {"none", "full", "reject"}
          /\ herr.k \in {"none", "lib", "handler"}
          /\ Done => fin.proto \in {"twirp", "grpc"} /\ fin.status \in 200..599

TableHas18 == Cardinality(DOMAIN TwirpTable) = 18 /\ \A x \in DOMAIN TwirpTable : TwirpTable[x] \in 400..599

\* success or error status implied by the outcome
StatusIffFailed ==
    Done => /\ fin.proto = "twirp" => ((fin.status = 200) <=> ~Failed) /\ ((fin.jerr # <<>>) <=> Failed)
                                      /\ (Failed => fin.body = <<>> /\ fin.ctype = "application/json")
            /\ fin.proto = "grpc" => /\ fin.status = 200
                                     /\ fin.trailers[1].k = "grpc-status"
                                     /\ (fin.trailers[1].v = T("0")) <=> ~Failed
                                     /\ Len(fin.trailers) = IF Failed THEN 3 ELSE 1

\* error text cannot inject trailer lines: every value is one line
OneLine(t) == IsB(t) => \A i \in 1..Len(t.b) : t.b[i] \notin {10, 13}
NoInjection == Done => \A i \in 1..Len(fin.trailers) : OneLine(fin.trailers[i].v)
TrimmedValues == Done => \A i \in 1..Len(fin.trailers) :
                    LET v == fin.trailers[i].v IN IsB(v) /\ v.b # <<>> => ~Blank(v.b[1]) /\ ~Blank(v.b[Len(v.b)])

\* exactly the handler's messages, in order; all of them unless the gateway itself refused one
MsgFrames == SelectSeq(fin.frames, LAMBDA f : f.flag = 0)
InOrderComplete ==
    Done => /\ fin.proto = "grpc" =>
                 /\ \A i \in 1..Len(MsgFrames) : MsgFrames[i].msg = i /\ MsgFrames[i].len = SizeOf(P, cs.sizes[i], i)
                 /\ Len(MsgFrames) <= Len(cs.sizes)
                 /\ herr.k # "lib" => Len(MsgFrames) = Len(cs.sizes)
                 /\ fin.frames[Len(fin.frames)].flag = 128
                 /\ \A i \in 1..(Len(fin.frames) - 1) : fin.frames[i].flag = 0
            /\ fin.proto = "twirp" /\ ~Failed =>
                 fin.body = IF cs.sizes = <<>> THEN <<>> ELSE <<[msg |-> 1, len |-> SizeOf(P, cs.sizes[1], 1)]>>

\* over the limit means rejected, never truncated
NeverTruncated ==
    /\ recvd \in {"none", "full", "reject"}
    /\ (recvd = "full") => SizeOf(P, cs.req.m, 0) <= Limit /\ cs.req.defect = "none"
    /\ (recvd = "reject") => Failed \/ pc = "recv"
    /\ \A i \in 1..Len(frames) : frames[i].len < Limit

\* metadata decodes exactly: re-encoding every decoded string and decoding again is the identity,
\* keys are unique, and a well-formed entry list is never dropped
MetaRoundTrip ==
    /\ \A i \in 1..Len(md.pairs) :
         /\ Unesc(Esc(md.pairs[i].k)) = [ok |-> TRUE, b |-> md.pairs[i].k]
         /\ Unesc(Esc(md.pairs[i].v)) = [ok |-> TRUE, b |-> md.pairs[i].v]
         /\ \A j \in 1..Len(md.pairs) : md.pairs[j].k = md.pairs[i].k => j = i
    /\ md.ok /\ cs.hdrs # <<>> => md.pairs # <<>>

\* frames are only ever appended, the response is final, a failed stream call ends the script
Monotone == [][ /\ Len(frames') >= Len(frames) /\ SubSeq(frames', 1, Len(frames)) = frames
                /\ (pc = "done" => UNCHANGED vars)
                /\ (herr.k = "lib" => herr' = herr /\ nsent' = nsent) ]_vars

(* ---------------------------------------------------------------------- *)
(* one oracle record per terminal state                                    *)
(* ---------------------------------------------------------------------- *)

Emit == Done => PrintT("@@" \o ToJson(
    [mode |-> Mode, ct |-> cs.ct, p |-> P, prog |-> cs.prog,
     sizes |-> [i \in 1..Len(cs.sizes) |-> SizeOf(P, cs.sizes[i], i)],
     out |-> cs.out,
     req |-> [m |-> SizeOf(P, cs.req.m, 0), tok |-> cs.req.m, defect |-> cs.req.defect],
     hdrs |-> cs.hdrs,
     want |-> [resp |-> fin, recv |-> recvd, md |-> md.pairs, mdok |-> md.ok, rpc |-> "path",
               numcode |-> NumCode(herr), failed |-> Failed,
               outnum |-> IF cs.out.k = "err" THEN NumCode([k |-> "handler", chain |-> cs.out.chain, msg |-> cs.out.msg]) ELSE "0",
               allocmax |-> IF SmallOnWire(cs.req) THEN Limit + 5 ELSE 0]]))

=============================================================================
