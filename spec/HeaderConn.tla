------------------------------ MODULE HeaderConn ------------------------------
(***************************************************************************)
(* drpcmigrate.HeaderConn.Write (header.go): the first Write sends the     *)
(* header together with its payload in one write of the underlying         *)
(* connection, under a sync.Once; concurrent Writes wait for that once and *)
(* then write directly.                                                    *)
(*                                                                         *)
(*   once   : "free" | the writer inside once.Do | "done"                  *)
(*   wire   : the bytes the underlying connection has accepted, in order   *)
(*   failed : the underlying connection has failed (a short write comes    *)
(*            with an error; from then on every write fails with n = 0)    *)
(*   pc[w]  : "idle" | "enter" (about to call once.Do) | "uw" (parked in   *)
(*            the underlying Write with buffer buf[w])                     *)
(*                                                                         *)
(* Stimuli: start(w, size) - writer w calls Write with `size` fresh        *)
(* payload bytes; release(w, n) - the underlying Write of w accepts n      *)
(* bytes (n < len => error).  Internal: Enter(w).                          *)
(***************************************************************************)
EXTENDS Integers, Sequences, FiniteSets, TLC, Json

CONSTANTS Writers, NWrites, Sizes, HLen, Lims, Gen, Hist

VARIABLES once, wire, failed, pc, sz, buf, hdr, cnt, rs, lim, nstim, hist

vars == <<once, wire, failed, pc, sz, buf, hdr, cnt, rs, lim, nstim, hist>>
view == <<once, wire, failed, pc, sz, buf, hdr, cnt, rs>>

HByte(k) == [w |-> "H", i |-> 0, j |-> k]
Header == [k \in 1..HLen |-> HByte(k)]
PBytes(w, i, n) == [j \in 1..n |-> [w |-> w, i |-> i, j |-> j]]
Max(a, b) == IF a > b THEN a ELSE b

Init == /\ once = "free" /\ wire = <<>> /\ failed = FALSE
        /\ pc = [w \in Writers |-> "idle"] /\ sz = [w \in Writers |-> 0]
        /\ buf = [w \in Writers |-> <<>>] /\ hdr = [w \in Writers |-> FALSE]
        /\ cnt = [w \in Writers |-> 0] /\ rs = [w \in Writers |-> <<>>]
        /\ lim \in Lims /\ nstim = 0 /\ hist = <<>>

\* d.once.Do(...): the first caller runs the function (header ++ payload in one underlying write),
\* a caller arriving while it runs blocks, later callers write their payload directly
Enter_G(w) == pc[w] = "enter" /\ once \in {"free", "done"}
Enter(w) ==
  /\ Enter_G(w)
  /\ pc' = [pc EXCEPT ![w] = "uw"]
  /\ once' = IF once = "free" THEN w ELSE once
  /\ hdr' = [hdr EXCEPT ![w] = (once = "free")]
  /\ buf' = [buf EXCEPT ![w] = (IF once = "free" THEN Header ELSE <<>>) \o PBytes(w, cnt[w] + 1, sz[w])]
  /\ UNCHANGED <<wire, failed, sz, cnt, rs, lim, nstim, hist>>

Spont == \E w \in Writers : Enter(w)
Quiescent == ~\E w \in Writers : Enter_G(w)

St(k, w, n) == [k |-> k, w |-> w, n |-> n]
StimSet == {St("start", w, n) : w \in Writers, n \in Sizes}
      \cup {St("release", w, n) : w \in Writers, n \in 0..(HLen + Max(0, CHOOSE m \in Sizes : \A k \in Sizes : k <= m))}

Do(s) ==
  CASE s.k = "start" ->
         /\ pc[s.w] = "idle" /\ cnt[s.w] < NWrites
         /\ pc' = [pc EXCEPT ![s.w] = "enter"] /\ sz' = [sz EXCEPT ![s.w] = s.n]
         /\ UNCHANGED <<once, wire, failed, buf, hdr, cnt, rs>>
    [] s.k = "release" ->     \* the underlying Write returns (n, n < len(buf) => error); a failed connection accepts nothing
         /\ pc[s.w] = "uw" /\ s.n <= Len(buf[s.w]) /\ (failed => s.n = 0)
         /\ wire' = wire \o SubSeq(buf[s.w], 1, s.n)
         /\ failed' = (failed \/ s.n < Len(buf[s.w]))
         /\ once' = IF hdr[s.w] THEN "done" ELSE once
         /\ rs' = [rs EXCEPT ![s.w] = Append(@, <<IF hdr[s.w] THEN Max(s.n - HLen, 0) ELSE s.n,
                                                  failed \/ s.n < Len(buf[s.w])>>)]
         /\ cnt' = [cnt EXCEPT ![s.w] = @ + 1]
         /\ pc' = [pc EXCEPT ![s.w] = "idle"]
         /\ hdr' = [hdr EXCEPT ![s.w] = FALSE] /\ buf' = [buf EXCEPT ![s.w] = <<>>]
         /\ UNCHANGED sz

WClass(w) == CASE pc[w] = "idle" -> "idle" [] pc[w] = "uw" -> "parked" [] OTHER -> "blocked"
Obs == [wire |-> wire, ws |-> [w \in Writers |-> <<WClass(w), rs[w]>>]]

Stim == /\ nstim < lim
        /\ \E s \in StimSet : Do(s) /\ hist' = IF Hist THEN Append(hist, [obs |-> Obs, stim |-> s]) ELSE hist
        /\ nstim' = nstim + 1 /\ UNCHANGED lim

Next == \/ Spont
        \/ ((Gen => Quiescent) /\ Stim)

Spec == Init /\ [][Next]_vars

(* -------------------------------- properties ----------------------------- *)

IsH(b) == b.w = "H"

\* the wire starts with the header; no payload byte precedes or interrupts it, and it appears once
HeaderFirstOnce ==
  \A k \in 1..Len(wire) : IF k <= HLen THEN wire[k] = HByte(k) ELSE ~IsH(wire[k])

\* at most one Write ever takes the header path
OneHeaderWriter == Cardinality({w \in Writers : hdr[w]}) <= 1
                   /\ (once \in Writers => hdr[once] /\ pc[once] = "uw")

\* Write reports exactly the number of its own payload bytes that reached the wire, never header bytes
ReportsPayloadOnly ==
  \A w \in Writers : \A i \in 1..Len(rs[w]) :
      rs[w][i][1] = Cardinality({k \in 1..Len(wire) : wire[k].w = w /\ wire[k].i = i})

\* the bytes of one Write reach the wire in order, as a prefix of what was given, contiguously
PayloadIntact ==
  \A k \in 1..Len(wire) : ~IsH(wire[k]) =>
      \/ wire[k].j = 1
      \/ (k > 1 /\ wire[k-1].w = wire[k].w /\ wire[k-1].i = wire[k].i /\ wire[k-1].j = wire[k].j - 1)

\* nobody stays blocked in the once when nothing is parked in the underlying connection
NoStuckWriter == (Quiescent /\ \A w \in Writers : pc[w] # "uw") => \A w \in Writers : pc[w] = "idle"

Finished == \A w \in Writers : pc[w] = "idle" /\ cnt[w] = NWrites
Terminal == Quiescent /\ (nstim = lim \/ Finished)
EmitTerminal == (Hist /\ Terminal) => PrintT("@@" \o ToJson([steps |-> hist, final |-> Obs]))

=============================================================================
