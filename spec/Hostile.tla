------------------------------- MODULE Hostile -------------------------------
(***************************************************************************)
(* A nondeterministic raw peer for C13: it may put ANY sequence of frames   *)
(* of a small hostile alphabet on the wire of a real endpoint (client or    *)
(* server): invokes without messages, messages for streams that do not      *)
(* exist, id regressions, kind changes inside a packet, unknown kinds with  *)
(* and without the control bit, metadata garbage, short error payloads,     *)
(* unfinished packets followed by end of stream.  TLC enumerates every      *)
(* sequence up to MaxLen (and samples longer ones in simulation); the       *)
(* harness writes the bytes to the endpoint and demands: no panic, and the  *)
(* endpoint is afterwards either still serving or closed, and Close returns.*)
(* The only "model" here is the peer's freedom; the oracle is totality.     *)
(***************************************************************************)
EXTENDS Integers, Sequences, TLC, Json

CONSTANTS MaxLen, Kinds, Sids, Mids, Payloads

VARIABLES sent, eof
vars == <<sent, eof>>

Frames == [kind : Kinds, ctl : BOOLEAN, done : BOOLEAN, sid : Sids, mid : Mids, pay : Payloads]

Init == sent = <<>> /\ eof = FALSE
Emit(f) == ~eof /\ Len(sent) < MaxLen /\ sent' = Append(sent, f) /\ UNCHANGED eof
End == ~eof /\ eof' = TRUE /\ UNCHANGED sent
Next == (\E f \in Frames : Emit(f)) \/ End
Spec == Init /\ [][Next]_vars

Out == eof => PrintT("@@" \o ToJson([frames |-> sent]))
=============================================================================
