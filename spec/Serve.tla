------------------------------- MODULE Serve -------------------------------
(***************************************************************************)
(* drpcserver.Server.Serve with drpcctx.Tracker: the accept loop, the       *)
(* goroutine that closes the listener when the context ends, one ServeOne  *)
(* goroutine per accepted connection, the sleep after a temporary Accept   *)
(* error, and the deferred tracker.Cancel / tracker.Wait.                  *)
(*                                                                         *)
(* Grain: one step per blocking point of each goroutine (Accept, the sleep *)
(* select, WaitGroup.Wait, <-ctx.Done(), ServeOne as a whole with the      *)
(* handler's user code as a park of its own).  ServeOne itself is the      *)
(* subject of System.tla; here only its interface matters: it returns when *)
(* its context ends or its transport ends, after the handler has returned, *)
(* and it closes its transport exactly once.                               *)
(*                                                                         *)
(* Stimuli (environment, applied at quiescence when Gen):                  *)
(*   Offer(x)      the listener has a connection / a temporary error /     *)
(*                 a permanent error for the next Accept                   *)
(*   CancelCtx     the context given to Serve is cancelled                 *)
(*   CloseLis      somebody else closes the listener                       *)
(*   StartRPC(c)   a client of connection c starts an RPC whose handler    *)
(*                 stays in user code until ReleaseH(c)                    *)
(*   ReleaseH(c)   that handler returns                                    *)
(*   EndConn(c)    the peer of connection c closes its side                *)
(*   TimerFire     the temporary-error sleep elapses                       *)
(***************************************************************************)
EXTENDS Naturals, Sequences, FiniteSets, TLC, Json

CONSTANTS MaxConn,      \* connections offered per behaviour
          MaxStims,     \* stimuli per behaviour
          Gen           \* TRUE: stimuli only at quiescence, behaviours are printed

Conns == 1..MaxConn

VARIABLES ctx,      \* "live" | "canceled": the context given to Serve
          tctx,     \* the tracker's context (child of ctx, also cancelled by tracker.Cancel)
          lq,       \* what the listener will return from Accept, in order
          lisClosed,\* number of Close calls on the listener
          acc,      \* Serve's own goroutine: "accept" | "sleep" | "dcancel" | "dwait" | "ret"
          res,      \* Serve's result: "none" | "nil" | "err"
          mon,      \* the goroutine that closes the listener: "wait" | "close" | "done"
          conn,     \* per accepted connection: [st, closed, busy, ended]
          nconn,    \* connections accepted so far
          timer,    \* "off" | "armed" | "fired"
          nst, hist \* stimulus count and history (generation only)

vars == <<ctx, tctx, lq, lisClosed, acc, res, mon, conn, nconn, timer, nst, hist>>

NoConn == [st |-> "none", closed |-> 0, busy |-> FALSE, ended |-> FALSE]

Init == /\ ctx = "live" /\ tctx = "live" /\ lq = <<>> /\ lisClosed = 0
        /\ acc = "accept" /\ res = "none" /\ mon = "wait"
        /\ conn = [c \in Conns |-> NoConn] /\ nconn = 0 /\ timer = "off"
        /\ nst = 0 /\ hist = <<>>

(* ------------------------------ Serve's goroutine --------------------------- *)
Return(r) == acc' = "dcancel" /\ res' = r

AccStep ==
  /\ CASE acc = "accept" /\ lq # <<>> ->
            LET x == Head(lq) IN
            /\ lq' = Tail(lq)
            /\ CASE x = "conn" ->          \* tracker.Run(ServeOne)
                      /\ nconn' = nconn + 1
                      /\ conn' = [conn EXCEPT ![nconn + 1] = [NoConn EXCEPT !.st = "serving"]]
                      /\ UNCHANGED <<acc, res, timer>>
                 [] x = "temp" ->          \* ctx.Err() is checked first, then isTemporary
                      /\ IF ctx # "live" THEN Return("nil") /\ UNCHANGED timer
                         ELSE acc' = "sleep" /\ timer' = "armed" /\ UNCHANGED res
                      /\ UNCHANGED <<conn, nconn>>
                 [] x = "perm" ->
                      /\ Return(IF ctx # "live" THEN "nil" ELSE "err")
                      /\ UNCHANGED <<conn, nconn, timer>>
            /\ UNCHANGED <<tctx, mon, lisClosed>>
       [] acc = "accept" /\ lq = <<>> /\ lisClosed > 0 ->      \* Accept fails: the listener is closed
            /\ Return(IF ctx # "live" THEN "nil" ELSE "err")
            /\ UNCHANGED <<tctx, mon, lisClosed, lq, conn, nconn, timer>>
       [] acc = "sleep" /\ (timer = "fired" \/ ctx # "live") ->
            \* select { <-t.C: continue ; <-ctx.Done(): return nil }: both ready, either may be taken
            /\ \/ timer = "fired" /\ acc' = "accept" /\ timer' = "off" /\ UNCHANGED res
               \/ ctx # "live" /\ Return("nil") /\ timer' = "off"
            /\ UNCHANGED <<tctx, mon, lisClosed, lq, conn, nconn>>
       [] acc = "dcancel" ->        \* deferred tracker.Cancel()
            /\ acc' = "dwait" /\ tctx' = "canceled"
            /\ UNCHANGED <<mon, lisClosed, lq, conn, nconn, timer, res>>
       [] acc = "dwait" ->          \* deferred tracker.Wait(): every tracked goroutine has returned
            /\ mon = "done" /\ \A c \in Conns : conn[c].st # "serving"
            /\ acc' = "ret"
            /\ UNCHANGED <<tctx, mon, lisClosed, lq, conn, nconn, timer, res>>
       [] OTHER -> FALSE
  /\ UNCHANGED <<ctx, nst, hist>>

(* ------------------- the goroutine that closes the listener ----------------- *)
MonStep ==
  /\ CASE mon = "wait" /\ tctx # "live" -> mon' = "close" /\ UNCHANGED lisClosed
       [] mon = "close" -> mon' = "done" /\ lisClosed' = lisClosed + 1
       [] OTHER -> FALSE
  /\ UNCHANGED <<ctx, tctx, lq, acc, res, conn, nconn, timer, nst, hist>>

(* ------------------------------ ServeOne(c) --------------------------------- *)
\* the manager closes the transport as soon as its context or its transport ends (even while the
\* handler is still in user code); ServeOne returns once the handler has returned as well
ConnStep(c) ==
  /\ conn[c].st = "serving" /\ (tctx # "live" \/ conn[c].ended)
  /\ \/ /\ conn[c].closed = 0
        /\ conn' = [conn EXCEPT ![c].closed = 1]
     \/ /\ conn[c].closed = 1 /\ ~conn[c].busy
        /\ conn' = [conn EXCEPT ![c].st = "done"]
  /\ UNCHANGED <<ctx, tctx, lq, lisClosed, acc, res, mon, nconn, timer, nst, hist>>

Internal == AccStep \/ MonStep \/ \E c \in Conns : ConnStep(c)
Quiescent == ~ENABLED Internal

(* ------------------------------- observation -------------------------------- *)
Obs == [acc |-> IF acc \in {"dcancel"} THEN "run" ELSE acc,
        res |-> IF acc = "ret" THEN res ELSE "none",       \* the result is visible only once Serve has returned
        lis |-> lisClosed,
        mon |-> (mon = "done"),
        conns |-> [c \in Conns |-> [st |-> conn[c].st, closed |-> conn[c].closed]]]

(* --------------------------------- stimuli ---------------------------------- *)
Bound == nst < MaxStims
Mark(e) == nst' = nst + 1 /\ hist' = IF Gen THEN Append(hist, [s |-> e, pre |-> Obs]) ELSE hist     \* pre: the observation demanded before the stimulus

Offered == Cardinality({i \in 1..Len(lq) : lq[i] = "conn"}) + nconn

Offer(x) == /\ Bound /\ acc \in {"accept", "sleep"} /\ Len(lq) < 2
            /\ (x = "conn" => Offered < MaxConn)
            /\ lq' = Append(lq, x) /\ Mark([k |-> "offer", x |-> x])
            /\ UNCHANGED <<ctx, tctx, lisClosed, acc, res, mon, conn, nconn, timer>>
CancelCtx == /\ Bound /\ ctx = "live" /\ ctx' = "canceled" /\ tctx' = "canceled" /\ Mark([k |-> "cancel"])
             /\ UNCHANGED <<lq, lisClosed, acc, res, mon, conn, nconn, timer>>
CloseLis == /\ Bound /\ lisClosed = 0 /\ lisClosed' = 1 /\ Mark([k |-> "closelis"])
            /\ UNCHANGED <<ctx, tctx, lq, acc, res, mon, conn, nconn, timer>>
StartRPC(c) == /\ Bound /\ conn[c].st = "serving" /\ ~conn[c].busy /\ conn[c].closed = 0 /\ ~conn[c].ended /\ tctx = "live"
               /\ conn' = [conn EXCEPT ![c].busy = TRUE] /\ Mark([k |-> "rpc", c |-> c])
               /\ UNCHANGED <<ctx, tctx, lq, lisClosed, acc, res, mon, nconn, timer>>
ReleaseH(c) == /\ Bound /\ conn[c].busy
               /\ conn' = [conn EXCEPT ![c].busy = FALSE] /\ Mark([k |-> "release", c |-> c])
               /\ UNCHANGED <<ctx, tctx, lq, lisClosed, acc, res, mon, nconn, timer>>
EndConn(c) == /\ Bound /\ conn[c].st = "serving" /\ ~conn[c].ended
              /\ conn' = [conn EXCEPT ![c].ended = TRUE] /\ Mark([k |-> "end", c |-> c])
              /\ UNCHANGED <<ctx, tctx, lq, lisClosed, acc, res, mon, nconn, timer>>
TimerFire == /\ Bound /\ timer = "armed" /\ timer' = "fired" /\ Mark([k |-> "timer"])
             /\ UNCHANGED <<ctx, tctx, lq, lisClosed, acc, res, mon, conn, nconn>>

Stimulus == \/ \E x \in {"conn", "temp", "perm"} : Offer(x)
            \/ CancelCtx \/ CloseLis \/ TimerFire
            \/ \E c \in Conns : StartRPC(c) \/ ReleaseH(c) \/ EndConn(c)

\* the stimulus history is output only: exhaustive runs identify states without it
View == <<ctx, tctx, lq, lisClosed, acc, res, mon, conn, nconn, timer, nst>>

Next == IF Gen THEN Internal \/ (Quiescent /\ Stimulus) ELSE Internal \/ Stimulus
Spec == Init /\ [][Next]_vars

(* -------------------------------- properties -------------------------------- *)
TypeOK == /\ acc \in {"accept", "sleep", "dcancel", "dwait", "ret"} /\ res \in {"none", "nil", "err"}
          /\ mon \in {"wait", "close", "done"} /\ timer \in {"off", "armed", "fired"}

\* C12: when Serve has returned nothing it started is left: every ServeOne has returned, the listener-closing
\* goroutine is gone, the listener is closed, and every accepted transport was closed exactly once
ReturnedClean == acc = "ret" =>
      /\ mon = "done" /\ lisClosed >= 1 /\ res # "none"
      /\ \A c \in Conns : conn[c].st # "serving" /\ (conn[c].st = "done" => conn[c].closed = 1)
\* a transport is closed at most once, and only after its ServeOne had a reason to end
CloseOnce == \A c \in Conns : conn[c].closed <= 1 /\ (conn[c].closed = 1 => (tctx # "live" \/ conn[c].ended))
\* the listener is closed by Serve at most once (CloseLis is the environment's own call)
LisCloseBounded == lisClosed <= 2
\* the result tells why the loop ended: nil exactly when the context had been cancelled by then
ResultMeaning == (res = "nil" => ctx = "canceled")
\* no progress is owed while user code holds a handler; otherwise a cancelled Serve is returning
CancelledReturns == (Quiescent /\ ctx = "canceled" /\ \A c \in Conns : ~conn[c].busy) => acc = "ret"
\* a live Serve with a live listener keeps accepting
KeepsAccepting == (Quiescent /\ ctx = "live" /\ lisClosed = 0 /\ res = "none") => acc \in {"accept", "sleep"}

\* the same as temporal properties under weak fairness of the goroutines' steps (no fairness for the environment):
\* a cancelled Serve eventually returns unless user code keeps a handler busy; an accepted connection whose peer went
\* away is eventually torn down unless its handler stays busy
LiveSpec == Init /\ [][Next]_vars /\ WF_vars(Internal)
CancelLeadsToReturn == [](ctx = "canceled" => <>(acc = "ret" \/ \E c \in Conns : conn[c].busy))
EndLeadsToDone == \A c \in Conns : [](conn[c].ended => <>(conn[c].st = "done" \/ conn[c].busy))

Inv == TypeOK /\ ReturnedClean /\ CloseOnce /\ LisCloseBounded /\ ResultMeaning /\ CancelledReturns /\ KeepsAccepting

(* ------------------------- behaviours for the replay ------------------------ *)
\* one record per leaf: the stimuli, the observation demanded before each of them (all at quiescence) and the final one
Emit == (Gen /\ Quiescent /\ nst > 0 /\ (nst = MaxStims \/ ~ENABLED Stimulus)) => PrintT("@@" \o ToJson([steps |-> hist, obs |-> Obs]))
=============================================================================
