----------------------------- MODULE MetaCodec -----------------------------
(***************************************************************************)
(* Reference description of the drpc call-metadata byte encoding           *)
(* (drpcmetadata/serialize.go, metadata.go) - properties C11, C13.         *)
(*                                                                         *)
(* Where the description comes from.                                       *)
(*  (a) The protobuf wire format (protobuf.dev "Encoding"): a message is a *)
(*      sequence of fields  tag payload,  tag = varint(field<<3 | wt);     *)
(*      wt 2 (LEN) = varint length + that many bytes, wt 0 = varint,       *)
(*      wt 1 = 8 bytes, wt 5 = 4 bytes.  A  map<string,string> m = 1  is   *)
(*      a repeated LEN field 1 whose payload is an entry message           *)
(*      { string key = 1; string value = 2 }.                              *)
(*  (b) What released peers emit: storj.io/drpc v0.0.17 drpcmetadata       *)
(*      Encode = proto.Marshal(&invoke.Metadata{Data: m}) with the gogo    *)
(*      generated message  `message Metadata { map<string,string> data=1 }`*)
(*      (drpcmetadata/invoke/metadata.proto).  The Go marshalers write,    *)
(*      for every map entry in unspecified order,                          *)
(*           0A elen  0A klen key  12 vlen value                           *)
(*      with minimal varints, key and value both always present.           *)
(*  (c) What the pinned tree accepts (serialize.go readEntry/readKeyValue):*)
(*      exactly that shape and nothing else: entry tag 0A, key field first *)
(*      with tag 0A, value field second with tag 12, no unknown fields, no *)
(*      missing or repeated fields, nothing after the value inside the     *)
(*      entry, every length within its enclosing slice.  Varint lengths    *)
(*      are read with drpcwire.ReadVarint, so NON-minimal encodings of a   *)
(*      length (81 00 = 1, ten-byte forms) are accepted, an 11th varint    *)
(*      byte is an error.  A later entry with the same key replaces the    *)
(*      earlier one (Go map assignment).  Empty input = no metadata.       *)
(*                                                                         *)
(* Strict is the decoder of (c) as a byte-at-a-time state machine (Feed);  *)
(* it is the demanded answer for drpcmetadata.Decode.  PMsg is the lenient *)
(* reading (a) of the same bytes (unknown fields skipped, fields in any    *)
(* order, last one wins, absent = empty) - what a v0.0.17 peer would make  *)
(* of them.  TLC checks StrictRefinesProto: whatever the strict grammar    *)
(* accepts, protobuf reads as the same map.                                *)
(*                                                                         *)
(* Modes.                                                                  *)
(*  "dec"    all byte strings over Bytes up to MaxLen that are extensions  *)
(*           of a not-yet-malformed prefix (a malformed prefix stays       *)
(*           malformed: ErrSticky), one record each.                       *)
(*  "struct" up to MaxEntries entries, each built from Keys x Vals x       *)
(*           Defects (wrong tags, lengths off by one, non-minimal / 10- /  *)
(*           11-byte / huge varints, swapped, missing, repeated, unknown   *)
(*           fields, trailing bytes), optionally cut off 1..3 bytes early. *)
(*  "enc"    maps over KeyClasses -> ValLens with at most MaxEntries keys  *)
(*           and the maps of ManySizes small entries: the spec gives the   *)
(*           exact byte layout of every entry.  Long strings are carried   *)
(*           as runs (a negative item -(16*n + id) stands for n payload    *)
(*           bytes of string id); the harness concretises them.            *)
(*                                                                         *)
(* 64-bit lengths: digit sequences as in Codec.tla (value mod 2^64, the    *)
(* 10th group contributes one bit); numeric value only below 2^21.         *)
(***************************************************************************)
EXTENDS Integers, Sequences, FiniteSets, TLC, Json

CONSTANTS
    Mode,        \* "dec" | "struct" | "enc"
    MaxLen,      \* dec: bound on the input length
    Bytes,       \* dec: alphabet
    Keys, Vals,  \* struct: key and value byte strings
    Defects,     \* struct: defect names (see Entry)
    MaxEntries,  \* struct: entries per input; enc: keys per map
    KeyClasses,  \* enc: set of [id |-> 1..7, len |-> n]  (distinct ids = distinct keys)
    ValLens,     \* enc: value lengths
    ManySizes    \* enc: sizes of maps with many small concrete entries

VARIABLES input, st, stop, nent, want

vars == <<input, st, stop, nent, want>>

Huge == 1000000000

(* ---------------------------------------------------------------------- *)
(* varints (same definition as Codec.tla)                                  *)
(* ---------------------------------------------------------------------- *)

RECURSIVE TrimZeros(_)
TrimZeros(d) == IF Len(d) > 1 /\ d[Len(d)] = 0 THEN TrimZeros(SubSeq(d, 1, Len(d) - 1)) ELSE d
Norm(d) == TrimZeros(IF Len(d) = 10 THEN [d EXCEPT ![10] = d[10] % 2] ELSE d)
Small(d) == LET n == Norm(d) IN
            IF Len(n) > 3 THEN Huge
            ELSE n[1] + (IF Len(n) >= 2 THEN 128 * n[2] ELSE 0) + (IF Len(n) >= 3 THEN 16384 * n[3] ELSE 0)
LenDigits(n) == IF n < 128 THEN <<n>> ELSE IF n < 16384 THEN <<n % 128, n \div 128>>
                ELSE <<n % 128, (n \div 128) % 128, n \div 16384>>
EncVarint(d) == [i \in 1..Len(d) |-> IF i < Len(d) THEN d[i] + 128 ELSE d[i]]
VS(n) == EncVarint(LenDigits(n))          \* minimal varint of a number < 2^21
VSize(n) == Len(LenDigits(n))

(* ---------------------------------------------------------------------- *)
(* items: a byte 0..255, or a run -(16*n + id) of n >= 1 payload bytes     *)
(* ---------------------------------------------------------------------- *)

Run(id, n) == -(16 * n + id)
IsRun(x) == x < 0
ItemLen(x) == IF x < 0 THEN (-x) \div 16 ELSE 1
Str(id, n) == IF n = 0 THEN <<>> ELSE <<Run(id, n)>>
RECURSIVE SeqLen(_)
SeqLen(s) == IF s = <<>> THEN 0 ELSE ItemLen(Head(s)) + SeqLen(Tail(s))

(* ---------------------------------------------------------------------- *)
(* the map: key/value pairs in order of first appearance, last value wins  *)
(* ---------------------------------------------------------------------- *)

Put(m, k, v) == IF \E i \in 1..Len(m) : m[i][1] = k
                  THEN [i \in 1..Len(m) |-> IF m[i][1] = k THEN <<k, v>> ELSE m[i]]
                  ELSE Append(m, <<k, v>>)

(* ---------------------------------------------------------------------- *)
(* Strict: the decoder of the pinned tree, one item at a time              *)
(*   etag  at an entry boundary (the only place the input may end)         *)
(*   elen  reading the entry length                                        *)
(*   ktag klen key vtag vlen val   inside an entry; erem = bytes of the    *)
(*         entry not yet consumed (>= 1 in all these phases)               *)
(*   err   malformed (sticky)                                              *)
(* ---------------------------------------------------------------------- *)

InitSt == [ph |-> "etag", dig |-> <<>>, erem |-> 0, need |-> 0,
           key |-> <<>>, val |-> <<>>, m |-> <<>>]

Err(s) == [InitSt EXCEPT !.ph = "err"]

\* continue inside the entry with r bytes left; every phase entered this way needs one more byte
Go(s, r, ph) == IF r = 0 THEN Err(s) ELSE [s EXCEPT !.ph = ph, !.erem = r, !.dig = <<>>, !.need = 0]

Done(s) == [s EXCEPT !.ph = "etag", !.erem = 0, !.dig = <<>>, !.need = 0,
                     !.key = <<>>, !.val = <<>>, !.m = Put(s.m, s.key, s.val)]

Feed(s, x) ==
    LET n == ItemLen(x)
        r == s.erem - n
    IN
    IF s.ph = "err" THEN s
    ELSE IF IsRun(x) /\ s.ph \notin {"key", "val"} THEN Err(s)   \* runs are payload only (enc mode)
    ELSE
    CASE s.ph = "etag" -> IF x = 10 THEN [s EXCEPT !.ph = "elen", !.dig = <<>>] ELSE Err(s)
      [] s.ph = "elen" ->
           LET d == Append(s.dig, x % 128) IN
           IF x >= 128 THEN (IF Len(d) = 10 THEN Err(s) ELSE [s EXCEPT !.dig = d])
           ELSE Go(s, Small(d), "ktag")                       \* an empty entry has no key field
      [] s.ph = "ktag" -> IF x = 10 THEN Go(s, r, "klen") ELSE Err(s)
      [] s.ph = "klen" ->
           LET d == Append(s.dig, x % 128) IN
           IF x >= 128 THEN (IF Len(d) = 10 \/ r = 0 THEN Err(s) ELSE [s EXCEPT !.dig = d, !.erem = r])
           ELSE LET k == Small(d) IN
                IF k > r THEN Err(s)                          \* key longer than the entry
                ELSE IF k = 0 THEN Go([s EXCEPT !.key = <<>>], r, "vtag")
                ELSE [s EXCEPT !.ph = "key", !.dig = <<>>, !.erem = r, !.need = k, !.key = <<>>]
      [] s.ph = "key"  ->
           IF n > s.need THEN Err(s)
           ELSE LET s2 == [s EXCEPT !.key = Append(s.key, x)] IN
                IF n = s.need THEN Go(s2, r, "vtag") ELSE [s2 EXCEPT !.need = s.need - n, !.erem = r]
      [] s.ph = "vtag" -> IF x = 18 THEN Go(s, r, "vlen") ELSE Err(s)
      [] s.ph = "vlen" ->
           LET d == Append(s.dig, x % 128) IN
           IF x >= 128 THEN (IF Len(d) = 10 \/ r = 0 THEN Err(s) ELSE [s EXCEPT !.dig = d, !.erem = r])
           ELSE LET v == Small(d) IN
                IF v # r THEN Err(s)                          \* value must end exactly where the entry ends
                ELSE IF v = 0 THEN Done([s EXCEPT !.val = <<>>])
                ELSE [s EXCEPT !.ph = "val", !.dig = <<>>, !.erem = r, !.need = v, !.val = <<>>]
      [] s.ph = "val"  ->
           IF n > s.need THEN Err(s)
           ELSE LET s2 == [s EXCEPT !.val = Append(s.val, x)] IN
                IF n = s.need THEN Done(s2) ELSE [s2 EXCEPT !.need = s.need - n, !.erem = r]

RECURSIVE FeedAll(_, _)
FeedAll(s, xs) == IF xs = <<>> THEN s ELSE FeedAll(Feed(s, Head(xs)), Tail(xs))

\* the answer demanded of drpcmetadata.Decode for the whole input
Result(s) == IF s.ph = "etag" THEN [res |-> "ok", m |-> s.m]
             ELSE [res |-> "err", m |-> <<>>, why |-> IF s.ph = "err" THEN "malformed" ELSE "truncated in " \o s.ph]

(* ---------------------------------------------------------------------- *)
(* PMsg: the lenient protobuf reading of the same bytes (no runs)          *)
(* ---------------------------------------------------------------------- *)

PFail == [ok |-> FALSE, fs |-> <<>>]

RECURSIVE PVarAt(_, _, _)
PVarAt(bs, i, d) ==
    IF i > Len(bs) \/ Len(d) = 10 THEN [ok |-> FALSE, d |-> <<0>>, nx |-> i]
    ELSE IF bs[i] >= 128 THEN PVarAt(bs, i + 1, Append(d, bs[i] % 128))
    ELSE [ok |-> TRUE, d |-> Norm(Append(d, bs[i])), nx |-> i + 1]

\* class of the field number of a tag: 0 invalid, 1, 2, 3 = any other field
FieldNo(d) == IF Len(d) = 1 THEN (IF d[1] \div 8 > 3 THEN 3 ELSE d[1] \div 8)
              ELSE IF Len(d) > 5 \/ (Len(d) = 5 /\ d[5] >= 16) THEN 0 ELSE 3

\* end position + 1 of a non-LEN payload starting at i, or 0 if malformed
PSkip(bs, i, wt) ==
    CASE wt = 0 -> (LET v == PVarAt(bs, i, <<>>) IN IF v.ok THEN v.nx ELSE 0)
      [] wt = 1 -> IF i + 8 <= Len(bs) + 1 THEN i + 8 ELSE 0
      [] wt = 5 -> IF i + 4 <= Len(bs) + 1 THEN i + 4 ELSE 0
      [] OTHER  -> 0                                          \* groups (3, 4) and 6, 7 are not accepted

\* the LEN fields of a message (field class, payload), other well-formed fields skipped
RECURSIVE PFields(_, _, _)
PFields(bs, i, acc) ==
    IF i > Len(bs) THEN [ok |-> TRUE, fs |-> acc]
    ELSE LET t == PVarAt(bs, i, <<>>) IN
         IF ~t.ok \/ FieldNo(t.d) = 0 THEN PFail
         ELSE IF t.d[1] % 8 = 2
           THEN LET v == PVarAt(bs, t.nx, <<>>) IN
                IF ~v.ok \/ v.nx + Small(v.d) > Len(bs) + 1 THEN PFail
                ELSE PFields(bs, v.nx + Small(v.d),
                             Append(acc, [f |-> FieldNo(t.d), b |-> SubSeq(bs, v.nx, v.nx + Small(v.d) - 1)]))
           ELSE LET e == PSkip(bs, t.nx, t.d[1] % 8) IN
                IF e = 0 THEN PFail ELSE PFields(bs, e, acc)

RECURSIVE LastOf(_, _)
LastOf(fs, f) == IF fs = <<>> THEN <<>>
                 ELSE IF fs[Len(fs)].f = f THEN fs[Len(fs)].b ELSE LastOf(SubSeq(fs, 1, Len(fs) - 1), f)

RECURSIVE PFold(_, _)
PFold(fs, m) ==
    IF fs = <<>> THEN [ok |-> TRUE, m |-> m]
    ELSE IF Head(fs).f # 1 THEN PFold(Tail(fs), m)
    ELSE LET e == PFields(Head(fs).b, 1, <<>>) IN
         IF ~e.ok THEN [ok |-> FALSE, m |-> <<>>]
         ELSE PFold(Tail(fs), Put(m, LastOf(e.fs, 1), LastOf(e.fs, 2)))

PMsg(bs) == LET r == PFields(bs, 1, <<>>) IN IF r.ok THEN PFold(r.fs, <<>>) ELSE [ok |-> FALSE, m |-> <<>>]

(* ---------------------------------------------------------------------- *)
(* encoder: what Encode must emit for one entry                            *)
(* ---------------------------------------------------------------------- *)

EntrySize(kl, vl) == 1 + VSize(kl) + kl + 1 + VSize(vl) + vl
EntryEnc(k, v) == <<10>> \o VS(EntrySize(SeqLen(k), SeqLen(v)))
                  \o <<10>> \o VS(SeqLen(k)) \o k
                  \o <<18>> \o VS(SeqLen(v)) \o v

(* ---------------------------------------------------------------------- *)
(* struct mode: one entry with one defect                                  *)
(* ---------------------------------------------------------------------- *)

NonMin(n) == <<(n % 128) + 128, n \div 128>>                    \* two-byte form of n < 16384 (81 00 = 1)
Ten(n)    == <<(n % 128) + 128>> \o [i \in 1..8 |-> 128] \o <<0>>   \* ten-byte form of n < 128
Eleven(n) == <<(n % 128) + 128>> \o [i \in 1..9 |-> 128] \o <<0>>   \* one byte too many
Minus1(n) == IF n = 0 THEN 0 ELSE n - 1

Fld(tag, lenb, b) == <<tag>> \o lenb \o b

Entry(k, v, d) ==
    LET kt   == CASE d = "ktag12" -> 18 [] d = "ktag1A" -> 26 [] d = "ktag08" -> 8 [] OTHER -> 10
        vt   == CASE d = "vtag0A" -> 10 [] d = "vtag1A" -> 26 [] d = "vtag10" -> 16 [] OTHER -> 18
        kl   == CASE d = "klen+1" -> VS(Len(k) + 1) [] d = "klen-1" -> VS(Minus1(Len(k)))
                  [] d = "klenNM" -> NonMin(Len(k)) [] d = "klen10" -> Ten(Len(k)) [] d = "klen11" -> Eleven(Len(k))
                  [] d = "klenBig" -> <<127>> [] d = "klenCut" -> <<128>> [] OTHER -> VS(Len(k))
        vl   == CASE d = "vlen+1" -> VS(Len(v) + 1) [] d = "vlen-1" -> VS(Minus1(Len(v)))
                  [] d = "vlenNM" -> NonMin(Len(v)) [] d = "vlen10" -> Ten(Len(v)) [] d = "vlen11" -> Eleven(Len(v))
                  [] d = "vlenHuge" -> <<255, 255, 255, 255, 15>> [] OTHER -> VS(Len(v))
        kf   == Fld(kt, kl, k)
        vf   == Fld(vt, vl, v)
        body == CASE d = "swap"   -> vf \o kf
                  [] d = "nokey"  -> vf
                  [] d = "noval"  -> kf
                  [] d = "empty"  -> <<>>
                  [] d = "dupkey" -> kf \o Fld(10, VS(Len(k) + 1), k \o <<122>>) \o vf
                  [] d = "dupval" -> kf \o vf \o Fld(18, VS(Len(v) + 1), v \o <<122>>)
                  [] d = "unk"    -> kf \o vf \o Fld(26, <<1>>, <<0>>)
                  [] d = "unkmid" -> kf \o <<24, 1>> \o vf
                  [] d = "trail"  -> kf \o vf \o <<0>>
                  [] OTHER        -> kf \o vf
        el   == CASE d = "elen+1" -> VS(Len(body) + 1) [] d = "elen-1" -> VS(Minus1(Len(body)))
                  [] d = "elenNM" -> NonMin(Len(body)) [] d = "elen10" -> Ten(Len(body)) [] d = "elen11" -> Eleven(Len(body))
                  [] d = "elenHuge" -> <<255, 255, 255, 255, 255, 255, 255, 255, 255, 1>> [] OTHER -> VS(Len(body))
        et   == CASE d = "etag12" -> 18 [] d = "etag1A" -> 26 [] d = "etag08" -> 8 [] d = "etag0B" -> 11 [] OTHER -> 10
    IN  Fld(et, el, body)

(* ---------------------------------------------------------------------- *)
(* enc mode: the maps                                                      *)
(* ---------------------------------------------------------------------- *)

RECURSIVE ById(_)
ById(S) == IF S = {} THEN <<>>
           ELSE LET x == CHOOSE y \in S : \A z \in S : y.id <= z.id IN <<x>> \o ById(S \ {x})

\* an abstract map: key class -> value length; the value of key id is string 8 + id
AbsEntries(S, f) == LET q == ById(S) IN
    [i \in 1..Len(q) |-> [k |-> Str(q[i].id, q[i].len), v |-> Str(8 + q[i].id, f[q[i]])]]
\* a concrete map of n small entries: key "k" i, value i bytes mod 3
ManyEntries(n) == [i \in 1..n |-> [k |-> <<107, i>>, v |-> [j \in 1..(i % 3) |-> (i + j) % 256]]]

WithEnc(es) == [i \in 1..Len(es) |-> [k |-> es[i].k, v |-> es[i].v, enc |-> EntryEnc(es[i].k, es[i].v)]]
RECURSIVE Concat(_)
Concat(q) == IF q = <<>> THEN <<>> ELSE Head(q).enc \o Concat(Tail(q))

(* ---------------------------------------------------------------------- *)
(* behaviours                                                              *)
(* ---------------------------------------------------------------------- *)

Init == \/ /\ Mode \in {"dec", "struct"}
           /\ input = <<>> /\ st = InitSt /\ stop = FALSE /\ nent = 0 /\ want = <<>>
        \/ /\ Mode = "enc"
           /\ \/ \E S \in SUBSET KeyClasses :
                   /\ Cardinality(S) <= MaxEntries
                   /\ \E f \in [S -> ValLens] : want = WithEnc(AbsEntries(S, f))
              \/ \E n \in ManySizes : want = WithEnc(ManyEntries(n))
           /\ input = Concat(want)
           /\ st = FeedAll(InitSt, input)
           /\ stop = TRUE /\ nent = Len(want)

\* dec: any byte after a prefix that is not (yet) malformed
AddByte == /\ Mode = "dec" /\ Len(input) < MaxLen /\ st.ph # "err"
           /\ \E b \in Bytes : input' = Append(input, b) /\ st' = Feed(st, b)
           /\ UNCHANGED <<stop, nent, want>>

\* struct: another entry at an entry boundary
AddEntry == /\ Mode = "struct" /\ ~stop /\ nent < MaxEntries /\ st.ph = "etag"
            /\ \E k \in Keys, v \in Vals, d \in Defects :
                 LET c == Entry(k, v, d) IN input' = input \o c /\ st' = FeedAll(st, c)
            /\ nent' = nent + 1
            /\ UNCHANGED <<stop, want>>

\* struct: the input ends 1..3 bytes early
Cut == /\ Mode = "struct" /\ ~stop /\ Len(input) > 0
       /\ \E j \in 1..3 : /\ j <= Len(input)
                          /\ input' = SubSeq(input, 1, Len(input) - j)
                          /\ st' = FeedAll(InitSt, input')
       /\ stop' = TRUE
       /\ UNCHANGED <<nent, want>>

Next == AddByte \/ AddEntry \/ Cut

Spec == Init /\ [][Next]_vars

(* ---------------------------------------------------------------------- *)
(* properties of the description itself                                    *)
(* ---------------------------------------------------------------------- *)

TypeOK == /\ st.ph \in {"etag", "elen", "ktag", "klen", "key", "vtag", "vlen", "val", "err"}
          /\ Len(st.dig) <= 9 /\ st.erem >= 0 /\ st.need >= 0

\* the answer depends on the bytes only
Deterministic == st = FeedAll(InitSt, input)

\* the input may only end at an entry boundary; inside an entry at least one more byte is owed,
\* the key fits the entry and the value ends exactly with the entry
Budget == /\ st.ph \in {"etag", "elen", "err"} => st.erem = 0
          /\ st.ph \in {"ktag", "klen", "key", "vtag", "vlen", "val"} => st.erem >= 1
          /\ st.ph = "key" => st.need >= 1 /\ st.need <= st.erem
          /\ st.ph = "val" => st.need >= 1 /\ st.need = st.erem

\* a malformed prefix stays malformed, a decoded entry stays decoded
ErrSticky == [][Len(input') > Len(input) =>
                  /\ st.ph = "err" => st'.ph = "err"
                  /\ st'.ph # "err" => Len(st'.m) >= Len(st.m) /\ Len(st'.m) <= Len(st.m) + 1]_vars

\* no metadata needs fewer than six bytes per entry
MinEntry == st.ph = "etag" => SeqLen(input) >= 6 * Len(st.m)

\* whatever the strict grammar accepts, the protobuf reading accepts as the same map
StrictRefinesProto ==
    (Mode \in {"dec", "struct"} /\ st.ph = "etag") =>
        LET p == PMsg(input) IN p.ok /\ p.m = st.m

\* decoding what the encoder must emit gives the map back (keys are distinct, so order = entry order),
\* the entry length field covers exactly the two fields
RoundTrip == Mode = "enc" =>
    /\ st.ph = "etag"
    /\ Len(st.m) = Len(want)
    /\ \A i \in 1..Len(want) :
         /\ st.m[i] = <<want[i].k, want[i].v>>
         /\ SeqLen(want[i].enc) = 1 + VSize(EntrySize(SeqLen(want[i].k), SeqLen(want[i].v)))
                                  + EntrySize(SeqLen(want[i].k), SeqLen(want[i].v))

\* the protobuf reading of what the encoder must emit is the same map (concrete entries only)
EncIsProto == (Mode = "enc" /\ \A i \in 1..Len(input) : input[i] >= 0) =>
    LET p == PMsg(input) IN p.ok /\ p.m = st.m

\* one oracle record per state; p = would a protobuf (v0.0.17) peer accept these bytes
Emit == PrintT("@@" \o ToJson([mode |-> Mode, in |-> input, r |-> Result(st),
                               p |-> IF Mode = "enc" THEN "n/a" ELSE IF PMsg(input).ok THEN "ok" ELSE "err",
                               want |-> want]))

=============================================================================
