------------------------------- MODULE Signal -------------------------------
(***************************************************************************)
(* drpcsignal.Signal at the grain of single shared accesses.  Every label  *)
(* is the name of the drpcdebug.Point in front of the access it performs   *)
(* (build tag verif), so a behaviour of this module is a schedule the      *)
(* director can impose on the real type one step at a time.                *)
(*                                                                         *)
(*   status : 2 = error set, 1 = channel created  (atomic word)            *)
(*   mu     : the slow-path mutex                                          *)
(*   ch     : "nil" | "fresh" (allocated by Signal()) | "closed" (the      *)
(*            package-level already-closed channel)                        *)
(*   err    : the stored error                                             *)
(*                                                                         *)
(* Each thread runs one operation: Set(e), Get, Err, IsSet, Signal, or     *)
(* Wait followed by Get ("Wait").                                          *)
(***************************************************************************)
EXTENDS Integers, Sequences, FiniteSets, TLC, Json

CONSTANTS Threads,   \* set of thread ids (strings)
          OpSet,     \* operations a thread may be given
          Hist       \* TRUE: keep the schedule in a history variable and emit it at terminal states

VARIABLES status, mu, ch, chClosed, err, winner, closeCount, panicked,
          pc, op, loc, res, hist

vars == <<status, mu, ch, chClosed, err, winner, closeCount, panicked, pc, op, loc, res, hist>>
view == <<status, mu, ch, chClosed, err, winner, closeCount, panicked, pc, op, loc, res>>

Free == "free"
None == "none"
SetOps == {"SetA", "SetB", "SetC"}
ErrOf(o) == IF o = "SetA" THEN "A" ELSE IF o = "SetB" THEN "B" ELSE "nilerr"   \* SetC stores a nil error

FirstLabel(o) ==
    CASE o \in SetOps          -> "signal.set.load"
      [] o = "Get"             -> "signal.get.load"
      [] o = "Err"             -> "signal.err.load"
      [] o = "IsSet"           -> "signal.isset.load"
      [] o \in {"Signal", "Wait"} -> "signal.signal.load"

Init == /\ status = 0 /\ mu = Free /\ ch = "nil" /\ chClosed = FALSE /\ err = None
        /\ winner = None /\ closeCount = 0 /\ panicked = FALSE
        /\ op \in [Threads -> OpSet]
        /\ pc = [t \in Threads |-> FirstLabel(op[t])]
        /\ loc = [t \in Threads |-> [st |-> 0, ok |-> FALSE, c |-> "nil"]]
        /\ res = [t \in Threads |-> None]
        /\ hist = <<>>

Goto(t, l) == pc' = [pc EXCEPT ![t] = l]
Ret(t, r) == pc' = [pc EXCEPT ![t] = "ret"] /\ res' = [res EXCEPT ![t] = r]
Rec(t) == hist' = IF Hist THEN Append(hist, <<t, pc[t]>>) ELSE hist

\* the channel a Signal() call obtained: Signal returns it, Wait goes on to receive from it
GotChan(t, c) == IF op[t] = "Signal" THEN Ret(t, c) /\ UNCHANGED loc
                 ELSE Goto(t, "recv") /\ loc' = [loc EXCEPT ![t].c = c] /\ UNCHANGED res

IsClosedChan(c) == c = "closed" \/ (c = "fresh" /\ chClosed)

Step(t) ==
  /\ Rec(t) /\ UNCHANGED op
  /\ CASE pc[t] = "signal.set.load" ->
            /\ IF status >= 2 THEN Ret(t, FALSE) ELSE Goto(t, "signal.setslow.lock") /\ UNCHANGED res
            /\ UNCHANGED <<status, mu, ch, chClosed, err, winner, closeCount, panicked, loc>>
       [] pc[t] = "signal.setslow.lock" ->
            /\ mu = Free /\ mu' = t
            /\ loc' = [loc EXCEPT ![t].st = status, ![t].ok = (status < 2)]
            /\ Goto(t, IF status < 2 THEN "signal.setslow.err" ELSE "signal.setslow.unlock")
            /\ UNCHANGED <<status, ch, chClosed, err, winner, closeCount, panicked, res>>
       [] pc[t] = "signal.setslow.err" ->
            /\ err' = ErrOf(op[t]) /\ winner' = t
            /\ ch' = IF loc[t].st % 2 = 0 THEN "closed" ELSE ch
            /\ Goto(t, "signal.setslow.store")
            /\ UNCHANGED <<status, mu, chClosed, closeCount, panicked, loc, res>>
       [] pc[t] = "signal.setslow.store" ->
            /\ status' = 3 /\ Goto(t, "signal.setslow.close")
            /\ UNCHANGED <<mu, ch, chClosed, err, winner, closeCount, panicked, loc, res>>
       [] pc[t] = "signal.setslow.close" ->
            /\ IF loc[t].st % 2 = 1
                 THEN IF ch = "fresh" /\ ~chClosed
                        THEN chClosed' = TRUE /\ closeCount' = closeCount + 1 /\ UNCHANGED panicked
                        ELSE panicked' = TRUE /\ UNCHANGED <<chClosed, closeCount>>
                 ELSE UNCHANGED <<chClosed, closeCount, panicked>>
            /\ Goto(t, "signal.setslow.unlock")
            /\ UNCHANGED <<status, mu, ch, err, winner, loc, res>>
       [] pc[t] = "signal.setslow.unlock" ->
            /\ mu' = Free /\ Ret(t, loc[t].ok)
            /\ UNCHANGED <<status, ch, chClosed, err, winner, closeCount, panicked, loc>>
       [] pc[t] = "signal.signal.load" ->
            /\ IF status % 2 = 1 THEN GotChan(t, ch)
               ELSE Goto(t, "signal.signalslow.lock") /\ UNCHANGED <<loc, res>>
            /\ UNCHANGED <<status, mu, ch, chClosed, err, winner, closeCount, panicked>>
       [] pc[t] = "signal.signalslow.lock" ->
            /\ mu = Free /\ mu' = t
            /\ loc' = [loc EXCEPT ![t].st = status]
            /\ Goto(t, IF status % 2 = 0 THEN "signal.signalslow.make" ELSE "signal.signalslow.unlock")
            /\ UNCHANGED <<status, ch, chClosed, err, winner, closeCount, panicked, res>>
       [] pc[t] = "signal.signalslow.make" ->
            /\ ch' = "fresh" /\ Goto(t, "signal.signalslow.store")
            /\ UNCHANGED <<status, mu, chClosed, err, winner, closeCount, panicked, loc, res>>
       [] pc[t] = "signal.signalslow.store" ->
            /\ status' = loc[t].st + 1 /\ Goto(t, "signal.signalslow.unlock")
            /\ UNCHANGED <<mu, ch, chClosed, err, winner, closeCount, panicked, loc, res>>
       [] pc[t] = "signal.signalslow.unlock" ->
            /\ mu' = Free /\ Goto(t, "signal.signalslow.ret")
            /\ UNCHANGED <<status, ch, chClosed, err, winner, closeCount, panicked, loc, res>>
       [] pc[t] = "signal.signalslow.ret" ->
            /\ GotChan(t, ch)
            /\ UNCHANGED <<status, mu, ch, chClosed, err, winner, closeCount, panicked>>
       [] pc[t] = "recv" ->      \* natural block: the receive completes once the channel is closed
            /\ IsClosedChan(loc[t].c)
            /\ Goto(t, "signal.get.load")
            /\ UNCHANGED <<status, mu, ch, chClosed, err, winner, closeCount, panicked, loc, res>>
       [] pc[t] = "signal.get.load" ->
            /\ IF status >= 2 THEN Goto(t, "signal.get.err") /\ UNCHANGED res ELSE Ret(t, <<None, FALSE>>)
            /\ UNCHANGED <<status, mu, ch, chClosed, err, winner, closeCount, panicked, loc>>
       [] pc[t] = "signal.get.err" ->
            /\ Ret(t, <<err, TRUE>>)
            /\ UNCHANGED <<status, mu, ch, chClosed, err, winner, closeCount, panicked, loc>>
       [] pc[t] = "signal.err.load" ->
            /\ IF status >= 2 THEN Goto(t, "signal.err.err") /\ UNCHANGED res ELSE Ret(t, None)
            /\ UNCHANGED <<status, mu, ch, chClosed, err, winner, closeCount, panicked, loc>>
       [] pc[t] = "signal.err.err" ->
            /\ Ret(t, err)
            /\ UNCHANGED <<status, mu, ch, chClosed, err, winner, closeCount, panicked, loc>>
       [] pc[t] = "signal.isset.load" ->
            /\ Ret(t, status >= 2)
            /\ UNCHANGED <<status, mu, ch, chClosed, err, winner, closeCount, panicked, loc>>

Running(t) == pc[t] # "ret"
\* a waiter may legitimately stay blocked only if nobody ever sets the signal
LegitBlocked(t) == pc[t] = "recv" /\ \A u \in Threads : op[u] \notin SetOps
Terminal == \A t \in Threads : pc[t] = "ret" \/ LegitBlocked(t)

Next == (\E t \in Threads : Running(t) /\ Step(t)) \/ (Terminal /\ UNCHANGED vars)

Spec == Init /\ [][Next]_vars

(* ------------------------------- properties ----------------------------- *)

TypeOK == /\ status \in 0..3 /\ mu \in Threads \cup {Free} /\ ch \in {"nil", "fresh", "closed"}
          /\ closeCount \in 0..2

NoPanic == ~panicked

Winners == {t \in Threads : op[t] \in SetOps /\ pc[t] = "ret" /\ res[t] = TRUE}
OneWinner == /\ Cardinality(Winners) <= 1
             /\ (Winners # {} => winner \in Winners)
             /\ (Terminal /\ (\E t \in Threads : op[t] \in SetOps) => Cardinality(Winners) = 1)

\* every observer that reports "set" reports the winner's error
ObserversAgree ==
    \A t \in Threads : pc[t] = "ret" =>
        /\ (op[t] \in {"Get", "Wait"} /\ res[t][2] => winner # None /\ res[t][1] = ErrOf(op[winner]))
        /\ (op[t] = "Err" /\ res[t] # None => winner # None /\ res[t] = ErrOf(op[winner]))
        /\ (op[t] = "IsSet" /\ res[t] => winner # None)
        /\ (op[t] = "Wait" => res[t][2])          \* a woken waiter always sees the value

\* the channel is closed at most once and only after the value is visible
ClosedAfterVisible == /\ closeCount <= 1
                      /\ (chClosed => status >= 2 /\ err = ErrOf(op[winner]))
                      /\ (ch = "closed" /\ status % 2 = 1 => status >= 2)

\* Signal() never hands out an unassigned channel, and all callers get the same one
ChannelAssigned == /\ (status % 2 = 1 => ch # "nil")
                   /\ \A t \in Threads : (op[t] = "Signal" /\ pc[t] = "ret" => res[t] # "nil")
                   /\ \A t \in Threads : (pc[t] = "recv" => loc[t].c # "nil")
                   /\ \A t, u \in Threads : (op[t] = "Signal" /\ op[u] = "Signal" /\ pc[t] = "ret" /\ pc[u] = "ret") => res[t] = res[u]

\* in a terminal state every channel handed out is closed iff some Set ran
NotifyAll == Terminal =>
    \A t \in Threads : (op[t] = "Signal" /\ pc[t] = "ret") =>
        (IsClosedChan(res[t]) <=> \E u \in Threads : op[u] \in SetOps)

EmitTerminal == (Hist /\ Terminal) =>
    PrintT("@@" \o ToJson([ops |-> op, sched |-> hist, res |-> res,
                           pcs |-> pc, closed |-> (ch = "closed" \/ chClosed), status |-> status]))

=============================================================================
